(* C08, module level fixpoint, part 16: towards "the second parse cannot fail".  The boolean part of
   ParseTotal.valid_stream for an emitted stream: section order, the final count clause, and the reduction
   of the rest to per-section payload checks in the context reached. *)
From Coq Require Import List NArith ZArith Bool Arith Lia Btauto.
Import ListNotations.
From WV Require Import Gen.Ops Model.Common Model.IR Model.Arena Model.Traversal Model.EmitFn Model.Locals
                       Model.ParseFn Model.ParseSpec Model.ModuleM Model.ParseM Model.EmitM Gen.Attrs.
From WV Require Import Proofs.Arena Proofs.Order Proofs.IndexMaps Proofs.CustomsCfg Proofs.Escalation Proofs.Structure Proofs.Structure2
                       Proofs.Totality Proofs.Renumbering Proofs.ParseTotal Proofs.ModFix Proofs.ModFix4 Proofs.ModFix2 Proofs.ModFix12.
Local Open Scope nat_scope.

(* ====================================================================================== *)
(* A. valid_from_b = order  &&  per-section payload checks  &&  final count clause          *)
(* ====================================================================================== *)
Definition ctx_from (c : vctx) (w : list wsec) : vctx := fold_left cstep w c.
Definition ctx_after (w : list wsec) : vctx := ctx_from ctx0 w.

(* the check of one payload without the order check *)
Definition pay_b (c : vctx) (s : wsec) : bool :=
  match s with
  | S_Imports l => forallb (import_ok c) l
  | S_Funcs l => forallb (fun ty => ltb_N ty (c_nt c)) l
  | S_Globals l => globals_ok (c_nf c) (c_globs c) l
  | S_Exports l => forallb (export_ok c) l
  | S_Start f => ltb_N f (c_nf c)
  | S_Elems l => forallb (elem_ok c) l
  | S_Data l => forallb (data_ok c) l && match c_dc c with Some n => length l =? n | None => true end
  | _ => true
  end.
Lemma valid_sec_b_split c s : valid_sec_b c s = order_ok c s && pay_b c s.
Proof. reflexivity. Qed.

Fixpoint order_b (last : nat) (w : list wsec) : bool :=
  match w with
  | [] => true
  | s :: r => match rank s with Some k => (last <? k) && order_b k r | None => order_b last r end
  end.
Fixpoint pays_b (c : vctx) (w : list wsec) : bool :=
  match w with [] => true | s :: r => pay_b c s && pays_b (cstep c s) r end.

Theorem valid_from_b_split : forall w c,
  valid_from_b c w = order_b (c_last c) w && pays_b c w && (c_nbodies (ctx_from c w) =? c_nloc (ctx_from c w)).
Proof.
  induction w as [|s r IH]; intros c; cbn [valid_from_b order_b pays_b ctx_from fold_left]; [reflexivity|].
  unfold ctx_from in IH. rewrite IH, valid_sec_b_split, c_last_cstep. unfold order_ok.
  destruct (rank s) as [k|]; btauto.
Qed.

Lemma pays_b_all : forall w c,
  (forall pre s post, w = pre ++ s :: post -> pay_b (ctx_from c pre) s = true) -> pays_b c w = true.
Proof.
  induction w as [|s r IH]; intros c H; [reflexivity|]. cbn [pays_b]. apply andb_true_iff. split.
  - apply (H [] s r). reflexivity.
  - apply IH. intros pre s' post E. apply (H (s :: pre) s' post). rewrite E. reflexivity.
Qed.
Lemma pays_b_app : forall a b c, pays_b c (a ++ b) = pays_b c a && pays_b (ctx_from c a) b.
Proof.
  induction a as [|s r IH]; intros b c; [reflexivity|]. cbn [app pays_b ctx_from fold_left].
  unfold ctx_from in IH. rewrite IH, andb_assoc. reflexivity.
Qed.

(* ====================================================================================== *)
(* B. the order of an emitted stream                                                       *)
(* ====================================================================================== *)
Lemma rank_tag s k : sec_tag s = Some k -> rank s = Some (S k).
Proof. destruct s; cbn [sec_tag rank]; intros [= <-]; reflexivity. Qed.
Lemma rank_untagged s : sec_tag s = None -> rank s = None.
Proof. destruct s; cbn [sec_tag rank]; try discriminate; reflexivity. Qed.
Lemma order_b_mono : forall w l l', l <= l' -> order_b l' w = true -> order_b l w = true.
Proof.
  induction w as [|s r IH]; intros l l' Hl H; [reflexivity|]. cbn [order_b] in *. destruct (rank s) as [k|]; [|eapply IH; eauto].
  apply andb_true_iff in H. destruct H as [H1 H2]. apply Nat.ltb_lt in H1. apply andb_true_iff. split; [apply Nat.ltb_lt; lia|exact H2].
Qed.
Lemma order_b_piece k p r last : tagged k p -> length p <= 1 -> last <= k -> order_b (S k) r = true -> order_b last (p ++ r) = true.
Proof.
  intros T L Hl H. destruct p as [|s [|s' p]]; [cbn [app]; eapply order_b_mono; [|exact H]; lia| |cbn [length] in L; lia].
  inversion T as [|? ? Hs _]; subst. cbn [app order_b]. rewrite (rank_tag _ _ Hs). apply andb_true_iff. split; [apply Nat.ltb_lt; lia|exact H].
Qed.
Lemma order_b_untagged : forall r l, (forall s, In s r -> sec_tag s = None) -> order_b l r = true.
Proof.
  induction r as [|s r IH]; intros l H; [reflexivity|]. cbn [order_b]. rewrite (rank_untagged s) by (apply H; left; reflexivity).
  apply IH. intros; apply H; right; assumption.
Qed.

Theorem emitted_order_ok : forall m ilen e, emitM m ilen [] = Ok e -> order_b 0 (em_secs e) = true.
Proof.
  intros m ilen e He. emitM_parts2 He.
  pose proof (emit_types_tag _ _ _ _ Ety) as T0. pose proof (emit_imports_tag _ _ _ _ Eim) as T1.
  pose proof (emit_func_section_tag _ _ _ _ Efn) as T2. pose proof (emit_tables_tag m x3) as T3.
  pose proof (emit_memories_tag m x4) as T4.
  pose proof (emit_globals_tag _ _ _ _ Egl) as T5. pose proof (emit_exports_tag _ _ _ Eex) as T6.
  pose proof (emit_start_tag _ _ _ Est) as T7. pose proof (emit_elements_tag _ _ _ _ Eel) as T8.
  pose proof (emit_data_count_tag _ _ _ _ Edc) as T9. pose proof (emit_code_tag _ _ _ _ _ _ Eco) as T10.
  pose proof (emit_data_tag _ _ _ Eda) as T11.
  pose proof (emit_types_len _ _ _ _ Ety) as L0. pose proof (emit_imports_len _ _ _ _ Eim) as L1.
  pose proof (emit_func_section_len _ _ _ _ Efn) as L2. pose proof (emit_tables_len m x3) as L3.
  pose proof (emit_memories_len m x4) as L4.
  pose proof (emit_globals_len _ _ _ _ Egl) as L5. pose proof (emit_exports_len _ _ _ Eex) as L6.
  pose proof (emit_start_len _ _ _ Est) as L7. pose proof (emit_elements_len _ _ _ _ Eel) as L8.
  pose proof (emit_data_count_len _ _ _ _ Edc) as L9. pose proof (emit_code_len _ _ _ _ _ _ Eco) as L10.
  pose proof (emit_data_len _ _ _ Eda) as L11.
  rewrite Esecs.
  eapply order_b_piece; [exact T0|exact L0|lia|]. eapply order_b_piece; [exact T1|exact L1|lia|].
  eapply order_b_piece; [exact T2|exact L2|lia|]. eapply order_b_piece; [exact T3|exact L3|lia|].
  eapply order_b_piece; [exact T4|exact L4|lia|]. eapply order_b_piece; [exact T5|exact L5|lia|].
  eapply order_b_piece; [exact T6|exact L6|lia|]. eapply order_b_piece; [exact T7|exact L7|lia|].
  eapply order_b_piece; [exact T8|exact L8|lia|]. eapply order_b_piece; [exact T9|exact L9|lia|].
  eapply order_b_piece; [exact T10|exact L10|lia|]. eapply order_b_piece; [exact T11|exact L11|lia|].
  apply order_b_untagged. intros s Hs. destruct (Erest s Hs) as [H|[]]. exact H.
Qed.

(* ====================================================================================== *)
(* C. the context reached, in terms of payloads (any stream)                               *)
(* ====================================================================================== *)
Lemma cimp_fold_keep : forall l c, c_nt (fold_left cimp l c) = c_nt c /\ c_nloc (fold_left cimp l c) = c_nloc c /\
  c_nbodies (fold_left cimp l c) = c_nbodies c /\ c_dc (fold_left cimp l c) = c_dc c /\ c_ndata (fold_left cimp l c) = c_ndata c.
Proof.
  induction l as [|i r IH]; intros c; [repeat split|]. cbn [fold_left]. destruct (IH (cimp c i)) as (A & B & C & D & E).
  rewrite A, B, C, D, E. unfold cimp. destruct (wi_kind i); repeat split.
Qed.
Lemma ctx_nt : forall w c, c_nt (ctx_from c w) = c_nt c + length (flat_map types_of w).
Proof.
  induction w as [|s r IH]; intros c; [cbn; lia|]. cbn [ctx_from fold_left flat_map]. unfold ctx_from in IH. rewrite IH, app_length.
  unfold cstep, set_last. cbn [c_nt]. destruct s; cbn [cstep0 types_of c_nt length]; try lia.
  destruct (cimp_fold_keep is_ c) as (A & _). rewrite A. lia.
Qed.
Lemma ctx_nloc : forall w c, c_nloc (ctx_from c w) = c_nloc c + length (flat_map funcs_of w).
Proof.
  induction w as [|s r IH]; intros c; [cbn; lia|]. cbn [ctx_from fold_left flat_map]. unfold ctx_from in IH. rewrite IH, app_length.
  unfold cstep, set_last. cbn [c_nloc]. destruct s; cbn [cstep0 funcs_of c_nloc length]; try lia.
  destruct (cimp_fold_keep is_ c) as (_ & A & _). rewrite A. lia.
Qed.
Lemma ctx_nbodies : forall w c, c_nbodies (ctx_from c w) = c_nbodies c + length (flat_map code_of w).
Proof.
  induction w as [|s r IH]; intros c; [cbn; lia|]. cbn [ctx_from fold_left flat_map]. unfold ctx_from in IH. rewrite IH, app_length.
  unfold cstep, set_last. cbn [c_nbodies]. destruct s; cbn [cstep0 code_of c_nbodies length]; try lia.
  destruct (cimp_fold_keep is_ c) as (_ & _ & A & _). rewrite A. lia.
Qed.

(* ====================================================================================== *)
(* D. the final clause: as many code entries as declared functions                         *)
(* ====================================================================================== *)
Lemma emitted_funcs_count m ilen e : emitM m ilen [] = Ok e ->
  exists fs, used_local_functions m = Ok fs /\ length (flat_map funcs_of (em_secs e)) = length fs.
Proof.
  intros He. emitM_parts2 He.
  pose proof (emit_types_tag _ _ _ _ Ety) as T0. pose proof (emit_imports_tag _ _ _ _ Eim) as T1.
  pose proof (emit_func_section_tag _ _ _ _ Efn) as T2. pose proof (emit_tables_tag m x3) as T3.
  pose proof (emit_memories_tag m x4) as T4.
  pose proof (emit_globals_tag _ _ _ _ Egl) as T5. pose proof (emit_exports_tag _ _ _ Eex) as T6.
  pose proof (emit_start_tag _ _ _ Est) as T7. pose proof (emit_elements_tag _ _ _ _ Eel) as T8.
  pose proof (emit_data_count_tag _ _ _ _ Edc) as T9. pose proof (emit_code_tag _ _ _ _ _ _ Eco) as T10.
  pose proof (emit_data_tag _ _ _ Eda) as T11.
  assert (R : forall s, In s rest -> sec_tag s = None) by (intros s Hs; destruct (Erest s Hs) as [H|[]]; exact H).
  rewrite Esecs.
  match goal with |- context [flat_map funcs_of ?w] =>
    change w with (W s_ty s_im s_fn (fst (emit_tables m x3)) (fst (emit_memories m x4)) s_gl s_ex s_st s_el s_dc s_co s_da rest) end.
  rewrite W_funcs by assumption.
  rewrite emit_func_section_unfold in Efn. rinv Efn as fs Efs. exists fs. split; [exact Efs|].
  destruct fs as [|p r]; [inversion Efn; reflexivity|].
  rinv Efn as b Eb. inversion Efn; subst; clear Efn. cbn [flat_map funcs_of]. rewrite app_nil_r.
  apply func_go_entries in Eb. apply Forall2_length in Eb. symmetry. exact Eb.
Qed.

Theorem emitted_bodies_count : forall m ilen e, emitM m ilen [] = Ok e ->
  c_nbodies (ctx_after (em_secs e)) = c_nloc (ctx_after (em_secs e)).
Proof.
  intros m ilen e He. unfold ctx_after. rewrite ctx_nbodies, ctx_nloc. cbn [ctx0 c_nbodies c_nloc Nat.add].
  destruct (emitted_funcs_count _ _ _ He) as (fs & Hfs & Hl). rewrite Hl.
  destruct (emit_code_payload _ _ _ _ He Hfs) as (_ & _ & _ & Hc). exact Hc.
Qed.

(* ====================================================================================== *)
(* E. the reduction: what remains for V1 is the per-section payload check in context       *)
(* ====================================================================================== *)
Theorem emitted_valid_b_reduce : forall m ilen e, emitM m ilen [] = Ok e ->
  (forall pre s post, em_secs e = pre ++ s :: post -> pay_b (ctx_after pre) s = true) ->
  valid_from_b ctx0 (em_secs e) = true.
Proof.
  intros m ilen e He Hp. rewrite valid_from_b_split. cbn [ctx0 c_last].
  rewrite (emitted_order_ok _ _ _ He), (pays_b_all _ ctx0 Hp). cbn [andb]. apply Nat.eqb_eq.
  exact (emitted_bodies_count _ _ _ He).
Qed.

(* sections whose payload check is vacuous *)
Lemma pay_b_trivial c s : (match sec_tag s with Some 0 | Some 3 | Some 4 | Some 9 | Some 10 | None => True | _ => False end) -> pay_b c s = true.
Proof. destruct s; cbn [sec_tag pay_b]; intros H; try reflexivity; destruct H. Qed.

(* ====================================================================================== *)
(* F. imports and function declarations: the type indices are below the number of types    *)
(* ====================================================================================== *)
Lemma lookup_bound (l : list (N * N)) id j : map snd l = iota (length l) -> lookup_i l id = Ok j -> N.to_nat j < length l.
Proof.
  intros Hn H. unfold lookup_i in H. destruct (find _ l) as [p|] eqn:E; [|discriminate]. inversion H; subst j.
  apply find_some in E. destruct E as [Hin _]. apply iota_In. rewrite <- Hn. apply in_map. exact Hin.
Qed.
Lemma pushed_fold_length : forall ids (l : list (N * N)), length (fold_left (fun l id => pushed l id) ids l) = length l + length ids.
Proof.
  induction ids as [|i r IH]; intros l; cbn [fold_left length]; [lia|]. rewrite IH. unfold pushed. rewrite app_length. cbn [length]. lia.
Qed.
Lemma imp_ids_type l : imp_ids S_type l = [].
Proof. induction l as [|i r IH]; [reflexivity|]. cbn [imp_ids flat_map]. fold (imp_ids S_type r). rewrite IH. unfold imp_id. destruct (im_kind i); reflexivity. Qed.

(* the type map after emit_types: numbered, as long as the type payload *)
Lemma types_map_after m s_ty x1 : emit_types m empty_x2i = (s_ty, x1) ->
  numbered x1 /\ length (space_map x1 S_type) = length (flat_map types_of s_ty).
Proof.
  intros E. pose proof (emit_types_x m empty_x2i) as X. rewrite E in X. cbn [snd] in X. subst x1. split.
  - apply numbered_push_all, numbered_empty.
  - rewrite push_all_same by discriminate. rewrite pushed_fold_length. cbn [space_map empty_x2i xi_types length Nat.add].
    rewrite (emit_types_decl _ _ _ _ E), !map_length. reflexivity.
Qed.

Lemma imports_pay m s_ty x1 s_im x2 c : emit_types m empty_x2i = (s_ty, x1) -> emit_imports m x1 = Ok (s_im, x2) ->
  c_nt c = length (flat_map types_of s_ty) -> pays_b c s_im = true.
Proof.
  intros Ety Eim Hc. destruct (types_map_after _ _ _ Ety) as [Nu Le].
  unfold emit_imports in Eim. destruct (map snd (aiter (m_imports m))) as [|i r] eqn:E; [inversion Eim; reflexivity|].
  rinv Eim as a Ea. inversion Eim; subst; clear Eim. destruct a as [ws xa]. cbn [fst pays_b pay_b]. rewrite andb_true_r.
  apply emit_imports_l_entries' in Ea. apply forallb_forall. intros wi Hwi.
  destruct (In_nth_error _ _ Hwi) as [k Hk].
  assert (exists mi, import_emitted' m (space_map x1 S_type) mi wi) as [mi (_ & _ & Hm)].
  { clear - Ea Hk. revert k Hk. induction Ea as [|a b l l' Hab _ IH]; intros k Hk; [destruct k; discriminate|].
    destruct k as [|k]; [inversion Hk; subst; eauto|]. eapply IH; eauto. }
  unfold import_ok. destruct (im_kind mi).
  - destruct Hm as (fn & ti & _ & Hl & ->). unfold ltb_N. apply Nat.ltb_lt. rewrite Hc, <- Le. eapply lookup_bound; [apply Nu|exact Hl].
  - destruct Hm as (tb & _ & ->). reflexivity.
  - destruct Hm as (me & _ & ->). reflexivity.
  - destruct Hm as (gl & _ & ->). reflexivity.
Qed.

Lemma funcs_pay m s_ty x1 s_im x2 s_fn x3 c : emit_types m empty_x2i = (s_ty, x1) -> emit_imports m x1 = Ok (s_im, x2) ->
  emit_func_section m x2 = Ok (s_fn, x3) -> c_nt c = length (flat_map types_of s_ty) -> pays_b c s_fn = true.
Proof.
  intros Ety Eim Efn Hc. destruct (types_map_after _ _ _ Ety) as [Nu Le].
  pose proof (emit_imports_x _ _ _ _ Eim) as X2.
  assert (Nu2 : numbered x2) by (subst x2; apply numbered_imports, Nu).
  assert (Le2 : length (space_map x2 S_type) = length (flat_map types_of s_ty)).
  { subst x2. rewrite fold_push_import_space, imp_ids_type. cbn [fold_left]. exact Le. }
  rewrite emit_func_section_unfold in Efn. rinv Efn as fs Efs. destruct fs as [|p r]; [inversion Efn; reflexivity|].
  rinv Efn as b Eb. inversion Efn; subst s_fn x3; clear Efn. cbn [pays_b pay_b]. rewrite andb_true_r.
  apply func_go_entries in Eb. apply forallb_forall. intros ti Hti.
  assert (exists q : N * mlocalfunc, get_idx x2 S_type (lf_ty (snd q)) = Ok ti) as [q Hq].
  { clear - Eb Hti. induction Eb as [|a t l l' Hab _ IH]; [destruct Hti|]. destruct Hti as [<-|Hti]; eauto. }
  unfold ltb_N. apply Nat.ltb_lt. rewrite Hc, <- Le2. eapply lookup_bound; [apply Nu2|exact Hq].
Qed.

(* ====================================================================================== *)
(* G. assembly: V1 modulo the payload checks of globals, exports, start, elements, data    *)
(* ====================================================================================== *)
Lemma ctx_from_app c a b : ctx_from c (a ++ b) = ctx_from (ctx_from c a) b.
Proof. unfold ctx_from. apply fold_left_app. Qed.
Lemma pays_b_app' c A p B : pays_b (ctx_from c A) (p ++ B) = pays_b (ctx_from c A) p && pays_b (ctx_from c (A ++ p)) B.
Proof. rewrite pays_b_app, ctx_from_app. reflexivity. Qed.
Lemma pays_b_triv : forall p c, (forall s, In s p -> forall c', pay_b c' s = true) -> pays_b c p = true.
Proof.
  induction p as [|s r IH]; intros c H; [reflexivity|]. cbn [pays_b]. rewrite (H s (or_introl eq_refl)). apply IH.
  intros s' Hs'. apply H. right. exact Hs'.
Qed.
Lemma pays_b_tagged_triv k p c : tagged k p -> (k = 0 \/ k = 3 \/ k = 4 \/ k = 9 \/ k = 10) -> pays_b c p = true.
Proof.
  intros T Hk. apply pays_b_triv. intros s Hs c'. unfold tagged in T. rewrite Forall_forall in T. apply pay_b_trivial. rewrite (T s Hs).
  destruct Hk as [->|[->|[->|[->| ->]]]]; exact I.
Qed.
Lemma pays_b_sub w c A p B : w = A ++ p ++ B ->
  (forall pre s post, w = pre ++ s :: post -> In s p -> pay_b (ctx_from c pre) s = true) -> pays_b (ctx_from c A) p = true.
Proof.
  intros Ew H. apply pays_b_all. intros pre s post E. rewrite <- ctx_from_app. apply (H (A ++ pre) s (post ++ B)).
  - rewrite Ew, E, <- !app_assoc. reflexivity.
  - rewrite E. apply in_or_app. right. left. reflexivity.
Qed.

Definition hard_tag (s : wsec) : Prop :=
  match sec_tag s with Some 5 | Some 6 | Some 7 | Some 8 | Some 11 => True | _ => False end.

Theorem emitted_valid_b_partial : forall m ilen e, emitM m ilen [] = Ok e ->
  (forall pre s post, em_secs e = pre ++ s :: post -> hard_tag s -> pay_b (ctx_after pre) s = true) ->
  valid_from_b ctx0 (em_secs e) = true.
Proof.
  intros m ilen e He Hh. rewrite valid_from_b_split. cbn [ctx0 c_last]. fold ctx0.
  rewrite (emitted_order_ok _ _ _ He). cbn [andb]. apply andb_true_iff. split; [|apply Nat.eqb_eq; exact (emitted_bodies_count _ _ _ He)].
  emitM_parts2 He.
  pose proof (emit_types_tag _ _ _ _ Ety) as T0. pose proof (emit_imports_tag _ _ _ _ Eim) as T1.
  pose proof (emit_func_section_tag _ _ _ _ Efn) as T2. pose proof (emit_tables_tag m x3) as T3.
  pose proof (emit_memories_tag m x4) as T4.
  pose proof (emit_globals_tag _ _ _ _ Egl) as T5. pose proof (emit_exports_tag _ _ _ Eex) as T6.
  pose proof (emit_start_tag _ _ _ Est) as T7. pose proof (emit_elements_tag _ _ _ _ Eel) as T8.
  pose proof (emit_data_count_tag _ _ _ _ Edc) as T9. pose proof (emit_code_tag _ _ _ _ _ _ Eco) as T10.
  pose proof (emit_data_tag _ _ _ Eda) as T11.
  assert (Hsub : forall k A p B, tagged k p -> (k = 5 \/ k = 6 \/ k = 7 \/ k = 8 \/ k = 11) -> em_secs e = A ++ p ++ B ->
                 pays_b (ctx_from ctx0 A) p = true).
  { intros k A p B T Hk EA. apply (pays_b_sub (em_secs e) ctx0 A p B EA). intros pre s post E Hin. apply (Hh pre s post E).
    unfold tagged in T. rewrite Forall_forall in T. unfold hard_tag. rewrite (T s Hin). destruct Hk as [->|[->|[->|[->| ->]]]]; exact I. }
  rewrite Esecs in Hsub |- *. change ctx0 with (ctx_from ctx0 []) at 1.
  repeat (rewrite pays_b_app'; apply andb_true_iff; split).
  - eapply pays_b_tagged_triv; [exact T0|tauto].
  - eapply imports_pay; [exact Ety|exact Eim|]. rewrite ctx_nt. cbn [app ctx0 c_nt Nat.add]. reflexivity.
  - eapply funcs_pay; [exact Ety|exact Eim|exact Efn|]. rewrite ctx_nt. cbn [app ctx0 c_nt Nat.add].
    rewrite flat_map_app, (tagged_types _ _ T1) by lia. rewrite app_nil_r. reflexivity.
  - eapply pays_b_tagged_triv; [exact T3|tauto].
  - eapply pays_b_tagged_triv; [exact T4|tauto].
  - eapply (Hsub 5); [exact T5|tauto|]. rewrite <- !app_assoc. cbn [app]. reflexivity.
  - eapply (Hsub 6); [exact T6|tauto|]. rewrite <- !app_assoc. cbn [app]. reflexivity.
  - eapply (Hsub 7); [exact T7|tauto|]. rewrite <- !app_assoc. cbn [app]. reflexivity.
  - eapply (Hsub 8); [exact T8|tauto|]. rewrite <- !app_assoc. cbn [app]. reflexivity.
  - eapply pays_b_tagged_triv; [exact T9|tauto].
  - eapply pays_b_tagged_triv; [exact T10|tauto].
  - eapply (Hsub 11); [exact T11|tauto|]. rewrite <- !app_assoc. cbn [app]. reflexivity.
  - apply pays_b_triv. intros s Hs c'. apply pay_b_trivial. destruct (Erest s Hs) as [H|[]]. rewrite H. exact I.
Qed.

(* ====================================================================================== *)
(* H. sizes of the index spaces in the context = sizes of the emit-time maps                *)
(* ====================================================================================== *)
Lemma cimp_fold_sizes : forall l c,
  c_nimp (fold_left cimp l c) = c_nimp c + length (imp_ftys l) /\
  length (c_tabs (fold_left cimp l c)) = length (c_tabs c) + length (imp_tables_w l) /\
  length (c_mems (fold_left cimp l c)) = length (c_mems c) + length (imp_mems_w l) /\
  length (c_globs (fold_left cimp l c)) = length (c_globs c) + length (imp_globals_w l).
Proof.
  induction l as [|i r IH]; intros c; [cbn; repeat split; lia|]. cbn [fold_left]. destruct (IH (cimp c i)) as (A & B & C & D).
  rewrite A, B, C, D. unfold imp_ftys, imp_tables_w, imp_mems_w, imp_globals_w, cimp. cbn [flat_map].
  destruct (wi_kind i); cbn [c_nimp c_tabs c_mems c_globs app length]; rewrite ?app_length; cbn [length]; repeat split; lia.
Qed.
Lemma imp_w_app a b : imp_ftys (a ++ b) = imp_ftys a ++ imp_ftys b /\ imp_tables_w (a ++ b) = imp_tables_w a ++ imp_tables_w b /\
  imp_mems_w (a ++ b) = imp_mems_w a ++ imp_mems_w b /\ imp_globals_w (a ++ b) = imp_globals_w a ++ imp_globals_w b.
Proof. unfold imp_ftys, imp_tables_w, imp_mems_w, imp_globals_w. rewrite !flat_map_app. repeat split. Qed.

Lemma ctx_sizes_gen : forall w c,
  c_nimp (ctx_from c w) = c_nimp c + length (imp_ftys (flat_map imports_of w)) /\
  length (c_tabs (ctx_from c w)) = length (c_tabs c) + length (imp_tables_w (flat_map imports_of w)) + length (flat_map tables_of w) /\
  length (c_mems (ctx_from c w)) = length (c_mems c) + length (imp_mems_w (flat_map imports_of w)) + length (flat_map mems_of w) /\
  length (c_globs (ctx_from c w)) = length (c_globs c) + length (imp_globals_w (flat_map imports_of w)) + length (flat_map globals_of w).
Proof.
  induction w as [|s r IH]; intros c; [cbn; repeat split; lia|]. cbn [ctx_from fold_left flat_map]. unfold ctx_from in IH.
  destruct (IH (cstep c s)) as (A & B & C & D). rewrite A, B, C, D. clear IH A B C D.
  destruct (imp_w_app (imports_of s) (flat_map imports_of r)) as (E1 & E2 & E3 & E4). rewrite E1, E2, E3, E4, !app_length.
  unfold cstep, set_last. cbn [c_nimp c_tabs c_mems c_globs].
  destruct s; cbn [cstep0 imports_of tables_of mems_of globals_of c_nimp c_tabs c_mems c_globs length imp_ftys imp_tables_w imp_mems_w imp_globals_w flat_map];
    rewrite ?app_length, ?map_length; try (repeat split; lia).
  destruct (cimp_fold_sizes is_ c) as (A & B & C & D). unfold imp_ftys, imp_tables_w, imp_mems_w, imp_globals_w in *.
  rewrite A, B, C, D. repeat split; lia.
Qed.

Lemma emitted_imports_payload m ilen e : emitM m ilen [] = Ok e ->
  exists xt, Forall2 (import_emitted' m xt) (live_imports m) (flat_map imports_of (em_secs e)).
Proof.
  intros He. emitM_parts2 He.
  pose proof (emit_types_tag _ _ _ _ Ety) as T0. pose proof (emit_imports_tag _ _ _ _ Eim) as T1.
  pose proof (emit_func_section_tag _ _ _ _ Efn) as T2. pose proof (emit_tables_tag m x3) as T3.
  pose proof (emit_memories_tag m x4) as T4.
  pose proof (emit_globals_tag _ _ _ _ Egl) as T5. pose proof (emit_exports_tag _ _ _ Eex) as T6.
  pose proof (emit_start_tag _ _ _ Est) as T7. pose proof (emit_elements_tag _ _ _ _ Eel) as T8.
  pose proof (emit_data_count_tag _ _ _ _ Edc) as T9. pose proof (emit_code_tag _ _ _ _ _ _ Eco) as T10.
  pose proof (emit_data_tag _ _ _ Eda) as T11.
  assert (R : forall s, In s rest -> sec_tag s = None) by (intros s Hs; destruct (Erest s Hs) as [H|[]]; exact H).
  rewrite Esecs.
  match goal with |- context [flat_map imports_of ?w] =>
    change w with (W s_ty s_im s_fn (fst (emit_tables m x3)) (fst (emit_memories m x4)) s_gl s_ex s_st s_el s_dc s_co s_da rest) end.
  rewrite W_imports by assumption. exists (space_map x1 S_type).
  unfold emit_imports in Eim. fold (live_imports m) in Eim. destruct (live_imports m) as [|i r] eqn:E.
  - inversion Eim; subst. constructor.
  - rinv Eim as a Ea. inversion Eim; subst s_im x2; clear Eim. destruct a as [ws xa]. cbn [fst flat_map imports_of]. rewrite app_nil_r.
    eapply emit_imports_l_entries'; eauto.
Qed.

Lemma imp_counts m xt : forall l ws, Forall2 (import_emitted' m xt) l ws ->
  length (imp_ids S_func l) = length (imp_ftys ws) /\ length (imp_ids S_table l) = length (imp_tables_w ws) /\
  length (imp_ids S_memory l) = length (imp_mems_w ws) /\ length (imp_ids S_global l) = length (imp_globals_w ws).
Proof.
  induction 1 as [|a b l ws (_ & _ & Hk) _ IH]; [repeat split|]. destruct IH as (A & B & C & D).
  unfold imp_ids, imp_ftys, imp_tables_w, imp_mems_w, imp_globals_w in *. cbn [flat_map]. rewrite !app_length, A, B, C, D. unfold imp_id.
  destruct (im_kind a).
  - destruct Hk as (fn & ti & _ & _ & ->). cbn [length]. repeat split; lia.
  - destruct Hk as (tb & _ & ->). cbn [length]. repeat split; lia.
  - destruct Hk as (me & _ & ->). cbn [length]. repeat split; lia.
  - destruct Hk as (gl & _ & ->). cbn [length]. repeat split; lia.
Qed.

Definition sizes (c : vctx) (e : emitted) : Prop :=
  c_nf c = length (space_map (em_x2i e) S_func) /\ length (c_tabs c) = length (space_map (em_x2i e) S_table) /\
  length (c_mems c) = length (space_map (em_x2i e) S_memory) /\ length (c_globs c) = length (space_map (em_x2i e) S_global).

Lemma emitted_globals_count m ilen e : emitM m ilen [] = Ok e -> length (flat_map globals_of (em_secs e)) = length (local_globals m).
Proof.
  intros He. destruct (emitted_globals_piece _ _ _ He) as (x5 & s_gl & x6 & Egl & ->).
  rewrite emit_globals_unfold in Egl. destruct (local_globals m) as [|p0 ps] eqn:El; [inversion Egl; reflexivity|].
  rewrite <- El in Egl. rinv Egl as r Er. inversion Egl; subst; clear Egl. cbn [flat_map globals_of]. rewrite app_nil_r.
  apply globals_go_entries' in Er. destruct Er as [_ F]. apply Forall2_length in F. rewrite <- F, El. reflexivity.
Qed.

Theorem sizes_of_payloads : forall m ilen e P, emitM m ilen [] = Ok e ->
  flat_map imports_of P = flat_map imports_of (em_secs e) -> flat_map funcs_of P = flat_map funcs_of (em_secs e) ->
  flat_map tables_of P = flat_map tables_of (em_secs e) -> flat_map mems_of P = flat_map mems_of (em_secs e) ->
  flat_map globals_of P = flat_map globals_of (em_secs e) -> sizes (ctx_after P) e.
Proof.
  intros m ilen e P He H1 H2 H3 H4 H5. unfold sizes, ctx_after, c_nf.
  destruct (ctx_sizes_gen P ctx0) as (A & B & C & D). rewrite A, B, C, D, ctx_nloc, H1, H2, H3, H4, H5. cbn [ctx0 c_nimp c_nloc c_tabs c_mems c_globs length Nat.add].
  destruct (emitM_x2i _ _ _ _ He) as (fs & Hfs & _ & Xf & Xt & Xm & Xg & _). cbn [space_map]. rewrite Xf, Xt, Xm, Xg, !number_length, !app_length, !map_length.
  destruct (emitted_imports_payload _ _ _ He) as (xt & F). destruct (imp_counts _ _ _ _ F) as (I1 & I2 & I3 & I4). rewrite I1, I2, I3, I4.
  destruct (emitted_funcs_count _ _ _ He) as (fs' & Hfs' & Hl). rewrite Hfs in Hfs'. inversion Hfs'; subst fs'. rewrite Hl.
  rewrite (emitted_tables _ _ _ He), (emitted_mems _ _ _ He), (emitted_globals_count _ _ _ He), !map_length. repeat split.
Qed.

Lemma final_numbered m ilen e S : emitM m ilen [] = Ok e -> S = S_func \/ S = S_table \/ S = S_memory \/ S = S_global ->
  map snd (space_map (em_x2i e) S) = iota (length (space_map (em_x2i e) S)).
Proof.
  intros He HS. destruct (emitM_x2i _ _ _ _ He) as (fs & Hfs & _ & Xf & Xt & Xm & Xg & _).
  destruct HS as [->|[->|[->| ->]]]; cbn [space_map]; rewrite ?Xf, ?Xt, ?Xm, ?Xg; apply number_snd_iota.
Qed.

Lemma start_pay m ilen e x6 s_st c : emitM m ilen [] = Ok e ->
  (forall S, S <> S_elem -> S <> S_data -> space_map (em_x2i e) S = space_map x6 S) ->
  match m_start m with Some f => i <- get_idx x6 S_func f ;; Ok [S_Start i] | None => Ok [] end = Ok s_st ->
  sizes c e -> pays_b c s_st = true.
Proof.
  intros He Hl Est (Sf & _). destruct (m_start m) as [f|]; [|inversion Est; reflexivity].
  rinv Est as i Ei. inversion Est; subst; clear Est. cbn [pays_b pay_b]. rewrite andb_true_r. unfold ltb_N. apply Nat.ltb_lt. rewrite Sf.
  unfold get_idx in Ei. rewrite <- Hl in Ei by discriminate. eapply lookup_bound; [|exact Ei]. apply (final_numbered _ _ _ _ He). tauto.
Qed.

Lemma rmapM_in {A B} (f : A -> res B) : forall l ys, rmapM f l = Ok ys -> forall y, In y ys -> exists a, In a l /\ f a = Ok y.
Proof.
  induction l as [|a r IH]; intros ys H y Hy; cbn [rmapM] in H; [inversion H; subst; destruct Hy|].
  rinv H as b Eb. rinv H as bs Ebs. inversion H; subst; clear H. destruct Hy as [<-|Hy]; [exists a; split; [left; reflexivity|exact Eb]|].
  destruct (IH _ Ebs _ Hy) as (a' & Ha' & Hf). exists a'. split; [right; exact Ha'|exact Hf].
Qed.

Lemma exports_pay m ilen e x6 s_ex c : emitM m ilen [] = Ok e ->
  (forall S, S <> S_elem -> S <> S_data -> space_map (em_x2i e) S = space_map x6 S) ->
  emit_exports m x6 = Ok s_ex -> sizes c e -> pays_b c s_ex = true.
Proof.
  intros He Hl Eex (Sf & St & Sm & Sg). unfold emit_exports in Eex. destruct (map snd (aiter (m_exports m))) as [|x0 r]; [inversion Eex; reflexivity|].
  rinv Eex as es Ees. inversion Eex; subst; clear Eex. cbn [pays_b pay_b]. rewrite andb_true_r. apply forallb_forall. intros wo Hwo.
  destruct (rmapM_in _ _ _ Ees _ Hwo) as (a & _ & Ha). rinv Ha as i Ei. inversion Ha; subst; clear Ha.
  unfold export_ok. cbn [we_index we_kind]. unfold ltb_N. apply Nat.ltb_lt. unfold get_idx in Ei.
  destruct (ex_kind a); cbn [kind_space] in Ei; rewrite <- Hl in Ei by discriminate; rewrite ?Sf, ?St, ?Sm, ?Sg;
    (eapply lookup_bound; [|exact Ei]); apply (final_numbered _ _ _ _ He); tauto.
Qed.

(* ====================================================================================== *)
(* I. assembly 2: V1 modulo the payload checks of globals, elements, data only             *)
(* ====================================================================================== *)
Definition hard_tag2 (s : wsec) : Prop := match sec_tag s with Some 5 | Some 8 | Some 11 => True | _ => False end.

Theorem emitted_valid_b_partial2 : forall m ilen e, emitM m ilen [] = Ok e ->
  (forall pre s post, em_secs e = pre ++ s :: post -> hard_tag2 s -> pay_b (ctx_after pre) s = true) ->
  valid_from_b ctx0 (em_secs e) = true.
Proof.
  intros m ilen e He Hh. rewrite valid_from_b_split. cbn [ctx0 c_last]. fold ctx0.
  rewrite (emitted_order_ok _ _ _ He). cbn [andb]. apply andb_true_iff. split; [|apply Nat.eqb_eq; exact (emitted_bodies_count _ _ _ He)].
  pose proof He as He'. emitM_parts2 He'.
  pose proof (emit_types_tag _ _ _ _ Ety) as T0. pose proof (emit_imports_tag _ _ _ _ Eim) as T1.
  pose proof (emit_func_section_tag _ _ _ _ Efn) as T2. pose proof (emit_tables_tag m x3) as T3.
  pose proof (emit_memories_tag m x4) as T4.
  pose proof (emit_globals_tag _ _ _ _ Egl) as T5. pose proof (emit_exports_tag _ _ _ Eex) as T6.
  pose proof (emit_start_tag _ _ _ Est) as T7. pose proof (emit_elements_tag _ _ _ _ Eel) as T8.
  pose proof (emit_data_count_tag _ _ _ _ Edc) as T9. pose proof (emit_code_tag _ _ _ _ _ _ Eco) as T10.
  pose proof (emit_data_tag _ _ _ Eda) as T11.
  assert (Rn : forall s, In s rest -> sec_tag s = None) by (intros s' Hs; destruct (Erest s' Hs) as [H|[]]; exact H).
  pose proof (emitM_late_maps _ _ _ _ _ _ _ _ _ _ Eel Edc Eco) as Hlate.
  assert (Hsub : forall k A p B, tagged k p -> (k = 5 \/ k = 8 \/ k = 11) -> em_secs e = A ++ p ++ B ->
                 pays_b (ctx_from ctx0 A) p = true).
  { intros k A p B T Hk EA. apply (pays_b_sub (em_secs e) ctx0 A p B EA). intros pre s post E Hin. apply (Hh pre s post E).
    unfold tagged in T. rewrite Forall_forall in T. unfold hard_tag2. rewrite (T s Hin). destruct Hk as [->|[->| ->]]; exact I. }
  assert (Hsz : forall P, flat_map imports_of P = flat_map imports_of s_im -> flat_map funcs_of P = flat_map funcs_of s_fn ->
                flat_map tables_of P = flat_map tables_of (fst (emit_tables m x3)) -> flat_map mems_of P = flat_map mems_of (fst (emit_memories m x4)) ->
                flat_map globals_of P = flat_map globals_of s_gl -> sizes (ctx_from ctx0 P) e).
  { intros P H1 H2 H3 H4 H5. apply (sizes_of_payloads _ _ _ P He); rewrite Esecs;
      match goal with |- _ = flat_map ?f ?w =>
        change w with (W s_ty s_im s_fn (fst (emit_tables m x3)) (fst (emit_memories m x4)) s_gl s_ex s_st s_el s_dc s_co s_da rest) end.
    - rewrite W_imports by assumption. exact H1.
    - rewrite W_funcs by assumption. exact H2.
    - rewrite W_tables by assumption. exact H3.
    - rewrite W_mems by assumption. exact H4.
    - rewrite W_globals by assumption. exact H5. }
  rewrite Esecs in Hsub |- *. change ctx0 with (ctx_from ctx0 []) at 1.
  repeat (rewrite pays_b_app'; apply andb_true_iff; split).
  - eapply pays_b_tagged_triv; [exact T0|tauto].
  - eapply imports_pay; [exact Ety|exact Eim|]. rewrite ctx_nt. cbn [app ctx0 c_nt Nat.add]. reflexivity.
  - eapply funcs_pay; [exact Ety|exact Eim|exact Efn|]. rewrite ctx_nt. cbn [app ctx0 c_nt Nat.add].
    rewrite flat_map_app, (tagged_types _ _ T1) by lia. rewrite app_nil_r. reflexivity.
  - eapply pays_b_tagged_triv; [exact T3|tauto].
  - eapply pays_b_tagged_triv; [exact T4|tauto].
  - eapply (Hsub 5); [exact T5|tauto|]. rewrite <- !app_assoc. cbn [app]. reflexivity.
  - eapply exports_pay; [exact He|exact Hlate|exact Eex|]. apply Hsz; rewrite !flat_map_app;
      match goal with |- context [flat_map ?f s_ty] => payload_piece f end; cbn [app flat_map]; rewrite ?app_nil_r; reflexivity.
  - eapply start_pay; [exact He|exact Hlate|exact Est|]. apply Hsz; rewrite !flat_map_app;
      match goal with |- context [flat_map ?f s_ty] => payload_piece f end; cbn [app flat_map]; rewrite ?app_nil_r; reflexivity.
  - eapply (Hsub 8); [exact T8|tauto|]. rewrite <- !app_assoc. cbn [app]. reflexivity.
  - eapply pays_b_tagged_triv; [exact T9|tauto].
  - eapply pays_b_tagged_triv; [exact T10|tauto].
  - eapply (Hsub 11); [exact T11|tauto|]. rewrite <- !app_assoc. cbn [app]. reflexivity.
  - apply pays_b_triv. intros s Hs c'. apply pay_b_trivial. rewrite (Rn s Hs). exact I.
Qed.

(* ====================================================================================== *)
(* J. data: the count clause; what remains is data_ok (memory index and offset) per segment *)
(* ====================================================================================== *)
Lemma ctx_dc : forall w c, c_dc (ctx_from c w) = fold_left (fun o n => Some (N.to_nat n)) (flat_map dcounts_of w) (c_dc c).
Proof.
  induction w as [|s r IH]; intros c; [reflexivity|]. cbn [ctx_from fold_left flat_map]. unfold ctx_from in IH. rewrite IH, fold_left_app. f_equal.
  unfold cstep, set_last. cbn [c_dc]. destruct s; cbn [cstep0 dcounts_of c_dc fold_left]; try reflexivity.
  destruct (cimp_fold_keep is_ c) as (_ & _ & _ & A & _). exact A.
Qed.

Lemma data_pay m x s_da x9 s_dc x10 c : emit_data m x = Ok s_da -> emit_data_count m x9 = Ok (s_dc, x10) ->
  c_dc c = fold_left (fun o n => Some (N.to_nat n)) (flat_map dcounts_of s_dc) None ->
  (forall l, s_da = [S_Data l] -> forallb (data_ok c) l = true) -> pays_b c s_da = true.
Proof.
  intros Eda Edc Hc Hok. unfold emit_data in Eda. destruct (aiter (m_data m)) as [|p r] eqn:El; [inversion Eda; reflexivity|].
  rinv Eda as ds Eds. inversion Eda; subst s_da; clear Eda. cbn [pays_b pay_b]. rewrite andb_true_r, (Hok ds eq_refl). cbn [andb].
  apply rmapM_length in Eds. rewrite Hc. destruct (emit_data_count_shape _ _ _ _ Edc) as [->| ->]; [reflexivity|].
  cbn [flat_map dcounts_of app fold_left]. unfold len_N. rewrite Nat2N.id, El. apply Nat.eqb_eq. exact Eds.
Qed.

Definition hard_tag3 (s : wsec) : Prop := match sec_tag s with Some 5 | Some 8 => True | _ => False end.

Theorem emitted_valid_b_partial3 : forall m ilen e, emitM m ilen [] = Ok e ->
  (forall pre s post, em_secs e = pre ++ s :: post -> hard_tag3 s -> pay_b (ctx_after pre) s = true) ->
  (forall pre l post, em_secs e = pre ++ S_Data l :: post -> forallb (data_ok (ctx_after pre)) l = true) ->
  valid_from_b ctx0 (em_secs e) = true.
Proof.
  intros m ilen e He Hh Hd. rewrite valid_from_b_split. cbn [ctx0 c_last]. fold ctx0.
  rewrite (emitted_order_ok _ _ _ He). cbn [andb]. apply andb_true_iff. split; [|apply Nat.eqb_eq; exact (emitted_bodies_count _ _ _ He)].
  pose proof He as He'. emitM_parts2 He'.
  pose proof (emit_types_tag _ _ _ _ Ety) as T0. pose proof (emit_imports_tag _ _ _ _ Eim) as T1.
  pose proof (emit_func_section_tag _ _ _ _ Efn) as T2. pose proof (emit_tables_tag m x3) as T3.
  pose proof (emit_memories_tag m x4) as T4.
  pose proof (emit_globals_tag _ _ _ _ Egl) as T5. pose proof (emit_exports_tag _ _ _ Eex) as T6.
  pose proof (emit_start_tag _ _ _ Est) as T7. pose proof (emit_elements_tag _ _ _ _ Eel) as T8.
  pose proof (emit_data_count_tag _ _ _ _ Edc) as T9. pose proof (emit_code_tag _ _ _ _ _ _ Eco) as T10.
  pose proof (emit_data_tag _ _ _ Eda) as T11.
  assert (Rn : forall s, In s rest -> sec_tag s = None) by (intros s' Hs; destruct (Erest s' Hs) as [H|[]]; exact H).
  pose proof (emitM_late_maps _ _ _ _ _ _ _ _ _ _ Eel Edc Eco) as Hlate.
  assert (Hsub : forall k A p B, tagged k p -> (k = 5 \/ k = 8) -> em_secs e = A ++ p ++ B ->
                 pays_b (ctx_from ctx0 A) p = true).
  { intros k A p B T Hk EA. apply (pays_b_sub (em_secs e) ctx0 A p B EA). intros pre s post E Hin. apply (Hh pre s post E).
    unfold tagged in T. rewrite Forall_forall in T. unfold hard_tag3. rewrite (T s Hin). destruct Hk as [->| ->]; exact I. }
  assert (Hsz : forall P, flat_map imports_of P = flat_map imports_of s_im -> flat_map funcs_of P = flat_map funcs_of s_fn ->
                flat_map tables_of P = flat_map tables_of (fst (emit_tables m x3)) -> flat_map mems_of P = flat_map mems_of (fst (emit_memories m x4)) ->
                flat_map globals_of P = flat_map globals_of s_gl -> sizes (ctx_from ctx0 P) e).
  { intros P H1 H2 H3 H4 H5. apply (sizes_of_payloads _ _ _ P He); rewrite Esecs;
      match goal with |- _ = flat_map ?f ?w =>
        change w with (W s_ty s_im s_fn (fst (emit_tables m x3)) (fst (emit_memories m x4)) s_gl s_ex s_st s_el s_dc s_co s_da rest) end.
    - rewrite W_imports by assumption. exact H1.
    - rewrite W_funcs by assumption. exact H2.
    - rewrite W_tables by assumption. exact H3.
    - rewrite W_mems by assumption. exact H4.
    - rewrite W_globals by assumption. exact H5. }
  rewrite Esecs in Hsub, Hd |- *. change ctx0 with (ctx_from ctx0 []) at 1.
  repeat (rewrite pays_b_app'; apply andb_true_iff; split).
  - eapply pays_b_tagged_triv; [exact T0|tauto].
  - eapply imports_pay; [exact Ety|exact Eim|]. rewrite ctx_nt. cbn [app ctx0 c_nt Nat.add]. reflexivity.
  - eapply funcs_pay; [exact Ety|exact Eim|exact Efn|]. rewrite ctx_nt. cbn [app ctx0 c_nt Nat.add].
    rewrite flat_map_app, (tagged_types _ _ T1) by lia. rewrite app_nil_r. reflexivity.
  - eapply pays_b_tagged_triv; [exact T3|tauto].
  - eapply pays_b_tagged_triv; [exact T4|tauto].
  - eapply (Hsub 5); [exact T5|tauto|]. rewrite <- !app_assoc. cbn [app]. reflexivity.
  - eapply exports_pay; [exact He|exact Hlate|exact Eex|]. apply Hsz; rewrite !flat_map_app;
      match goal with |- context [flat_map ?f s_ty] => payload_piece f end; cbn [app flat_map]; rewrite ?app_nil_r; reflexivity.
  - eapply start_pay; [exact He|exact Hlate|exact Est|]. apply Hsz; rewrite !flat_map_app;
      match goal with |- context [flat_map ?f s_ty] => payload_piece f end; cbn [app flat_map]; rewrite ?app_nil_r; reflexivity.
  - eapply (Hsub 8); [exact T8|tauto|]. rewrite <- !app_assoc. cbn [app]. reflexivity.
  - eapply pays_b_tagged_triv; [exact T9|tauto].
  - eapply pays_b_tagged_triv; [exact T10|tauto].
  - eapply data_pay; [exact Eda|exact Edc| |].
    + rewrite ctx_dc. cbn [ctx0 c_dc]. rewrite !flat_map_app. payload_piece dcounts_of. cbn [app flat_map]. rewrite ?app_nil_r. reflexivity.
    + intros l El. unfold ctx_after in Hd. eapply Hd. rewrite El, <- !app_assoc. cbn [app]. reflexivity.
  - apply pays_b_triv. intros s Hs c'. apply pay_b_trivial. rewrite (Rn s Hs). exact I.
Qed.

(* ====================================================================================== *)
(* K. V2 (conditional): boolean validity + valid bodies = valid stream; the second parse succeeds *)
(* ====================================================================================== *)
Lemma valid_from_of_b : forall w c, valid_from_b c w = true ->
  (forall pre bs post, w = pre ++ S_Code bs :: post -> Forall (body_valid (c_nt (ctx_from c pre))) bs) -> valid_from c w.
Proof.
  induction w as [|s r IH]; intros c H Hb; cbn [valid_from valid_from_b] in *; [apply Nat.eqb_eq; exact H|].
  apply andb_true_iff in H. destruct H as [H1 H2]. split.
  - split; [exact H1|]. destruct s; try exact I. apply (Hb [] bs r). reflexivity.
  - apply IH; [exact H2|]. intros pre bs post E. apply (Hb (s :: pre) bs post). rewrite E. reflexivity.
Qed.

Theorem emitted_valid_stream : forall m ilen e, emitM m ilen [] = Ok e -> valid_from_b ctx0 (em_secs e) = true ->
  (forall pre bs post, em_secs e = pre ++ S_Code bs :: post -> Forall (body_valid (length (flat_map types_of pre))) bs) ->
  valid_stream (em_secs e).
Proof.
  intros m ilen e He Hb Hbodies. apply valid_from_of_b; [exact Hb|]. intros pre bs post E. rewrite ctx_nt. cbn [ctx0 c_nt Nat.add].
  exact (Hbodies pre bs post E).
Qed.

Theorem second_parse_total : forall cf ver m ilen e, emitM m ilen [] = Ok e -> valid_from_b ctx0 (em_secs e) = true ->
  (forall pre bs post, em_secs e = pre ++ S_Code bs :: post -> Forall (body_valid (length (flat_map types_of pre))) bs) ->
  exists s2, parseM cf ver (em_secs e) = POk s2.
Proof. intros cf ver m ilen e He Hb Hbodies. apply parse_total. eapply emitted_valid_stream; eauto. Qed.

(* ====================================================================================== *)
(* L. globals: valid as soon as no initialiser refers to its own global                    *)
(* ====================================================================================== *)
(* the emitter pushes the index of a global BEFORE emitting its initialiser, so a self-reference would be emitted
   as an (invalid) forward reference: the premise that excludes it *)
Definition no_self_ref (m : wir) : Prop := forall id g g', In (id, g, MC_Global g') (local_globals m) -> g' <> id.

Lemma lookup_pushed_neq (l : list (N * N)) id g j : lookup_i (pushed l id) g = Ok j -> g <> id -> lookup_i l g = Ok j.
Proof.
  unfold lookup_i, pushed. intros H Hne. destruct (find (fun p => N.eqb (fst p) g) l) as [p|] eqn:E.
  - assert (L : lookup_i l g = Ok (snd p)) by (unfold lookup_i; rewrite E; reflexivity).
    pose proof (lookup_app_old l [(id, len_N l)] g _ L) as L2. unfold lookup_i in L2. congruence.
  - exfalso. destruct (find _ (l ++ _)) as [q|] eqn:E2; [|discriminate]. apply find_some in E2. destruct E2 as [Hin Hq].
    apply in_app_or in Hin. destruct Hin as [Hin|[<-|[]]].
    + apply (find_none _ _ E) in Hin. congruence.
    + cbn [fst] in Hq. apply N.eqb_eq in Hq. congruence.
Qed.

Lemma globals_go_ok : forall l x r nf globs, globals_go l x = Ok r -> numbered x ->
  length (space_map x S_global) = length globs -> length (space_map x S_func) = nf ->
  (forall id g g', In (id, g, MC_Global g') l -> g' <> id) -> globals_ok nf globs (fst r) = true.
Proof.
  induction l as [|[[id g] c] l IH]; intros x r nf globs H Nu Lg Lf Hs; cbn [globals_go] in H; [inversion H; reflexivity|].
  fold globals_go in H. rinv H as wc Ewc. rinv H as b Eb. inversion H; subst r; clear H. cbn [fst globals_ok]. apply andb_true_iff. split.
  - destruct c as [v|g'|t|f]; cbn [emit_const] in Ewc.
    + destruct v; inversion Ewc; reflexivity.
    + destruct (get_idx (push_idx x S_global id) S_global g') as [j| |] eqn:Ej; cbn [rmap] in Ewc; inversion Ewc; subst wc. cbn [const_ok].
      unfold get_idx in Ej. rewrite push_idx_same in Ej by discriminate. apply lookup_pushed_neq in Ej; [|apply (Hs id g g'); left; reflexivity].
      unfold ltb_N. apply Nat.ltb_lt. rewrite <- Lg. eapply lookup_bound; [apply Nu|exact Ej].
    + inversion Ewc; reflexivity.
    + destruct (get_idx (push_idx x S_global id) S_func f) as [j| |] eqn:Ej; cbn [rmap] in Ewc; inversion Ewc; subst wc. cbn [const_ok].
      unfold get_idx in Ej. rewrite push_idx_other in Ej by discriminate.
      unfold ltb_N. apply Nat.ltb_lt. rewrite <- Lf. eapply lookup_bound; [apply Nu|exact Ej].
  - eapply IH; [exact Eb|apply numbered_push, Nu| | |].
    + rewrite push_idx_same by discriminate. unfold pushed. rewrite !app_length, Lg. reflexivity.
    + rewrite push_idx_other by discriminate. exact Lf.
    + intros id' g0 g' Hin. apply (Hs id' g0 g'). right. exact Hin.
Qed.

Lemma globals_pay m x5 s_gl x6 c : emit_globals m x5 = Ok (s_gl, x6) -> numbered x5 ->
  length (space_map x5 S_global) = length (c_globs c) -> length (space_map x5 S_func) = c_nf c -> no_self_ref m ->
  pays_b c s_gl = true.
Proof.
  intros Egl Nu Lg Lf Hs. rewrite emit_globals_unfold in Egl. destruct (local_globals m) as [|p0 ps] eqn:El; [inversion Egl; reflexivity|].
  rewrite <- El in Egl. rinv Egl as r Er. inversion Egl; subst s_gl x6; clear Egl. cbn [pays_b pay_b]. rewrite andb_true_r.
  eapply globals_go_ok; eauto.
Qed.

Lemma sizes_before_globals m ilen e P : emitM m ilen [] = Ok e ->
  flat_map imports_of P = flat_map imports_of (em_secs e) -> flat_map funcs_of P = flat_map funcs_of (em_secs e) ->
  flat_map globals_of P = [] ->
  c_nf (ctx_after P) = length (space_map (em_x2i e) S_func) /\ length (c_globs (ctx_after P)) = length (imp_ids S_global (live_imports m)).
Proof.
  intros He H1 H2 H5. unfold ctx_after, c_nf.
  destruct (ctx_sizes_gen P ctx0) as (A & _ & _ & D). rewrite A, D, ctx_nloc, H1, H2, H5. cbn [ctx0 c_nimp c_nloc c_globs length Nat.add].
  destruct (emitM_x2i _ _ _ _ He) as (fs & Hfs & _ & Xf & _). cbn [space_map]. rewrite Xf, !number_length, !app_length, !map_length.
  destruct (emitted_imports_payload _ _ _ He) as (xt & F). destruct (imp_counts _ _ _ _ F) as (I1 & _ & _ & I4). rewrite I1, I4.
  destruct (emitted_funcs_count _ _ _ He) as (fs' & Hfs' & Hl). rewrite Hfs in Hfs'. inversion Hfs'; subst fs'. rewrite Hl. split; lia.
Qed.

(* ====================================================================================== *)
(* M. assembly 4: V1 modulo elements, data_ok per segment, and no self-referring global     *)
(* ====================================================================================== *)
Theorem emitted_valid_b_partial4 : forall m ilen e, emitM m ilen [] = Ok e -> no_self_ref m ->
  (forall pre l post, em_secs e = pre ++ S_Elems l :: post -> forallb (elem_ok (ctx_after pre)) l = true) ->
  (forall pre l post, em_secs e = pre ++ S_Data l :: post -> forallb (data_ok (ctx_after pre)) l = true) ->
  valid_from_b ctx0 (em_secs e) = true.
Proof.
  intros m ilen e He Hself Hel Hd. rewrite valid_from_b_split. cbn [ctx0 c_last]. fold ctx0.
  rewrite (emitted_order_ok _ _ _ He). cbn [andb]. apply andb_true_iff. split; [|apply Nat.eqb_eq; exact (emitted_bodies_count _ _ _ He)].
  pose proof He as He'. emitM_parts2 He'.
  pose proof (emit_types_tag _ _ _ _ Ety) as T0. pose proof (emit_imports_tag _ _ _ _ Eim) as T1.
  pose proof (emit_func_section_tag _ _ _ _ Efn) as T2. pose proof (emit_tables_tag m x3) as T3.
  pose proof (emit_memories_tag m x4) as T4.
  pose proof (emit_globals_tag _ _ _ _ Egl) as T5. pose proof (emit_exports_tag _ _ _ Eex) as T6.
  pose proof (emit_start_tag _ _ _ Est) as T7. pose proof (emit_elements_tag _ _ _ _ Eel) as T8.
  pose proof (emit_data_count_tag _ _ _ _ Edc) as T9. pose proof (emit_code_tag _ _ _ _ _ _ Eco) as T10.
  pose proof (emit_data_tag _ _ _ Eda) as T11.
  assert (Rn : forall s, In s rest -> sec_tag s = None) by (intros s' Hs; destruct (Erest s' Hs) as [H|[]]; exact H).
  pose proof (emitM_late_maps _ _ _ _ _ _ _ _ _ _ Eel Edc Eco) as Hlate.
  assert (HW : em_secs e = W s_ty s_im s_fn (fst (emit_tables m x3)) (fst (emit_memories m x4)) s_gl s_ex s_st s_el s_dc s_co s_da rest) by exact Esecs.
  assert (Hsz : forall P, flat_map imports_of P = flat_map imports_of s_im -> flat_map funcs_of P = flat_map funcs_of s_fn ->
                flat_map tables_of P = flat_map tables_of (fst (emit_tables m x3)) -> flat_map mems_of P = flat_map mems_of (fst (emit_memories m x4)) ->
                flat_map globals_of P = flat_map globals_of s_gl -> sizes (ctx_from ctx0 P) e).
  { intros P H1 H2 H3 H4 H5. apply (sizes_of_payloads _ _ _ P He); rewrite HW.
    - rewrite W_imports by assumption. exact H1.
    - rewrite W_funcs by assumption. exact H2.
    - rewrite W_tables by assumption. exact H3.
    - rewrite W_mems by assumption. exact H4.
    - rewrite W_globals by assumption. exact H5. }
  (* the maps when the global section is written *)
  pose proof (emit_types_x m empty_x2i) as X1. rewrite Ety in X1. cbn [snd] in X1.
  pose proof (emit_imports_x _ _ _ _ Eim) as X2.
  destruct (emit_func_section_x _ _ _ _ Efn) as (fs & Hfs & X3).
  pose proof (emit_tables_x m x3) as X4. rewrite <- Ex4 in X4.
  pose proof (emit_memories_x m x4) as X5. rewrite <- Ex5 in X5.
  pose proof (emit_globals_x _ _ _ _ Egl) as X6.
  assert (Nu5 : numbered x5).
  { rewrite X5, X4, X3, X2, X1. repeat first [apply numbered_push_all | apply numbered_imports]. apply numbered_empty. }
  assert (G5 : length (space_map x5 S_global) = length (imp_ids S_global (live_imports m))).
  { rewrite X5, X4, X3, !push_all_other by discriminate. rewrite X2, fold_push_import_space, pushed_fold_length, X1, push_all_other by discriminate.
    reflexivity. }
  assert (F5 : space_map x5 S_func = space_map (em_x2i e) S_func).
  { rewrite Hlate by discriminate. rewrite X6, push_all_other by discriminate. reflexivity. }
  rewrite Esecs in Hel, Hd |- *. change ctx0 with (ctx_from ctx0 []) at 1.
  repeat (rewrite pays_b_app'; apply andb_true_iff; split).
  - eapply pays_b_tagged_triv; [exact T0|tauto].
  - eapply imports_pay; [exact Ety|exact Eim|]. rewrite ctx_nt. cbn [app ctx0 c_nt Nat.add]. reflexivity.
  - eapply funcs_pay; [exact Ety|exact Eim|exact Efn|]. rewrite ctx_nt. cbn [app ctx0 c_nt Nat.add].
    rewrite flat_map_app, (tagged_types _ _ T1) by lia. rewrite app_nil_r. reflexivity.
  - eapply pays_b_tagged_triv; [exact T3|tauto].
  - eapply pays_b_tagged_triv; [exact T4|tauto].
  - match goal with |- pays_b (ctx_from ctx0 ?P) _ = true => destruct (sizes_before_globals m ilen e P He) as (Sf & Sg) end.
    + rewrite HW, W_imports by assumption. rewrite !flat_map_app. payload_piece imports_of. cbn [app flat_map]. rewrite ?app_nil_r. reflexivity.
    + rewrite HW, W_funcs by assumption. rewrite !flat_map_app. payload_piece funcs_of. cbn [app flat_map]. rewrite ?app_nil_r. reflexivity.
    + rewrite !flat_map_app. payload_piece globals_of. reflexivity.
    + eapply globals_pay; [exact Egl|exact Nu5| | |exact Hself].
      * rewrite G5. symmetry. exact Sg.
      * rewrite F5. symmetry. exact Sf.
  - eapply exports_pay; [exact He|exact Hlate|exact Eex|]. apply Hsz; rewrite !flat_map_app;
      match goal with |- context [flat_map ?f s_ty] => payload_piece f end; cbn [app flat_map]; rewrite ?app_nil_r; reflexivity.
  - eapply start_pay; [exact He|exact Hlate|exact Est|]. apply Hsz; rewrite !flat_map_app;
      match goal with |- context [flat_map ?f s_ty] => payload_piece f end; cbn [app flat_map]; rewrite ?app_nil_r; reflexivity.
  - pose proof (emit_elements_len _ _ _ _ Eel) as L8. destruct s_el as [|s0 [|s1 s_el]]; [reflexivity| |cbn [length] in L8; lia].
    inversion T8 as [|? ? Hs0 _]; subst. destruct s0; try discriminate Hs0. cbn [pays_b pay_b]. rewrite andb_true_r.
    unfold ctx_after in Hel. eapply Hel. rewrite <- !app_assoc. cbn [app]. reflexivity.
  - eapply pays_b_tagged_triv; [exact T9|tauto].
  - eapply pays_b_tagged_triv; [exact T10|tauto].
  - eapply data_pay; [exact Eda|exact Edc| |].
    + rewrite ctx_dc. cbn [ctx0 c_dc]. rewrite !flat_map_app. payload_piece dcounts_of. cbn [app flat_map]. rewrite ?app_nil_r. reflexivity.
    + intros l El. unfold ctx_after in Hd. eapply Hd. rewrite El, <- !app_assoc. cbn [app]. reflexivity.
  - apply pays_b_triv. intros s Hs c'. apply pay_b_trivial. rewrite (Rn s Hs). exact I.
Qed.

(* ====================================================================================== *)
(* N. parsed modules have no self-referring global: an initialiser refers to an EARLIER global *)
(* ====================================================================================== *)
Definition GB (K : list (wglobalty * option mconst)) : Prop :=
  forall p ty g', nth_error K p = Some (ty, Some (MC_Global g')) -> N.to_nat g' < p.
Lemma GB_nil : GB []. Proof. intros [|p] ty g' H; discriminate H. Qed.
Lemma GB_app_none K extra : GB K -> (forall x, In x extra -> snd x = None) -> GB (K ++ extra).
Proof.
  intros HK He p ty g' H. destruct (Nat.lt_ge_cases p (length K)) as [L|L].
  - rewrite nth_error_app1 in H by exact L. exact (HK _ _ _ H).
  - rewrite nth_error_app2 in H by exact L. apply nth_error_In, He in H. discriminate H.
Qed.
Lemma GB_snoc K ty c : GB K -> (forall g', c = MC_Global g' -> N.to_nat g' < length K) -> GB (K ++ [(ty, Some c)]).
Proof.
  intros HK Hc p ty' g' H. destruct (Nat.lt_ge_cases p (length K)) as [L|L].
  - rewrite nth_error_app1 in H by exact L. exact (HK _ _ _ H).
  - rewrite nth_error_app2 in H by exact L. destruct (p - length K) as [|k] eqn:Ek; [|destruct k; discriminate H].
    cbn in H. inversion H; subst. specialize (Hc g' eq_refl). lia.
Qed.

Lemma parse_globals_GB : forall l m ids m' ids',
  ii_globals ids = iota (length (items (m_globals m))) -> (exists n, ii_funcs ids = iota n) ->
  parse_globals m ids l = POk (m', ids') -> GB (K_globals m) -> GB (K_globals m').
Proof.
  induction l as [|[g c] r IH]; intros m ids m' ids' Hg Hf E HK; cbn [parse_globals] in E.
  - inversion E; subst. exact HK.
  - pinv E as init Ei. wcbn. refine (IH _ _ _ _ _ _ E _).
    + wcbn. rewrite Hg. unfold anext, next_id. rewrite app_length. cbn [length]. rewrite Nat.add_1_r, iota_S. reflexivity.
    + wcbn. exact Hf.
    + unfold K_globals. wcbn. rewrite map_app. cbn [map]. unfold gcore at 2. rewrite attr_global_local_kind.
      apply GB_snoc; [exact HK|]. intros g' ->. fold (K_globals m). unfold K_globals. rewrite map_length.
      destruct c; cbn [eval_const] in Ei; try discriminate Ei; try (inversion Ei; fail).
      * pinv Ei as rg Erg. apply of_opt_err_ok in Erg. rewrite Hg in Erg. unfold nth_N in Erg. apply iota_nth_inv in Erg.
        destruct Erg as [-> Hlt]. inversion Ei; subst. rewrite N2Nat.id in *. exact Hlt.
      * pinv Ei as rg Erg. inversion Ei.
Qed.

Lemma parse_sec_GB s sec s' : ids_consistent (ps_m s) (ps_ids s) -> parse_sec s sec = POk s' ->
  GB (K_globals (ps_m s)) -> GB (K_globals (ps_m s')).
Proof.
  intros Hid E HK.
  assert (Hgen : (forall x, In x (sec_globals sec) -> snd x = None) -> GB (K_globals (ps_m s'))).
  { intros Hn. destruct (parse_sec_GES _ _ _ Hid E) as (G & _). rewrite G. apply GB_app_none; assumption. }
  destruct sec; try (apply Hgen; cbn [sec_globals]; intros x Hx; destruct Hx; fail).
  - apply Hgen. cbn [sec_globals]. intros x Hx. apply in_map_iff in Hx. destruct Hx as (g & <- & _). reflexivity.
  - clear Hgen. unfold parse_sec in E. pinv E as x Ex. destruct x as [m1 i1]. inversion E; subst; clear E. wcbn.
    eapply parse_globals_GB; [| |exact Ex|exact HK].
    + unfold ids_consistent in Hid. tauto.
    + unfold ids_consistent in Hid. decompose [and] Hid. eauto.
Qed.
Lemma parse_secs_GB : forall w s s', ids_consistent (ps_m s) (ps_ids s) -> parse_secs s w = POk s' ->
  GB (K_globals (ps_m s)) -> GB (K_globals (ps_m s')).
Proof.
  induction w as [|x r IH]; intros s s' Hid E HK; cbn [parse_secs] in E; [inversion E; subst; exact HK|].
  pinv E as s1 E1. pose proof (parse_sec_idc _ _ _ Hid E1) as Hid1. apply (IH _ _ Hid1 E). exact (parse_sec_GB _ _ _ Hid E1 HK).
Qed.
Theorem parseM_GB : forall cf ver w s, parseM cf ver w = POk s -> GB (K_globals (ps_m s)).
Proof.
  intros cf ver w s E. destruct (parseM_KK _ _ _ _ E) as [s1 [E1 EK]]. unfold KK in EK. injection EK; intros.
  replace (K_globals (ps_m s)) with (K_globals (ps_m s1)) by congruence.
  apply (parse_secs_GB w (pst0 cf) s1 (idc_empty cf) E1). exact GB_nil.
Qed.
Theorem parsed_no_self_ref : forall cf ver w s, parseM cf ver w = POk s -> no_self_ref (ps_m s).
Proof.
  intros cf ver w s E id g g' Hin. unfold local_globals in Hin. apply in_flat_map in Hin. destruct Hin as ([id0 gl] & Hin & Hk).
  cbn [fst snd] in Hk. destruct (gl_kind gl) as [i|c] eqn:Ek; [destruct Hk|]. destruct Hk as [Hk|[]]. inversion Hk; subst id0 gl c; clear Hk.
  apply aiter_In_nth in Hin. pose proof (parseM_GB _ _ _ _ E (N.to_nat id) (gen_emit_global_local g) g') as HB.
  unfold K_globals in HB. rewrite nth_error_map, Hin in HB. cbn [option_map] in HB. unfold gcore in HB. rewrite Ek in HB.
  specialize (HB eq_refl). intros ->. lia.
Qed.

(* ====================================================================================== *)
(* O. V1 for the stream emitted from a PARSED module, modulo elem_ok / data_ok per segment    *)
(* ====================================================================================== *)
Theorem emitted_valid_b_parsed : forall cf ver w s1 ilen e1, parseM cf ver w = POk s1 -> emitM (ps_m s1) ilen [] = Ok e1 ->
  (forall pre l post, em_secs e1 = pre ++ S_Elems l :: post -> forallb (elem_ok (ctx_after pre)) l = true) ->
  (forall pre l post, em_secs e1 = pre ++ S_Data l :: post -> forallb (data_ok (ctx_after pre)) l = true) ->
  valid_from_b ctx0 (em_secs e1) = true.
Proof.
  intros cf ver w s1 ilen e1 HP HE Hel Hd. apply (emitted_valid_b_partial4 _ _ _ HE (parsed_no_self_ref _ _ _ _ HP) Hel Hd).
Qed.

Print Assumptions valid_from_b_split.
Print Assumptions emitted_order_ok.
Print Assumptions emitted_bodies_count.
Print Assumptions emitted_valid_b_reduce.
Print Assumptions imports_pay.
Print Assumptions funcs_pay.
Print Assumptions emitted_valid_b_partial.
Print Assumptions sizes_of_payloads.
Print Assumptions start_pay.
Print Assumptions exports_pay.
Print Assumptions emitted_valid_b_partial2.
Print Assumptions data_pay.
Print Assumptions emitted_valid_b_partial3.
Print Assumptions emitted_valid_stream.
Print Assumptions second_parse_total.
Print Assumptions globals_pay.
Print Assumptions emitted_valid_b_partial4.
Print Assumptions parsed_no_self_ref.
Print Assumptions emitted_valid_b_parsed.
