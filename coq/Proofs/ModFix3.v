(* C08, module level, section kind TYPES (and the type index map).
   T1 emitted_types_sorted_distinct : the type section a parsed module emits is strictly sorted (sorted + duplicate free)
   T2 reparse_types_arena           : parsing it back gives ids 0..n-1 in that order
   T3 fix_types                     : the second round trip reproduces the type section
   T4 types_identity                : the renumbering of the second round trip is the identity on types *)
From Coq Require Import List NArith ZArith Bool Arith Lia Permutation Sorted.
Import ListNotations.
From WV Require Import Gen.Ops Model.Common Model.IR Model.Arena Model.ModuleM Model.ParseM Model.EmitM.
From WV Require Import Proofs.Arena Proofs.Order Proofs.IndexMaps Proofs.Names Proofs.Totality Proofs.Structure
                       Proofs.ParsedWf Proofs.Structure2 Proofs.SortKeys Proofs.Renumbering Proofs.ModFix.
Local Open Scope nat_scope.

Notation rho := WV.Proofs.Structure.rho.
Notation sorted_types := WV.Proofs.IndexMaps.emitted_types.     (* sort_types (filter non-entry (live_types m)) *)
Notation unsorted_types := WV.Proofs.SortKeys.emitted_types.    (* filter non-entry (live_types m) *)

(* ---------------------------------------------------------------- the order on (params, results) *)
Definition sig := (list valty * list valty)%type.
Definition mkty (t : sig) : mtype := {| ty_params := fst t; ty_results := snd t; ty_entry := false; ty_name := None |}.
Definition sig_le (a b : sig) : Prop := ty_le (mkty a) (mkty b) = true.

Lemma ty_le_key (a b : N * mtype) : ty_le (snd a) (snd b) = ty_le (mkty (ty_key a)) (mkty (ty_key b)).
Proof. reflexivity. Qed.
Lemma sig_le_antisym a b : sig_le a b -> sig_le b a -> a = b.
Proof.
  intros H1 H2. destruct (ty_le_antisym_key _ _ H1 H2) as [P R]. destruct a, b. cbn in P, R. congruence.
Qed.
Lemma SS_map {A B} (f : A -> B) (R : A -> A -> Prop) (R' : B -> B -> Prop) :
  (forall a b, R a b -> R' (f a) (f b)) -> forall l, StronglySorted R l -> StronglySorted R' (map f l).
Proof.
  intros H l S. induction S as [|a l S IH F]; cbn [map]; constructor; [exact IH|].
  rewrite Forall_forall in *. intros y Hy. apply in_map_iff in Hy. destruct Hy as (x & <- & Hx). apply H, F, Hx.
Qed.

(* two sorted duplicate-free lists with the same elements are equal *)
Lemma sorted_unique : forall l1 l2 : list sig,
  StronglySorted sig_le l1 -> StronglySorted sig_le l2 -> NoDup l1 -> NoDup l2 ->
  (forall x, In x l1 <-> In x l2) -> l1 = l2.
Proof.
  induction l1 as [|a1 r1 IH]; intros l2 S1 S2 N1 N2 HE.
  - destruct l2 as [|a2 r2]; [reflexivity|]. exfalso. apply (proj2 (HE a2)). left; reflexivity.
  - destruct l2 as [|a2 r2]; [exfalso; apply (proj1 (HE a1)); left; reflexivity|].
    inversion S1 as [|? ? S1' F1]; subst. inversion S2 as [|? ? S2' F2]; subst.
    inversion N1 as [|? ? NI1 N1']; subst. inversion N2 as [|? ? NI2 N2']; subst.
    rewrite Forall_forall in F1, F2.
    assert (E : a1 = a2).
    { destruct (proj1 (HE a1) (or_introl eq_refl)) as [E|I1]; [congruence|].
      destruct (proj2 (HE a2) (or_introl eq_refl)) as [E|I2]; [congruence|].
      apply sig_le_antisym; [apply F1, I2|apply F2, I1]. }
    subst a2. f_equal. apply IH; auto. intros x. split; intros Hx.
    + destruct (proj1 (HE x) (or_intror Hx)) as [E|I]; [subst x; contradiction|exact I].
    + destruct (proj2 (HE x) (or_intror Hx)) as [E|I]; [subst x; contradiction|exact I].
Qed.

(* ---------------------------------------------------------------- the emitted type section *)
Lemma dw_custom_nil : dw_custom [].
Proof. intros s []. Qed.

Lemma out_types_keys m ilen e : emitM m ilen [] = Ok e ->
  flat_map types_of (em_secs e) = map ty_key (sorted_types m).
Proof.
  intros He. destruct (out_decls _ _ _ _ He dw_custom_nil) as (s_ty & x1 & s_im & x2 & s_fn & x3 & Ety & _ & _ & _ & HO).
  unfold out_types in HO. rewrite HO, (emit_types_decl _ _ _ _ Ety). reflexivity.
Qed.

Lemma sorted_types_item m id ty : In (id, ty) (sorted_types m) ->
  nth_error (items (Arena.arena (m_types m))) (N.to_nat id) = Some ty /\ ty_entry ty = false.
Proof.
  intros En. unfold WV.Proofs.IndexMaps.emitted_types in En. eapply Permutation_in in En; [|apply sort_types_perm].
  apply filter_In in En. destruct En as [En Hne]. cbn [snd] in Hne. split.
  - unfold live_types, aset_iter in En. apply (aiter_In_nth (Arena.arena (m_types m))). exact En.
  - destruct (ty_entry ty); [discriminate|reflexivity].
Qed.

(* T1 *)
Theorem emitted_types_sorted_distinct : forall cf ver w s1 ilen e1,
  parseM cf ver w = POk s1 -> emitM (ps_m s1) ilen [] = Ok e1 ->
  StronglySorted sig_le (flat_map types_of (em_secs e1)) /\ NoDup (flat_map types_of (em_secs e1)).
Proof.
  intros cf ver w s1 ilen e1 Hp He. rewrite (out_types_keys _ _ _ He). split.
  - apply (SS_map ty_key (fun a b => ty_le (snd a) (snd b) = true)); [|apply sort_types_sorted].
    intros a b H. unfold sig_le. rewrite <- ty_le_key. exact H.
  - eapply Permutation_NoDup; [apply Permutation_sym, Permutation_map, sort_types_perm|].
    apply (parsed_types_keys_NoDup _ _ _ _ Hp).
Qed.

(* the emitted type section has the same ELEMENTS as the input's type sections (any round trip) *)
Lemma out_types_elems : forall cf ver w s ilen e,
  parseM cf ver w = POk s -> emitM (ps_m s) ilen [] = Ok e ->
  forall t, In t (flat_map types_of w) <-> In t (flat_map types_of (em_secs e)).
Proof.
  intros cf ver w s ilen e Hp He t. rewrite (out_types_keys _ _ _ He).
  destruct (parseM_sigs _ _ _ _ Hp) as [[HL HT] _]. split.
  - intros Hin. apply In_nth_error in Hin. destruct Hin as [k Hk].
    destruct (HT _ _ Hk) as (id & ty & H1 & H2 & (P1 & P2 & P3)).
    assert (G : types_get (ps_m s) id = Some ty).
    { unfold types_get. rewrite aset_index_nodead; [exact H2|]. apply (parseM_types_wf _ _ _ _ Hp). }
    pose proof (emitted_types_In _ _ _ G P3) as Hi. apply in_map_iff in Hi. destruct Hi as ([id' ty'] & Ei & Hi).
    cbn [fst] in Ei. subst id'. destruct (sorted_types_item _ _ _ Hi) as [H2' _]. rewrite H2 in H2'. inversion H2'; subst ty'.
    apply in_map_iff. exists (id, ty). split; [|exact Hi]. unfold ty_key. cbn [snd]. rewrite P1, P2. destruct t; reflexivity.
  - intros Hin. apply in_map_iff in Hin. destruct Hin as ([id ty] & Ek & Hin).
    destruct (sorted_types_item _ _ _ Hin) as [H2 P3].
    pose proof (parseM_TE _ _ _ _ Hp _ _ H2 P3) as Hi. rewrite N2Nat.id in Hi.
    apply In_nth_error in Hi. destruct Hi as [k Hk].
    destruct (nth_error (flat_map types_of w) k) as [t'|] eqn:Et.
    + destruct (HT _ _ Et) as (id' & ty' & H1' & H2' & (P1 & P2 & _)). rewrite Hk in H1'. inversion H1'; subst id'.
      rewrite H2 in H2'. inversion H2'; subst ty'. unfold ty_key in Ek. cbn [snd] in Ek. rewrite P1, P2 in Ek.
      eapply nth_error_In. rewrite Et. f_equal. rewrite <- Ek. destruct t'; reflexivity.
    + apply nth_error_None in Et. assert (k < length (ii_types (ps_ids s))) by (apply nth_error_Some; congruence). lia.
Qed.

(* T3 *)
Theorem fix_types : forall cf ver w ilen s1 e1 s2 e2, two_trips cf ver w ilen s1 e1 s2 e2 ->
  flat_map types_of (em_secs e2) = flat_map types_of (em_secs e1).
Proof.
  intros cf ver w ilen s1 e1 s2 e2 (Hp1 & He1 & Hp2 & He2).
  destruct (emitted_types_sorted_distinct _ _ _ _ _ _ Hp1 He1) as [S1 N1].
  destruct (emitted_types_sorted_distinct _ _ _ _ _ _ Hp2 He2) as [S2 N2].
  apply sorted_unique; auto. intros x. symmetry. apply (out_types_elems _ _ _ _ _ _ Hp2 He2).
Qed.

(* T4 *)
Theorem types_identity : forall cf ver w ilen s1 e1 s2 e2, two_trips cf ver w ilen s1 e1 s2 e2 ->
  rho_id s2 e2 S_type.
Proof.
  intros cf ver w ilen s1 e1 s2 e2 HT2. pose proof (fix_types _ _ _ _ _ _ _ _ HT2) as HF.
  destruct HT2 as (Hp1 & He1 & Hp2 & He2). intros i Hi.
  destruct (emitted_types_sorted_distinct _ _ _ _ _ _ Hp1 He1) as [_ N1].
  destruct (parseM_sigs _ _ _ _ Hp2) as [[HL HT] _]. cbn [ids_space] in Hi.
  destruct (nth_error (flat_map types_of (em_secs e1)) (N.to_nat i)) as [t|] eqn:Et; [|apply nth_error_None in Et; lia].
  destruct (HT _ _ Et) as (id & ty & H1 & H2 & (P1 & P2 & P3)).
  edestruct (rho_type_total cf ver (em_secs e1) s2 ilen [] e2) as (j & Hj & _); [exact Hp2|exact He2|exact Hi|].
  rewrite Hj. pose proof Hj as Hu. apply rho_type_unfold in Hu. destruct Hu as (id' & H1' & Hg).
  rewrite H1 in H1'. inversion H1'; subst id'.
  destruct (emit_type_decl _ _ _ _ He2 dw_custom_nil _ _ Hg) as (ty' & H2' & HO).
  rewrite H2 in H2'. inversion H2'; subst ty'. unfold out_types in HO. rewrite HF, P1, P2 in HO.
  assert (E : N.to_nat i = N.to_nat j).
  { apply (proj1 (NoDup_nth_error _) N1); [apply nth_error_Some; congruence|]. rewrite Et, HO. destruct t; reflexivity. }
  apply N2Nat.inj in E. congruence.
Qed.

(* ---------------------------------------------------------------- T2: parsing the emitted type section back *)
Lemma types_insert_fresh m t m1 id : types_wf (m_types m) ->
  (forall i v, nth_error (items (Arena.arena (m_types m))) i = Some v -> mtype_eqb t v = false) ->
  types_insert m t = (m1, id) ->
  id = N.of_nat (length (items (Arena.arena (m_types m)))) /\
  items (Arena.arena (m_types m1)) = items (Arena.arena (m_types m)) ++ [t].
Proof.
  intros [Hd Ha] Fr E. unfold types_insert, insert in E.
  destruct (lookup mtype_eqb (already (m_types m)) t) as [i|] eqn:El.
  - exfalso. destruct (lookup_In_eqb _ _ _ El) as [k [Hin He]]. destruct (Ha _ _ Hin) as [k' [Hn Hk]].
    assert (X : mtype_eqb t k' = true).
    { eapply mtype_eqb_trans; [apply mtype_eqb_sym; exact He|exact Hk]. }
    rewrite (Fr _ _ Hn) in X. discriminate.
  - wcbn. inversion E; subst; clear E. wcbn. unfold next_id. split; reflexivity.
Qed.

Lemma parse_types_fresh : forall ts m ids m' ids', types_wf (m_types m) -> NoDup ts ->
  (forall t i v, In t ts -> nth_error (items (Arena.arena (m_types m))) i = Some v -> mtype_eqb (mkty t) v = false) ->
  parse_types m ids ts = (m', ids') ->
  ii_types ids' = ii_types ids ++ map N.of_nat (seq (length (items (Arena.arena (m_types m)))) (length ts)).
Proof.
  induction ts as [|[ps rs] r IH]; intros m ids m' ids' W ND Fr E; cbn [parse_types] in E.
  - inversion E; subst. cbn. rewrite app_nil_r. reflexivity.
  - destruct (types_insert m _) as [m1 id] eqn:Et.
    inversion ND as [|? ? NI ND']; subst.
    destruct (types_insert_fresh _ _ _ _ W (fun i v => Fr (ps, rs) i v (or_introl eq_refl)) Et) as [Eid Eit].
    destruct (types_insert_spec _ _ _ _ W Et) as [W1 _].
    apply IH in E; [|exact W1|exact ND'|].
    + rewrite E. wcbn. rewrite Eit, app_length, <- app_assoc. cbn [length seq map app]. rewrite Nat.add_1_r, Eid. reflexivity.
    + intros t i v Hin Hn. rewrite Eit in Hn. apply nth_snoc in Hn. destruct Hn as [Hn|[_ ->]].
      * apply (Fr t i v (or_intror Hin) Hn).
      * destruct (mtype_eqb (mkty t) _) eqn:Eq; [|reflexivity]. exfalso. apply NI.
        apply mtype_eqb_spec in Eq. cbn in Eq. destruct Eq as (Q1 & Q2 & _). destruct t as [a b]. cbn in Q1, Q2. subst. exact Hin.
Qed.

Lemma parse_secs_no_types : forall w s s', (forall ts, ~ In (S_Types ts) w) -> parse_secs s w = POk s' ->
  m_types (ps_m s') = m_types (ps_m s) /\ ii_types (ps_ids s') = ii_types (ps_ids s).
Proof.
  induction w as [|x r IH]; intros s s' NT E; cbn [parse_secs] in E.
  - inversion E; subst. split; reflexivity.
  - pinv E as s1 E1. apply IH in E; [|intros ts H; apply (NT ts); right; exact H]. destruct E as [Q1 Q2].
    pose proof (parse_sec_frameB _ _ _ E1) as [F _]. destruct x; try (destruct F; split; congruence).
    exfalso. apply (NT ts). left; reflexivity.
Qed.

(* the emitted stream: at most one type section, at the front *)
Lemma emitted_types_front m ilen e : emitM m ilen [] = Ok e ->
  exists tail, (forall ts, ~ In (S_Types ts) tail) /\
    (em_secs e = tail \/ em_secs e = S_Types (map ty_key (sorted_types m)) :: tail).
Proof.
  intros He. emitM_parts2 He.
  pose proof (emit_imports_tag _ _ _ _ Eim) as T1.
  pose proof (emit_func_section_tag _ _ _ _ Efn) as T2. pose proof (emit_tables_tag m x3) as T3.
  pose proof (emit_memories_tag m x4) as T4.
  pose proof (emit_globals_tag _ _ _ _ Egl) as T5. pose proof (emit_exports_tag _ _ _ Eex) as T6.
  pose proof (emit_start_tag _ _ _ Est) as T7. pose proof (emit_elements_tag _ _ _ _ Eel) as T8.
  pose proof (emit_data_count_tag _ _ _ _ Edc) as T9. pose proof (emit_code_tag _ _ _ _ _ _ Eco) as T10.
  pose proof (emit_data_tag _ _ _ Eda) as T11.
  match type of Esecs with _ = _ ++ ?t => set (tail := t) in * end.
  exists tail. split.
  - intros ts Hin. subst tail. rewrite !in_app_iff in Hin.
    repeat match type of Hin with In _ _ \/ _ => destruct Hin as [Hin|Hin] end;
      try (match goal with T : tagged _ ?l, Hi : In _ ?l |- _ => pose proof (tagged_in _ _ _ _ T Hi eq_refl); discriminate end).
    destruct (Erest _ Hin) as [H|[]]. discriminate.
  - clearbody tail. unfold emit_types in Ety. fold (sorted_types m) in Ety.
    destruct (sorted_types m) as [|p r]; inversion Ety; subst; [left|right]; exact Esecs.
Qed.

(* T2, first half: the type index map of the second parse is the identity vector *)
Theorem reparse_types_ids : forall cf ver w s1 ilen e1 s2,
  parseM cf ver w = POk s1 -> emitM (ps_m s1) ilen [] = Ok e1 -> parseM cf ver (em_secs e1) = POk s2 ->
  ii_types (ps_ids s2) = iota (length (flat_map types_of (em_secs e1))).
Proof.
  intros cf ver w s1 ilen e1 s2 Hp1 He1 Hp2.
  destruct (parseM_sigs _ _ _ _ Hp2) as [[HL _] _]. rewrite <- HL.
  destruct (parseM_fty _ _ _ _ Hp2) as (s' & Es' & _ & ->).
  destruct (emitted_types_sorted_distinct _ _ _ _ _ _ Hp1 He1) as [_ N1]. rewrite (out_types_keys _ _ _ He1) in N1.
  destruct (emitted_types_front _ _ _ He1) as (tail & NT & [Esec|Esec]); rewrite Esec in Es'.
  - destruct (parse_secs_no_types _ _ _ NT Es') as [_ ->]. reflexivity.
  - cbn [parse_secs] in Es'. pinv Es' as sa Ea. destruct (parse_secs_no_types _ _ _ NT Es') as [_ ->].
    unfold parse_sec in Ea. destruct (parse_types _ _ _) as [m1 i1] eqn:Ep. inversion Ea; subst sa; clear Ea. wcbn.
    apply parse_types_fresh in Ep; [|apply types_wf_empty|exact N1|intros t i v _ Hn; destruct i; discriminate].
    rewrite Ep. cbn [pst0 ps_ids ps_m empty_i2ids ii_types app empty_wir m_types aset_empty Arena.arena empty items length].
    rewrite (map_length N.of_nat), seq_length. reflexivity.
Qed.

Lemma SS_map_filter {A B} (f : A -> B) (R : B -> B -> Prop) (p : A -> bool) : forall l,
  StronglySorted R (map f l) -> StronglySorted R (map f (filter p l)).
Proof.
  induction l as [|a l IH]; cbn [map filter]; intros S; [constructor|].
  inversion S as [|? ? S' F]; subst. destruct (p a); cbn [map]; [|apply IH, S'].
  constructor; [apply IH, S'|]. rewrite Forall_forall in *. intros y Hy. apply F.
  apply in_map_iff in Hy. destruct Hy as (x & <- & Hx). apply filter_In in Hx. apply in_map, Hx.
Qed.
Lemma lt_sorted_unique : forall l1 l2 : list N,
  StronglySorted N.lt l1 -> StronglySorted N.lt l2 -> (forall x, In x l1 <-> In x l2) -> l1 = l2.
Proof.
  induction l1 as [|a1 r1 IH]; intros l2 S1 S2 HE.
  - destruct l2 as [|a2 r2]; [reflexivity|]. exfalso. apply (proj2 (HE a2)). left; reflexivity.
  - destruct l2 as [|a2 r2]; [exfalso; apply (proj1 (HE a1)); left; reflexivity|].
    inversion S1 as [|? ? S1' F1]; subst. inversion S2 as [|? ? S2' F2]; subst.
    rewrite Forall_forall in F1, F2.
    assert (E : a1 = a2).
    { destruct (proj1 (HE a1) (or_introl eq_refl)) as [E|I1]; [congruence|].
      destruct (proj2 (HE a2) (or_introl eq_refl)) as [E|I2]; [congruence|].
      pose proof (F1 _ I2). pose proof (F2 _ I1). lia. }
    subst a2. f_equal. apply IH; auto. intros x. split; intros Hx.
    + destruct (proj1 (HE x) (or_intror Hx)) as [E|I]; [subst x; pose proof (F1 _ Hx); lia|exact I].
    + destruct (proj2 (HE x) (or_intror Hx)) as [E|I]; [subst x; pose proof (F2 _ Hx); lia|exact I].
Qed.
Lemma list_eq_nth {A} : forall l1 l2 : list A, (forall k, nth_error l1 k = nth_error l2 k) -> l1 = l2.
Proof.
  induction l1 as [|a l1 IH]; intros [|b l2] H; [reflexivity|specialize (H 0); discriminate|specialize (H 0); discriminate|].
  pose proof (H 0) as H0. cbn in H0. inversion H0; subst. f_equal. apply IH. intros k. apply (H (S k)).
Qed.
Lemma live_types_sorted m : StronglySorted N.lt (map fst (live_types m)).
Proof.
  unfold live_types. rewrite map_map. cbn [fst]. rewrite <- (map_map fst N.of_nat).
  apply (SS_map N.of_nat lt); [intros a b; lia|]. unfold aset_iter. apply iter_creation_order.
Qed.

(* T2 *)
Theorem reparse_types_arena : forall cf ver w s1 ilen e1 s2,
  parseM cf ver w = POk s1 -> emitM (ps_m s1) ilen [] = Ok e1 -> parseM cf ver (em_secs e1) = POk s2 ->
  map ty_key (filter (fun p => negb (ty_entry (snd p))) (live_types (ps_m s2))) = flat_map types_of (em_secs e1) /\
  map fst (filter (fun p => negb (ty_entry (snd p))) (live_types (ps_m s2))) = iota (length (flat_map types_of (em_secs e1))) /\
  ii_types (ps_ids s2) = iota (length (flat_map types_of (em_secs e1))).
Proof.
  intros cf ver w s1 ilen e1 s2 Hp1 He1 Hp2.
  pose proof (reparse_types_ids _ _ _ _ _ _ _ Hp1 He1 Hp2) as Eids.
  destruct (parseM_sigs _ _ _ _ Hp2) as [[HL HT] _].
  destruct (parseM_types_wf _ _ _ _ Hp2) as [Hd _].
  set (T1 := flat_map types_of (em_secs e1)) in *. set (m2 := ps_m s2) in *.
  set (L := filter (fun p => negb (ty_entry (snd p))) (live_types m2)).
  assert (InL : forall id ty, In (id, ty) L <->
            (nth_error (items (Arena.arena (m_types m2))) (N.to_nat id) = Some ty /\ ty_entry ty = false)).
  { intros id ty. unfold L. rewrite filter_In. cbn [snd]. rewrite negb_true_iff.
    rewrite <- (aset_index_nodead _ _ Hd), <- live_types_in, N2Nat.id. tauto. }
  assert (EF : map fst L = iota (length T1)).
  { apply lt_sorted_unique; [apply SS_map_filter, live_types_sorted|apply iota_sorted|]. intros x. split.
    - intros Hx. apply in_map_iff in Hx. destruct Hx as ([id ty] & <- & Hx). cbn [fst]. apply InL in Hx. destruct Hx as [H2 P3].
      pose proof (parseM_TE _ _ _ _ Hp2 _ _ H2 P3) as Hi. rewrite N2Nat.id, Eids in Hi. exact Hi.
    - intros Hx. rewrite <- Eids in Hx. apply In_nth_error in Hx. destruct Hx as [k Hk].
      destruct (nth_error T1 k) as [t|] eqn:Et.
      + destruct (HT _ _ Et) as (id & ty & H1 & H2 & (_ & _ & P3)). rewrite Hk in H1. inversion H1; subst id.
        apply in_map_iff. exists (x, ty). split; [reflexivity|]. apply InL. auto.
      + apply nth_error_None in Et. assert (k < length (ii_types (ps_ids s2))) by (apply nth_error_Some; congruence). lia. }
  split; [|split; [exact EF|exact Eids]].
  apply list_eq_nth. intros k. rewrite nth_error_map. destruct (nth_error L k) as [[id ty]|] eqn:EL; cbn [option_map].
  - assert (Hf : nth_error (map fst L) k = Some id) by (rewrite nth_error_map, EL; reflexivity).
    rewrite EF in Hf. apply iota_nth_inv in Hf. destruct Hf as [-> Lk].
    apply nth_error_In, InL in EL. destruct EL as [H2 _].
    destruct (nth_error T1 k) as [t|] eqn:Et; [|apply nth_error_None in Et; lia].
    destruct (HT _ _ Et) as (id' & ty' & H1' & H2' & (P1 & P2 & _)).
    rewrite Eids, iota_nth in H1' by exact Lk. inversion H1'; subst id'. rewrite H2 in H2'. inversion H2'; subst ty'.
    unfold ty_key. cbn [snd]. rewrite P1, P2. destruct t; reflexivity.
  - symmetry. apply nth_error_None. apply nth_error_None in EL.
    assert (length L = length T1) by (rewrite <- (map_length fst), EF; apply iota_length). lia.
Qed.

(* corollary of T2 + T4: the emit-time type index of type id k (k < n) is k *)
Corollary types_get_idx : forall cf ver w ilen s1 e1 s2 e2, two_trips cf ver w ilen s1 e1 s2 e2 ->
  forall id, N.to_nat id < length (flat_map types_of (em_secs e1)) -> get_idx (em_x2i e2) S_type id = Ok id.
Proof.
  intros cf ver w ilen s1 e1 s2 e2 HT2 id Hid. pose proof (types_identity _ _ _ _ _ _ _ _ HT2) as RI.
  destruct HT2 as (Hp1 & He1 & Hp2 & He2). pose proof (reparse_types_ids _ _ _ _ _ _ _ Hp1 He1 Hp2) as Eids.
  specialize (RI id). cbn [ids_space] in RI. rewrite Eids, iota_length in RI. specialize (RI Hid).
  unfold WV.Proofs.Structure.rho in RI. cbn [ids_space] in RI. rewrite Eids, iota_nth, N2Nat.id in RI by exact Hid. exact RI.
Qed.

(* the emit-time type map of the second trip lists the ids 0..n-1 in order *)
Corollary types_x2i_ids : forall cf ver w ilen s1 e1 s2 e2, two_trips cf ver w ilen s1 e1 s2 e2 ->
  map fst (xi_types (em_x2i e2)) = iota (length (flat_map types_of (em_secs e1))).
Proof.
  intros cf ver w ilen s1 e1 s2 e2 HT2. pose proof (types_get_idx _ _ _ _ _ _ _ _ HT2) as G.
  pose proof (fix_types _ _ _ _ _ _ _ _ HT2) as HF. destruct HT2 as (Hp1 & He1 & Hp2 & He2).
  destruct (emit_order_types _ _ _ _ He2) as [Eo Wt].
  assert (Len : length (map fst (xi_types (em_x2i e2))) = length (flat_map types_of (em_secs e1))).
  { rewrite Eo, <- HF, (out_types_keys _ _ _ He2), !map_length. reflexivity. }
  apply list_eq_nth. intros k. destruct (lt_dec k (length (flat_map types_of (em_secs e1)))) as [Lk|Ge].
  - rewrite iota_nth by exact Lk. specialize (G (N.of_nat k)). rewrite Nat2N.id in G. specialize (G Lk).
    apply (x2i_positions _ S_type _ _ Wt) in G. rewrite Nat2N.id in G. exact G.
  - rewrite (proj2 (nth_error_None _ _)) by lia. symmetry. apply nth_error_None. rewrite iota_length. lia.
Qed.

Print Assumptions emitted_types_sorted_distinct.
Print Assumptions reparse_types_arena.
Print Assumptions fix_types.
Print Assumptions types_identity.
Print Assumptions types_get_idx.
Print Assumptions types_x2i_ids.
