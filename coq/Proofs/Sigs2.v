(* C04 / C19: (A) every input function of a parsed module has an emitted index, so the signature theorem
   of Proofs/Structure2.v holds without that premise, and input index -> emitted index is a bijection of
   [0, number of functions); (B) the emit-time LOCAL maps recorded in the emitted record are the
   numbering computed by [emit_locals]. *)
From Coq Require Import List NArith ZArith Bool Arith Lia Permutation.
Import ListNotations.
From WV Require Import Gen.Ops Model.Common Model.IR Model.Arena Model.Traversal Model.EmitFn Model.Locals
                       Model.ParseFn Model.ModuleM Model.ParseM Model.EmitM Gen.Attrs.
From WV Require Import Proofs.Arena Proofs.Order Proofs.IndexMaps Proofs.Names Proofs.Totality Proofs.TotalityBodies
                       Proofs.CustomsCfg Proofs.Locals2 Proofs.Structure Proofs.ParsedWf Proofs.Structure2
                       Proofs.Renumbering Proofs.Locals3.
Local Open Scope nat_scope.

(* ====================================================================================== *)
(* A. functions                                                                             *)
(* ====================================================================================== *)

(* the number of input functions (imported + defined) = the number of type indices the import and
   function payloads of the stream declare *)
Lemma n_in_func_stream cf ver w s : parseM cf ver w = POk s -> n_in s S_func = length (flat_map sec_ftys w).
Proof.
  intros HP. rewrite (n_in_arena _ _ _ _ HP) by discriminate. cbn [arena_len].
  destruct (parseM_sigs _ _ _ _ HP) as [_ HF]. unfold FInv in HF. apply Forall2_length in HF.
  rewrite HF. unfold K_fty. symmetry. apply map_length.
Qed.

Lemma func_idx_rho cf ver w s e i : parseM cf ver w = POk s -> i < length (flat_map sec_ftys w) ->
  rho s e S_func (N.of_nat i) = get_idx (em_x2i e) S_func (N.of_nat i).
Proof.
  intros HP Hi. apply rho_entity_conv; [exact (parseM_ids _ _ _ _ HP)|discriminate|discriminate|].
  rewrite Nat2N.id. fold (n_in s S_func). rewrite (n_in_func_stream _ _ _ _ HP). exact Hi.
Qed.

Theorem parsed_funcs_all_emitted : forall cf ver w s ilen dw e,
  parseM cf ver w = POk s -> emitM (ps_m s) ilen dw = Ok e ->
  forall i, i < length (flat_map sec_ftys w) ->
    exists j, get_idx (em_x2i e) S_func (N.of_nat i) = Ok j /\ N.to_nat j < length (flat_map sec_ftys w).
Proof.
  intros cf ver w s ilen dw e HP HE i Hi.
  destruct (rho_total _ _ _ _ _ _ _ HP HE S_func (N.of_nat i)) as [j [Hj Hlt]]; try discriminate.
  { rewrite Nat2N.id, (n_in_func_stream _ _ _ _ HP). exact Hi. }
  exists j. rewrite <- (func_idx_rho _ _ _ _ e i HP Hi). split; [exact Hj|].
  rewrite <- (n_in_func_stream _ _ _ _ HP). exact Hlt.
Qed.

(* a declared type index of the stream is always in range of the stream's types *)
Lemma parsed_fty_in_range cf ver w s i ti : parseM cf ver w = POk s -> nth_error (flat_map sec_ftys w) i = Some ti ->
  exists t, nth_error (flat_map types_of w) (N.to_nat ti) = Some t.
Proof.
  intros HP Hi. destruct (parseM_sigs _ _ _ _ HP) as [[HL _] HF].
  destruct (Forall2_nth_l _ _ _ _ _ HF Hi) as (c & _ & Hty). unfold nth_N in Hty.
  assert (L : N.to_nat ti < length (flat_map types_of w)) by (rewrite <- HL; apply nth_error_Some; congruence).
  apply nth_error_Some in L. destruct (nth_error (flat_map types_of w) (N.to_nat ti)) as [t|]; [eauto|congruence].
Qed.

(* every input function keeps its signature; no premise about the emit-time map *)
Theorem structure_func_sigs_unconditional : forall cf ver w s ilen dw e,
  parseM cf ver w = POk s -> emitM (ps_m s) ilen dw = Ok e -> dw_custom dw ->
  forall i ti, nth_error (flat_map sec_ftys w) i = Some ti ->
    exists t j tj, nth_error (flat_map types_of w) (N.to_nat ti) = Some t /\
                   get_idx (em_x2i e) S_func (N.of_nat i) = Ok j /\
                   nth_error (out_ftys e) (N.to_nat j) = Some tj /\ nth_error (out_types e) (N.to_nat tj) = Some t.
Proof.
  intros cf ver w s ilen dw e HP HE Hdw i ti Hi.
  destruct (parsed_fty_in_range _ _ _ _ _ _ HP Hi) as [t Ht].
  assert (L : i < length (flat_map sec_ftys w)) by (apply nth_error_Some; congruence).
  destruct (parsed_funcs_all_emitted _ _ _ _ _ _ _ HP HE i L) as (j & Hj & _).
  destruct (structure_func_sigs _ _ _ _ _ _ _ HP HE Hdw i ti t j Hi Ht Hj) as (tj & H1 & H2).
  exists t, j, tj. auto.
Qed.

(* the output declares exactly as many functions as the emit-time function map has entries *)
Lemma out_ftys_length m ilen dw e : emitM m ilen dw = Ok e -> dw_custom dw ->
  length (out_ftys e) = length (emitted_ids e S_func).
Proof.
  intros He Hdw.
  destruct (emitM_x2i _ _ _ _ He) as (fs & Hfs & _ & HXF & _).
  destruct (out_decls _ _ _ _ He Hdw) as (s_ty & x1 & s_im & x2 & s_fn & x3 & Ety & Eim & Efn & HO & _).
  destruct (emit_imports_ftys _ _ _ _ Eim) as (ws & Ews & Fws). apply imports_align in Fws.
  destruct (emit_func_section_ftys _ _ _ _ Efn) as (fs' & tis & Hfs' & Etis & Ftis).
  rewrite Hfs in Hfs'. inversion Hfs'; subst fs'; clear Hfs'.
  unfold emitted_ids. cbn [space_map]. rewrite HXF, number_fst, HO, Ews, Etis, !app_length, map_length.
  apply Forall2_length in Fws. apply Forall2_length in Ftis. lia.
Qed.

(* input function index -> emitted function index is a bijection of [0, n), n = the number of functions of
   the input = the number of functions the output declares *)
Theorem func_renumbering_bijective : forall cf ver w s ilen dw e,
  parseM cf ver w = POk s -> emitM (ps_m s) ilen dw = Ok e -> dw_custom dw ->
  let n := length (flat_map sec_ftys w) in
  let f := fun i : nat => get_idx (em_x2i e) S_func (N.of_nat i) in
  length (out_ftys e) = n /\
  (forall i, i < n -> exists j, f i = Ok j /\ N.to_nat j < n) /\
  (forall i i' j, f i = Ok j -> f i' = Ok j -> i = i') /\
  (forall j, N.to_nat j < n -> exists i, i < n /\ f i = Ok j) /\
  (forall i j, f i = Ok j -> i < n).
Proof.
  intros cf ver w s ilen dw e HP HE Hdw n f. subst n f. cbv beta.
  pose proof (n_in_func_stream _ _ _ _ HP) as Hn.
  assert (W : wf_map (space_map (em_x2i e) S_func)) by (apply (parsed_wf_space _ _ _ _ _ _ _ S_func HP HE); discriminate).
  split; [|split; [|split; [|split]]].
  - rewrite (out_ftys_length _ _ _ _ HE Hdw), <- Hn. apply (emitted_count _ _ _ _ _ _ _ HP HE); discriminate.
  - apply (parsed_funcs_all_emitted _ _ _ _ _ _ _ HP HE).
  - intros i i' j H1 H2. apply (x2i_positions _ _ _ _ W) in H1. apply (x2i_positions _ _ _ _ W) in H2. apply Nat2N.inj. congruence.
  - intros j Hj. rewrite <- Hn in Hj.
    destruct (rho_onto _ _ _ _ _ _ _ HP HE S_func j) as (i & Hi & Hr); try discriminate.
    { rewrite (emitted_count _ _ _ _ _ _ _ HP HE) by discriminate. exact Hj. }
    rewrite Hn in Hi. exists (N.to_nat i). split; [exact Hi|].
    rewrite <- (func_idx_rho _ _ _ _ e (N.to_nat i) HP Hi), N2Nat.id. exact Hr.
  - intros i j H. apply (x2i_positions _ _ _ _ W) in H. apply nth_error_In in H.
    fold (emitted_ids e S_func) in H. apply (emitted_full _ _ _ _ _ _ _ HP HE) in H; try discriminate.
    rewrite Nat2N.id, Hn in H. exact H.
Qed.

(* ====================================================================================== *)
(* B. the emit-time LOCAL maps                                                              *)
(*    The emitted record exposes them twice: [em_fns e] (one [emitted_fn] per emitted local  *)
(*    function: [ef_id], [ef_lmap], [ef_used], the body with its [wb_locals]) and            *)
(*    [xi_locals (em_x2i e)] = the (function id, local map) pairs handed to the custom        *)
(*    sections; [emit_names] reads [ef_lmap] through [find (fun q => fst q =? lid)].          *)
(* ====================================================================================== *)
Lemma xi_locals_push_all S : forall ids x, xi_locals (push_all S ids x) = xi_locals x.
Proof.
  induction ids as [|i r IH]; intros x; cbn [push_all fold_left]; [reflexivity|].
  fold (push_all S r (push_idx x S i)). rewrite IH. unfold push_idx. apply xi_locals_set.
Qed.
Lemma xi_locals_push_imports : forall l x, xi_locals (fold_left push_import l x) = xi_locals x.
Proof.
  induction l as [|i r IH]; intros x; cbn [fold_left]; [reflexivity|]. rewrite IH.
  unfold push_import, push_idx. destruct (im_kind i); apply xi_locals_set.
Qed.

(* what [emit_function] records for function [p] *)
Definition fn_lmap_spec (m : wir) (p : N * mlocalfunc) (ef : emitted_fn) : Prop :=
  ef_id ef = fst p /\
  exists evs, lf_log (snd p) = Ok evs /\
    ef_lmap ef = snd (emit_locals (local_ty_fn m) (lf_args (snd p)) (used_of_log evs)) /\
    wb_locals (ef_body ef) = fst (emit_locals (local_ty_fn m) (lf_args (snd p)) (used_of_log evs)) /\
    ef_used ef = sort_ids (used_of_log evs ++ lf_args (snd p)).

Lemma emit_function_lmap m x ilen id lf ef : emit_function m x ilen id lf = Ok ef -> fn_lmap_spec m (id, lf) ef.
Proof.
  unfold emit_function, fn_lmap_spec. intros H. rinv H as evs Ev. cbn [fst snd].
  destruct (emit_locals (local_ty_fn m) (lf_args lf) (used_of_log evs)) as [decls lmap] eqn:EL.
  destruct (negb (refs_ok x lmap evs)); [discriminate|]. rinv H as st Est. inversion H; subst ef; clear H.
  cbn [ef_id ef_lmap ef_body ef_used wb_locals]. split; [reflexivity|]. exists evs. rewrite EL. cbn [fst snd]. auto.
Qed.

Lemma emit_code_fns m x ilen s x' efs : emit_code m x ilen = Ok (s, x', efs) -> xi_locals x = [] ->
  exists fs, used_local_functions m = Ok fs /\ Forall2 (fn_lmap_spec m) fs efs /\
             xi_locals x' = map (fun ef => (ef_id ef, ef_lmap ef)) efs.
Proof.
  unfold emit_code. intros H X0. rinv H as fs Efs. exists fs. split; [exact Efs|]. clear Efs.
  destruct fs as [|p r].
  - inversion H; subst. split; [constructor|exact X0].
  - rinv H as efs' Eefs. inversion H; subst; clear H. cbn [xi_locals]. split; [|reflexivity].
    apply rmapM_ok_inv in Eefs. eapply Forall2_impl; [|exact Eefs]. intros [id lf] ef Hef. cbn [fst snd] in Hef.
    eapply emit_function_lmap; eauto.
Qed.

Lemma emitM_fns m ilen dw e : emitM m ilen dw = Ok e ->
  exists x s_co, emit_code m x ilen = Ok (s_co, em_x2i e, em_fns e) /\ xi_locals x = [].
Proof.
  intros H. unfold emitM, set_customs_take in H.
  destruct (emit_types m empty_x2i) as [s_ty x1] eqn:E1.
  rinv H as a2 E2. destruct a2 as [s_im x2].
  rinv H as a3 E3. destruct a3 as [s_fn x3].
  destruct (emit_tables m x3) as [s_tb x4] eqn:E4.
  destruct (emit_memories m x4) as [s_me x5] eqn:E5.
  rinv H as a6 E6. destruct a6 as [s_gl x6].
  rinv H as s_ex E7. rinv H as s_st E8.
  rinv H as a9 E9. destruct a9 as [s_el x9].
  rinv H as a10 E10. destruct a10 as [s_dc x10].
  rinv H as a11 E11. destruct a11 as [[s_co x11] efs].
  rinv H as s_da E12. rinv H as s_nm E13. inversion H; subst e; clear H. cbn [em_x2i em_fns].
  exists x10, s_co. split; [exact E11|].
  pose proof (emit_types_x m empty_x2i) as F1. rewrite E1 in F1. cbn [snd] in F1.
  apply emit_imports_x in E2. apply emit_func_section_x in E3. destruct E3 as (fs & _ & E3).
  pose proof (emit_tables_x m x3) as F4. rewrite E4 in F4. cbn [snd] in F4.
  pose proof (emit_memories_x m x4) as F5. rewrite E5 in F5. cbn [snd] in F5.
  apply emit_globals_x in E6. apply emit_elements_x in E9. apply emit_data_count_x in E10.
  assert (X9 : xi_locals x9 = []).
  { rewrite E9, xi_locals_push_all, E6, xi_locals_push_all, F5, xi_locals_push_all, F4, xi_locals_push_all,
            E3, xi_locals_push_all, E2, xi_locals_push_imports, F1, xi_locals_push_all. reflexivity. }
  rewrite E10. destruct (aiter (m_data m)); [exact X9|]. rewrite xi_locals_set. exact X9.
Qed.

(* B1. for every emitted local function the recorded local map IS the numbering [emit_locals] computes from
   the function's parameters and the locals its body uses; the declared runs are the other component *)
Theorem emit_local_map_is_numbering : forall m ilen dw e, emitM m ilen dw = Ok e ->
  exists fs, used_local_functions m = Ok fs /\
    Forall2 (fn_lmap_spec m) fs (em_fns e) /\
    xi_locals (em_x2i e) = map (fun ef => (ef_id ef, ef_lmap ef)) (em_fns e) /\
    map fst (xi_locals (em_x2i e)) = map fst fs /\
    (forall id lf, In (id, lf) fs -> exists f, In (id, f) (aiter (m_funcs m)) /\ fn_kind f = FK_Local lf).
Proof.
  intros m ilen dw e HE. destruct (emitM_fns _ _ _ _ HE) as (x & s_co & Ec & X0).
  destruct (emit_code_fns _ _ _ _ _ _ Ec X0) as (fs & Hfs & F & XL). exists fs.
  split; [exact Hfs|]. split; [exact F|]. split; [exact XL|]. split.
  - rewrite XL, map_map. cbn [fst]. clear -F. induction F as [|p ef fs efs Hp F IH]; [reflexivity|].
    cbn [map]. rewrite IH. destruct Hp as [-> _]. reflexivity.
  - intros id lf Hin. eapply ulf_in; eauto.
Qed.

(*     hence (Proofs/Locals3.v) it is a type-preserving bijection  params ∪ used locals <-> [0, n),
       n = the number of locals of the emitted function, that fixes the parameters.  The premise is that the
       function's parameter ids are pairwise distinct (needed: locals_params_fixed_refuted). *)
Theorem emit_local_map_bijective : forall m p ef, fn_lmap_spec m p ef -> NoDup (lf_args (snd p)) ->
  exists evs, lf_log (snd p) = Ok evs /\
    let ty := local_ty_fn m in let args := lf_args (snd p) in let used := used_of_log evs in
    let lmap := ef_lmap ef in
    let n := length (map ty args ++ expand (wb_locals (ef_body ef))) in
    (forall l, In l args \/ In l used -> exists j, lookup l lmap = Some j /\ (j < N.of_nat n)%N) /\
    (forall l j, lookup l lmap = Some j -> In l args \/ In l used) /\
    (forall l1 l2 j, lookup l1 lmap = Some j -> lookup l2 lmap = Some j -> l1 = l2) /\
    (forall j, (j < N.of_nat n)%N -> exists l, (In l args \/ In l used) /\ lookup l lmap = Some j) /\
    (forall k a, nth_error args k = Some a -> lookup a lmap = Some (N.of_nat k)) /\
    (forall l j, lookup l lmap = Some j ->
       nth_error (map ty args ++ expand (wb_locals (ef_body ef))) (N.to_nat j) = Some (ty l)).
Proof.
  intros m p ef (_ & evs & Hl & H1 & H2 & _) ND. exists evs. split; [exact Hl|]. cbv zeta.
  rewrite H1, H2. apply locals_renaming_consistent; [exact ND|]. apply surjective_pairing.
Qed.

Lemma typed_map_eq (ty : N -> valty) : forall L E, Forall2 (fun id t => valty_code t = valty_code (ty id)) L E -> map ty L = E.
Proof.
  intros L E F. induction F as [|id t L E Ht F IH]; [reflexivity|]. cbn [map]. rewrite IH.
  f_equal. symmetry. apply valty_code_inj. exact Ht.
Qed.

(* B2. looking a local up in the recorded map gives its POSITION in the emitted function's locals:
   [order] lists the parameters first and then the declared locals run by run; the types along [order]
   are exactly the parameter types followed by the expanded declaration *)
Theorem emit_local_map_lookup_is_position : forall m p ef, fn_lmap_spec m p ef ->
  exists evs, lf_log (snd p) = Ok evs /\
    let ty := local_ty_fn m in let args := lf_args (snd p) in
    let order := locals_order ty args (used_of_log evs) in
    firstn (length args) order = args /\
    map ty order = map ty args ++ expand (wb_locals (ef_body ef)) /\
    length (ef_lmap ef) = length order /\
    (forall l j, lookup l (ef_lmap ef) = Some j -> nth_error order (N.to_nat j) = Some l) /\
    (NoDup args -> forall l k, nth_error order k = Some l -> lookup l (ef_lmap ef) = Some (N.of_nat k)).
Proof.
  intros m p ef (_ & evs & Hl & H1 & H2 & _). exists evs. split; [exact Hl|]. cbv zeta.
  set (ty := local_ty_fn m) in *. set (args := lf_args (snd p)) in *. set (used := used_of_log evs) in *.
  assert (E : emit_locals ty args used = (wb_locals (ef_body ef), ef_lmap ef)).
  { rewrite H1, H2. apply surjective_pairing. }
  split; [|split; [|split; [|split]]].
  - unfold locals_order. rewrite firstn_app, firstn_all, Nat.sub_diag. cbn [firstn]. apply app_nil_r.
  - pose proof E as E'. rewrite emit_locals_eq in E'. inversion E' as [[Hd Hm]]. clear E'.
    unfold locals_order. rewrite map_app. f_equal. apply typed_map_eq. apply order_typed.
  - pose proof E as E'. rewrite emit_locals_eq in E'. inversion E' as [[Hd Hm]]. clear E'.
    rewrite combine_length, map_length, seq_length. apply Nat.min_id.
  - intros l j H. eapply lookup_order; eauto.
  - intros ND l k H. eapply order_lookup; eauto.
Qed.

(* the two, for every function of an emitted module *)
Corollary emit_local_maps_all : forall m ilen dw e, emitM m ilen dw = Ok e ->
  forall ef, In ef (em_fns e) ->
    exists id f lf, In (id, f) (aiter (m_funcs m)) /\ fn_kind f = FK_Local lf /\ ef_id ef = id /\
                    In (id, ef_lmap ef) (xi_locals (em_x2i e)) /\ fn_lmap_spec m (id, lf) ef.
Proof.
  intros m ilen dw e HE ef Hin. destruct (emit_local_map_is_numbering _ _ _ _ HE) as (fs & Hfs & F & XL & _ & Hf).
  assert (X : exists p, In p fs /\ fn_lmap_spec m p ef).
  { clear -F Hin. induction F as [|p ef' fs efs Hp F IH]; [destruct Hin|]. destruct Hin as [->|Hin].
    - exists p. split; [left; reflexivity|exact Hp].
    - destruct (IH Hin) as (q & Hq & Hs). exists q. split; [right; exact Hq|exact Hs]. }
  destruct X as ([id lf] & Hp & Hs). destruct (Hf _ _ Hp) as (f & Hf1 & Hf2).
  exists id, f, lf. split; [exact Hf1|]. split; [exact Hf2|]. pose proof Hs as [Hid _]. cbn [fst] in Hid.
  split; [exact Hid|]. split; [|exact Hs]. rewrite XL, <- Hid. apply (in_map (fun ef => (ef_id ef, ef_lmap ef))). exact Hin.
Qed.

(* ====================================================================================== *)
(* C. the premise of B holds after a parse: the parameter ids of every local function of a  *)
(*    parsed module are pairwise distinct (they are fresh consecutive arena ids)             *)
(* ====================================================================================== *)
Definition nlk (k : mfunckind) : Prop := match k with FK_Local _ => False | _ => True end.
Definition NL (m : wir) : Prop := Forall nlk (K_funcs m).

Lemma parse_imports_NL : forall l m ids m' ids', parse_imports m ids l = POk (m', ids') -> NL m -> NL m'.
Proof.
  induction l as [|i r IH]; intros m ids m' ids' E H; cbn [parse_imports] in E; [inversion E; subst; exact H|].
  pinv E as x Ex. destruct x as [m1 ids1]. cbn [fst snd] in E. eapply IH; [exact E|]. clear E IH.
  unfold parse_import in Ex. destruct (wi_kind i).
  - pinv Ex as t Et. wcbn. inversion Ex; subst; clear Ex. unfold NL, K_funcs in *. wcbn. rewrite map_app.
    apply Forall_app. split; [exact H|]. repeat constructor.
  - wcbn. inversion Ex; subst; clear Ex. exact H.
  - wcbn. inversion Ex; subst; clear Ex. exact H.
  - wcbn. inversion Ex; subst; clear Ex. exact H.
Qed.
Lemma parse_funcs_NL : forall l m ids m' ids', parse_funcs m ids l = POk (m', ids') -> NL m -> NL m'.
Proof.
  induction l as [|i r IH]; intros m ids m' ids' E H; cbn [parse_funcs] in E; [inversion E; subst; exact H|].
  pinv E as t Et. wcbn. eapply IH; [exact E|]. clear E IH. unfold NL, K_funcs in *. wcbn.
  destruct (synth _ _ _); wcbn.
  - rewrite upd_map by (intros x; reflexivity). rewrite map_app. apply Forall_app. split; [exact H|]. repeat constructor.
  - rewrite map_app. apply Forall_app. split; [exact H|]. repeat constructor.
Qed.
Lemma parse_sec_NL s sec s' : parse_sec s sec = POk s' -> NL (ps_m s) -> NL (ps_m s').
Proof.
  intros E H. destruct sec;
    try (pose proof (parse_sec_frameB _ _ _ E) as [_ E3]; unfold NL, K_funcs in *; rewrite E3; exact H).
  - unfold parse_sec in E. pinv E as x Ex. destruct x as [m1 i1]. inversion E; subst; clear E. wcbn.
    eapply parse_imports_NL; eauto.
  - unfold parse_sec in E. pinv E as x Ex. destruct x as [m1 i1]. inversion E; subst; clear E. wcbn.
    eapply parse_funcs_NL; eauto.
Qed.
Lemma parse_secs_NL : forall w s s', parse_secs s w = POk s' -> NL (ps_m s) -> NL (ps_m s').
Proof.
  induction w as [|x r IH]; intros s s' E H; cbn [parse_secs] in E; [inversion E; subst; exact H|].
  pinv E as s1 E1. eapply IH; [exact E|]. eapply parse_sec_NL; eauto.
Qed.

Lemma prepare_bodies_args : forall bs m ids ni i m' ids' ps, prepare_bodies m ids ni i bs = POk (m', ids', ps) ->
  m_funcs m' = m_funcs m /\ Forall (fun p => NoDup (pr_args p)) ps.
Proof.
  induction bs as [|b r IH]; intros m ids ni i m' ids' ps E; cbn [prepare_bodies] in E.
  - inversion E; subst. split; [reflexivity|constructor].
  - pinv E as fid Efid. pinv E as f Ef. destruct (fn_kind f) eqn:Ek; try discriminate.
    pinv E as t Et.
    destruct (add_locals m ids fid (ty_params t) _) as [[m1 ids1] args] eqn:E1.
    destruct (types_insert m1 _) as [m2 tid] eqn:E2.
    destruct (add_locals m2 ids1 fid _ _) as [[m3 ids3] ls] eqn:E3.
    pinv E as x Ex. destruct x as [[m4 ids4] rest]. inversion E; subst; clear E.
    destruct (IH _ _ _ _ _ _ _ Ex) as [F1 F2].
    pose proof (add_locals_funcs _ _ _ _ _ _ _ _ E1) as G1. pose proof (types_insert_funcs _ _ _ _ E2) as G2.
    pose proof (add_locals_funcs _ _ _ _ _ _ _ _ E3) as G3.
    split; [congruence|]. constructor; [|exact F2]. cbn [pr_args].
    apply add_locals_spec in E1. destruct E1 as [-> _].
    apply Proofs.Order.NoDup_map_inj; [apply Nat2N.inj|apply seq_NoDup].
Qed.

Lemma parse_one_body_args m ids p lf : parse_one_body m ids p = POk lf -> lf_args lf = pr_args p.
Proof.
  unfold parse_one_body. intros E. pinv E as t Et. pinv E as ety Eety.
  destruct (parse_body _ _ _ _); try discriminate. inversion E; reflexivity.
Qed.

Theorem parsed_args_NoDup : forall cf ver w s, parseM cf ver w = POk s ->
  forall id f lf, aget (m_funcs (ps_m s)) id = Some f -> fn_kind f = FK_Local lf -> NoDup (lf_args lf).
Proof.
  intros cf ver w s E id f lf Hg Hk. apply parseM_inv in E.
  destruct E as (s1 & m1 & ids1 & ps & m2 & E1 & E2 & E3 & ->). cbv zeta in Hg.
  change (m_funcs (ps_m _)) with (m_funcs (fold_left (fun m n => parse_names m ids1 n) (ps_names s1) m2)) in Hg.
  apply fold_names_kinds in Hg. destruct Hg as (fn2 & Hg2 & Hk2). rewrite Hk in Hk2.
  destruct (prepare_bodies_args _ _ _ _ _ _ _ _ E2) as [Fu Fa].
  destruct (install_kinds _ _ _ _ E3 id fn2 Hg2) as [(lf' & p & m0 & Hk' & Hin & _ & _ & Hp)|(_ & fn1 & Hg1 & Hk1)].
  - rewrite Hk' in Hk2. inversion Hk2; subst lf'. rewrite (parse_one_body_args _ _ _ _ Hp).
    rewrite Forall_forall in Fa. apply Fa. exact Hin.
  - exfalso. rewrite Fu in Hg1. apply Structure.aget_nth in Hg1.
    assert (N0 : NL (ps_m s1)).
    { eapply parse_secs_NL; [exact E1|]. constructor. }
    unfold NL, K_funcs in N0. rewrite Forall_forall in N0.
    specialize (N0 (fn_kind fn1) (in_map fn_kind _ _ (nth_error_In _ _ Hg1))).
    rewrite <- Hk1, <- Hk2 in N0. exact N0.
Qed.

(* B + C: for a parsed module every recorded local map is a bijection onto [0, n) that fixes the parameters,
   preserves types and is the position in the emitted locals; no side condition left *)
Theorem parsed_local_maps_bijective : forall cf ver w s ilen dw e,
  parseM cf ver w = POk s -> emitM (ps_m s) ilen dw = Ok e ->
  forall ef, In ef (em_fns e) ->
  exists f lf evs, In (ef_id ef, f) (aiter (m_funcs (ps_m s))) /\ fn_kind f = FK_Local lf /\ lf_log lf = Ok evs /\
    NoDup (lf_args lf) /\
    let ty := local_ty_fn (ps_m s) in let args := lf_args lf in let used := used_of_log evs in
    let lmap := ef_lmap ef in
    let order := locals_order ty args used in
    let tys := map ty args ++ expand (wb_locals (ef_body ef)) in
    lmap = snd (emit_locals ty args used) /\ wb_locals (ef_body ef) = fst (emit_locals ty args used) /\
    map ty order = tys /\ length lmap = length tys /\
    (forall l k, lookup l lmap = Some (N.of_nat k) <-> nth_error order k = Some l) /\
    (forall l, In l args \/ In l used -> exists j, lookup l lmap = Some j /\ (j < N.of_nat (length tys))%N) /\
    (forall l j, lookup l lmap = Some j -> In l args \/ In l used) /\
    (forall l1 l2 j, lookup l1 lmap = Some j -> lookup l2 lmap = Some j -> l1 = l2) /\
    (forall j, (j < N.of_nat (length tys))%N -> exists l, (In l args \/ In l used) /\ lookup l lmap = Some j) /\
    (forall k a, nth_error args k = Some a -> lookup a lmap = Some (N.of_nat k)) /\
    (forall l j, lookup l lmap = Some j -> nth_error tys (N.to_nat j) = Some (ty l)).
Proof.
  intros cf ver w s ilen dw e HP HE ef Hin.
  destruct (emit_local_maps_all _ _ _ _ HE ef Hin) as (id & f & lf & Hf & Hk & Hid & _ & Hs). subst id.
  assert (ND : NoDup (lf_args lf)).
  { apply (parsed_args_NoDup _ _ _ _ HP (ef_id ef) f lf); [apply aiter_aget; exact Hf|exact Hk]. }
  destruct (emit_local_map_bijective _ _ _ Hs ND) as (evs & Hl & B1 & B2 & B3 & B4 & B5 & B6).
  destruct (emit_local_map_lookup_is_position _ _ _ Hs) as (evs' & Hl' & P1 & P2 & P3 & P4 & P5).
  cbn [snd] in *. rewrite Hl in Hl'. inversion Hl'; subst evs'; clear Hl'.
  destruct Hs as (_ & evs' & Hl' & S1 & S2 & _). cbn [snd] in *. rewrite Hl in Hl'. inversion Hl'; subst evs'; clear Hl'.
  exists f, lf, evs. split; [exact Hf|]. split; [exact Hk|]. split; [exact Hl|]. split; [exact ND|]. cbv zeta.
  split; [exact S1|]. split; [exact S2|]. split; [exact P2|].
  split; [rewrite P3, <- P2, map_length; reflexivity|].
  split; [|repeat split; assumption].
  intros l k. split.
  - intros H. apply P4 in H. rewrite Nat2N.id in H. exact H.
  - apply P5. exact ND.
Qed.

Print Assumptions parsed_funcs_all_emitted.
Print Assumptions structure_func_sigs_unconditional.
Print Assumptions func_renumbering_bijective.
Print Assumptions emit_local_map_is_numbering.
Print Assumptions emit_local_map_bijective.
Print Assumptions emit_local_map_lookup_is_position.
Print Assumptions emit_local_maps_all.
Print Assumptions parsed_args_NoDup.
Print Assumptions parsed_local_maps_bijective.
