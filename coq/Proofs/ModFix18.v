(* C08, module level fixpoint, part 18: a re-parsed local function has as many parameters as the function it came from *)
From Coq Require Import List NArith ZArith Bool Arith Lia.
Import ListNotations.
From WV Require Import Gen.Ops Model.Common Model.IR Model.Arena Model.Traversal Model.EmitFn Model.Locals
                       Model.ParseFn Model.ModuleM Model.ParseM Model.EmitM Gen.Attrs.
From WV Require Import Proofs.Arena Proofs.IndexMaps Proofs.CustomsCfg Proofs.Structure Proofs.Structure2
                       Proofs.Renumbering Proofs.ModFix Proofs.ModFix6 Proofs.ModFix12.
Local Open Scope nat_scope.

Definition params_kept (s1 : pst) (e1 : emitted) (s2 : pst) : Prop :=
  forall id j f1 lf1 f2 lf2 t2, aget (m_funcs (ps_m s1)) id = Some f1 -> fn_kind f1 = FK_Local lf1 ->
    get_idx (em_x2i e1) S_func id = Ok j -> aget (m_funcs (ps_m s2)) j = Some f2 -> fn_kind f2 = FK_Local lf2 ->
    types_get (ps_m s2) (lf_ty lf2) = Some t2 -> length (ty_params t2) = length (lf_args lf1).

Lemma pk_types_get cf ver w s id : parseM cf ver w = POk s ->
  types_get (ps_m s) id = nth_error (items (Arena.arena (m_types (ps_m s)))) (N.to_nat id).
Proof.
  intros P. pose proof (parseM_ids _ _ _ _ P) as Hid. unfold types_get. apply aset_index_nodead.
  unfold ids_consistent in Hid. decompose [and] Hid. assumption.
Qed.

(* the stronger fact: the signature of the function's type survives the round trip *)
Theorem sig_kept : forall cf ver w ilen s1 e1 s2 e2, two_trips cf ver w ilen s1 e1 s2 e2 ->
  forall id j f1 lf1 f2 lf2 t1 t2, aget (m_funcs (ps_m s1)) id = Some f1 -> fn_kind f1 = FK_Local lf1 ->
    get_idx (em_x2i e1) S_func id = Ok j -> aget (m_funcs (ps_m s2)) j = Some f2 -> fn_kind f2 = FK_Local lf2 ->
    types_get (ps_m s1) (lf_ty lf1) = Some t1 -> types_get (ps_m s2) (lf_ty lf2) = Some t2 ->
    ty_params t2 = ty_params t1 /\ ty_results t2 = ty_results t1.
Proof.
  intros cf ver w ilen s1 e1 s2 e2 (P1 & E1 & P2 & E2) id j f1 lf1 f2 lf2 t1 t2 G1 K1 Hj G2 K2 T1 T2.
  rewrite (pk_types_get _ _ _ _ _ P1) in T1. rewrite (pk_types_get _ _ _ _ _ P2) in T2.
  apply aget_nth in G1. apply aget_nth in G2.
  destruct (emit_func_decl _ _ _ _ E1 fn_dw_nil _ _ _ Hj G1) as (tj & Htj & Hty).
  unfold func_ty in Hty. rewrite K1 in Hty.
  destruct (emit_type_decl _ _ _ _ E1 fn_dw_nil _ _ Hty) as (ty & Hty1 & HO).
  rewrite T1 in Hty1. inversion Hty1; subst ty; clear Hty1. unfold out_types in HO.
  destruct (parseM_sigs _ _ _ _ P2) as [[_ HT] HF]. unfold FInv in HF. fold (out_ftys e1) in HF.
  destruct (Forall2_nth_l _ _ _ _ _ HF Htj) as (c & Hc & Hn).
  unfold K_fty in Hc. rewrite (map_nth_error fcore _ _ G2) in Hc. inversion Hc; subst c; clear Hc.
  rewrite fcore_ty in Hn. unfold func_ty in Hn. rewrite K2 in Hn.
  destruct (HT _ _ HO) as (id2 & ty2 & H1 & H2 & (S1 & S2 & _)).
  unfold nth_N in Hn. rewrite H1 in Hn. inversion Hn; subst id2; clear Hn.
  rewrite T2 in H2. inversion H2; subst ty2; clear H2. cbn [fst snd] in S1, S2. split; assumption.
Qed.

Theorem params_kept_holds : forall cf ver w ilen s1 e1 s2 e2, two_trips cf ver w ilen s1 e1 s2 e2 -> params_kept s1 e1 s2.
Proof.
  intros cf ver w ilen s1 e1 s2 e2 TT id j f1 lf1 f2 lf2 t2 G1 K1 Hj G2 K2 T2.
  pose proof TT as (P1 & _).
  destruct (local_function_body _ _ _ _ _ _ _ P1 G1 K1) as (s1' & k & b & t1 & ety & _ & _ & _ & _ & _ & T1 & _ & _ & _ & base & Ha & _).
  destruct (sig_kept _ _ _ _ _ _ _ _ TT _ _ _ _ _ _ _ _ G1 K1 Hj G2 K2 T1 T2) as [Sp _].
  rewrite Sp, Ha, map_length, seq_length. reflexivity.
Qed.

Print Assumptions sig_kept.
Print Assumptions params_kept_holds.
