(* C01, INSTANTIATION (Model/Inst.v): what the embedder does before the first call - global initialisers, active element
   segments, active data segments, the start function, failure on an out-of-bounds segment - is preserved by the round trip.
   1. the renaming of a module with initialisers and segments ([renamed]): function indices renamed by [rf] in the element
      segments and in `start`, global indices by [rg] in the constant expressions, table / memory indices by [rtb] / [rm] in the
      active segments; segments and globals IN THE SAME ORDER;
   2. the stages commute with the renaming ([inst_globals_ren], [inst_elems_ren], [inst_datas_ren], [inst_pre_ren]);
   3. [inst_roundtrip]: same verdict; on success the same initial state, the same table of identities, and environments related
      as [mod_roundtrip_equiv] wants them ([funcs_ok]) - the start function is run through [mod_roundtrip_equiv_cmod];
      [inst_then_call_roundtrip]: instantiate, then call any function on any arguments: the same result;
   4. [inst_oob_traps_elem] / [inst_oob_traps_data]: an out-of-bounds active segment makes instantiation trap, whatever follows;
      [inst_dropping_passive_is_invisible]: passive / declared segments do not matter;
   5. a concrete module, by computation ([Ex]); the round-trip theorem instantiated on a concrete renumbering ([RTI]).

   ABOUT THE GLOBALS.  Global number [k] is the [k]-th entry of [im_globals] in BOTH modules (an imported global is an entry
   with a constant initialiser; imports come first in both index spaces and walrus keeps the relative order), and the entries
   are evaluated in order.  Hence the hypothesis [H_gpos]: the [k]-th global of the list is bound at the same slot in both
   modules.  Together with the compensation [gslot' (rg g) = gslot g] and an injective [gslot'] this forces [rg k = k] on
   the globals of the list: [inst_roundtrip] does NOT cover an output module that DROPS an unused global (the initial states
   then differ in their domain): that is Proofs/InstGc.v ([inst_roundtrip_gc], with a frame lemma for globals).  The statement
   with an arbitrary injective [rg] and the same list is false: [inst_roundtrip_needs_gpos]. *)
From Coq Require Import List NArith ZArith Bool Lia. Import ListNotations.
From WV Require Import Gen.Ops Model.Common Model.IR Model.ParseFn Model.ParseSpec Model.EmitFn
  Model.BodySpec Model.Sem Model.SemCore Model.SemMod Model.Inst.
From WV Require Import Proofs.SemMod.
From WV Require Run.SemCoreRun Run.SemModRun.

(* ================================================================== 1. the renaming *)
Definition ren_cexpr (rg : N -> N) (e : cexpr) : cexpr := match e with CGlobalGet g => CGlobalGet (rg g) | _ => e end.
Definition ren_glob (rg : N -> N) (d : valty * bool * cexpr) : valty * bool * cexpr :=
  match d with (t, mu, e) => (t, mu, ren_cexpr rg e) end.
Definition ren_eseg (rf rg rtb : N -> N) (s : eseg) : eseg :=
  match s with
  | EActive tb off fs => EActive (rtb tb) (ren_cexpr rg off) (map (option_map rf) fs)
  | EPassive fs => EPassive (map (option_map rf) fs)
  | EDeclared fs => EDeclared (map (option_map rf) fs)
  end.
Definition ren_dseg (rg rm : N -> N) (s : dseg) : dseg :=
  match s with
  | DActive mi off bs => DActive (rm mi) (ren_cexpr rg off) bs
  | DPassive bs => DPassive bs
  end.
(* [im'] is [im] renamed (types and functions apart: they are the business of [mod_roundtrip_equiv_cmod]) *)
Record renamed (rf rg rtb rm : N -> N) (im im' : imod) : Prop := {
  rn_globals : im_globals im' = map (ren_glob rg) (im_globals im);
  rn_mem : im_mem im' = im_mem im;
  rn_table : im_table im' = im_table im;
  rn_elems : im_elems im' = map (ren_eseg rf rg rtb) (im_elems im);
  rn_datas : im_datas im' = map (ren_dseg rg rm) (im_datas im);
  rn_start : im_start im' = option_map rf (im_start im)
}.

Definition pres_map {A B} (f : A -> B) (r : pres A) : pres B :=
  match r with POk a => POk (f a) | PTrap => PTrap | PWrong => PWrong end.

(* ================================================================== 2. the stages *)
Section Stages.
  Variable rf rg rtb rm : N -> N.
  Variable gslot mslot tslot gslot' mslot' tslot' : N -> N.
  Hypothesis H_gslot : forall g, gslot' (rg g) = gslot g.
  Hypothesis H_tslot : forall tb, tslot' (rtb tb) = tslot tb.
  Hypothesis H_mslot : forall mi, mslot' (rm mi) = mslot mi.

  Lemma eval_cexpr_ren gl e : eval_cexpr gslot' gl (ren_cexpr rg e) = eval_cexpr gslot gl e.
  Proof. destruct e as [z|z|g]; cbn [ren_cexpr eval_cexpr]; [reflexivity|reflexivity|]. rewrite H_gslot. reflexivity. Qed.

  Lemma inst_globals_ren : forall gs k gl,
    (forall j, (k <= j < k + N.of_nat (length gs))%N -> gslot' j = gslot j) ->
    inst_globals gslot' k (map (ren_glob rg) gs) gl = inst_globals gslot k gs gl.
  Proof.
    induction gs as [|[[t mu] e] gs IH]; intros k gl Hpos; [reflexivity|].
    cbn [map ren_glob inst_globals]. rewrite eval_cexpr_ren.
    destruct (eval_cexpr gslot gl e) as [v|]; [|reflexivity].
    destruct (has_ty t v); [|reflexivity].
    rewrite (Hpos k) by (cbn [length]; lia). apply IH. intros j Hj. apply Hpos. cbn [length]. lia.
  Qed.

  Lemma set_nthN_map {A B} (g : A -> B) (x : A) : forall l i, set_nthN i (g x) (map g l) = map g (set_nthN i x l).
  Proof. induction l as [|y l IH]; intros i; [reflexivity|]. cbn [map set_nthN]. destruct (i =? 0)%N; [reflexivity|]. rewrite IH. reflexivity. Qed.
  Lemma write_tbl_map (g : option N -> option N) : forall fs o t, write_tbl o (map g fs) (map g t) = map g (write_tbl o fs t).
  Proof. induction fs as [|f fs IH]; intros o t; [reflexivity|]. cbn [map write_tbl]. rewrite set_nthN_map. apply IH. Qed.

  Lemma inst_elems_ren gl : forall es t,
    inst_elems gslot' tslot' gl (map (ren_eseg rf rg rtb) es) (map (option_map rf) t) =
    pres_map (map (option_map rf)) (inst_elems gslot tslot gl es t).
  Proof.
    induction es as [|[tb off fs|fs|fs] es IH]; intros t; cbn [map ren_eseg inst_elems]; [reflexivity| |apply IH|apply IH].
    rewrite H_tslot, eval_cexpr_ren. destruct (tslot tb =? 0)%N; [|reflexivity].
    destruct (eval_cexpr gslot gl off) as [[o|o]|]; try reflexivity.
    unfold tbl_size. rewrite !map_length. destruct (o + N.of_nat (length fs) <=? N.of_nat (length t))%N; [|reflexivity].
    rewrite write_tbl_map. apply IH.
  Qed.

  Lemma inst_datas_ren gl pgs : forall ds m,
    inst_datas gslot' mslot' gl pgs (map (ren_dseg rg rm) ds) m = inst_datas gslot mslot gl pgs ds m.
  Proof.
    induction ds as [|[mi off bs|bs] ds IH]; intros m; cbn [map ren_dseg inst_datas]; [reflexivity| |apply IH].
    rewrite H_mslot, eval_cexpr_ren. destruct (mslot mi =? 0)%N; [|reflexivity].
    destruct (eval_cexpr gslot gl off) as [[o|o]|]; try reflexivity.
    destruct (o + N.of_nat (length bs) <=? pgs * page_size)%N; [|reflexivity]. apply IH.
  Qed.

  Lemma map_repeat_none (n : nat) : map (option_map rf) (repeat None n) = repeat None n.
  Proof. induction n as [|n IH]; [reflexivity|]. cbn [repeat map option_map]. rewrite IH. reflexivity. Qed.

  (* everything before the start function: the same state; the table, renamed *)
  Lemma inst_pre_ren im im' : renamed rf rg rtb rm im im' ->
    (forall k, (k < N.of_nat (length (im_globals im)))%N -> gslot' k = gslot k) ->
    inst_pre im' gslot' mslot' tslot' =
    pres_map (fun p => (map (option_map rf) (fst p), snd p)) (inst_pre im gslot mslot tslot).
  Proof.
    intros Hr Hpos. unfold inst_pre. rewrite (rn_globals _ _ _ _ _ _ Hr), inst_globals_ren by (intros j Hj; apply Hpos; lia).
    destruct (inst_globals gslot 0 (im_globals im) []) as [gl|]; [|reflexivity].
    assert (Ht : tbl0 im' = map (option_map rf) (tbl0 im)).
    { unfold tbl0. rewrite (rn_table _ _ _ _ _ _ Hr). destruct (im_table im) as [[n mx]|]; [|reflexivity]. symmetry. apply map_repeat_none. }
    rewrite (rn_elems _ _ _ _ _ _ Hr), Ht, inst_elems_ren.
    destruct (inst_elems gslot tslot gl (im_elems im) (tbl0 im)) as [tbl| |]; cbn [pres_map]; try reflexivity.
    assert (Hp : pages0 im' = pages0 im) by (unfold pages0; rewrite (rn_mem _ _ _ _ _ _ Hr); reflexivity).
    assert (Hm : maxp0 im' = maxp0 im) by (unfold maxp0; rewrite (rn_mem _ _ _ _ _ _ Hr); reflexivity).
    rewrite (rn_datas _ _ _ _ _ _ Hr), Hp, Hm, inst_datas_ren.
    destruct (inst_datas gslot mslot gl (pages0 im) (im_datas im) []) as [m| |]; reflexivity.
  Qed.
End Stages.

(* ================================================================== 3. the round trip *)
(* the same verdict; on success the same initial state, the same table of identities, functions related as
   [mod_roundtrip_equiv] asks ([funcs_ok]: same identities, output bodies, same signatures, agreeing frames) *)
Definition inst_equiv (cxo : N -> pctx) (ecxo : N -> ectx) (r r' : inst_result) : Prop :=
  match r, r' with
  | IOk E s0, IOk E' s0' => s0' = s0 /\ me_tbl E' = me_tbl E /\ funcs_ok E E' cxo ecxo
  | ITrap, ITrap | IWrong, IWrong | IExhausted, IExhausted => True
  | _, _ => False
  end.

Section InstRoundtrip.
  Variable im im' : imod.
  Variable lslot lslot' : N -> N -> N.
  Variable fslot gslot mslot tslot fslot' gslot' mslot' tslot' : N -> N.
  Variable cxo : N -> pctx.
  Variable ecxo : N -> ectx.
  Variable rf rg rtb rm : N -> N.
  Notation Eof tbl := (env_of (cmod_of im tbl) lslot fslot gslot mslot tslot).
  Notation Eof' tbl := (env_of (cmod_of im' (map (option_map rf) tbl)) lslot' fslot' gslot' mslot' tslot').

  (* initialisers, segments, start: renamed; the slot maps compensate *)
  Hypothesis H_ren : renamed rf rg rtb rm im im'.
  Hypothesis H_gslot : forall g, gslot' (rg g) = gslot g.
  Hypothesis H_gpos : forall k, (k < N.of_nat (length (im_globals im)))%N -> gslot' k = gslot k.
  Hypothesis H_tslot : forall tb, tslot' (rtb tb) = tslot tb.
  Hypothesis H_mslot : forall mi, mslot' (rm mi) = mslot mi.
  (* the premises of [mod_roundtrip_equiv_cmod], for whatever table instantiation builds *)
  Hypothesis H_fslot : forall i, fslot' (rf i) = fslot i.
  Hypothesis H_inj : forall i i2 d d2, nth_optN i (im_funcs im) = Some d -> nth_optN i2 (im_funcs im) = Some d2 ->
    fslot i = fslot i2 -> i = i2.
  Hypothesis H_surj : forall j d', nth_optN j (im_funcs im') = Some d' -> exists i d, nth_optN i (im_funcs im) = Some d /\ rf i = j.
  Hypothesis H_fn : forall tbl i ti ls body, nth_optN i (im_funcs im) = Some (ti, ls, body) ->
    fn_ok (Eof tbl) (Eof' tbl) cxo ecxo (fslot i) body /\
    exists ti' ls', nth_optN (rf i) (im_funcs im') = Some (ti', ls', out_body (cxo (fslot i)) (ecxo (fslot i)) body) /\
                    nth_optN ti' (im_tys im') = nth_optN ti (im_tys im) /\
                    frames_agree (Eof tbl) (Eof' tbl) (fslot i) ti ls ls' body.

  Lemma inst_funcs_ok tbl : funcs_ok (Eof tbl) (Eof' tbl) cxo ecxo.
  Proof.
    exact (cmod_funcs_ok (cmod_of im tbl) (cmod_of im' (map (option_map rf) tbl)) lslot lslot' fslot gslot mslot tslot
             fslot' gslot' mslot' tslot' cxo ecxo rf H_fslot H_inj H_surj (H_fn tbl)).
  Qed.
  Lemma inst_tbl_eq tbl : me_tbl (Eof' tbl) = me_tbl (Eof tbl).
  Proof.
    cbn [me_tbl env_of cmod_of cm_table]. rewrite map_map. apply map_ext. intros [j|]; [|reflexivity].
    cbn [option_map]. rewrite H_fslot. reflexivity.
  Qed.
  Lemma inst_run_equiv tbl : forall k fuel f args s0, run_mod (Eof' tbl) k fuel f args s0 = run_mod (Eof tbl) k fuel f args s0.
  Proof. exact (mod_roundtrip_equiv (Eof tbl) (Eof' tbl) cxo ecxo (inst_funcs_ok tbl) (inst_tbl_eq tbl)). Qed.

  (* 1. instantiation of the renamed module: same verdict, same state, related environments *)
  Theorem inst_roundtrip : forall fuel k,
    inst_equiv cxo ecxo (instantiate fuel k im lslot fslot gslot mslot tslot)
                        (instantiate fuel k im' lslot' fslot' gslot' mslot' tslot').
  Proof.
    intros fuel k. unfold instantiate.
    rewrite (inst_pre_ren rf rg rtb rm gslot mslot tslot gslot' mslot' tslot' H_gslot H_tslot H_mslot im im' H_ren H_gpos).
    destruct (inst_pre im gslot mslot tslot) as [[tbl s0]| |]; cbn [pres_map fst snd inst_equiv]; try exact I.
    rewrite (rn_start _ _ _ _ _ _ H_ren).
    destruct (im_start im) as [f|]; cbn [option_map].
    - rewrite H_fslot, inst_run_equiv.
      destruct (run_mod (Eof tbl) k fuel (fslot f) [] s0) as [[s|d s|[| |] s| |]|]; cbn [after_start inst_equiv]; try exact I.
      destruct (stk s); cbn [inst_equiv]; [|exact I].
      split; [reflexivity|]. split; [apply inst_tbl_eq|apply inst_funcs_ok].
    - cbn [inst_equiv]. split; [reflexivity|]. split; [apply inst_tbl_eq|apply inst_funcs_ok].
  Qed.

  (* 2. instantiate, then call the function of any identity on any arguments (any depth, any fuel): the same *)
  Theorem inst_then_call_roundtrip : forall fuel k k2 fuel2 f args,
    call_after (instantiate fuel k im' lslot' fslot' gslot' mslot' tslot') k2 fuel2 f args =
    call_after (instantiate fuel k im lslot fslot gslot mslot tslot) k2 fuel2 f args.
  Proof.
    intros fuel k k2 fuel2 f args. pose proof (inst_roundtrip fuel k) as H.
    destruct (instantiate fuel k im lslot fslot gslot mslot tslot) as [E s0| | |],
             (instantiate fuel k im' lslot' fslot' gslot' mslot' tslot') as [E' s0'| | |];
      cbn [inst_equiv] in H; try contradiction; try reflexivity.
    destruct H as (-> & Htbl & Hf). cbn [call_after]. f_equal.
    exact (mod_roundtrip_equiv E E' cxo ecxo Hf Htbl k2 fuel2 f args s0).
  Qed.
End InstRoundtrip.

(* ================================================================== 4. out-of-bounds segments; passive segments *)
Section Oob.
  Variable gslot mslot tslot : N -> N.

  Lemma inst_elems_oob gl tb off fs o post : forall pre t t1,
    inst_elems gslot tslot gl pre t = POk t1 ->
    tslot tb = 0%N -> eval_cexpr gslot gl off = Some (VI32 o) -> (tbl_size t1 < o + N.of_nat (length fs))%N ->
    inst_elems gslot tslot gl (pre ++ EActive tb off fs :: post) t = PTrap.
  Proof.
    induction pre as [|[tb0 off0 fs0|fs0|fs0] pre IH]; intros t t1 Hpre Ht Ho Hb.
    - cbn [inst_elems] in Hpre. injection Hpre as <-. cbn [app inst_elems]. rewrite Ht, Ho. cbn [N.eqb].
      destruct (N.leb_spec (o + N.of_nat (length fs)) (tbl_size t)); [lia|reflexivity].
    - cbn [app inst_elems] in *. destruct (tslot tb0 =? 0)%N; [|discriminate Hpre].
      destruct (eval_cexpr gslot gl off0) as [[o0|o0]|]; try discriminate Hpre.
      destruct (o0 + N.of_nat (length fs0) <=? tbl_size t)%N; [|discriminate Hpre]. eapply IH; eassumption.
    - cbn [app inst_elems] in *. eapply IH; eassumption.
    - cbn [app inst_elems] in *. eapply IH; eassumption.
  Qed.
  Lemma inst_datas_oob gl pgs mi off bs o post : forall pre m m1,
    inst_datas gslot mslot gl pgs pre m = POk m1 ->
    mslot mi = 0%N -> eval_cexpr gslot gl off = Some (VI32 o) -> (pgs * page_size < o + N.of_nat (length bs))%N ->
    inst_datas gslot mslot gl pgs (pre ++ DActive mi off bs :: post) m = PTrap.
  Proof.
    induction pre as [|[mi0 off0 bs0|bs0] pre IH]; intros m m1 Hpre Hm Ho Hb.
    - cbn [app inst_datas]. rewrite Hm, Ho. cbn [N.eqb].
      destruct (N.leb_spec (o + N.of_nat (length bs)) (pgs * page_size)); [lia|reflexivity].
    - cbn [app inst_datas] in *. destruct (mslot mi0 =? 0)%N; [|discriminate Hpre].
      destruct (eval_cexpr gslot gl off0) as [[o0|o0]|]; try discriminate Hpre.
      destruct (o0 + N.of_nat (length bs0) <=? pgs * page_size)%N; [|discriminate Hpre]. eapply IH; eassumption.
    - cbn [app inst_datas] in *. eapply IH; eassumption.
  Qed.

  (* an active ELEMENT segment that does not fit the table (as the earlier segments - all in bounds - left it: its size is
     the declared one) traps, whatever element segments, data segments and start function follow *)
  Theorem inst_oob_traps_elem : forall fuel k im lslot fslot pre tb off fs post gl t1 o,
    im_elems im = pre ++ EActive tb off fs :: post ->
    inst_globals gslot 0 (im_globals im) [] = Some gl ->
    inst_elems gslot tslot gl pre (tbl0 im) = POk t1 ->
    tslot tb = 0%N -> eval_cexpr gslot gl off = Some (VI32 o) -> (tbl_size t1 < o + N.of_nat (length fs))%N ->
    instantiate fuel k im lslot fslot gslot mslot tslot = ITrap.
  Proof.
    intros fuel k im lslot fslot pre tb off fs post gl t1 o He Hg Hpre Ht Ho Hb.
    unfold instantiate, inst_pre. rewrite Hg, He, (inst_elems_oob gl tb off fs o post pre _ t1 Hpre Ht Ho Hb). reflexivity.
  Qed.
  (* an active DATA segment that does not fit the memory traps, whatever data segments and start function follow *)
  Theorem inst_oob_traps_data : forall fuel k im lslot fslot pre mi off bs post gl tbl m1 o,
    im_datas im = pre ++ DActive mi off bs :: post ->
    inst_globals gslot 0 (im_globals im) [] = Some gl ->
    inst_elems gslot tslot gl (im_elems im) (tbl0 im) = POk tbl ->
    inst_datas gslot mslot gl (pages0 im) pre [] = POk m1 ->
    mslot mi = 0%N -> eval_cexpr gslot gl off = Some (VI32 o) -> (pages0 im * page_size < o + N.of_nat (length bs))%N ->
    instantiate fuel k im lslot fslot gslot mslot tslot = ITrap.
  Proof.
    intros fuel k im lslot fslot pre mi off bs post gl tbl m1 o Hd Hg He Hpre Hm Ho Hb.
    unfold instantiate, inst_pre. rewrite Hg, He, Hd, (inst_datas_oob gl _ mi off bs o post pre _ m1 Hpre Hm Ho Hb). reflexivity.
  Qed.

  (* the size of the table never changes: "does not fit" can be read off the declaration *)
  Lemma set_nthN_length {A} (x : A) : forall l i, length (set_nthN i x l) = length l.
  Proof. induction l as [|y l IH]; intros i; [reflexivity|]. cbn [set_nthN]. destruct (i =? 0)%N; cbn [length]; [reflexivity|]. rewrite IH. reflexivity. Qed.
  Lemma write_tbl_length : forall fs o t, length (write_tbl o fs t) = length t.
  Proof. induction fs as [|f fs IH]; intros o t; [reflexivity|]. cbn [write_tbl]. rewrite IH. apply set_nthN_length. Qed.
  Lemma inst_elems_size gl : forall es t t1, inst_elems gslot tslot gl es t = POk t1 -> tbl_size t1 = tbl_size t.
  Proof.
    induction es as [|[tb off fs|fs|fs] es IH]; intros t t1 H; cbn [inst_elems] in H.
    - injection H as <-. reflexivity.
    - destruct (tslot tb =? 0)%N; [|discriminate H]. destruct (eval_cexpr gslot gl off) as [[o|o]|]; try discriminate H.
      destruct (o + N.of_nat (length fs) <=? tbl_size t)%N; [|discriminate H].
      rewrite (IH _ _ H). unfold tbl_size. rewrite write_tbl_length. reflexivity.
    - apply IH, H.
    - apply IH, H.
  Qed.
  Lemma tbl0_size im : tbl_size (tbl0 im) = match im_table im with Some (n, _) => n | None => 0%N end.
  Proof. unfold tbl0, tbl_size. destruct (im_table im) as [[n mx]|]; [|reflexivity]. rewrite repeat_length. lia. Qed.
End Oob.

(* ---- passive / declared segments *)
Definition e_passive (s : eseg) : bool := match s with EActive _ _ _ => false | _ => true end.
Definition d_passive (s : dseg) : bool := match s with DActive _ _ _ => false | _ => true end.
(* [l'] is [l] without some of its passive entries *)
Inductive dropped {A} (passive : A -> bool) : list A -> list A -> Prop :=
| dr_nil : dropped passive [] []
| dr_keep x l l' : dropped passive l l' -> dropped passive (x :: l) (x :: l')
| dr_drop x l l' : passive x = true -> dropped passive l l' -> dropped passive (x :: l) l'.

Lemma inst_elems_dropped gslot tslot gl es es' : dropped e_passive es es' ->
  forall t, inst_elems gslot tslot gl es' t = inst_elems gslot tslot gl es t.
Proof.
  induction 1 as [|x l l' _ IH|x l l' Hp _ IH]; intros t; [reflexivity| |].
  - destruct x as [tb off fs|fs|fs]; cbn [inst_elems]; [|apply IH|apply IH].
    destruct (tslot tb =? 0)%N; [|reflexivity]. destruct (eval_cexpr gslot gl off) as [[o|o]|]; try reflexivity.
    destruct (o + N.of_nat (length fs) <=? tbl_size t)%N; [apply IH|reflexivity].
  - destruct x as [tb off fs|fs|fs]; [discriminate Hp| |]; cbn [inst_elems]; apply IH.
Qed.
Lemma inst_datas_dropped gslot mslot gl pgs ds ds' : dropped d_passive ds ds' ->
  forall m, inst_datas gslot mslot gl pgs ds' m = inst_datas gslot mslot gl pgs ds m.
Proof.
  induction 1 as [|x l l' _ IH|x l l' Hp _ IH]; intros m; [reflexivity| |].
  - destruct x as [mi off bs|bs]; cbn [inst_datas]; [|apply IH].
    destruct (mslot mi =? 0)%N; [|reflexivity]. destruct (eval_cexpr gslot gl off) as [[o|o]|]; try reflexivity.
    destruct (o + N.of_nat (length bs) <=? pgs * page_size)%N; [apply IH|reflexivity].
  - destruct x as [mi off bs|bs]; [discriminate Hp|]. cbn [inst_datas]. apply IH.
Qed.
(* removing any passive / declared element segments and any passive data segments changes NOTHING: the same verdict, the same
   state, the same environment *)
Theorem inst_dropping_passive_is_invisible : forall fuel k im im' lslot fslot gslot mslot tslot,
  im_tys im' = im_tys im -> im_funcs im' = im_funcs im -> im_globals im' = im_globals im -> im_mem im' = im_mem im ->
  im_table im' = im_table im -> im_start im' = im_start im ->
  dropped e_passive (im_elems im) (im_elems im') -> dropped d_passive (im_datas im) (im_datas im') ->
  instantiate fuel k im' lslot fslot gslot mslot tslot = instantiate fuel k im lslot fslot gslot mslot tslot.
Proof.
  intros fuel k im im' lslot fslot gslot mslot tslot Hty Hfu Hg Hm Ht Hs He Hd.
  assert (Hpre : inst_pre im' gslot mslot tslot = inst_pre im gslot mslot tslot).
  { unfold inst_pre, tbl0, pages0, maxp0. rewrite Hg, Hm, Ht.
    destruct (inst_globals gslot 0 (im_globals im) []) as [gl|]; [|reflexivity].
    rewrite (inst_elems_dropped gslot tslot gl _ _ He), (inst_datas_dropped gslot mslot gl _ _ _ Hd). reflexivity. }
  unfold instantiate. rewrite Hpre, Hs. unfold cmod_of. rewrite Hty, Hfu. reflexivity.
Qed.

(* ================================================================== 5. a concrete module, by computation *)
Module Ex.
  Local Open Scope N_scope.
  Definition P (o : wop) : rt := RPlain o 0.
  Definition I (z : Z) : rt := P (W_I32Const z).
  Definition ma (off : N) : w_memarg := {| wa_align := 0; wa_offset := off; wa_memory := 0 |}.
  (* types: 0 = [i32] -> [i32]; 1 = [] -> [] *)
  Definition tys : list (list valty * list valty) := [([VT_I32], [VT_I32]); ([], [])].
  (* 0: inc;  1: apply x = call_indirect (type 0) at slot 1 on x, plus global 1;  2: the START function: sets global 1, stores to memory *)
  Definition inc_b : list rt := [ P (W_LocalGet 0); I 1; P W_I32Add ].
  Definition apply_b : list rt := [ P (W_LocalGet 0); I 1; P (W_CallIndirect 0 0); P (W_GlobalGet 1); P W_I32Add ].
  Definition start_b : list rt := [ I 77; P (W_GlobalSet 1); I 8; I 258; P (W_I32Store16 (ma 0)); RNop 0 ].
  (* global 0 = 5 (immutable: think of an import), global 1 = global.get 0 (mutable); a table of 3 slots, one active element
     segment at offset 1 with a null entry, a declared one; a memory of one page, one active data segment of 4 bytes at 65530,
     one at the offset global 0, a passive one *)
  Definition im1 : imod :=
    {| im_tys := tys; im_funcs := [ (0, [], inc_b); (0, [], apply_b); (1, [], start_b) ];
       im_globals := [ (VT_I32, false, CI32 5); (VT_I32, true, CGlobalGet 0) ];
       im_mem := Some (1, Some 2); im_table := Some (3, None);
       im_elems := [ EActive 0 (CI32 1) [Some 0; None]; EDeclared [Some 1] ];
       im_datas := [ DActive 0 (CI32 65530) [1; 2; 3; 4]; DPassive [9; 9]; DActive 0 (CGlobalGet 0) [200] ];
       im_start := Some 2 |}.
  Definition inst (im : imod) : inst_result := instantiate 100 8 im (fun _ => idN) idN idN idN idN.
  (* what can be seen of an instance: globals, memory, pages, the table; and the result of `apply 41` *)
  Definition view (r : inst_result) :=
    match r with
    | IOk E s0 => Some (globs s0, mem s0, pages s0, max_pages s0, me_tbl E,
                        match run_mod E 8 100 1 [VI32 41] s0 with Some (Fall s) => Some (stk s, globs s) | _ => None end)
    | _ => None
    end.
  (* instantiation succeeds: global 1 was 5 and the start function made it 77; the data segments and the store of the start
     function are in memory; slot 1 of the table holds function 0; apply 41 = inc 41 + global 1 = 42 + 77 *)
  Example inst_ok : view (inst im1) =
    Some ([(0, VI32 5); (1, VI32 77)], [(65530, 1); (65531, 2); (65532, 3); (65533, 4); (5, 200); (8, 2); (9, 1)], 1, 2,
          [None; Some 0; None], Some ([VI32 119], [(0, VI32 5); (1, VI32 77)])).
  Proof. vm_compute. reflexivity. Qed.
  (* without the start function global 1 stays 5 *)
  Example inst_no_start :
    match inst {| im_tys := tys; im_funcs := im_funcs im1; im_globals := im_globals im1; im_mem := im_mem im1; im_table := im_table im1;
                  im_elems := im_elems im1; im_datas := im_datas im1; im_start := None |} with
    | IOk _ s0 => globs s0 | _ => [] end = [(0, VI32 5); (1, VI32 5)].
  Proof. vm_compute. reflexivity. Qed.
  (* ---- failures.  [with_datas] / [with_elems] / [with_funcs]: the same module with other segments / functions *)
  Definition with_datas (ds : list dseg) : imod :=
    {| im_tys := tys; im_funcs := im_funcs im1; im_globals := im_globals im1; im_mem := im_mem im1; im_table := im_table im1;
       im_elems := im_elems im1; im_datas := ds; im_start := im_start im1 |}.
  Definition with_elems (es : list eseg) : imod :=
    {| im_tys := tys; im_funcs := im_funcs im1; im_globals := im_globals im1; im_mem := im_mem im1; im_table := im_table im1;
       im_elems := es; im_datas := im_datas im1; im_start := im_start im1 |}.
  Definition verdict (r : inst_result) : N := match r with IOk _ _ => 0 | ITrap => 1 | IWrong => 2 | IExhausted => 3 end.
  (* 4 bytes at 65532 fit exactly; at 65533 they do not; an EMPTY segment at 65536 fits, at 65537 it does not *)
  Example data_bounds :
    map (fun ds => verdict (inst (with_datas ds)))
        [ [DActive 0 (CI32 65532) [1; 2; 3; 4]]; [DActive 0 (CI32 65533) [1; 2; 3; 4]]; [DActive 0 (CI32 65536) []]; [DActive 0 (CI32 65537) []];
          [DActive 0 (CI32 (-1)) [1]] ] = [0; 1; 0; 1; 1].
  Proof. vm_compute. reflexivity. Qed.
  Example elem_bounds :
    map (fun es => verdict (inst (with_elems es)))
        [ [EActive 0 (CI32 1) [Some 0; None]]; [EActive 0 (CI32 2) [Some 0; None]]; [EActive 0 (CI32 3) []]; [EActive 0 (CI32 4) []] ] = [0; 1; 0; 1].
  Proof. vm_compute. reflexivity. Qed.
  (* overlapping element segments: the later one wins *)
  Example elem_overlap :
    match inst (with_elems [EActive 0 (CI32 0) [Some 0; Some 0; Some 0]; EActive 0 (CI32 1) [None; Some 1]]) with IOk E _ => me_tbl E | _ => [] end
    = [Some 0; None; Some 1].
  Proof. vm_compute. reflexivity. Qed.
  (* a start function that traps fails instantiation; one that needs more call depth than there is: exhausted; a forward
     global.get, an i64 offset, the wrong table: going wrong *)
  Example start_traps :
    verdict (inst {| im_tys := tys; im_funcs := [ (0, [], inc_b); (0, [], apply_b); (1, [], [ I 1; P (W_GlobalSet 1); P W_Unreachable ]) ];
                     im_globals := im_globals im1; im_mem := im_mem im1; im_table := im_table im1; im_elems := im_elems im1;
                     im_datas := im_datas im1; im_start := Some 2 |}) = 1.
  Proof. vm_compute. reflexivity. Qed.
  Example start_exhausted : verdict (instantiate 100 0 im1 (fun _ => idN) idN idN idN idN) = 3.
  Proof. vm_compute. reflexivity. Qed.
  Example wrong_forward_global :
    verdict (inst {| im_tys := tys; im_funcs := im_funcs im1; im_globals := [ (VT_I32, false, CGlobalGet 1); (VT_I32, true, CI32 1) ];
                     im_mem := im_mem im1; im_table := im_table im1; im_elems := []; im_datas := []; im_start := None |}) = 2.
  Proof. vm_compute. reflexivity. Qed.
  Example wrong_offset_type_and_table :
    (verdict (inst (with_datas [DActive 0 (CI64 0) [1]])), verdict (inst (with_elems [EActive 1 (CI32 0) []]))) = (2, 2).
  Proof. vm_compute. reflexivity. Qed.
  (* the theorems of section 4 on this module *)
  Example oob_by_theorem : inst (with_datas [DPassive [7]; DActive 0 (CI32 0) [1]; DActive 0 (CI32 65533) [1; 2; 3; 4]; DActive 0 (CI32 0) [1]]) = ITrap.
  Proof.
    apply (inst_oob_traps_data idN idN idN 100 8 _ (fun _ => idN) idN [DPassive [7]; DActive 0 (CI32 0) [1]] 0 (CI32 65533) [1; 2; 3; 4]
             [DActive 0 (CI32 0) [1]] [(0, VI32 5); (1, VI32 5)] [None; Some 0; None] [(0, 1)] 65533); try reflexivity.
  Qed.
  Example dropping_by_theorem :
    inst {| im_tys := tys; im_funcs := im_funcs im1; im_globals := im_globals im1; im_mem := im_mem im1; im_table := im_table im1;
            im_elems := [ EActive 0 (CI32 1) [Some 0; None] ];
            im_datas := [ DActive 0 (CI32 65530) [1; 2; 3; 4]; DActive 0 (CGlobalGet 0) [200] ]; im_start := Some 2 |} = inst im1.
  Proof.
    apply inst_dropping_passive_is_invisible; try reflexivity.
    - apply dr_keep, dr_drop; [reflexivity|apply dr_nil].
    - apply dr_keep, dr_drop; [reflexivity|]. apply dr_keep, dr_nil.
  Qed.
End Ex.

(* ================================================================== 6. the round-trip theorem on a concrete renumbering *)
Module RTI.
  Import Ex.
  Local Open Scope N_scope.
  (* functions rotated (0 -> 2, 1 -> 0, 2 -> 1), the two types swapped; globals, memory and table keep their indices *)
  Definition rf (i : N) : N := if i =? 0 then 2 else if i =? 1 then 0 else if i =? 2 then 1 else i.
  Definition rfi (j : N) : N := if j =? 2 then 0 else if j =? 0 then 1 else if j =? 1 then 2 else j.
  Definition rt1 (i : N) : N := if i =? 0 then 1 else if i =? 1 then 0 else i.
  Definition cx1 : pctx := cx_std tys.
  Definition ecx1 : ectx :=
    {| ex_id2i := fun sp i => match sp with S_func => rf i | S_type => rt1 i | _ => i end; ex_ilen := fun _ => 1 |}.
  (* the output module: bodies in normal form (the nop of the start function is gone), re-encoded; element segments and
     `start` name the new function indices; the declared segment and the passive data segment stay *)
  Definition im1' : imod :=
    {| im_tys := [([], []); ([VT_I32], [VT_I32])];
       im_funcs := [ (1, [], out_body cx1 ecx1 apply_b); (0, [], out_body cx1 ecx1 start_b); (1, [], out_body cx1 ecx1 inc_b) ];
       im_globals := [ (VT_I32, false, CI32 5); (VT_I32, true, CGlobalGet 0) ];
       im_mem := Some (1, Some 2); im_table := Some (3, None);
       im_elems := [ EActive 0 (CI32 1) [Some 2; None]; EDeclared [Some 0] ];
       im_datas := [ DActive 0 (CI32 65530) [1; 2; 3; 4]; DPassive [9; 9]; DActive 0 (CGlobalGet 0) [200] ];
       im_start := Some 1 |}.
  Example out_bodies : (out_body cx1 ecx1 apply_b, out_body cx1 ecx1 start_b) =
    ([ P (W_LocalGet 0); I 1; P (W_CallIndirect 1 0); P (W_GlobalGet 1); P W_I32Add ],
     [ I 77; P (W_GlobalSet 1); I 8; I 258; P (W_I32Store16 (ma 0)) ]).
  Proof. vm_compute. reflexivity. Qed.

  Lemma rfi_rf i : rfi (rf i) = i.
  Proof.
    unfold rf, rfi. destruct (N.eqb_spec i 0) as [->|H0]; [reflexivity|].
    destruct (N.eqb_spec i 1) as [->|H1]; [reflexivity|]. destruct (N.eqb_spec i 2) as [->|H2]; [reflexivity|].
    destruct (N.eqb_spec i 2); [contradiction|]. destruct (N.eqb_spec i 0); [contradiction|].
    destruct (N.eqb_spec i 1); [contradiction|]. reflexivity.
  Qed.
  Lemma rt1_tys i : nth_optN (rt1 i) (im_tys im1') = nth_optN i (im_tys im1).
  Proof.
    unfold rt1. destruct (N.eqb_spec i 0) as [->|H0]; [reflexivity|]. destruct (N.eqb_spec i 1) as [->|H1]; [reflexivity|].
    cbn [im1 im1' im_tys tys nth_optN]. destruct (N.eqb_spec i 0); [contradiction|].
    destruct (N.eqb_spec (i - 1) 0); [lia|]. reflexivity.
  Qed.
  Lemma renamed1 : renamed rf idN idN idN im1 im1'.
  Proof. constructor; reflexivity. Qed.

  Notation E1 tbl := (env_of (cmod_of im1 tbl) (fun _ => idN) idN idN idN idN).
  Notation E1' tbl := (env_of (cmod_of im1' (map (option_map rf) tbl)) (fun _ => idN) rfi idN idN idN).
  Lemma fn_ok1 tbl : forall id body, In (id, body) [(0, inc_b); (1, apply_b); (2, start_b)] ->
    fn_ok (E1 tbl) (E1' tbl) (fun _ => cx1) (fun _ => ecx1) id body.
  Proof.
    intros id body H. apply fn_ok_std; try reflexivity.
    - intros f _. apply rfi_rf.
    - intros i. apply rt1_tys.
    - cbn [In] in H. destruct H as [H|[H|[H|[]]]]; injection H as <- <-; vm_compute; reflexivity.
    - cbn [In] in H. destruct H as [H|[H|[H|[]]]]; injection H as <- <-; vm_compute; reflexivity.
  Qed.
  Lemma fn1 tbl : forall i ti ls body, nth_optN i (im_funcs im1) = Some (ti, ls, body) ->
    fn_ok (E1 tbl) (E1' tbl) (fun _ => cx1) (fun _ => ecx1) (idN i) body /\
    exists ti' ls', nth_optN (rf i) (im_funcs im1') = Some (ti', ls', out_body cx1 ecx1 body) /\
                    nth_optN ti' (im_tys im1') = nth_optN ti (im_tys im1) /\
                    frames_agree (E1 tbl) (E1' tbl) (idN i) ti ls ls' body.
  Proof.
    intros i ti ls body Hi. cbn [im1 im_funcs nth_optN] in Hi.
    destruct (N.eqb_spec i 0) as [->|H0].
    { injection Hi as <- <- <-. split; [apply fn_ok1; cbn; auto|]. exists 1, [].
      split; [reflexivity|]. split; [reflexivity|]. apply same_frames_agree. reflexivity. }
    destruct (N.eqb_spec (i - 1) 0) as [E|H1].
    { replace i with 1 by lia. injection Hi as <- <- <-. split; [apply fn_ok1; cbn; auto|]. exists 1, [].
      split; [reflexivity|]. split; [reflexivity|]. apply same_frames_agree. reflexivity. }
    destruct (N.eqb_spec (i - 1 - 1) 0) as [E|H2]; [|discriminate Hi].
    replace i with 2 by lia. injection Hi as <- <- <-. split; [apply fn_ok1; cbn; auto|]. exists 0, [].
    split; [reflexivity|]. split; [reflexivity|]. apply same_frames_agree. reflexivity.
  Qed.
  Lemma surj1 : forall j d', nth_optN j (im_funcs im1') = Some d' -> exists i d, nth_optN i (im_funcs im1) = Some d /\ rf i = j.
  Proof.
    intros j d' Hj. cbn [im1' im_funcs nth_optN] in Hj.
    destruct (N.eqb_spec j 0) as [->|H0]; [exists 1; eexists; split; reflexivity|].
    destruct (N.eqb_spec (j - 1) 0) as [E|H1]; [exists 2; eexists; split; [reflexivity|]; unfold rf; cbn; lia|].
    destruct (N.eqb_spec (j - 1 - 1) 0) as [E|H2]; [exists 0; eexists; split; [reflexivity|]; unfold rf; cbn; lia|].
    discriminate Hj.
  Qed.

  (* THE THEOREMS, instantiated: the hypotheses are satisfiable *)
  Theorem rti_inst : forall fuel k,
    inst_equiv (fun _ => cx1) (fun _ => ecx1) (instantiate fuel k im1 (fun _ => idN) idN idN idN idN)
                                               (instantiate fuel k im1' (fun _ => idN) rfi idN idN idN).
  Proof.
    apply (inst_roundtrip im1 im1' (fun _ => idN) (fun _ => idN) idN idN idN idN rfi idN idN idN (fun _ => cx1) (fun _ => ecx1) rf idN idN idN).
    - exact renamed1.
    - reflexivity.
    - reflexivity.
    - reflexivity.
    - reflexivity.
    - intros i. apply rfi_rf.
    - intros i i2 d d2 _ _ H. exact H.
    - exact surj1.
    - exact fn1.
  Qed.
  Theorem rti_call : forall fuel k k2 fuel2 f args,
    call_after (instantiate fuel k im1' (fun _ => idN) rfi idN idN idN) k2 fuel2 f args =
    call_after (instantiate fuel k im1 (fun _ => idN) idN idN idN idN) k2 fuel2 f args.
  Proof.
    apply (inst_then_call_roundtrip im1 im1' (fun _ => idN) (fun _ => idN) idN idN idN idN rfi idN idN idN (fun _ => cx1) (fun _ => ecx1) rf idN idN idN).
    - exact renamed1.
    - reflexivity.
    - reflexivity.
    - reflexivity.
    - reflexivity.
    - intros i. apply rfi_rf.
    - intros i i2 d d2 _ _ H. exact H.
    - exact surj1.
    - exact fn1.
  Qed.
  (* the output module, by computation: the table holds IDENTITY 0 (= its function index 2) at slot 1; apply 41 = 119 *)
  Example rti_out : view (instantiate 100 8 im1' (fun _ => idN) rfi idN idN idN) = view (inst im1).
  Proof. vm_compute. reflexivity. Qed.
  (* the renaming of the element segment matters: the output module with the element segment of the input *)
  Example rti_elems_matter :
    view (instantiate 100 8 {| im_tys := im_tys im1'; im_funcs := im_funcs im1'; im_globals := im_globals im1'; im_mem := im_mem im1';
                               im_table := im_table im1'; im_elems := im_elems im1; im_datas := im_datas im1'; im_start := im_start im1' |}
            (fun _ => idN) rfi idN idN idN) <> view (inst im1).
  Proof. vm_compute. discriminate. Qed.
End RTI.

(* ================================================================== 7. the state the harness used to SUPPLY is the state instantiation COMPUTES *)
(* Run/SemModRun.v compares [run_mod] with V8 from [mod_init c] (the three globals, an empty memory) in [env_id c] (the table
   [mc_table c]) - the modules it is run on (harness: c01mod) have exactly three constant globals, one memory, a table of
   [length (mc_table c)] slots, ONE active element segment at offset 0 listing the non-null prefix of the table, no data, no
   start.  For such a module [instantiate] returns exactly that environment and that state. *)
Lemma set_nthN_app {A} (x y : A) r : forall pre, set_nthN (N.of_nat (length pre)) x (pre ++ y :: r) = pre ++ x :: r.
Proof.
  induction pre as [|z pre IH]; [reflexivity|]. cbn [length app set_nthN].
  destruct (N.eqb_spec (N.of_nat (S (length pre))) 0) as [E|_]; [lia|].
  replace (N.of_nat (S (length pre)) - 1)%N with (N.of_nat (length pre)) by lia. rewrite IH. reflexivity.
Qed.
Lemma write_tbl_app (rest : list (option N)) : forall fs pre old, length old = length fs ->
  write_tbl (N.of_nat (length pre)) fs (pre ++ old ++ rest) = pre ++ fs ++ rest.
Proof.
  induction fs as [|f fs IH]; intros pre [|y old] Hl; try discriminate Hl; [reflexivity|].
  cbn [write_tbl app]. rewrite set_nthN_app.
  replace (N.of_nat (length pre) + 1)%N with (N.of_nat (length (pre ++ [f]))) by (rewrite app_length; cbn [length]; lia).
  replace (pre ++ f :: old ++ rest) with ((pre ++ [f]) ++ old ++ rest) by (rewrite <- app_assoc; reflexivity).
  rewrite IH by (injection Hl as Hl; exact Hl). rewrite <- app_assoc. reflexivity.
Qed.
Definition imod_of_modcase (c : SemModRun.modcase) (fs : list (option N)) (mx : option N) : imod :=
  {| im_tys := SemModRun.mc_tys c; im_funcs := SemModRun.mc_funcs c;
     im_globals := [ (VT_I32, true, CI32 (SemModRun.mc_g0 c)); (VT_I64, true, CI64 (SemModRun.mc_g1 c)); (VT_I32, false, CI32 7) ];
     im_mem := Some (SemModRun.mc_pages c, Some (SemModRun.mc_maxpages c));
     im_table := Some (N.of_nat (length (SemModRun.mc_table c)), mx);
     im_elems := [ EActive 0 (CI32 0) fs ]; im_datas := []; im_start := None |}.
Theorem inst_of_modcase : forall (c : SemModRun.modcase) fs n mx fuel k,
  SemModRun.mc_table c = fs ++ repeat None n ->
  instantiate fuel k (imod_of_modcase c fs mx) (fun _ => SemCoreRun.idN) SemCoreRun.idN SemCoreRun.idN SemCoreRun.idN SemCoreRun.idN
  = IOk (SemModRun.env_id c) (SemModRun.mod_init c).
Proof.
  intros c fs n mx fuel k Ht.
  assert (Hw : write_tbl 0 fs (repeat None (length (SemModRun.mc_table c))) = SemModRun.mc_table c).
  { rewrite Ht at 1. rewrite app_length, repeat_length, Ht.
    assert (Hr : forall a b, @repeat (option N) None (a + b) = repeat None a ++ repeat None b)
      by (intros a b; induction a as [|a IHa]; [reflexivity|]; cbn [Nat.add repeat app]; rewrite IHa; reflexivity).
    rewrite Hr.
    exact (write_tbl_app (repeat None n) fs [] (repeat None (length fs)) (repeat_length _ _)). }
  unfold instantiate, inst_pre, imod_of_modcase, tbl0, pages0, maxp0.
  cbn [im_globals im_elems im_datas im_table im_mem im_start inst_globals eval_cexpr has_ty app inst_elems inst_datas].
  unfold SemCoreRun.idN at 1. cbn [N.eqb].
  change (z32 0) with 0%N. rewrite Nnat.Nat2N.id. unfold tbl_size. rewrite repeat_length.
  destruct (N.leb_spec (0 + N.of_nat (length fs)) (N.of_nat (length (SemModRun.mc_table c)))) as [_|Hlt];
    [|rewrite Ht, app_length in Hlt; lia].
  rewrite Hw. reflexivity.
Qed.

(* ---- WITHOUT [H_gpos] the statement is false: the same list of globals, an injective [rg] (the swap of 0 and 1) compensated by
   [gslot'], nothing else in the module - and the two initial states bind the two constants at swapped slots *)
Definition swap01 (i : N) : N := if (i =? 0)%N then 1%N else if (i =? 1)%N then 0%N else i.
Lemma swap01_invol i : swap01 (swap01 i) = i.
Proof.
  unfold swap01. destruct (N.eqb_spec i 0) as [->|H0]; [reflexivity|]. destruct (N.eqb_spec i 1) as [->|H1]; [reflexivity|].
  destruct (N.eqb_spec i 0); [contradiction|]. destruct (N.eqb_spec i 1); [contradiction|]. reflexivity.
Qed.
Theorem inst_roundtrip_needs_gpos : exists (im im' : imod) (rg gslot gslot' : N -> N) (cxo : N -> pctx) (ecxo : N -> ectx),
  renamed idN rg idN idN im im' /\ (forall g, gslot' (rg g) = gslot g) /\ (forall a b, rg a = rg b -> a = b) /\
  im_funcs im = [] /\ im_funcs im' = [] /\
  ~ inst_equiv cxo ecxo (instantiate 0 0 im (fun _ => idN) idN gslot idN idN) (instantiate 0 0 im' (fun _ => idN) idN gslot' idN idN).
Proof.
  set (im := {| im_tys := []; im_funcs := []; im_globals := [(VT_I32, false, CI32 5); (VT_I32, false, CI32 6)]; im_mem := None;
                im_table := None; im_elems := []; im_datas := []; im_start := None |}).
  exists im, im, swap01, idN, swap01, (fun _ => cx_std []), (fun _ => ecx_locals idN).
  split; [constructor; reflexivity|]. split; [intros g; apply swap01_invol|].
  split; [intros a b H; rewrite <- (swap01_invol a), <- (swap01_invol b), H; reflexivity|].
  split; [reflexivity|]. split; [reflexivity|].
  intros H. vm_compute in H. destruct H as [H _]. discriminate H.
Qed.

Print Assumptions inst_roundtrip.
Print Assumptions inst_then_call_roundtrip.
Print Assumptions inst_oob_traps_elem.
Print Assumptions inst_oob_traps_data.
Print Assumptions inst_elems_size.
Print Assumptions inst_dropping_passive_is_invisible.
Print Assumptions inst_of_modcase.
Print Assumptions Ex.inst_ok.
Print Assumptions RTI.rti_inst.
Print Assumptions RTI.rti_call.
Print Assumptions inst_roundtrip_needs_gpos.
