(* LEB128 codec theorems for Model/Leb.v, and the length functions leb_len (Model/CodeMap.v), leb5 (Model/Dwarf.v). *)
From Coq Require Import List NArith ZArith Bool Lia. Import ListNotations.
From WV Require Import Model.Leb Model.CodeMap Model.Dwarf.
Local Open Scope N_scope.

(* ---------- arithmetic facts ---------- *)
Lemma land127 n : N.land n 127 = n mod 128.
Proof. change 127 with (N.ones 7). rewrite N.land_ones. reflexivity. Qed.

Lemma shiftr7 n : N.shiftr n 7 = n / 128.
Proof. rewrite N.shiftr_div_pow2. reflexivity. Qed.

Lemma lor_low n : N.lor (N.land n 127) 128 = N.land n 127 + 128.
Proof.
  assert (H : N.land (N.land n 127) 128 = 0).
  { rewrite <- N.land_assoc. change (N.land 127 128) with 0. apply N.land_0_r. }
  rewrite (N.add_nocarry_lxor _ _ H). symmetry. apply N.lxor_lor. exact H.
Qed.

Lemma land127_small b : b < 128 -> N.land b 127 = b.
Proof. intros H. rewrite land127. apply N.mod_small. exact H. Qed.

Lemma lor128_small b : b < 128 -> N.lor b 128 = b + 128.
Proof.
  intros H. pose proof (land127_small b H) as E.
  rewrite <- E. apply lor_low.
Qed.

Lemma mod128_lt n : n mod 128 < 128.
Proof. apply N.mod_lt. discriminate. Qed.

Lemma divmod128 n : n = 128 * (n / 128) + n mod 128.
Proof. apply N.div_mod. discriminate. Qed.

Lemma cont_byte_ge n : 128 <= N.lor (N.land n 127) 128.
Proof. rewrite lor_low. lia. Qed.

Lemma cont_byte_lt n : N.lor (N.land n 127) 128 < 256.
Proof. rewrite lor_low, land127. pose proof (mod128_lt n). lia. Qed.

Lemma cont_byte_low n : N.land (N.lor (N.land n 127) 128) 127 = n mod 128.
Proof.
  rewrite lor_low. rewrite !land127.
  pose proof (mod128_lt n) as H.
  replace (n mod 128 + 128) with (n mod 128 + 1 * 128) by lia.
  rewrite N.mod_add by discriminate. apply N.mod_small. exact H.
Qed.

Lemma pow128_S f : 128 ^ N.of_nat (S f) = 128 * 128 ^ N.of_nat f.
Proof. rewrite Nat2N.inj_succ. apply N.pow_succ_r'. Qed.

Lemma div128_bound n X : n < 128 * X -> n / 128 < X.
Proof. intros H. apply N.div_lt_upper_bound; [discriminate|exact H]. Qed.

(* ---------- 1. round trip, unsigned ---------- *)
Lemma dec_enc_u_fuel : forall f n rest, n < 128 ^ N.of_nat (S f) ->
  dec_u (enc_u_fuel f n ++ rest) = Some (n, rest).
Proof.
  induction f as [|f IH]; intros n rest Hn.
  - change (128 ^ N.of_nat 1) with 128 in Hn.
    cbn [enc_u_fuel app dec_u]. rewrite (land127_small n Hn).
    apply N.ltb_lt in Hn. rewrite Hn. reflexivity.
  - cbn [enc_u_fuel]. destruct (n <? 128) eqn:E.
    + cbn [app dec_u]. rewrite E. reflexivity.
    + cbn [app dec_u].
      pose proof (cont_byte_ge n) as Hge.
      destruct (N.lor (N.land n 127) 128 <? 128) eqn:E2.
      { apply N.ltb_lt in E2. lia. }
      rewrite shiftr7. rewrite IH.
      * rewrite cont_byte_low. rewrite N.add_comm, <- divmod128. reflexivity.
      * apply div128_bound. rewrite <- pow128_S. exact Hn.
Qed.

Theorem dec_enc_u : forall n rest, n < 2 ^ 126 -> dec_u (enc_u n ++ rest) = Some (n, rest).
Proof.
  intros n rest H. unfold enc_u. apply dec_enc_u_fuel.
  assert (2 ^ 126 <= 128 ^ N.of_nat 19) by (vm_compute; discriminate).
  lia.
Qed.

(* the fuel of 18 in fact covers 133 bits *)
Theorem dec_enc_u_133 : forall n rest, n < 2 ^ 133 -> dec_u (enc_u n ++ rest) = Some (n, rest).
Proof.
  intros n rest H. unfold enc_u. apply dec_enc_u_fuel.
  replace (128 ^ N.of_nat 19) with (2 ^ 133) by (vm_compute; reflexivity). exact H.
Qed.

(* ---------- 2. byte shape ---------- *)
Lemma enc_u_fuel_bytes : forall f n, Forall (fun b => b < 256) (enc_u_fuel f n).
Proof.
  induction f as [|f IH]; intros n; cbn [enc_u_fuel].
  - constructor; [|constructor]. rewrite land127. pose proof (mod128_lt n). lia.
  - destruct (n <? 128) eqn:E.
    + apply N.ltb_lt in E. constructor; [lia|constructor].
    + constructor; [apply cont_byte_lt|apply IH].
Qed.

Theorem enc_u_bytes_all : forall n, Forall (fun b => b < 256) (enc_u n).
Proof. intros n. apply enc_u_fuel_bytes. Qed.

Theorem enc_u_bytes : forall n, n < 2 ^ 126 -> Forall (fun b => b < 256) (enc_u n).
Proof. intros n _. apply enc_u_bytes_all. Qed.

Lemma enc_u_fuel_last : forall f n, exists pre l,
  enc_u_fuel f n = pre ++ [l] /\ l < 128 /\ Forall (fun b => 128 <= b) pre.
Proof.
  induction f as [|f IH]; intros n; cbn [enc_u_fuel].
  - exists [], (N.land n 127). split; [reflexivity|]. split; [|constructor].
    rewrite land127. apply mod128_lt.
  - destruct (n <? 128) eqn:E.
    + apply N.ltb_lt in E. exists [], n. split; [reflexivity|]. split; [exact E|constructor].
    + destruct (IH (N.shiftr n 7)) as (pre & l & Heq & Hl & Hpre).
      exists (N.lor (N.land n 127) 128 :: pre), l. split.
      * rewrite Heq. reflexivity.
      * split; [exact Hl|]. constructor; [apply cont_byte_ge|exact Hpre].
Qed.

Theorem enc_u_last : forall n, exists pre l,
  enc_u n = pre ++ [l] /\ l < 128 /\ Forall (fun b => 128 <= b) pre.
Proof. intros n. apply enc_u_fuel_last. Qed.

(* ---------- 3. injectivity, prefix-freeness ---------- *)
Theorem enc_u_prefix_free : forall n m r1 r2, n < 2 ^ 126 -> m < 2 ^ 126 ->
  enc_u n ++ r1 = enc_u m ++ r2 -> n = m /\ r1 = r2.
Proof.
  intros n m r1 r2 Hn Hm E.
  pose proof (dec_enc_u n r1 Hn) as A. pose proof (dec_enc_u m r2 Hm) as B.
  rewrite E in A. rewrite A in B. inversion B. split; reflexivity.
Qed.

Theorem enc_u_inj : forall n m, n < 2 ^ 126 -> m < 2 ^ 126 -> enc_u n = enc_u m -> n = m.
Proof.
  intros n m Hn Hm E.
  destruct (enc_u_prefix_free n m [] [] Hn Hm) as [H _]; [|exact H].
  rewrite E. reflexivity.
Qed.

(* ---------- 4. length ---------- *)
Lemma enc_u_fuel_len : forall f1 f2 n, n < 128 ^ N.of_nat (S f1) -> n < 128 ^ N.of_nat (S f2) ->
  N.of_nat (length (enc_u_fuel f1 n)) = leb_len_fuel f2 n.
Proof.
  induction f1 as [|f1 IH]; intros f2 n H1 H2.
  - change (128 ^ N.of_nat 1) with 128 in H1. apply N.ltb_lt in H1.
    cbn [enc_u_fuel length]. destruct f2; cbn [leb_len_fuel]; [reflexivity|]. rewrite H1. reflexivity.
  - cbn [enc_u_fuel]. destruct f2 as [|f2].
    + change (128 ^ N.of_nat 1) with 128 in H2. apply N.ltb_lt in H2. rewrite H2. reflexivity.
    + cbn [leb_len_fuel]. destruct (n <? 128) eqn:E; [reflexivity|].
      cbn [length]. rewrite Nat2N.inj_succ. rewrite (IH f2).
      * lia.
      * rewrite shiftr7. apply div128_bound. rewrite <- pow128_S. exact H1.
      * rewrite shiftr7. apply div128_bound. rewrite <- pow128_S. exact H2.
Qed.

Theorem enc_u_len_77 : forall n, n < 2 ^ 77 -> N.of_nat (length (enc_u n)) = leb_len n.
Proof.
  intros n H. unfold enc_u, leb_len. apply enc_u_fuel_len.
  - assert (2 ^ 77 <= 128 ^ N.of_nat 19) by (vm_compute; discriminate). lia.
  - replace (128 ^ N.of_nat 11) with (2 ^ 77) by (vm_compute; reflexivity). exact H.
Qed.

Theorem enc_u_len : forall n, n < 2 ^ 64 -> N.of_nat (length (enc_u n)) = leb_len n.
Proof.
  intros n H. apply enc_u_len_77.
  assert (2 ^ 64 <= 2 ^ 77) by (vm_compute; discriminate). lia.
Qed.

(* ---------- 5. minimal length ---------- *)
Lemma leb_len_fuel_spec : forall f n, n < 128 ^ N.of_nat (S f) ->
  1 <= leb_len_fuel f n <= N.of_nat (S f) /\
  n < 128 ^ leb_len_fuel f n /\
  (1 < leb_len_fuel f n -> 128 ^ (leb_len_fuel f n - 1) <= n).
Proof.
  induction f as [|f IH]; intros n Hn.
  - cbn [leb_len_fuel]. change (128 ^ N.of_nat 1) with 128 in Hn.
    change (128 ^ 1) with 128. change (N.of_nat 1) with 1. lia.
  - cbn [leb_len_fuel]. destruct (n <? 128) eqn:E.
    + apply N.ltb_lt in E. change (128 ^ 1) with 128. rewrite Nat2N.inj_succ. lia.
    + apply N.ltb_ge in E. rewrite shiftr7.
      assert (Hq : n / 128 < 128 ^ N.of_nat (S f)).
      { apply div128_bound. rewrite <- pow128_S. exact Hn. }
      destruct (IH (n / 128) Hq) as (Hk & Hup & Hlo).
      set (k := leb_len_fuel f (n / 128)) in *.
      pose proof (divmod128 n) as Hdm. pose proof (mod128_lt n) as Hm.
      split; [|split].
      * rewrite (Nat2N.inj_succ (S f)). lia.
      * replace (1 + k) with (N.succ k) by lia. rewrite N.pow_succ_r'. lia.
      * intros _. replace (1 + k - 1) with k by lia.
        destruct (N.eq_dec k 1) as [K1|K1].
        { rewrite K1. change (128 ^ 1) with 128. exact E. }
        assert (Hk1 : 1 < k) by lia. specialize (Hlo Hk1).
        replace k with (N.succ (k - 1)) at 1 by lia. rewrite N.pow_succ_r'.
        clear - Hlo Hdm Hm. generalize dependent (128 ^ (k - 1)). generalize dependent (n / 128).
        generalize dependent (n mod 128). intros. lia.
Qed.

Lemma leb_len_spec : forall n, n < 2 ^ 77 ->
  1 <= leb_len n <= 11 /\ n < 128 ^ leb_len n /\ (1 < leb_len n -> 128 ^ (leb_len n - 1) <= n).
Proof.
  intros n H. unfold leb_len. change 11 with (N.of_nat 11). apply leb_len_fuel_spec.
  replace (128 ^ N.of_nat 11) with (2 ^ 77) by (vm_compute; reflexivity). exact H.
Qed.

Lemma pow128_mono a b : a <= b -> 128 ^ a <= 128 ^ b.
Proof. intros H. apply N.pow_le_mono_r; [discriminate|exact H]. Qed.

(* the length is the unique k with 128^(k-1) <= n < 128^k (k = 1 also takes 0) *)
Theorem leb_len_char : forall n k, 0 < k -> n < 2 ^ 77 ->
  (leb_len n = k <-> (k = 1 /\ n < 128) \/ (1 < k /\ 128 ^ (k - 1) <= n < 128 ^ k)).
Proof.
  intros n k Hk Hn. destruct (leb_len_spec n Hn) as (Hr & Hup & Hlo).
  set (k' := leb_len n) in *. split.
  - intros <-. destruct (N.eq_dec k' 1) as [K|K].
    + left. rewrite K in Hup. change (128 ^ 1) with 128 in Hup. split; assumption.
    + right. assert (K1 : 1 < k') by lia. specialize (Hlo K1). lia.
  - intros [[K Hs]|[K [Hl Hu]]].
    + subst k. destruct (N.eq_dec k' 1) as [K'|K']; [exact K'|].
      assert (K1 : 1 < k') by lia. specialize (Hlo K1).
      pose proof (pow128_mono 1 (k' - 1)) as M. change (128 ^ 1) with 128 in M. lia.
    + destruct (N.lt_trichotomy k' k) as [L|[L|L]]; [|exact L|].
      * pose proof (pow128_mono k' (k - 1)) as M. lia.
      * assert (K1 : 1 < k') by lia. specialize (Hlo K1).
        pose proof (pow128_mono k (k' - 1)) as M. lia.
Qed.

Lemma pow2_7 k : 2 ^ (7 * k) = 128 ^ k.
Proof. rewrite N.pow_mul_r. reflexivity. Qed.

Theorem leb_len_bounds : forall n k, (0 < k)%N -> n < 2 ^ 64 ->
  (leb_len n = k <-> (k = 1 /\ n < 128) \/ (1 < k /\ 2 ^ (7 * (k - 1)) <= n < 2 ^ (7 * k))).
Proof.
  intros n k Hk Hn. rewrite !pow2_7. apply leb_len_char; [exact Hk|].
  assert (2 ^ 64 <= 2 ^ 77) by (vm_compute; discriminate). lia.
Qed.

(* least k with n < 2^(7k) *)
Theorem leb_len_least : forall n, n < 2 ^ 64 ->
  n < 2 ^ (7 * leb_len n) /\ forall k, 0 < k -> n < 2 ^ (7 * k) -> leb_len n <= k.
Proof.
  intros n Hn.
  assert (Hn' : n < 2 ^ 77).
  { assert (2 ^ 64 <= 2 ^ 77) by (vm_compute; discriminate). lia. }
  destruct (leb_len_spec n Hn') as (Hr & Hup & Hlo). split.
  - rewrite pow2_7. exact Hup.
  - intros k Hk Hlt. rewrite pow2_7 in Hlt.
    destruct (N.le_gt_cases (leb_len n) k) as [L|L]; [exact L|].
    assert (K1 : 1 < leb_len n) by lia. specialize (Hlo K1).
    pose proof (pow128_mono k (leb_len n - 1)) as M. lia.
Qed.

Theorem leb_len_mono_77 : forall n m, n <= m -> m < 2 ^ 77 -> leb_len n <= leb_len m.
Proof.
  intros n m Hnm Hm. assert (Hn : n < 2 ^ 77) by lia.
  destruct (leb_len_spec n Hn) as (Hr & Hup & Hlo).
  destruct (leb_len_spec m Hm) as (Hr' & Hup' & Hlo').
  destruct (N.le_gt_cases (leb_len n) (leb_len m)) as [L|L]; [exact L|].
  assert (K1 : 1 < leb_len n) by lia. specialize (Hlo K1).
  pose proof (pow128_mono (leb_len m) (leb_len n - 1)) as M. lia.
Qed.

Theorem leb_len_mono : forall n m, n <= m -> m < 2 ^ 64 -> leb_len n <= leb_len m.
Proof.
  intros n m Hnm Hm. apply leb_len_mono_77; [exact Hnm|].
  assert (2 ^ 64 <= 2 ^ 77) by (vm_compute; discriminate). lia.
Qed.

(* ---------- 4b. leb5 ---------- *)
Theorem leb5_leb_len : forall n, n < 2 ^ 35 -> leb5 n = leb_len n.
Proof.
  intros n Hn. symmetry.
  assert (Hn' : n < 2 ^ 77).
  { assert (2 ^ 35 <= 2 ^ 77) by (vm_compute; discriminate). lia. }
  change (2 ^ 35) with 34359738368 in Hn.
  unfold leb5.
  destruct (n <? 128) eqn:E1.
  { apply N.ltb_lt in E1. apply leb_len_char; [lia|exact Hn'|]. left. lia. }
  apply N.ltb_ge in E1.
  destruct (n <? 16384) eqn:E2.
  { apply N.ltb_lt in E2. apply leb_len_char; [lia|exact Hn'|]. right.
    change (128 ^ (2 - 1)) with 128. change (128 ^ 2) with 16384. lia. }
  apply N.ltb_ge in E2.
  destruct (n <? 2097152) eqn:E3.
  { apply N.ltb_lt in E3. apply leb_len_char; [lia|exact Hn'|]. right.
    change (128 ^ (3 - 1)) with 16384. change (128 ^ 3) with 2097152. lia. }
  apply N.ltb_ge in E3.
  destruct (n <? 268435456) eqn:E4.
  { apply N.ltb_lt in E4. apply leb_len_char; [lia|exact Hn'|]. right.
    change (128 ^ (4 - 1)) with 2097152. change (128 ^ 4) with 268435456. lia. }
  apply N.ltb_ge in E4.
  apply leb_len_char; [lia|exact Hn'|]. right.
  change (128 ^ (5 - 1)) with 268435456. change (128 ^ 5) with 34359738368. lia.
Qed.

Theorem enc_u_len5_35 : forall n, n < 2 ^ 35 -> N.of_nat (length (enc_u n)) = leb5 n.
Proof.
  intros n Hn. rewrite leb5_leb_len by exact Hn. apply enc_u_len_77.
  assert (2 ^ 35 <= 2 ^ 77) by (vm_compute; discriminate). lia.
Qed.

Theorem enc_u_len5 : forall n, n < 2 ^ 32 -> N.of_nat (length (enc_u n)) = leb5 n.
Proof.
  intros n Hn. apply enc_u_len5_35.
  assert (2 ^ 32 <= 2 ^ 35) by (vm_compute; discriminate). lia.
Qed.

(* leb5 saturates at 5: it is wrong from 2^35 on *)
Theorem enc_u_len5_range_sharp : N.of_nat (length (enc_u (2 ^ 35))) = 6 /\ leb5 (2 ^ 35) = 5.
Proof. split; vm_compute; reflexivity. Qed.

(* ---------- 6. signed ---------- *)
Lemma zland127 z : Z.land z 127 = (z mod 128)%Z.
Proof. change 127%Z with (Z.ones 7). rewrite Z.land_ones by lia. reflexivity. Qed.

Lemma zshiftr7 z : Z.shiftr z 7 = (z / 128)%Z.
Proof. rewrite Z.shiftr_div_pow2 by lia. reflexivity. Qed.

Lemma zmod128_range z : (0 <= z mod 128 < 128)%Z.
Proof. apply Z.mod_pos_bound. lia. Qed.

Lemma zdivmod128 z : z = (128 * (z / 128) + z mod 128)%Z.
Proof. apply Z.div_mod. lia. Qed.

Lemma sbyte_lt z : Z.to_N (Z.land z 127) < 128.
Proof. rewrite zland127. pose proof (zmod128_range z). lia. Qed.

Lemma sbyte_Z z : Z.of_N (Z.to_N (Z.land z 127)) = (z mod 128)%Z.
Proof. rewrite zland127. pose proof (zmod128_range z). lia. Qed.

Lemma zpow128_S f : (128 ^ Z.of_nat (S f) = 128 * 128 ^ Z.of_nat f)%Z.
Proof. rewrite Nat2Z.inj_succ. apply Z.pow_succ_r. lia. Qed.

(* decoding a final byte *)
Lemma dec_s_final b r : b < 128 ->
  dec_s (b :: r) = Some (if b <? 64 then Z.of_N b else (Z.of_N b - 128)%Z, r).
Proof. intros H. cbn [dec_s]. apply N.ltb_lt in H. rewrite H. reflexivity. Qed.

Lemma dec_s_cont b r : b < 128 ->
  dec_s (N.lor b 128 :: r) =
  match dec_s r with Some (v, r') => Some ((Z.of_N b + 128 * v)%Z, r') | None => None end.
Proof.
  intros H. cbn [dec_s]. rewrite (lor128_small b H).
  destruct (b + 128 <? 128) eqn:E; [apply N.ltb_lt in E; lia|].
  replace (N.land (b + 128) 127) with b; [reflexivity|].
  rewrite land127. replace (b + 128) with (b + 1 * 128) by lia.
  rewrite N.mod_add by discriminate. symmetry. apply N.mod_small. exact H.
Qed.

Lemma dec_enc_s_fuel : forall f z rest,
  (- (64 * 128 ^ Z.of_nat f) <= z < 64 * 128 ^ Z.of_nat f)%Z ->
  dec_s (enc_s_fuel f z ++ rest) = Some (z, rest).
Proof.
  induction f as [|f IH]; intros z rest Hz.
  - change (128 ^ Z.of_nat 0)%Z with 1%Z in Hz.
    cbn [enc_s_fuel app]. rewrite dec_s_final by apply sbyte_lt.
    f_equal. f_equal.
    pose proof (sbyte_Z z) as HB. pose proof (zmod128_range z) as HR. pose proof (zdivmod128 z) as HD.
    destruct (Z.to_N (Z.land z 127) <? 64) eqn:E.
    + apply N.ltb_lt in E. rewrite HB.
      assert (z / 128 = 0 \/ z / 128 = -1)%Z as [Q|Q] by lia; lia.
    + apply N.ltb_ge in E. rewrite HB.
      assert (z / 128 = 0 \/ z / 128 = -1)%Z as [Q|Q] by lia; lia.
  - cbn [enc_s_fuel].
    pose proof (sbyte_Z z) as HB. pose proof (zmod128_range z) as HR. pose proof (zdivmod128 z) as HD.
    pose proof (sbyte_lt z) as HL.
    rewrite zshiftr7.
    set (b := Z.to_N (Z.land z 127)) in *.
    destruct (((z / 128 =? 0)%Z && (b <? 64)) || ((z / 128 =? -1)%Z && (64 <=? b))) eqn:C.
    + cbn [app]. rewrite dec_s_final by exact HL. f_equal. f_equal.
      apply orb_true_iff in C. destruct C as [C|C]; apply andb_true_iff in C; destruct C as [C1 C2].
      * rewrite C2. apply Z.eqb_eq in C1. lia.
      * apply N.leb_le in C2. destruct (b <? 64) eqn:E; [apply N.ltb_lt in E; lia|].
        apply Z.eqb_eq in C1. lia.
    + cbn [app]. rewrite dec_s_cont by exact HL.
      rewrite IH.
      * f_equal. f_equal. lia.
      * rewrite zpow128_S in Hz. clear - Hz HD HR.
        generalize dependent (128 ^ Z.of_nat f)%Z. generalize dependent (z / 128)%Z.
        generalize dependent (z mod 128)%Z. intros. lia.
Qed.

Theorem dec_enc_s_132 : forall z rest, (- 2 ^ 132 <= z < 2 ^ 132)%Z ->
  dec_s (enc_s z ++ rest) = Some (z, rest).
Proof.
  intros z rest H. unfold enc_s. apply dec_enc_s_fuel.
  replace (64 * 128 ^ Z.of_nat 18)%Z with (2 ^ 132)%Z by (vm_compute; reflexivity). exact H.
Qed.

Theorem dec_enc_s : forall z rest, (- 2 ^ 125 <= z < 2 ^ 125)%Z ->
  dec_s (enc_s z ++ rest) = Some (z, rest).
Proof.
  intros z rest H. apply dec_enc_s_132.
  assert (2 ^ 125 <= 2 ^ 132)%Z by (vm_compute; discriminate). lia.
Qed.

Theorem enc_s_prefix_free : forall a b r1 r2,
  (- 2 ^ 125 <= a < 2 ^ 125)%Z -> (- 2 ^ 125 <= b < 2 ^ 125)%Z ->
  enc_s a ++ r1 = enc_s b ++ r2 -> a = b /\ r1 = r2.
Proof.
  intros a b r1 r2 Ha Hb E.
  pose proof (dec_enc_s a r1 Ha) as A. pose proof (dec_enc_s b r2 Hb) as B.
  rewrite E in A. rewrite A in B. inversion B. split; reflexivity.
Qed.

Theorem enc_s_inj : forall a b,
  (- 2 ^ 125 <= a < 2 ^ 125)%Z -> (- 2 ^ 125 <= b < 2 ^ 125)%Z -> enc_s a = enc_s b -> a = b.
Proof.
  intros a b Ha Hb E.
  destruct (enc_s_prefix_free a b [] [] Ha Hb) as [H _]; [|exact H].
  rewrite E. reflexivity.
Qed.

Lemma enc_s_fuel_bytes : forall f z, Forall (fun b => b < 256) (enc_s_fuel f z).
Proof.
  induction f as [|f IH]; intros z; cbn [enc_s_fuel]; pose proof (sbyte_lt z) as HL.
  - constructor; [lia|constructor].
  - destruct (_ || _).
    + constructor; [lia|constructor].
    + constructor; [rewrite lor128_small by exact HL; lia|apply IH].
Qed.

Theorem enc_s_bytes : forall z, Forall (fun b => b < 256) (enc_s z).
Proof. intros z. apply enc_s_fuel_bytes. Qed.

(* ---------- 7. boundary examples ---------- *)
Example ex_u_0 : enc_u 0 = [0] /\ dec_u [0] = Some (0, []). Proof. split; vm_compute; reflexivity. Qed.
Example ex_u_127 : enc_u 127 = [127]. Proof. vm_compute; reflexivity. Qed.
Example ex_u_128 : enc_u 128 = [128; 1]. Proof. vm_compute; reflexivity. Qed.
Example ex_u_16383 : enc_u 16383 = [255; 127]. Proof. vm_compute; reflexivity. Qed.
Example ex_u_16384 : enc_u 16384 = [128; 128; 1]. Proof. vm_compute; reflexivity. Qed.
Example ex_u_u32max : enc_u (2 ^ 32 - 1) = [255; 255; 255; 255; 15]. Proof. vm_compute; reflexivity. Qed.
Example ex_u_u64max : enc_u (2 ^ 64 - 1) = [255; 255; 255; 255; 255; 255; 255; 255; 255; 1].
Proof. vm_compute; reflexivity. Qed.
Example ex_u_624485 : enc_u 624485 = [229; 142; 38]. Proof. vm_compute; reflexivity. Qed.
Example ex_u_roundtrips :
  forallb (fun n => match dec_u (enc_u n ++ [7]) with Some (v, [7]) => v =? n | _ => false end)
    [0; 127; 128; 16383; 16384; 2 ^ 32 - 1; 2 ^ 64 - 1] = true.
Proof. vm_compute; reflexivity. Qed.
Example ex_len : map leb_len [0; 127; 128; 16383; 16384; 2 ^ 32 - 1; 2 ^ 64 - 1] = [1; 1; 2; 2; 3; 5; 10].
Proof. vm_compute; reflexivity. Qed.
Example ex_len5 : map leb5 [0; 127; 128; 16383; 16384; 2 ^ 32 - 1] = [1; 1; 2; 2; 3; 5].
Proof. vm_compute; reflexivity. Qed.

Example ex_s_63 : enc_s 63 = [63]. Proof. vm_compute; reflexivity. Qed.
Example ex_s_64 : enc_s 64 = [192; 0]. Proof. vm_compute; reflexivity. Qed.
Example ex_s_m64 : enc_s (-64) = [64]. Proof. vm_compute; reflexivity. Qed.
Example ex_s_m65 : enc_s (-65) = [191; 127]. Proof. vm_compute; reflexivity. Qed.
Example ex_s_m123456 : enc_s (-123456) = [192; 187; 120]. Proof. vm_compute; reflexivity. Qed.
Example ex_s_i32max : enc_s (2 ^ 31 - 1) = [255; 255; 255; 255; 7]. Proof. vm_compute; reflexivity. Qed.
Example ex_s_i32min : enc_s (- 2 ^ 31) = [128; 128; 128; 128; 120]. Proof. vm_compute; reflexivity. Qed.
Example ex_s_i64max : enc_s (2 ^ 63 - 1) = [255; 255; 255; 255; 255; 255; 255; 255; 255; 0].
Proof. vm_compute; reflexivity. Qed.
Example ex_s_i64min : enc_s (- 2 ^ 63) = [128; 128; 128; 128; 128; 128; 128; 128; 128; 127].
Proof. vm_compute; reflexivity. Qed.
Example ex_s_roundtrips :
  forallb (fun z => match dec_s (enc_s z ++ [7]) with Some (v, [7]) => (v =? z)%Z | _ => false end)
    [0; 63; 64; -64; -65; 2 ^ 31 - 1; - 2 ^ 31; 2 ^ 63 - 1; - 2 ^ 63]%Z = true.
Proof. vm_compute; reflexivity. Qed.

Print Assumptions dec_enc_u.
Print Assumptions dec_enc_u_133.
Print Assumptions enc_u_bytes.
Print Assumptions enc_u_bytes_all.
Print Assumptions enc_u_last.
Print Assumptions enc_u_inj.
Print Assumptions enc_u_prefix_free.
Print Assumptions enc_u_len.
Print Assumptions enc_u_len_77.
Print Assumptions enc_u_len5.
Print Assumptions enc_u_len5_35.
Print Assumptions leb5_leb_len.
Print Assumptions enc_u_len5_range_sharp.
Print Assumptions leb_len_bounds.
Print Assumptions leb_len_char.
Print Assumptions leb_len_least.
Print Assumptions leb_len_mono.
Print Assumptions leb_len_mono_77.
Print Assumptions dec_enc_s.
Print Assumptions dec_enc_s_132.
Print Assumptions enc_s_inj.
Print Assumptions enc_s_prefix_free.
Print Assumptions enc_s_bytes.
