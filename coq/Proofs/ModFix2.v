(* C08, module level fixpoint, part 2: every emitted stream is in CANONICAL SHAPE (rebuild w = w), two
   streams in canonical shape with the same payloads are equal, and the module fixpoint from the 13
   per-kind payload equalities. *)
From Coq Require Import List NArith ZArith Bool Arith Lia.
Import ListNotations.
From WV Require Import Gen.Ops Model.Common Model.IR Model.Arena Model.Traversal Model.EmitFn Model.Locals
                       Model.ParseFn Model.ModuleM Model.ParseM Model.EmitM Gen.Attrs.
From WV Require Import Proofs.Arena Proofs.Order Proofs.IndexMaps Proofs.CustomsCfg Proofs.Escalation Proofs.Structure Proofs.Structure2
                       Proofs.Renumbering Proofs.ModFix Proofs.ModFix4.
Local Open Scope nat_scope.

(* ====================================================================================== *)
(* the shape of one piece: nothing, or one section with a NON-EMPTY payload                *)
(* ====================================================================================== *)
Definition piece_shape {A} (mk : list A -> wsec) (p : list wsec) : Prop := p = [] \/ exists l, l <> [] /\ p = [mk l].

Lemma sec_if_piece {A} (mk : list A -> wsec) (X_of : wsec -> list A) p :
  (forall l, X_of (mk l) = l) -> piece_shape mk p -> sec_if mk (flat_map X_of p) = p.
Proof.
  intros HX [->|(l & Hl & ->)]; [reflexivity|]. cbn [flat_map]. rewrite HX, app_nil_r.
  destruct l; [congruence|reflexivity].
Qed.
Lemma len_ne {A B} (l : list A) (l' : list B) : length l = length l' -> l' <> [] -> l <> [].
Proof. destruct l, l'; cbn; congruence. Qed.
Lemma map_ne {A B} (f : A -> B) l : l <> [] -> map f l <> [].
Proof. destruct l; cbn; congruence. Qed.

Lemma emit_types_shape m x l x' : emit_types m x = (l, x') -> piece_shape S_Types l.
Proof.
  unfold emit_types. cbv zeta. destruct (sort_types _) as [|p r]; intros [= <- _]; [left; reflexivity|].
  right. eexists. split; [|reflexivity]. discriminate.
Qed.
Lemma emit_imports_shape m x l x' : emit_imports m x = Ok (l, x') -> piece_shape S_Imports l.
Proof.
  unfold emit_imports. destruct (map snd (aiter (m_imports m))) as [|i r]; [intros [= <- _]; left; reflexivity|].
  intros H. rinv H as a Ea. inversion H; subst; clear H. right. eexists. split; [|reflexivity].
  cbn [emit_imports_l] in Ea. rinv Ea as a1 E1. rinv Ea as b Eb. inversion Ea; subst. cbn [fst]. discriminate.
Qed.
Lemma emit_func_section_shape m x l x' : emit_func_section m x = Ok (l, x') -> piece_shape S_Funcs l.
Proof.
  rewrite emit_func_section_unfold. intros H. rinv H as fs Efs. destruct fs as [|p r]; [inversion H; left; reflexivity|].
  rinv H as b Eb. inversion H; subst; clear H. right. eexists. split; [|reflexivity].
  apply func_go_entries in Eb. apply Forall2_length in Eb. eapply len_ne; [symmetry; exact Eb|discriminate].
Qed.
Lemma emit_tables_shape m x : piece_shape S_Tables (fst (emit_tables m x)).
Proof.
  rewrite emit_tables_entries. destruct (local_tables m); [left; reflexivity|]. right. eexists. split; [|reflexivity]. discriminate.
Qed.
Lemma emit_memories_shape m x : piece_shape S_Mems (fst (emit_memories m x)).
Proof.
  rewrite emit_memories_entries. destruct (local_memories m); [left; reflexivity|]. right. eexists. split; [|reflexivity]. discriminate.
Qed.
Lemma emit_globals_shape m x l x' : emit_globals m x = Ok (l, x') -> piece_shape S_Globals l.
Proof.
  rewrite emit_globals_unfold. destruct (local_globals m) as [|p r] eqn:El; [intros [= <- _]; left; reflexivity|].
  rewrite <- El. intros H. rinv H as b Eb. inversion H; subst; clear H. right. eexists. split; [|reflexivity].
  apply globals_go_entries' in Eb. destruct Eb as [_ F]. apply Forall2_length in F.
  eapply len_ne; [symmetry; exact F|rewrite El; discriminate].
Qed.
Lemma emit_exports_shape m x l : emit_exports m x = Ok l -> piece_shape S_Exports l.
Proof.
  unfold emit_exports. destruct (map snd (aiter (m_exports m))) as [|i r] eqn:El; [intros [= <-]; left; reflexivity|].
  intros H. rinv H as es Ees. inversion H; subst; clear H. right. eexists. split; [|reflexivity].
  apply rmapM_length in Ees. eapply len_ne; [exact Ees|discriminate].
Qed.
Lemma emit_elements_shape m x l x' : emit_elements m x = Ok (l, x') -> piece_shape S_Elems l.
Proof.
  rewrite emit_elements_unfold. destruct (aiter (m_elements m)) as [|p r]; [intros [= <- _]; left; reflexivity|].
  intros H. rinv H as b Eb. inversion H; subst; clear H. right. eexists. split; [|reflexivity].
  apply elems_go_entries in Eb. eapply len_ne; [exact Eb|discriminate].
Qed.
Lemma emit_code_shape m x ilen l x' efs : emit_code m x ilen = Ok (l, x', efs) -> piece_shape S_Code l.
Proof.
  unfold emit_code. intros H. rinv H as fs Efs. destruct fs as [|p r]; [inversion H; left; reflexivity|].
  rinv H as es Ees. inversion H; subst; clear H. right. eexists. split; [|reflexivity].
  apply rmapM_length in Ees. apply map_ne. eapply len_ne; [exact Ees|discriminate].
Qed.
Lemma emit_data_shape m x l : emit_data m x = Ok l -> piece_shape S_Data l.
Proof.
  unfold emit_data. destruct (aiter (m_data m)) as [|p r]; [intros [= <-]; left; reflexivity|].
  intros H. rinv H as ds Eds. inversion H; subst; clear H. right. eexists. split; [|reflexivity].
  apply rmapM_length in Eds. eapply len_ne; [exact Eds|discriminate].
Qed.
(* start, data count: nothing or one section *)
Lemma emit_start_shape (o : option N) x l :
  match o with Some f => i <- get_idx x S_func f ;; Ok [S_Start i] | None => Ok [] end = Ok l -> map S_Start (flat_map starts_of l) = l.
Proof. destruct o as [f|]; [|intros [= <-]; reflexivity]. intros H. rinv H as i Ei. inversion H; reflexivity. Qed.
Lemma emit_data_count_shape' m x l x' : emit_data_count m x = Ok (l, x') -> map S_DataCount (flat_map dcounts_of l) = l.
Proof.
  unfold emit_data_count. destruct (aiter (m_data m)) as [|p r]; [intros [= <- _]; reflexivity|]. cbv zeta.
  intros H. rinv H as us Eus. destruct (_ || _); inversion H; reflexivity.
Qed.
Lemma customs_rest rest : (forall s, In s rest -> sec_tag s = None) -> map S_Custom (flat_map customs_of rest) = rest.
Proof.
  induction rest as [|s r IH]; intros H; [reflexivity|]. cbn [flat_map]. rewrite map_app, IH by (intros; apply H; right; assumption).
  specialize (H s (or_introl eq_refl)). destruct s; try discriminate H. reflexivity.
Qed.

(* ====================================================================================== *)
(* the payload of kind k of a stream made of tagged pieces is the payload of piece k       *)
(* ====================================================================================== *)
Section Pieces.
  Variables p0 p1 p2 p3 p4 p5 p6 p7 p8 p9 p10 p11 rest : list wsec.
  Hypothesis T0 : tagged 0 p0. Hypothesis T1 : tagged 1 p1. Hypothesis T2 : tagged 2 p2. Hypothesis T3 : tagged 3 p3.
  Hypothesis T4 : tagged 4 p4. Hypothesis T5 : tagged 5 p5. Hypothesis T6 : tagged 6 p6. Hypothesis T7 : tagged 7 p7.
  Hypothesis T8 : tagged 8 p8. Hypothesis T9 : tagged 9 p9. Hypothesis T10 : tagged 10 p10. Hypothesis T11 : tagged 11 p11.
  Hypothesis R : forall s, In s rest -> sec_tag s = None.
  Definition W := p0 ++ p1 ++ p2 ++ p3 ++ p4 ++ p5 ++ p6 ++ p7 ++ p8 ++ p9 ++ p10 ++ p11 ++ rest.

  Ltac piece f :=
    unfold W; rewrite !flat_map_app;
    rewrite (untagged_payload_nil f rest R) by (intros [] Hs; try reflexivity; discriminate Hs);
    payload_piece f; cbn [app]; rewrite ?app_nil_r; reflexivity.

  Lemma W_types : flat_map types_of W = flat_map types_of p0. Proof. piece types_of. Qed.
  Lemma W_imports : flat_map imports_of W = flat_map imports_of p1. Proof. piece imports_of. Qed.
  Lemma W_funcs : flat_map funcs_of W = flat_map funcs_of p2. Proof. piece funcs_of. Qed.
  Lemma W_tables : flat_map tables_of W = flat_map tables_of p3. Proof. piece tables_of. Qed.
  Lemma W_mems : flat_map mems_of W = flat_map mems_of p4. Proof. piece mems_of. Qed.
  Lemma W_globals : flat_map globals_of W = flat_map globals_of p5. Proof. piece globals_of. Qed.
  Lemma W_exports : flat_map exports_of W = flat_map exports_of p6. Proof. piece exports_of. Qed.
  Lemma W_starts : flat_map starts_of W = flat_map starts_of p7. Proof. piece starts_of. Qed.
  Lemma W_elems : flat_map elems_of W = flat_map elems_of p8. Proof. piece elems_of. Qed.
  Lemma W_dcounts : flat_map dcounts_of W = flat_map dcounts_of p9. Proof. piece dcounts_of. Qed.
  Lemma W_code : flat_map code_of W = flat_map code_of p10. Proof. piece code_of. Qed.
  Lemma W_datas : flat_map datas_of W = flat_map datas_of p11. Proof. piece datas_of. Qed.
  Lemma W_customs : flat_map customs_of W = flat_map customs_of rest.
  Proof. unfold W; rewrite !flat_map_app. payload_piece customs_of. reflexivity. Qed.
End Pieces.

(* ====================================================================================== *)
(* S1. an emitted stream is in canonical shape                                             *)
(* ====================================================================================== *)
Theorem emit_canonical_shape : forall m ilen e, emitM m ilen [] = Ok e -> canonical_shape (em_secs e).
Proof.
  intros m ilen e He. emitM_parts2 He.
  pose proof (emit_types_tag _ _ _ _ Ety) as T0. pose proof (emit_imports_tag _ _ _ _ Eim) as T1.
  pose proof (emit_func_section_tag _ _ _ _ Efn) as T2. pose proof (emit_tables_tag m x3) as T3.
  pose proof (emit_memories_tag m x4) as T4.
  pose proof (emit_globals_tag _ _ _ _ Egl) as T5. pose proof (emit_exports_tag _ _ _ Eex) as T6.
  pose proof (emit_start_tag _ _ _ Est) as T7. pose proof (emit_elements_tag _ _ _ _ Eel) as T8.
  pose proof (emit_data_count_tag _ _ _ _ Edc) as T9. pose proof (emit_code_tag _ _ _ _ _ _ Eco) as T10.
  pose proof (emit_data_tag _ _ _ Eda) as T11.
  assert (R : forall s, In s rest -> sec_tag s = None) by (intros s Hs; destruct (Erest s Hs) as [H|[]]; exact H).
  unfold canonical_shape, rebuild. rewrite Esecs.
  match goal with |- _ = ?w => change w with (W s_ty s_im s_fn (fst (emit_tables m x3)) (fst (emit_memories m x4)) s_gl s_ex s_st s_el s_dc s_co s_da rest) end.
  rewrite W_types by assumption.
  rewrite W_imports by assumption.
  rewrite W_funcs by assumption.
  rewrite W_tables by assumption.
  rewrite W_mems by assumption.
  rewrite W_globals by assumption.
  rewrite W_exports by assumption.
  rewrite W_starts by assumption.
  rewrite W_elems by assumption.
  rewrite W_dcounts by assumption.
  rewrite W_code by assumption.
  rewrite W_datas by assumption.
  rewrite W_customs by assumption.
  unfold W.
  rewrite (sec_if_piece S_Types types_of s_ty (fun l => eq_refl) (emit_types_shape _ _ _ _ Ety)).
  rewrite (sec_if_piece S_Imports imports_of s_im (fun l => eq_refl) (emit_imports_shape _ _ _ _ Eim)).
  rewrite (sec_if_piece S_Funcs funcs_of s_fn (fun l => eq_refl) (emit_func_section_shape _ _ _ _ Efn)).
  rewrite (sec_if_piece S_Tables tables_of _ (fun l => eq_refl) (emit_tables_shape m x3)).
  rewrite (sec_if_piece S_Mems mems_of _ (fun l => eq_refl) (emit_memories_shape m x4)).
  rewrite (sec_if_piece S_Globals globals_of s_gl (fun l => eq_refl) (emit_globals_shape _ _ _ _ Egl)).
  rewrite (sec_if_piece S_Exports exports_of s_ex (fun l => eq_refl) (emit_exports_shape _ _ _ Eex)).
  rewrite (emit_start_shape _ _ _ Est).
  rewrite (sec_if_piece S_Elems elems_of s_el (fun l => eq_refl) (emit_elements_shape _ _ _ _ Eel)).
  rewrite (emit_data_count_shape' _ _ _ _ Edc).
  rewrite (sec_if_piece S_Code code_of s_co (fun l => eq_refl) (emit_code_shape _ _ _ _ _ _ Eco)).
  rewrite (sec_if_piece S_Data datas_of s_da (fun l => eq_refl) (emit_data_shape _ _ _ Eda)).
  rewrite (customs_rest rest R). reflexivity.
Qed.

(* ====================================================================================== *)
(* S2. canonical shape + equal payloads = equal streams                                    *)
(* ====================================================================================== *)
Theorem canonical_shape_ext : forall w1 w2, canonical_shape w1 -> canonical_shape w2 ->
  flat_map types_of w2 = flat_map types_of w1 -> flat_map imports_of w2 = flat_map imports_of w1 ->
  flat_map funcs_of w2 = flat_map funcs_of w1 -> flat_map tables_of w2 = flat_map tables_of w1 ->
  flat_map mems_of w2 = flat_map mems_of w1 -> flat_map globals_of w2 = flat_map globals_of w1 ->
  flat_map exports_of w2 = flat_map exports_of w1 -> flat_map starts_of w2 = flat_map starts_of w1 ->
  flat_map elems_of w2 = flat_map elems_of w1 -> flat_map dcounts_of w2 = flat_map dcounts_of w1 ->
  flat_map code_of w2 = flat_map code_of w1 -> flat_map datas_of w2 = flat_map datas_of w1 ->
  flat_map customs_of w2 = flat_map customs_of w1 -> w2 = w1.
Proof.
  intros w1 w2 C1 C2 H0 H1 H2 H3 H4 H5 H6 H7 H8 H9 H10 H11 H12. unfold canonical_shape in C1, C2.
  rewrite <- C1, <- C2. unfold rebuild. rewrite H0, H1, H2, H3, H4, H5, H6, H7, H8, H9, H10, H11, H12. reflexivity.
Qed.

(* ====================================================================================== *)
(* S3. the module fixpoint from the 13 payload equalities                                  *)
(* ====================================================================================== *)
Theorem module_fixpoint_from_payloads : forall cf ver w ilen s1 e1 s2 e2, two_trips cf ver w ilen s1 e1 s2 e2 ->
  flat_map types_of (em_secs e2) = flat_map types_of (em_secs e1) -> flat_map imports_of (em_secs e2) = flat_map imports_of (em_secs e1) ->
  flat_map funcs_of (em_secs e2) = flat_map funcs_of (em_secs e1) -> flat_map tables_of (em_secs e2) = flat_map tables_of (em_secs e1) ->
  flat_map mems_of (em_secs e2) = flat_map mems_of (em_secs e1) -> flat_map globals_of (em_secs e2) = flat_map globals_of (em_secs e1) ->
  flat_map exports_of (em_secs e2) = flat_map exports_of (em_secs e1) -> flat_map starts_of (em_secs e2) = flat_map starts_of (em_secs e1) ->
  flat_map elems_of (em_secs e2) = flat_map elems_of (em_secs e1) -> flat_map dcounts_of (em_secs e2) = flat_map dcounts_of (em_secs e1) ->
  flat_map code_of (em_secs e2) = flat_map code_of (em_secs e1) -> flat_map datas_of (em_secs e2) = flat_map datas_of (em_secs e1) ->
  flat_map customs_of (em_secs e2) = flat_map customs_of (em_secs e1) -> em_secs e2 = em_secs e1.
Proof.
  intros cf ver w ilen s1 e1 s2 e2 (P1 & E1 & P2 & E2). apply canonical_shape_ext; eapply emit_canonical_shape; eauto.
Qed.

(* ====================================================================================== *)
(* S4. packaging: canonical order                                                          *)
(* ====================================================================================== *)
Definition canonical_order (w : list wsec) : Prop :=
  canonical_shape w /\ stream_wf w = true /\ forall S, tmg S -> imports_then_defs S w.
Theorem emit_canonical_order : forall m ilen e, emitM m ilen [] = Ok e -> canonical_order (em_secs e).
Proof.
  intros m ilen e He. split; [exact (emit_canonical_shape _ _ _ He)|]. split; [exact (emit_stream_wf _ _ _ He)|].
  exact (emit_imports_then_defs _ _ _ He).
Qed.

Print Assumptions emit_canonical_shape.
Print Assumptions canonical_shape_ext.
Print Assumptions module_fixpoint_from_payloads.
Print Assumptions emit_canonical_order.
