(* C02 / C06: after the GC pass the emitted stream still has every guarantee the model asks of a validator-accepted stream
   ([ParseTotal.valid_stream]); hence the GC output parses again in the model. *)
From Coq Require Import List NArith ZArith Bool Arith Lia.
Import ListNotations.
From WV Require Import Gen.Ops Model.Common Model.IR Model.Arena Model.Traversal Model.EmitFn Model.EmitSpec Model.Locals
                       Model.ParseFn Model.ParseSpec Model.ModuleM Model.ParseM Model.EmitM Model.GC Gen.Attrs.
From WV Require Import Proofs.Arena Proofs.Order Proofs.IndexMaps Proofs.CustomsCfg Proofs.Structure Proofs.Structure2
                       Proofs.Totality Proofs.TotalityBodies Proofs.Renumbering Proofs.ParseTotal Proofs.ModFix Proofs.ModFix4 Proofs.ModFix2
                       Proofs.ModFix12 Proofs.ModFix15 Proofs.ModFix16 Proofs.ModFix23 Proofs.ModFix26 Proofs.ModFix27 Proofs.ModFix30
                       Proofs.GcDeclare.
From WV Require Proofs.ModFix22 Proofs.ModFix14 Proofs.ModFix32 Proofs.EmitFn Proofs.Traversal Proofs.ModFix3 Proofs.ModFix10 Proofs.Body Proofs.ParseFn Proofs.ParsedWf.
Local Open Scope nat_scope.

(* ====================================================================================== *)
(* A. generic in the module: content of the validator context, given well-formed maps       *)
(* ====================================================================================== *)
Lemma prefix_glob_type_gen m ilen e pre g j gl : emitM m ilen [] = Ok e -> wf_map (space_map (em_x2i e) S_global) ->
  flat_map sec_globs pre = flat_map sec_globs (em_secs e) ->
  get_idx (em_x2i e) S_global g = Ok j -> aget (m_globals m) g = Some gl ->
  nth_error (c_globs (ctx_after pre)) (N.to_nat j) = Some (gl_ty gl).
Proof.
  intros HE W Hpre Hj Hgl. unfold ctx_after.
  destruct (ctx_content pre ctx0) as (A & _ & _). rewrite A, Hpre. cbn [ctx0 c_globs app].
  apply (x2i_positions _ _ _ _ W) in Hj. fold (emitted_ids e S_global) in Hj.
  destruct (Structure2.Forall2_nth_l _ _ _ _ _ (emitted_globs_rel _ _ _ HE) Hj) as (ty & Hty & gl' & Hgl' & ->).
  rewrite Hgl in Hgl'. inversion Hgl'; subst gl'. exact Hty.
Qed.
Lemma prefix_tab_flag_gen m ilen e pre t j tb : emitM m ilen [] = Ok e -> wf_map (space_map (em_x2i e) S_table) ->
  flat_map sec_tabs pre = flat_map sec_tabs (em_secs e) ->
  get_idx (em_x2i e) S_table t = Ok j -> aget (m_tables m) t = Some tb ->
  nth_error (c_tabs (ctx_after pre)) (N.to_nat j) = Some (tb_64 tb).
Proof.
  intros HE W Hpre Hj Htb. unfold ctx_after.
  destruct (ctx_content pre ctx0) as (_ & A & _). rewrite A, Hpre. cbn [ctx0 c_tabs app].
  apply (x2i_positions _ _ _ _ W) in Hj. fold (emitted_ids e S_table) in Hj.
  destruct (Structure2.Forall2_nth_l _ _ _ _ _ (emitted_tabs_rel _ _ _ HE) Hj) as (b & Hb & tb' & Htb' & ->).
  rewrite Htb in Htb'. inversion Htb'; subst tb'. exact Hb.
Qed.
Lemma prefix_mem_flag_gen m ilen e pre t j tb : emitM m ilen [] = Ok e -> wf_map (space_map (em_x2i e) S_memory) ->
  flat_map sec_mems64 pre = flat_map sec_mems64 (em_secs e) ->
  get_idx (em_x2i e) S_memory t = Ok j -> aget (m_memories m) t = Some tb ->
  nth_error (c_mems (ctx_after pre)) (N.to_nat j) = Some (me_64 tb).
Proof.
  intros HE W Hpre Hj Htb. unfold ctx_after.
  destruct (ctx_content pre ctx0) as (_ & _ & A). rewrite A, Hpre. cbn [ctx0 c_mems app].
  apply (x2i_positions _ _ _ _ W) in Hj. fold (emitted_ids e S_memory) in Hj.
  destruct (Structure2.Forall2_nth_l _ _ _ _ _ (emitted_mems_rel _ _ _ HE) Hj) as (b & Hb & tb' & Htb' & ->).
  rewrite Htb in Htb'. inversion Htb'; subst tb'. exact Hb.
Qed.

(* the offset-type clause of data segments, for ANY module with the parse-side invariant and well-formed maps *)
Theorem data_offsets_gen : forall m ilen e, emitM m ilen [] = Ok e -> offsets_ok m ->
  (forall S, S <> S_local -> wf_map (space_map (em_x2i e) S)) ->
  forall pre l post d, em_secs e = pre ++ S_Data l :: post -> In d l -> data_off (ctx_after pre) d.
Proof.
  intros m ilen e1 HE [_ HO] WF pre l post d E Hd.
  destruct (prefix_content_ok _ _ _ _ _ _ HE E (or_intror eq_refl)) as (PG & _ & PM).
  pose proof HE as HE'. emitM_parts2 HE'.
  assert (Hin : In (S_Data l) s_da).
  { destruct (Etags (S_Data l) 11) as [[]|H]; [rewrite E; apply in_or_app; right; left; reflexivity|reflexivity|exact H]. }
  unfold emit_data in Eda. destruct (aiter (m_data m)) as [|p0 ps] eqn:El; [inversion Eda; subst; destruct Hin|].
  rewrite <- El in *. rinv Eda as ds Eds. inversion Eda; subst s_da; clear Eda. destruct Hin as [Hin|[]]. inversion Hin; subst ds; clear Hin.
  destruct (rmapM_in _ _ _ Eds _ Hd) as ([id da] & Hp & Hf). cbn [snd] in Hf. unfold data_off.
  destruct (da_kind da) as [|mem off] eqn:Ek; [inversion Hf; subst; exact I|].
  rinv Hf as mi Emi. rinv Hf as o Eo. inversion Hf; subst d; clear Hf. cbn [wd_kind]. intros is64 Hn.
  destruct (HO id da mem off Hp Ek) as (me & Hme & Hok).
  rewrite (prefix_mem_flag_gen _ _ _ _ _ _ _ HE (WF S_memory ltac:(discriminate)) PM Emi Hme) in Hn. inversion Hn; subst is64; clear Hn.
  destruct off as [v|g|t|f]; cbn [offset_ok emit_const] in *; try discriminate Hok.
  - destruct v; inversion Eo; subst o; cbn [offset_valid]; inversion Hok; try reflexivity; try discriminate.
  - destruct (get_idx (em_x2i e1) S_global g) as [j| |] eqn:Ej; cbn [rmap] in Eo; inversion Eo; subst o. cbn [offset_valid].
    unfold global_ty in Hok. destruct (aget (m_globals m) g) as [gl|] eqn:Eg; cbn [option_map of_opt_panic pbind] in Hok; [|discriminate Hok].
    rewrite (prefix_glob_type_gen _ _ _ _ _ _ _ HE (WF S_global ltac:(discriminate)) PG Ej Eg). inversion Hok as [Hb]. destruct (gl_ty gl); try discriminate Hb; reflexivity.
Qed.

Theorem elem_offsets_gen : forall m ilen e, emitM m ilen [] = Ok e -> offsets_ok m ->
  (forall S, S <> S_local -> wf_map (space_map (em_x2i e) S)) ->
  forall pre l post we, em_secs e = pre ++ S_Elems l :: post -> In we l -> elem_off (ctx_after pre) we.
Proof.
  intros m ilen e1 HE [HO _] WF pre l post we E Hw.
  destruct (prefix_content_ok _ _ _ _ _ _ HE E (or_introl eq_refl)) as (PG & PT & _).
  pose proof HE as HE'. emitM_parts2 HE'.
  pose proof (emitM_late_maps _ _ _ _ _ _ _ _ _ _ Eel Edc Eco) as Hlate.
  assert (Hin : In (S_Elems l) s_el).
  { destruct (Etags (S_Elems l) 8) as [[]|H]; [rewrite E; apply in_or_app; right; left; reflexivity|reflexivity|exact H]. }
  rewrite emit_elements_unfold in Eel. destruct (aiter (m_elements m)) as [|p0 ps] eqn:El; [inversion Eel; subst; destruct Hin|].
  rewrite <- El in *. rinv Eel as r Er. inversion Eel; subst s_el x9; clear Eel. destruct Hin as [Hin|[]]. inversion Hin; subst l; clear Hin.
  pose proof (elems_go_x _ _ _ Er) as X9. apply elems_go_entries' in Er. destruct Er as [_ F].
  assert (Hx : forall S id, S <> S_elem -> S <> S_data -> get_idx (snd r) S id = get_idx (em_x2i e1) S id).
  { intros S id H1 H2. unfold get_idx. rewrite X9, push_all_other by congruence. rewrite Hlate by assumption. reflexivity. }
  assert (exists p, In p (aiter (m_elements m)) /\ emit_elem (snd r) (snd p) = Ok we) as ([id el] & Hp & Hf).
  { clear - F Hw. induction F as [|a b la lb Hab _ IH]; [destruct Hw|]. destruct Hw as [<-|Hw].
    - exists a. split; [left; reflexivity|exact Hab].
    - destruct (IH Hw) as (p & Hp & Hf). exists p. split; [right; exact Hp|exact Hf]. }
  cbn [snd] in Hf. unfold emit_elem in Hf. rinv Hf as its Eits. rinv Hf as kind Ekind. inversion Hf; subst we; clear Hf. unfold elem_off. cbn [wel_kind].
  destruct (el_kind el) as [| |t off] eqn:Ek; try (inversion Ekind; subst kind; exact I).
  rinv Ekind as ti Eti. rinv Ekind as o Eo. inversion Ekind; subst kind; clear Ekind.
  assert (Etb : tbl0 (if N.eqb ti 0 then None else Some ti) = ti) by (destruct (N.eqb_spec ti 0%N) as [->|]; reflexivity).
  rewrite Etb. intros is64 Hn.
  destruct (HO id el t off Hp Ek) as (tb & Htb & Hok).
  rewrite Hx in Eti by discriminate.
  rewrite (prefix_tab_flag_gen _ _ _ _ _ _ _ HE (WF S_table ltac:(discriminate)) PT Eti Htb) in Hn. inversion Hn; subst is64; clear Hn.
  destruct off as [v|g|ty|f]; cbn [offset_ok emit_const] in *; try discriminate Hok.
  - destruct v; inversion Eo; subst o; cbn [offset_valid]; inversion Hok; try reflexivity; try discriminate.
  - rewrite Hx in Eo by discriminate.
    destruct (get_idx (em_x2i e1) S_global g) as [j| |] eqn:Ej; cbn [rmap] in Eo; inversion Eo; subst o. cbn [offset_valid].
    unfold global_ty in Hok. destruct (aget (m_globals m) g) as [gl|] eqn:Eg; cbn [option_map of_opt_panic pbind] in Hok; [|discriminate Hok].
    rewrite (prefix_glob_type_gen _ _ _ _ _ _ _ HE (WF S_global ltac:(discriminate)) PG Ej Eg). inversion Hok as [Hb]. destruct (gl_ty gl); try discriminate Hb; reflexivity.
Qed.

(* boolean (non-body) validity of the emitted stream of ANY module with: no self-referring global, the offset invariant,
   well-formed maps *)
Theorem emitted_valid_b_gen : forall m ilen e, emitM m ilen [] = Ok e -> no_self_ref m -> offsets_ok m ->
  (forall S, S <> S_local -> wf_map (space_map (em_x2i e) S)) ->
  valid_from_b ctx0 (em_secs e) = true.
Proof.
  intros m ilen e HE NS HO WF. apply (emitted_valid_b_partial4 _ _ _ HE NS).
  - intros pre l post E. assert (Hin : In (S_Elems l) (em_secs e)) by (rewrite E, in_app_iff; right; left; reflexivity).
    pose proof (emitted_elems_idx _ _ _ _ _ HE (prefix_sizes_ok _ _ _ _ _ _ HE E (or_introl eq_refl)) Hin) as HI. rewrite forallb_forall in HI.
    apply forallb_forall. intros we Hwe. apply elem_ok_split; [exact (HI _ Hwe)|exact (elem_offsets_gen _ _ _ HE HO WF _ _ _ _ E Hwe)].
  - intros pre l post E. assert (Hin : In (S_Data l) (em_secs e)) by (rewrite E, in_app_iff; right; left; reflexivity).
    pose proof (emitted_data_idx _ _ _ _ _ HE (prefix_sizes_ok _ _ _ _ _ _ HE E (or_intror eq_refl)) Hin) as HI. rewrite forallb_forall in HI.
    apply forallb_forall. intros d Hd. apply data_ok_split; [exact (HI _ Hd)|exact (data_offsets_gen _ _ _ HE HO WF _ _ _ _ E Hd)].
Qed.

(* ====================================================================================== *)
(* B. the two module-side premises survive the GC pass                                      *)
(* ====================================================================================== *)
Theorem gc_no_self_ref : forall m m', no_self_ref m -> gc m = Ok m' -> no_self_ref m'.
Proof.
  intros m m' NS HG id g g' Hin. destruct (local_globals_In _ _ _ _ Hin) as [Hg Hk].
  destruct (gc_kept_unchanged_full _ _ HG) as (_ & _ & K3 & _). apply K3 in Hg.
  apply (NS id g g'). unfold local_globals. apply in_flat_map. exists (id, g). split; [apply aiter_aget; exact Hg|].
  cbn [fst snd]. rewrite Hk. left. reflexivity.
Qed.

Theorem gc_offsets_ok : forall m m', closed m' -> offsets_ok m -> gc m = Ok m' -> offsets_ok m'.
Proof.
  intros m m' C [HE HD] HG.
  destruct (gc_kept_unchanged_full _ _ HG) as (_ & K2 & K3 & K4 & K5 & K6 & _).
  destruct (closed_elim _ C) as (_ & _ & _ & _ & _ & _ & _ & CE & CD).
  assert (OO : forall b off, cref_live m' off -> offset_ok m' b off = offset_ok m b off).
  { intros b off Hl. unfold offset_ok. destruct off as [v|g|t|f]; try reflexivity. cbn [cref_live] in Hl. destruct Hl as [gl Hgl].
    unfold global_ty. rewrite Hgl, (K3 _ _ Hgl). reflexivity. }
  split.
  - intros id e t off Hin Hk. apply aiter_aget in Hin. pose proof (CE _ _ Hin) as [_ Hok]. rewrite Hk in Hok. destruct Hok as [[tb Htb] Hoff].
    destruct (K6 _ _ Hin) as [Hin0|(_ & fs & _ & -> & _)]; [|discriminate Hk].
    apply aiter_aget in Hin0. destruct (HE id e t off Hin0 Hk) as (tb0 & Htb0 & Ho0).
    exists tb. split; [exact Htb|]. rewrite (OO _ _ Hoff). apply K2 in Htb. rewrite Htb in Htb0. inversion Htb0; subst tb0. exact Ho0.
  - intros id d mem off Hin Hk. apply aiter_aget in Hin. pose proof (CD _ _ Hin) as Hok. unfold okD in Hok. rewrite Hk in Hok. destruct Hok as [[me Hme] Hoff].
    pose proof (K5 _ _ Hin) as Hin0.
    apply aiter_aget in Hin0. destruct (HD id d mem off Hin0 Hk) as (me0 & Hme0 & Ho0).
    exists me. split; [exact Hme|]. rewrite (OO _ _ Hoff). apply K4 in Hme. rewrite Hme in Hme0. inversion Hme0; subst me0. exact Ho0.
Qed.

(* V1 after GC: everything of [valid_stream] except the bodies *)
Theorem emitted_valid_b_after_gc : forall cf ver w s m' ilen e,
  parseM cf ver w = POk s -> gc (ps_m s) = Ok m' -> emitM m' ilen [] = Ok e ->
  valid_from_b ctx0 (em_secs e) = true.
Proof.
  intros cf ver w s m' ilen e HP HG HE.
  destruct (gc_closed_after_parse_full _ _ _ _ _ HP HG) as [C _].
  apply (emitted_valid_b_gen _ _ _ HE).
  - exact (gc_no_self_ref _ _ (parsed_no_self_ref _ _ _ _ HP) HG).
  - exact (gc_offsets_ok _ _ C (ModFix32.parsed_offsets_ok_any _ _ _ _ HP) HG).
  - intros S HS. exact (gc_wf_space_full cf ver w s ilen [] m' e HP HG HE S HS).
Qed.

Print Assumptions emitted_valid_b_after_gc.

(* ====================================================================================== *)
(* C. where the block types of an emitted body come from                                    *)
(* ====================================================================================== *)
Module PE := WV.Proofs.EmitFn.

Definition is_bt (w : wins) (b : blockty) : Prop := w = WBlock b \/ w = WLoop b \/ w = WIf b.

Section BtIn.
  Variables cx1 cx2 : ectx.
  (* a block type written under [cx1] is the block type of a sequence type [sty] of the tree; the same sequence type is written
     under any other context [cx2]; a multi-value [sty] is visited by the traversal *)
  Definition bt_src (b : blockty) (tg2 : list (N * wins)) (evs : list ev) : Prop :=
    exists sty, b = block_type cx1 sty /\ (exists w2, In w2 (map snd tg2) /\ is_bt w2 (block_type cx2 sty)) /\
                (forall ty, sty = ST_Multi ty -> In (ESeqType ty) evs).
  Lemma bt_src_mono b tg2 tg2' evs evs' : bt_src b tg2 evs -> incl (map snd tg2) (map snd tg2') -> incl evs evs' -> bt_src b tg2' evs'.
  Proof.
    intros (sty & Hb & (w2 & Hw2 & Hi2) & Hev) I1 I2. exists sty. split; [exact Hb|]. split.
    - exists w2. split; [apply I1; exact Hw2|exact Hi2].
    - intros ty Hty. apply I2, Hev, Hty.
  Qed.
  Definition Pbt (t : tree) : Prop := forall env k tg1 tg2 w b, flt_tree cx1 env t k = Ok tg1 -> flt_tree cx2 env t k = Ok tg2 ->
    In w (map snd tg1) -> is_bt w b -> bt_src b tg2 (events false t).
  Definition Qbt (it : item) : Prop := forall env loc tg1 tg2 w b, flt_item cx1 env it loc = Ok tg1 -> flt_item cx2 env it loc = Ok tg2 ->
    In w (map snd tg1) -> is_bt w b -> bt_src b tg2 (item_events false it loc).

  Lemma flt_items_bt items : Forall (fun x => Qbt (fst x)) items ->
    forall env tg1 tg2 w b, PE.flt_items cx1 env items = Ok tg1 -> PE.flt_items cx2 env items = Ok tg2 ->
    In w (map snd tg1) -> is_bt w b -> bt_src b tg2 (PE.items_events items).
  Proof.
    induction 1 as [|x l Hx _ IH]; intros env tg1 tg2 w b H1 H2 Hin Hb; cbn [PE.flt_items] in H1, H2.
    - inversion H1; subst. elim Hin.
    - apply PE.rbind_ok in H1 as (a1 & Ha1 & H1). apply PE.rmap_ok in H1 as (b1 & Hb1 & ->).
      apply PE.rbind_ok in H2 as (a2 & Ha2 & H2). apply PE.rmap_ok in H2 as (b2 & Hb2 & ->).
      rewrite map_app in Hin. apply in_app_or in Hin. unfold PE.items_events. cbn [flat_map]. destruct Hin as [Hin|Hin].
      + eapply bt_src_mono; [exact (Hx _ _ _ _ _ _ Ha1 Ha2 Hin Hb)| |].
        * rewrite map_app. apply incl_appl, incl_refl.
        * apply incl_appl, incl_refl.
      + eapply bt_src_mono; [exact (IH _ _ _ _ _ Hb1 Hb2 Hin Hb)| |].
        * rewrite map_app. apply incl_appr, incl_refl.
        * apply incl_appr, incl_refl.
  Qed.

  Lemma head_src t b tg2 w2 : b = block_type cx1 (PE.tty t) -> In w2 (map snd tg2) -> is_bt w2 (block_type cx2 (PE.tty t)) ->
    bt_src b tg2 (events false t).
  Proof.
    intros Hb Hw2 Hi2. exists (PE.tty t). split; [exact Hb|]. split; [exists w2; split; assumption|].
    intros ty Hty. destruct t as [s sty items e]. cbn [PE.tty] in Hty. subst sty.
    rewrite PE.events_T. right. unfold PE.tail_events. apply in_or_app. left. cbn. left. reflexivity.
  Qed.

  Theorem flt_bt_both : (forall t, Pbt t) /\ (forall it, Qbt it).
  Proof.
    apply PE.tree_item_ind.
    - intros s ty items e HQ env k tg1 tg2 w b H1 H2 Hin Hb. rewrite PE.flt_tree_T in H1, H2.
      apply PE.rmap_ok in H1 as (b1 & Hb1 & ->). apply PE.rmap_ok in H2 as (b2 & Hb2 & ->).
      rewrite map_app in Hin. apply in_app_or in Hin. destruct Hin as [Hin|Hin].
      + eapply bt_src_mono; [exact (flt_items_bt _ HQ _ _ _ _ _ Hb1 Hb2 Hin Hb)| |].
        * rewrite map_app. apply incl_appl, incl_refl.
        * rewrite PE.events_T. apply incl_tl. unfold PE.tail_events. apply incl_appr, incl_appl, incl_refl.
      + exfalso. cbn in Hin. destruct Hin as [<-|[]]. destruct k; destruct Hb as [Hb|[Hb|Hb]]; discriminate Hb.
    - intros pl env loc tg1 tg2 w b H1 _ Hin Hb. exfalso. cbn [flt_item] in H1.
      destruct (encode_plain (ex_id2i cx1) pl) as [w'|]; inversion H1; subst.
      cbn in Hin. destruct Hin as [<-|[]]. destruct Hb as [Hb|[Hb|Hb]]; discriminate Hb.
    - intros s env loc tg1 tg2 w b H1 _ Hin Hb. exfalso. cbn [flt_item] in H1. apply PE.rmap_ok in H1 as (d & _ & ->).
      cbn in Hin. destruct Hin as [<-|[]]. destruct Hb as [Hb|[Hb|Hb]]; discriminate Hb.
    - intros s env loc tg1 tg2 w b H1 _ Hin Hb. exfalso. cbn [flt_item] in H1. apply PE.rmap_ok in H1 as (d & _ & ->).
      cbn in Hin. destruct Hin as [<-|[]]. destruct Hb as [Hb|[Hb|Hb]]; discriminate Hb.
    - intros ss d env loc tg1 tg2 w b H1 _ Hin Hb. exfalso. cbn [flt_item] in H1. apply PE.rbind_ok in H1 as (dd & _ & H1).
      apply PE.rmap_ok in H1 as (ds & _ & ->). cbn in Hin. destruct Hin as [<-|[]]. destruct Hb as [Hb|[Hb|Hb]]; discriminate Hb.
    - intros t Pt env loc tg1 tg2 w b H1 H2 Hin Hb. rewrite PE.flt_item_B in H1, H2.
      apply PE.rmap_ok in H1 as (t1 & H1 & ->). apply PE.rmap_ok in H2 as (t2 & H2 & ->).
      rewrite PE.item_events_eq. cbn [map snd In] in Hin. destruct Hin as [Hin|Hin].
      + eapply bt_src_mono; [eapply (head_src t b ((loc, WBlock (block_type cx2 (PE.tty t))) :: t2) (WBlock (block_type cx2 (PE.tty t))))| |].
        * subst w. destruct Hb as [Hb|[Hb|Hb]]; inversion Hb. reflexivity.
        * left. reflexivity.
        * left. reflexivity.
        * apply incl_refl.
        * apply incl_appr, incl_refl.
      + eapply bt_src_mono; [exact (Pt _ _ _ _ _ _ H1 H2 Hin Hb)| |].
        * cbn [map]. apply incl_tl, incl_refl.
        * apply incl_appr, incl_refl.
    - intros t Pt env loc tg1 tg2 w b H1 H2 Hin Hb. rewrite PE.flt_item_L in H1, H2.
      apply PE.rmap_ok in H1 as (t1 & H1 & ->). apply PE.rmap_ok in H2 as (t2 & H2 & ->).
      rewrite PE.item_events_eq. cbn [map snd In] in Hin. destruct Hin as [Hin|Hin].
      + eapply bt_src_mono; [eapply (head_src t b ((loc, WLoop (block_type cx2 (PE.tty t))) :: t2) (WLoop (block_type cx2 (PE.tty t))))| |].
        * subst w. destruct Hb as [Hb|[Hb|Hb]]; inversion Hb. reflexivity.
        * left. reflexivity.
        * right. left. reflexivity.
        * apply incl_refl.
        * apply incl_appr, incl_refl.
      + eapply bt_src_mono; [exact (Pt _ _ _ _ _ _ H1 H2 Hin Hb)| |].
        * cbn [map]. apply incl_tl, incl_refl.
        * apply incl_appr, incl_refl.
    - intros c a Pc Pa env loc tg1 tg2 w b H1 H2 Hin Hb. rewrite PE.flt_item_I in H1, H2.
      apply PE.rbind_ok in H1 as (x1 & Hx1 & H1). apply PE.rmap_ok in H1 as (y1 & Hy1 & ->).
      apply PE.rbind_ok in H2 as (x2 & Hx2 & H2). apply PE.rmap_ok in H2 as (y2 & Hy2 & ->).
      rewrite PE.item_events_eq. cbn [map snd In] in Hin. destruct Hin as [Hin|Hin].
      + eapply bt_src_mono; [eapply (head_src c b ((loc, WIf (block_type cx2 (PE.tty c))) :: x2 ++ y2) (WIf (block_type cx2 (PE.tty c))))| |].
        * subst w. destruct Hb as [Hb|[Hb|Hb]]; inversion Hb. reflexivity.
        * left. reflexivity.
        * right. right. reflexivity.
        * apply incl_refl.
        * apply incl_appr, incl_appl, incl_refl.
      + rewrite map_app in Hin. apply in_app_or in Hin. destruct Hin as [Hin|Hin].
        * eapply bt_src_mono; [exact (Pc _ _ _ _ _ _ Hx1 Hx2 Hin Hb)| |].
          -- cbn [map]. apply incl_tl. rewrite map_app. apply incl_appl, incl_refl.
          -- apply incl_appr, incl_appl, incl_refl.
        * eapply bt_src_mono; [exact (Pa _ _ _ _ _ _ Hy1 Hy2 Hin Hb)| |].
          -- cbn [map]. apply incl_tl. rewrite map_app. apply incl_appr, incl_refl.
          -- apply incl_appr, incl_appr, incl_refl.
  Qed.
End BtIn.

Definition ecx_id (ilen : wins -> N) : ectx := {| ex_id2i := fun _ id => id; ex_ilen := ilen |}.

(* a multi-value block type of an emitted body is the emit-time index of a type that (i) the traversal of the body visits as a
   sequence type and (ii) is a non-entry type of the parse-time type table *)
Theorem emitted_bt_origin : forall cx ecx ety rs l eloc p0 ar1 st1 fuel1 f1 evs1 w i,
  wfl cx 1 l -> parse_body cx ety rs (flat_list l ++ [(WEnd, eloc)]) = Ok ar1 ->
  emit_body ecx fuel1 ar1 0 p0 = Ok st1 -> dfs_in_order false f1 ar1 0 = Ok evs1 ->
  In w (out st1) -> is_bt w (BT_Func i) ->
  exists ty ps' rs', i = ex_id2i ecx S_type ty /\ In (ESeqType ty) evs1 /\ nth_N (px_types cx) ty = Some (ps', rs', false).
Proof.
  intros cx ecx ety rs l eloc p0 ar1 st1 fuel1 f1 evs1 w i Hw Hp He Hd Hin Hb.
  pose proof Hp as Hp0.
  rewrite (Proofs.ParseFn.parse_body_arena cx ety rs l eloc Hw) in Hp. injection Hp as <-.
  pose proof (Proofs.ParseFn.parsed_arena_den cx ety l eloc Hw) as HD.
  pose proof (Proofs.Body.flt_parsed_tree cx ecx ety l eloc Hw (ModFix10.enc_ok_all _ _)) as Hf1.
  pose proof (Proofs.Body.flt_parsed_tree cx (ecx_id (ex_ilen ecx)) ety l eloc Hw (ModFix10.enc_ok_all _ _)) as Hf2.
  pose proof (Proofs.Traversal.dfs_in_order_spec false _ _ HD) as Hs.
  pose proof (Proofs.Body.parsed_tree_tsid cx ety l eloc) as Ht0.
  rewrite <- Ht0 in He, Hd.
  rewrite (ModFix10.dfs_det _ _ _ _ _ _ _ Hd Hs).
  destruct (PE.emit_body_spec ecx _ _ _ p0 _ HD Hs Hf1) as (st' & He' & Ho & _).
  rewrite (ModFix10.emit_body_det _ _ _ _ _ _ _ _ He He'), Ho in Hin.
  destruct (PE.emit_body_spec (ecx_id (ex_ilen ecx)) _ _ _ p0 _ HD Hs Hf2) as (st2 & He2 & Ho2 & _).
  destruct (proj1 (flt_bt_both ecx (ecx_id (ex_ilen ecx))) _ [] KEntry _ _ w _ Hf1 Hf2 Hin Hb) as (sty & Hsty & (w2 & Hw2 & Hi2) & Hev).
  destruct sty as [o|ty]; [destruct o; discriminate Hsty|]. cbn [block_type] in Hsty, Hi2. injection Hsty as ->.
  rewrite <- Ho2 in Hw2. rewrite Ht0 in He2.
  pose proof (ModFix14.emitted_bts cx (ecx_id (ex_ilen ecx)) ety rs l eloc p0 _ st2 _ Hw Hp0 He2) as HB.
  rewrite Forall_forall in HB. specialize (HB _ Hw2).
  assert (HS : ModFix14.bt_shape cx (ecx_id (ex_ilen ecx)) (BT_Func ty)).
  { destruct Hi2 as [ -> | [ -> | -> ] ]; exact HB. }
  destruct HS as [HS|[(v & HS)|(ty' & ps' & rs' & HS & Hn & _)]]; try discriminate HS.
  cbn [ecx_id ex_id2i] in HS. injection HS as <-.
  exists ty, ps', rs'. split; [reflexivity|]. split; [apply Hev; reflexivity|exact Hn].
Qed.
Print Assumptions emitted_bt_origin.

(* ====================================================================================== *)
(* D. the bodies emitted after GC are validator-valid                                       *)
(* ====================================================================================== *)
Lemma kept_seqtypes m u id fn lf evs : Model.GC.used m = Ok u -> In (S_func, id) u ->
  aget (m_funcs m) id = Some fn -> fn_kind fn = FK_Local lf -> lf_log lf = Ok evs ->
  forall ty, In (ESeqType ty) evs -> In (S_type, ty) u.
Proof.
  intros Hu Hin Hg Hk Hl ty He.
  destruct (used_closed' _ _ Hu) as (rs & _ & _ & K).
  destruct (K (S_func, id) Hin ltac:(cbn; discriminate) ltac:(cbn; discriminate)) as (ys & Hys & Hinc).
  apply Hinc. unfold succ in Hys. cbn [fst snd] in Hys. rewrite Hg, Hk, Hl in Hys. cbn [rmap] in Hys.
  injection Hys as <-. right. apply in_flat_map. exists (ESeqType ty). split; [exact He|]. left. reflexivity.
Qed.

Theorem emitted_bodies_valid_after_gc : forall cf ver w s m' ilen e,
  valid_stream w -> parseM cf ver w = POk s -> gc (ps_m s) = Ok m' -> emitM m' ilen [] = Ok e ->
  Forall (body_valid (length (flat_map types_of (em_secs e)))) (flat_map code_of (em_secs e)).
Proof.
  intros cf ver w s m' ilen e V P1 HG HE.
  destruct (emitM_x2i _ _ _ _ HE) as (fs & Hfs & Xt & _).
  destruct (emit_code_payload _ _ _ _ HE Hfs) as (Hco & F & _ & _).
  rewrite Hco. apply Forall_map. apply Forall_forall. intros ef Hin.
  destruct (ModFix22.Forall2_In_r _ _ _ F ef Hin) as ([id lf] & Hp & Hemit). cbn [fst snd] in Hemit.
  destruct (ulf_in _ _ _ _ Hfs Hp) as (f1 & Hinf & Hk). apply aiter_aget in Hinf.
  destruct (gc_inv_full _ _ HG) as [m1 [Hsw Hd]].
  destruct (gc_shape _ _ Hsw) as (u & Hu & R).
  rewrite (declare_funcs _ _ Hd) in Hinf. apply (gr_funcs _ _ _ R) in Hinf. destruct Hinf as [Hg Hu0].
  destruct (local_function_body _ _ _ _ _ _ _ P1 Hg Hk) as (s0 & k & b & t & ety & _ & _ & Hb & _ & _ & Ht & _ & Hen & Hpb & _).
  destruct (valid_bodies_structured _ _ _ _ b id V P1 (nth_error_In _ _ Hb)) as (l & eloc & Eops & _ & Hw).
  destruct (emit_function_inv _ _ _ _ _ _ Hemit) as (evs & decls & lmap & st & A1 & A2 & A3 & A4 & A5 & _).
  rewrite Hen in A4. rewrite Eops in Hpb. rewrite A5.
  eapply ModFix22.emitted_body_valid; [exact Hw|exact Hpb|exact A4|].
  apply Forall_forall. intros w0 Hw0.
  assert (HB : forall bt, is_bt w0 bt -> sbt_ok (length (flat_map types_of (em_secs e))) bt).
  { intros bt Hbt. destruct bt as [| v | i]; cbn [sbt_ok]; try exact I.
    pose proof A1 as A1'. unfold lf_log in A1'. rewrite Hen in A1'.
    destruct (emitted_bt_origin _ _ _ _ _ _ _ _ _ _ _ _ _ _ Hw Hpb A4 A1' Hw0 Hbt) as (ty & ps' & rs' & -> & Hev & Hn).
    cbn [px_types] in Hn. unfold types_list, nth_N in Hn. rewrite nth_error_map in Hn.
    destruct (nth_error (WV.Model.Arena.items (WV.Model.Arena.arena (m_types (ps_m s)))) (N.to_nat ty)) as [t0|] eqn:Et; [|discriminate Hn].
    cbn [option_map] in Hn. injection Hn as _ _ Hent.
    assert (G : types_get (ps_m s) ty = Some t0).
    { unfold types_get. rewrite aset_index_nodead; [exact Et|]. apply (WV.Proofs.ParsedWf.parseM_types_wf _ _ _ _ P1). }
    pose proof (kept_seqtypes _ _ _ _ _ _ Hu Hu0 Hg Hk A1 ty Hev) as Hkept.
    pose proof (gr_types _ _ _ R ty t0 G Hkept) as G1.
    assert (G' : types_get m' ty = Some t0) by (unfold types_get in *; rewrite (declare_types _ _ Hd); exact G1).
    pose proof (WV.Proofs.Totality.emitted_types_In _ _ _ G' Hent) as Hi.
    destruct (ModFix22.find_number_bound _ _ Hi) as (p & Hf & Hbd).
    cbn [ex_id2i]. unfold id2i_fun. cbn [space_map]. rewrite Xt, Hf.
    rewrite (ModFix3.out_types_keys _ _ _ HE), !map_length in *. exact Hbd. }
  destruct w0; cbn [ModFix22.bts_below]; try exact I; apply HB; [left|right; left|right; right]; reflexivity.
Qed.
Print Assumptions emitted_bodies_valid_after_gc.

(* ====================================================================================== *)
(* E. assembly                                                                              *)
(* ====================================================================================== *)
Theorem emitted_bodies_valid_sections_after_gc : forall cf ver w s m' ilen e,
  valid_stream w -> parseM cf ver w = POk s -> gc (ps_m s) = Ok m' -> emitM m' ilen [] = Ok e ->
  forall pre bs post, em_secs e = pre ++ S_Code bs :: post ->
  Forall (body_valid (length (flat_map types_of pre))) bs.
Proof.
  intros cf ver w s m' ilen e V P1 HG E1 pre bs post Es.
  pose proof (emitted_bodies_valid_after_gc cf ver w s m' ilen e V P1 HG E1) as HB.
  assert (Hpost : flat_map types_of post = []).
  { destruct (ModFix3.emitted_types_front _ _ _ E1) as (tail & NT & [Et|Et]); rewrite Es in Et.
    - apply ModFix22.no_types_nil. intros ts Hin. apply (NT ts). rewrite <- Et. apply in_or_app. right. right. exact Hin.
    - destruct pre as [|p pre]; [discriminate Et|]. cbn [app] in Et. injection Et as _ Et.
      apply ModFix22.no_types_nil. intros ts Hin. apply (NT ts). rewrite <- Et. apply in_or_app. right. right. exact Hin. }
  rewrite Es in HB. rewrite !flat_map_app in HB. cbn [flat_map] in HB. rewrite Hpost in HB.
  cbn [types_of] in HB.
  rewrite ?app_nil_r in HB. cbn [code_of] in HB.
  apply Forall_app in HB. destruct HB as [_ HB]. apply Forall_app in HB. destruct HB as [HB _]. exact HB.
Qed.

(* MAIN: the stream emitted after the GC pass has every guarantee of [valid_stream] - no clause is lost *)
Theorem emitted_stream_valid_after_gc : forall cf ver w s m' ilen e,
  valid_stream w -> parseM cf ver w = POk s -> gc (ps_m s) = Ok m' -> emitM m' ilen [] = Ok e ->
  valid_stream (em_secs e).
Proof.
  intros cf ver w s m' ilen e V P1 HG HE.
  apply (emitted_valid_stream _ _ _ HE).
  - exact (emitted_valid_b_after_gc _ _ _ _ _ _ _ P1 HG HE).
  - exact (emitted_bodies_valid_sections_after_gc _ _ _ _ _ _ _ V P1 HG HE).
Qed.

(* the GC output can be parsed again by the model (under any configuration / producers version) *)
Theorem gc_output_reparses : forall cf ver w s m' ilen e cf2 ver2,
  valid_stream w -> parseM cf ver w = POk s -> gc (ps_m s) = Ok m' -> emitM m' ilen [] = Ok e ->
  exists s2, parseM cf2 ver2 (em_secs e) = POk s2.
Proof.
  intros cf ver w s m' ilen e cf2 ver2 V P1 HG HE. apply parse_total.
  exact (emitted_stream_valid_after_gc _ _ _ _ _ _ _ V P1 HG HE).
Qed.

(* with the reference-range premise of the totality theorem the emission itself exists: parse; gc; emit; parse is total *)
Theorem gc_trip_total : forall cf ver w s m' ilen,
  valid_stream w -> parseM cf ver w = POk s -> refs_in_range w (ps_ids s) -> gc (ps_m s) = Ok m' ->
  exists e s2, emitM m' ilen [] = Ok e /\ valid_stream (em_secs e) /\ parseM cf ver (em_secs e) = POk s2.
Proof.
  intros cf ver w s m' ilen V P1 RR HG.
  destruct (emit_total_after_gc_final_partial_full cf ver w s m' ilen [] V P1 RR HG) as [e HE].
  destruct (gc_output_reparses _ _ _ _ _ _ _ cf ver V P1 HG HE) as [s2 P2].
  exists e, s2. split; [exact HE|]. split; [|exact P2]. exact (emitted_stream_valid_after_gc _ _ _ _ _ _ _ V P1 HG HE).
Qed.

Print Assumptions emitted_stream_valid_after_gc.
Print Assumptions gc_output_reparses.
Print Assumptions gc_trip_total.
