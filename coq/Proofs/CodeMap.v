(* The code-offset map (CodeTransform) handed to custom sections is exact:
   1. LEB lengths, 2. BTreeMap insert, 3. instruction map, 4. positions, 5. tags of the normal form,
   6. function ranges, 7. code section start, 8. inserted markers. *)
From Coq Require Import List NArith ZArith Arith Lia Bool Sorting.Sorted Sorting.Permutation. Import ListNotations.
From WV Require Import Gen.Ops Model.Common Model.IR Model.Arena Model.Builder Model.ParseFn Model.ParseSpec
  Model.Traversal Model.EmitFn Model.EmitSpec Model.BodySpec Model.ModuleM Model.ParseM Model.EmitM Model.CodeMap.
From WV Require Import Proofs.ParseFn Proofs.Body.
From WV Require Proofs.Builder.
Local Open Scope nat_scope.

(* ================================================================== 1. LEB *)
Lemma leb_len_fuel_pos : forall f n, (1 <= leb_len_fuel f n)%N.
Proof.
  induction f as [|f IH]; intros n; cbn [leb_len_fuel]; [lia|].
  destruct (n <? 128)%N; [lia|]. specialize (IH (N.shiftr n 7)). lia.
Qed.
Theorem leb_len_pos : forall n, (1 <= leb_len n)%N.
Proof. intros n. apply leb_len_fuel_pos. Qed.

Lemma leb_step f n : leb_len_fuel (S f) n = if (n <? 128)%N then 1%N else (1 + leb_len_fuel f (n / 128))%N.
Proof. cbn [leb_len_fuel]. rewrite N.shiftr_div_pow2. reflexivity. Qed.

Theorem leb_len_small : forall n, (n < 128)%N -> leb_len n = 1%N.
Proof. intros n H. unfold leb_len. rewrite leb_step. apply N.ltb_lt in H. now rewrite H. Qed.

Lemma leb_fuel_small f n : (n < 128)%N -> leb_len_fuel (S f) n = 1%N.
Proof. intros H. rewrite leb_step. apply N.ltb_lt in H. now rewrite H. Qed.
Lemma leb_fuel_big f n : (128 <= n)%N -> leb_len_fuel (S f) n = (1 + leb_len_fuel f (n / 128))%N.
Proof. intros H. rewrite leb_step. apply N.ltb_ge in H. now rewrite H. Qed.

Theorem leb_len_two : forall n, (128 <= n < 16384)%N -> leb_len n = 2%N.
Proof.
  intros n [H1 H2]. unfold leb_len. rewrite leb_fuel_big by exact H1.
  rewrite leb_fuel_small; [reflexivity|]. apply N.div_lt_upper_bound; lia.
Qed.

Theorem leb_len_three : forall n, (16384 <= n < 2097152)%N -> leb_len n = 3%N.
Proof.
  intros n [H1 H2]. unfold leb_len. rewrite leb_fuel_big by lia.
  rewrite leb_fuel_big by (apply N.div_le_lower_bound; lia).
  rewrite leb_fuel_small; [reflexivity|].
  apply N.div_lt_upper_bound; [lia|]. apply N.div_lt_upper_bound; lia.
Qed.

(* the converses: the length determines the range *)
Theorem leb_len_one_iff : forall n, leb_len n = 1%N <-> (n < 128)%N.
Proof.
  intros n. split; [|apply leb_len_small]. intros H. destruct (N.lt_ge_cases n 128) as [L|G]; [exact L|].
  unfold leb_len in H. rewrite leb_fuel_big in H by exact G. pose proof (leb_len_fuel_pos 9 (n / 128)). lia.
Qed.
Theorem leb_len_two_iff : forall n, leb_len n = 2%N <-> (128 <= n < 16384)%N.
Proof.
  intros n. split; [|apply leb_len_two]. intros H.
  destruct (N.lt_ge_cases n 128) as [L|G]; [rewrite leb_len_small in H by exact L; discriminate|].
  split; [exact G|]. destruct (N.lt_ge_cases n 16384) as [L2|G2]; [exact L2|].
  unfold leb_len in H. rewrite leb_fuel_big in H by exact G.
  rewrite leb_fuel_big in H by (apply N.div_le_lower_bound; lia).
  pose proof (leb_len_fuel_pos 8 (n / 128 / 128)). lia.
Qed.

(* ================================================================== 2. BTreeMap insert *)
Definition keys_sorted {V} (l : list (N * V)) : Prop := StronglySorted N.lt (map fst l).

Lemma bt_insert_keys {V} (k : N) (v : V) l k' :
  In k' (map fst (bt_insert k v l)) <-> k' = k \/ In k' (map fst l).
Proof.
  induction l as [|[k0 v0] r IH]; cbn [bt_insert map fst In].
  - intuition.
  - destruct (k <? k0)%N eqn:E1; [cbn [map fst In]; intuition|].
    destruct (k =? k0)%N eqn:E2.
    + apply N.eqb_eq in E2. subst k0. cbn [map fst In]. intuition.
    + cbn [map fst In]. rewrite IH. intuition.
Qed.

Lemma bt_insert_In_fwd {V} (k : N) (v : V) l k' v' :
  In (k', v') (bt_insert k v l) -> (k' = k /\ v' = v) \/ In (k', v') l.
Proof.
  induction l as [|[k0 v0] r IH]; cbn [bt_insert In].
  - intros [H|[]]. injection H as <- <-. now left.
  - destruct (k <? k0)%N; [cbn [In]; intros [H|H]; [injection H as <- <-; now left|now right]|].
    destruct (k =? k0)%N; cbn [In].
    + intros [H|H]; [injection H as <- <-; now left|right; now right].
    + intros [H|H]; [right; now left|]. destruct (IH H) as [H'|H']; [now left|right; now right].
Qed.

Theorem bt_insert_sorted {V} (k : N) (v : V) l : keys_sorted l -> keys_sorted (bt_insert k v l).
Proof.
  unfold keys_sorted. induction l as [|[k0 v0] r IH]; cbn [bt_insert map fst]; intros HS.
  - repeat constructor.
  - apply StronglySorted_inv in HS. destruct HS as [HS HF].
    destruct (k <? k0)%N eqn:E1.
    + apply N.ltb_lt in E1. cbn [map fst]. constructor; [constructor; assumption|].
      constructor; [exact E1|]. eapply Forall_impl; [|exact HF]. cbn beta. intros a Ha. lia.
    + apply N.ltb_ge in E1. destruct (k =? k0)%N eqn:E2.
      * apply N.eqb_eq in E2. subst k0. cbn [map fst]. constructor; assumption.
      * apply N.eqb_neq in E2. cbn [map fst]. constructor; [apply IH, HS|].
        apply Forall_forall. intros a Ha. apply bt_insert_keys in Ha. destruct Ha as [->|Ha]; [lia|].
        rewrite Forall_forall in HF. apply HF, Ha.
Qed.

Theorem bt_insert_In {V} (k : N) (v : V) l k' v' : keys_sorted l ->
  (In (k', v') (bt_insert k v l) <-> (k' = k /\ v' = v) \/ (k' <> k /\ In (k', v') l)).
Proof.
  unfold keys_sorted. induction l as [|[k0 v0] r IH]; cbn [bt_insert map fst]; intros HS.
  - cbn [In]. split; [intros [H|[]]; injection H as <- <-; now left|]. intros [[-> ->]|[_ []]]. now left.
  - apply StronglySorted_inv in HS. destruct HS as [HS HF]. rewrite Forall_forall in HF.
    assert (Hr : forall a b, In (a, b) r -> (k0 < a)%N).
    { intros a b Hab. apply HF. change a with (fst (a, b)). now apply in_map. }
    destruct (k <? k0)%N eqn:E1.
    + apply N.ltb_lt in E1. cbn [In]. split.
      * intros [H|[H|H]]; [injection H as <- <-; now left| |].
        -- injection H as <- <-. right. split; [lia|now left].
        -- right. split; [apply Hr in H; lia|now right].
      * intros [[-> ->]|[_ H]]; [now left|now right].
    + apply N.ltb_ge in E1. destruct (k =? k0)%N eqn:E2.
      * apply N.eqb_eq in E2. subst k0. cbn [In]. split.
        -- intros [H|H]; [injection H as <- <-; now left|]. right. split; [apply Hr in H; lia|now right].
        -- intros [[-> ->]|[Hne [H|H]]]; [now left| |now right]. injection H as -> _. now elim Hne.
      * apply N.eqb_neq in E2. cbn [In]. rewrite (IH HS). split.
        -- intros [H|[H|[Hne H]]].
           ++ injection H as <- <-. right. split; [congruence|now left].
           ++ now left.
           ++ right. split; [exact Hne|now right].
        -- intros [H|[Hne [H|H]]]; [right; now left|now left|]. right; right. now split.
Qed.

Lemma keys_sorted_functional {V} (l : list (N * V)) k v v' :
  keys_sorted l -> In (k, v) l -> In (k, v') l -> v = v'.
Proof.
  unfold keys_sorted. induction l as [|[k0 v0] r IH]; cbn [map fst]; intros HS H1 H2; [destruct H1|].
  apply StronglySorted_inv in HS. destruct HS as [HS HF]. rewrite Forall_forall in HF.
  assert (Hr : forall b, In (k, b) r -> (k0 < k)%N).
  { intros b Hb. apply HF. change k with (fst (k, b)). now apply in_map. }
  destruct H1 as [H1|H1], H2 as [H2|H2].
  - congruence.
  - injection H1 as -> _. apply Hr in H2. lia.
  - injection H2 as -> _. apply Hr in H1. lia.
  - now apply IH.
Qed.

(* ================================================================== 3. instruction map *)
Definition add_step (k : N) (acc : list (N * (N * N))) (q : N * N) : list (N * (N * N)) :=
  if (fst q =? default_loc)%N then acc else bt_insert (fst q) (k, snd q) acc.
Lemma add_fn_pairs_eq acc k im : add_fn_pairs acc k im = fold_left (add_step k) im acc.
Proof. reflexivity. Qed.
Lemma add_fn_pairs_nil acc k : add_fn_pairs acc k [] = acc.
Proof. reflexivity. Qed.
Lemma add_fn_pairs_cons acc k q im : add_fn_pairs acc k (q :: im) = add_fn_pairs (add_step k acc q) k im.
Proof. reflexivity. Qed.

Lemma add_step_sorted k acc q : keys_sorted acc -> keys_sorted (add_step k acc q).
Proof. intros H. unfold add_step. destruct (fst q =? default_loc)%N; [exact H|now apply bt_insert_sorted]. Qed.

Lemma add_fn_pairs_sorted k im : forall acc, keys_sorted acc -> keys_sorted (add_fn_pairs acc k im).
Proof.
  induction im as [|q im IH]; intros acc H; [exact H|]. rewrite add_fn_pairs_cons. apply IH, add_step_sorted, H.
Qed.

Lemma ct_pairs_from_sorted efs : forall k acc, keys_sorted acc -> keys_sorted (ct_pairs_from k efs acc).
Proof.
  induction efs as [|e r IH]; intros k acc H; cbn [ct_pairs_from]; [exact H|]. apply IH, add_fn_pairs_sorted, H.
Qed.

Theorem ct_pairs_sorted : forall efs, keys_sorted (ct_pairs efs).
Proof. intros efs. apply ct_pairs_from_sorted. constructor. Qed.

Corollary ct_pairs_functional : forall efs loc v v',
  In (loc, v) (ct_pairs efs) -> In (loc, v') (ct_pairs efs) -> v = v'.
Proof. intros efs loc v v'. apply keys_sorted_functional, ct_pairs_sorted. Qed.

(* soundness of one function's contribution *)
Lemma add_fn_pairs_sound k im : forall acc loc v,
  In (loc, v) (add_fn_pairs acc k im) ->
  In (loc, v) acc \/ (loc <> default_loc /\ exists pos, v = (k, pos) /\ In (loc, pos) im).
Proof.
  induction im as [|q im IH]; intros acc loc v H; [now left|].
  rewrite add_fn_pairs_cons in H. apply IH in H. destruct H as [H|(Hne & pos & E & Hi)].
  - unfold add_step in H. destruct (fst q =? default_loc)%N eqn:Eq; [now left|].
    apply N.eqb_neq in Eq. apply bt_insert_In_fwd in H. destruct H as [[-> ->]|H]; [|now left].
    right. split; [exact Eq|]. exists (snd q). split; [reflexivity|]. left. now destruct q.
  - right. split; [exact Hne|]. exists pos. split; [exact E|now right].
Qed.

Lemma ct_pairs_from_sound efs : forall k0 acc loc k pos,
  In (loc, (k, pos)) (ct_pairs_from k0 efs acc) ->
  In (loc, (k, pos)) acc \/
  (loc <> default_loc /\ (k0 <= k)%N /\ exists e, nth_error efs (N.to_nat (k - k0)) = Some e /\ In (loc, pos) (ef_imap e)).
Proof.
  induction efs as [|e r IH]; intros k0 acc loc k pos H; cbn [ct_pairs_from] in H; [now left|].
  apply IH in H. destruct H as [H|(Hne & Hle & e' & Hn & Hi)].
  - apply add_fn_pairs_sound in H. destruct H as [H|(Hne & pos' & E & Hi)]; [now left|].
    injection E as -> ->. right. split; [exact Hne|]. split; [lia|]. exists e.
    rewrite N.sub_diag. split; [reflexivity|exact Hi].
  - right. split; [exact Hne|]. split; [lia|]. exists e'. split; [|exact Hi].
    replace (N.to_nat (k - k0)) with (S (N.to_nat (k - (k0 + 1)))) by lia. exact Hn.
Qed.

Theorem ct_pairs_sound : forall efs loc k pos,
  In (loc, (k, pos)) (ct_pairs efs) -> exists e, nth_error efs (N.to_nat k) = Some e /\ In (loc, pos) (ef_imap e).
Proof.
  intros efs loc k pos H. apply ct_pairs_from_sound in H. destruct H as [[]|(_ & _ & e & Hn & Hi)].
  rewrite N.sub_0_r in Hn. now exists e.
Qed.

Theorem ct_pairs_no_default : forall efs loc v, In (loc, v) (ct_pairs efs) -> loc <> default_loc.
Proof.
  intros efs loc [k pos] H. apply ct_pairs_from_sound in H. destruct H as [[]|(Hne & _)]. exact Hne.
Qed.

(* completeness: keys are never removed *)
Lemma add_step_keeps k acc q loc : In loc (map fst acc) -> In loc (map fst (add_step k acc q)).
Proof.
  intros H. unfold add_step. destruct (fst q =? default_loc)%N; [exact H|]. apply bt_insert_keys. now right.
Qed.
Lemma add_fn_pairs_keeps k im : forall acc loc, In loc (map fst acc) -> In loc (map fst (add_fn_pairs acc k im)).
Proof.
  induction im as [|q im IH]; intros acc loc H; [exact H|]. rewrite add_fn_pairs_cons. apply IH, add_step_keeps, H.
Qed.
Lemma add_fn_pairs_adds k im : forall acc loc pos, In (loc, pos) im -> loc <> default_loc ->
  In loc (map fst (add_fn_pairs acc k im)).
Proof.
  induction im as [|q im IH]; intros acc loc pos H Hne; [destruct H|]. rewrite add_fn_pairs_cons.
  destruct H as [->|H]; [|eapply IH; eassumption].
  apply add_fn_pairs_keeps. unfold add_step. cbn [fst snd]. apply N.eqb_neq in Hne. rewrite Hne.
  apply bt_insert_keys. now left.
Qed.
Lemma ct_pairs_from_keeps efs : forall k acc loc, In loc (map fst acc) -> In loc (map fst (ct_pairs_from k efs acc)).
Proof.
  induction efs as [|e r IH]; intros k acc loc H; cbn [ct_pairs_from]; [exact H|]. apply IH, add_fn_pairs_keeps, H.
Qed.
Lemma ct_pairs_from_complete efs : forall k0 acc n e loc pos,
  nth_error efs n = Some e -> In (loc, pos) (ef_imap e) -> loc <> default_loc ->
  In loc (map fst (ct_pairs_from k0 efs acc)).
Proof.
  induction efs as [|e0 r IH]; intros k0 acc [|n] e loc pos Hn Hi Hne; cbn [nth_error] in Hn; try discriminate;
    cbn [ct_pairs_from].
  - injection Hn as ->. apply ct_pairs_from_keeps. eapply add_fn_pairs_adds; eassumption.
  - eapply IH; eassumption.
Qed.

Theorem ct_pairs_complete : forall efs k e loc pos,
  nth_error efs k = Some e -> In (loc, pos) (ef_imap e) -> loc <> default_loc -> exists v, In (loc, v) (ct_pairs efs).
Proof.
  intros efs k e loc pos Hn Hi Hne.
  pose proof (ct_pairs_from_complete efs 0%N [] k e loc pos Hn Hi Hne) as H. fold (ct_pairs efs) in H.
  apply in_map_iff in H. destruct H as ([loc' v] & E & H). cbn [fst] in E. subst loc'. now exists v.
Qed.

(* uniqueness of sources *)
Definition nd_keys (im : list (N * N)) : list N :=
  map fst (filter (fun q => negb (fst q =? default_loc)%N) im).
Definition all_nd_keys (efs : list emitted_fn) : list N := concat (map (fun e => nd_keys (ef_imap e)) efs).

Lemma nd_keys_In im loc pos : In (loc, pos) im -> loc <> default_loc -> In loc (nd_keys im).
Proof.
  intros H Hne. unfold nd_keys. apply in_map_iff. exists (loc, pos). split; [reflexivity|].
  apply filter_In. split; [exact H|]. cbn [fst]. apply N.eqb_neq in Hne. now rewrite Hne.
Qed.

Lemma NoDup_map_fst_functional {A B} (l : list (A * B)) a b b' :
  NoDup (map fst l) -> In (a, b) l -> In (a, b') l -> b = b'.
Proof.
  induction l as [|[a0 b0] r IH]; cbn [map fst]; intros HN H1 H2; [destruct H1|].
  inversion HN as [|? ? Hni HN']; subst.
  assert (Hr : forall c, In (a, c) r -> In a (map fst r)).
  { intros c Hc. change a with (fst (a, c)). now apply in_map. }
  destruct H1 as [H1|H1], H2 as [H2|H2].
  - congruence.
  - injection H1 as -> _. elim Hni. eapply Hr, H2.
  - injection H2 as -> _. elim Hni. eapply Hr, H1.
  - now apply IH.
Qed.

Lemma nd_keys_functional im loc pos pos' :
  NoDup (nd_keys im) -> loc <> default_loc -> In (loc, pos) im -> In (loc, pos') im -> pos = pos'.
Proof.
  intros HN Hne H1 H2. unfold nd_keys in HN. apply N.eqb_neq in Hne.
  eapply NoDup_map_fst_functional; [exact HN| |]; apply filter_In; cbn [fst]; rewrite Hne; auto.
Qed.

Lemma NoDup_app_split {A} (a b : list A) : NoDup (a ++ b) ->
  NoDup a /\ NoDup b /\ forall y, In y a -> ~ In y b.
Proof.
  induction a as [|z a IH]; cbn [app]; intros HN.
  - split; [constructor|]. split; [exact HN|]. intros y [].
  - inversion HN as [|? ? Hni HN']; subst. destruct (IH HN') as (Ha & Hb & Hd). split; [|split].
    + constructor; [|exact Ha]. intros Hc. apply Hni, in_or_app. now left.
    + exact Hb.
    + intros y [->|Hy]; [|now apply Hd]. intros Hc. apply Hni, in_or_app. now right.
Qed.

Lemma NoDup_concat_inv {A} (ls : list (list A)) : NoDup (concat ls) ->
  forall i j a b x, nth_error ls i = Some a -> nth_error ls j = Some b -> In x a -> In x b -> i = j /\ NoDup a.
Proof.
  induction ls as [|l0 ls IH]; intros HN i j a b x Hi Hj Ha Hb; [destruct i; discriminate|].
  cbn [concat] in HN.
  assert (Hin : forall n c, nth_error ls n = Some c -> In x c -> In x (concat ls)).
  { intros n c Hn Hc. apply in_concat. exists c. split; [eapply nth_error_In, Hn|exact Hc]. }
  destruct (NoDup_app_split _ _ HN) as (HNl & HNr & Hdis).
  destruct i as [|i], j as [|j]; cbn [nth_error] in Hi, Hj.
  - injection Hi as ->. split; [reflexivity|exact HNl].
  - injection Hi as ->. elim (Hdis x Ha). eapply Hin; eassumption.
  - injection Hj as ->. elim (Hdis x Hb). eapply Hin; eassumption.
  - destruct (IH HNr i j a b x Hi Hj Ha Hb) as [-> Hnd]. now split.
Qed.

Theorem ct_pairs_unique_source : forall efs, NoDup (all_nd_keys efs) ->
  forall loc k pos,
  In (loc, (k, pos)) (ct_pairs efs) <->
  (loc <> default_loc /\ exists e, nth_error efs (N.to_nat k) = Some e /\ In (loc, pos) (ef_imap e)).
Proof.
  intros efs HN loc k pos. split.
  - intros H. split; [eapply ct_pairs_no_default, H|apply ct_pairs_sound, H].
  - intros (Hne & e & Hn & Hi).
    destruct (ct_pairs_complete efs _ e loc pos Hn Hi Hne) as ([k' pos'] & Hv).
    destruct (ct_pairs_sound efs loc k' pos' Hv) as (e' & Hn' & Hi').
    unfold all_nd_keys in HN.
    assert (M : forall n x, nth_error efs n = Some x ->
                 nth_error (map (fun e => nd_keys (ef_imap e)) efs) n = Some (nd_keys (ef_imap x))).
    { intros n x Hx. exact (map_nth_error (fun e => nd_keys (ef_imap e)) n efs Hx). }
    destruct (NoDup_concat_inv _ HN _ _ _ _ loc (M _ _ Hn) (M _ _ Hn')
                (nd_keys_In _ _ _ Hi Hne) (nd_keys_In _ _ _ Hi' Hne)) as [Ek Hnd].
    apply N2Nat.inj in Ek. subst k'. rewrite Hn in Hn'. injection Hn' as <-.
    rewrite (nd_keys_functional _ _ _ _ Hnd Hne Hi Hi'). exact Hv.
Qed.

(* ================================================================== 4. positions *)
Lemma total_len_cons cx x tg : total_len cx (x :: tg) = (ex_ilen cx (snd x) + total_len cx tg)%N.
Proof. reflexivity. Qed.

Theorem tag_positions_In : forall cx tg p0 loc pos,
  In (loc, pos) (tag_positions cx p0 tg) ->
  exists pre w post, tg = pre ++ (loc, w) :: post /\ pos = (p0 + total_len cx pre)%N.
Proof.
  intros cx. induction tg as [|[l0 w0] tg IH]; intros p0 loc pos H; cbn [tag_positions] in H; [destruct H|].
  destruct H as [H|H].
  - injection H as -> ->. exists [], w0, tg. split; [reflexivity|]. cbn. lia.
  - apply IH in H. destruct H as (pre & w & post & -> & ->). exists ((l0, w0) :: pre), w, post.
    split; [reflexivity|]. rewrite total_len_cons. cbn [snd]. lia.
Qed.

Theorem tag_positions_In_conv : forall cx pre p0 loc w post,
  In (loc, (p0 + total_len cx pre)%N) (tag_positions cx p0 (pre ++ (loc, w) :: post)).
Proof.
  intros cx. induction pre as [|[l0 w0] pre IH]; intros p0 loc w post; cbn [app tag_positions].
  - left. cbn. f_equal. lia.
  - right. rewrite total_len_cons. cbn [snd]. rewrite N.add_assoc. apply IH.
Qed.

Corollary tag_positions_In_iff : forall cx tg p0 loc pos,
  In (loc, pos) (tag_positions cx p0 tg) <->
  exists pre w post, tg = pre ++ (loc, w) :: post /\ pos = (p0 + total_len cx pre)%N.
Proof.
  intros. split; [apply tag_positions_In|]. intros (pre & w & post & -> & ->). apply tag_positions_In_conv.
Qed.

Lemma tag_positions_keys cx tg : forall p0, map fst (tag_positions cx p0 tg) = map fst tg.
Proof. induction tg as [|[l w] tg IH]; intros p0; cbn [tag_positions map fst]; [reflexivity|]. now rewrite IH. Qed.

(* ================================================================== 5. tags of the normal form *)
Section TagOrigin.
  Variable cx : pctx.
  Variable ecx : ectx.

  (* [img wi w] : the output operator [w] is the image of the input operator [wi] *)
  Definition img (wi w : wins) : Prop :=
    match wi with
    | WOp o => w = nf_op cx ecx o
    | WBlock bt => w = WBlock (nf_bt cx ecx bt)
    | WLoop bt => w = WLoop (nf_bt cx ecx bt)
    | WIf bt => w = WIf (nf_bt cx ecx bt)
    | WElse => w = WElse
    | WEnd => w = WEnd
    | WBr d => w = WBr d
    | WBrIf d => w = WBrIf d
    | WBrTable ds d => w = WBrTable ds d
    | WNop => False
    end.

  Definition src_at (src : list (wins * N)) (x : N * wins) : Prop :=
    (fst x = default_loc /\ snd x = WElse) \/ exists wi, In (wi, fst x) src /\ img wi (snd x).

  Definition St (t : rt) := forall u, Forall (src_at (flat t)) (fst (nf cx ecx u t)).
  Definition Sl (l : list rt) := forall u, Forall (src_at (flat_list l)) (fst (nf_list cx ecx u l)).

  Lemma src_at_weaken (a b : list (wins * N)) : (forall z, In z a -> In z b) ->
    forall l, Forall (src_at a) l -> Forall (src_at b) l.
  Proof.
    intros H l. apply Forall_impl. intros x [Hx|(wi & Hi & Hm)]; [left; exact Hx|right]. exists wi. auto.
  Qed.

  Lemma Sl_of_Forall l : Forall St l -> Sl l.
  Proof.
    induction 1 as [|t l Ht Hl IH]; intros u.
    - constructor.
    - rewrite nf_list_cons. cbn [fst]. change (flat_list (t :: l)) with (flat t ++ flat_list l).
      apply Forall_app. split.
      + apply (src_at_weaken (flat t)); [|apply Ht]. intros z Hz. apply in_or_app. now left.
      + apply (src_at_weaken (flat_list l)); [|apply IH]. intros z Hz. apply in_or_app. now right.
  Qed.

  Lemma src_at_keep (u : bool) src x : src_at src x -> Forall (src_at src) (if u then [] else [x]).
  Proof. intros H. destruct u; [constructor|constructor; [exact H|constructor]]. Qed.

  Ltac in_src wi := right; exists wi; cbn [fst snd img]; split; [|reflexivity];
    repeat (rewrite ?in_app_iff; cbn [In]); tauto.
  Ltac sub_src := intros z Hz; repeat (rewrite ?in_app_iff; cbn [In]); tauto.

  Theorem nf_tag_origin_item : forall t, St t.
  Proof.
    induction t as [o l|l|d l|d l|ds d l|bt body l e HF|bt body l e HF|bt th el l e HFt HFe] using rt_ind';
      intros u.
    - cbn [nf fst flat]. apply src_at_keep. in_src (WOp o).
    - constructor.
    - cbn [nf fst flat]. apply src_at_keep. in_src (WBr d).
    - cbn [nf fst flat]. apply src_at_keep. in_src (WBrIf d).
    - cbn [nf fst flat]. apply src_at_keep. in_src (WBrTable ds d).
    - apply Sl_of_Forall in HF. rewrite nf_block. cbn [fst flat]. fold (flat_list body).
      destruct u; [constructor|].
      constructor; [in_src (WBlock bt)|]. apply Forall_app. split.
      + apply (src_at_weaken (flat_list body)); [sub_src|apply HF].
      + constructor; [in_src WEnd|constructor].
    - apply Sl_of_Forall in HF. rewrite nf_loop. cbn [fst flat]. fold (flat_list body).
      destruct u; [constructor|].
      constructor; [in_src (WLoop bt)|]. apply Forall_app. split.
      + apply (src_at_weaken (flat_list body)); [sub_src|apply HF].
      + constructor; [in_src WEnd|constructor].
    - apply Sl_of_Forall in HFt. destruct el as [[le eb]|].
      + cbn [optP snd] in HFe. apply Sl_of_Forall in HFe. rewrite nf_if_some. cbn [fst flat].
        fold (flat_list th). fold (flat_list eb). destruct u; [constructor|].
        constructor; [in_src (WIf bt)|]. apply Forall_app. split.
        * apply (src_at_weaken (flat_list th)); [sub_src|apply HFt].
        * constructor; [in_src WElse|]. apply Forall_app. split.
          -- apply (src_at_weaken (flat_list eb)); [sub_src|apply HFe].
          -- constructor; [in_src WEnd|constructor].
      + rewrite nf_if_none. cbn [fst flat]. fold (flat_list th). destruct u; [constructor|].
        constructor; [in_src (WIf bt)|]. apply Forall_app. split.
        * apply (src_at_weaken (flat_list th)); [sub_src|apply HFt].
        * constructor; [left; split; reflexivity|]. constructor; [in_src WEnd|constructor].
  Qed.

  Theorem nf_tag_origin : forall u l loc w, In (loc, w) (fst (nf_list cx ecx u l)) ->
    (loc = default_loc /\ w = WElse) \/ exists wi, In (wi, loc) (flat_list l) /\ img wi w.
  Proof.
    intros u l loc w Hx.
    assert (H : Sl l) by (apply Sl_of_Forall, Forall_forall; intros t _; apply nf_tag_origin_item).
    specialize (H u). rewrite Forall_forall in H. exact (H (loc, w) Hx).
  Qed.

  (* the same for a whole body, including the function's final `end` *)
  Corollary nf_body_tag_origin : forall l eloc loc w, In (loc, w) (nf_body cx ecx l eloc) ->
    (loc = default_loc /\ w = WElse) \/ exists wi, In (wi, loc) (flat_list l ++ [(WEnd, eloc)]) /\ img wi w.
  Proof.
    intros l eloc loc w H. unfold nf_body in H. apply in_app_or in H. destruct H as [H|[H|[]]].
    - apply nf_tag_origin in H. destruct H as [H|(wi & Hi & Hm)]; [now left|right]. exists wi.
      split; [apply in_or_app; now left|exact Hm].
    - injection H as <- <-. right. exists WEnd. split; [apply in_or_app; right; now left|reflexivity].
  Qed.
End TagOrigin.

(* 4 + 5 put together with the round trip of a body (Proofs/Body.v): the recorded pairs of a parsed and
   re-emitted body are exactly (location of an input operator, first byte of its image) *)
Theorem roundtrip_imap_exact : forall cx ecx ety rs l eloc p0,
  wfl cx 1 l ->
  (forall o, decode_plain (px_i2id cx) o <> None -> encode_plain (ex_id2i ecx) (dec cx o) <> None) ->
  exists ar st fuel,
    parse_body cx ety rs (flat_list l ++ [(WEnd, eloc)]) = Ok ar /\
    emit_body ecx fuel ar 0 p0 = Ok st /\
    forall loc pos, In (loc, pos) (imap st) <->
      exists pre w post, nf_body cx ecx l eloc = pre ++ (loc, w) :: post /\ pos = (p0 + total_len ecx pre)%N /\
        ((loc = default_loc /\ w = WElse) \/
         exists wi, In (wi, loc) (flat_list l ++ [(WEnd, eloc)]) /\ img cx ecx wi w).
Proof.
  intros cx ecx ety rs l eloc p0 Hw Henc.
  destruct (roundtrip_body cx ecx ety rs l eloc p0 Hw Henc) as (ar & st & fuel & Hp & He & _ & Hi).
  exists ar, st, fuel. split; [exact Hp|]. split; [exact He|]. intros loc pos. rewrite Hi, tag_positions_In_iff. split.
  - intros (pre & w & post & E & ->). exists pre, w, post. split; [exact E|]. split; [reflexivity|].
    apply nf_body_tag_origin. rewrite E. apply in_or_app. right. now left.
  - intros (pre & w & post & E & -> & _). now exists pre, w, post.
Qed.

(* ================================================================== 6. function ranges *)
Definition entry_len (sz : N) : N := (leb_len sz + sz)%N.
Fixpoint entries_len (l : list (N * N)) : N :=
  match l with [] => 0%N | x :: r => (entry_len (snd x) + entries_len r)%N end.

Lemma ranges_from_length l : forall first, length (ranges_from first l) = length l.
Proof. induction l as [|[id sz] r IH]; intros first; cbn [ranges_from length]; [reflexivity|]. now rewrite IH. Qed.

Theorem ranges_from_spec : forall l first k id s e,
  nth_error (ranges_from first l) k = Some (id, (s, e)) ->
  exists sz, nth_error l k = Some (id, sz) /\
             s = (first + entries_len (firstn k l))%N /\ e = (s + leb_len sz + sz)%N.
Proof.
  induction l as [|[id0 sz0] r IH]; intros first k id s e H; cbn [ranges_from] in H; [destruct k; discriminate|].
  destruct k as [|k]; cbn [nth_error] in H.
  - injection H as <- <- <-. exists sz0. cbn [nth_error firstn entries_len]. split; [reflexivity|]. split; lia.
  - apply IH in H. destruct H as (sz & Hn & -> & ->). exists sz. cbn [nth_error firstn entries_len snd].
    split; [exact Hn|]. unfold entry_len. split; lia.
Qed.

Theorem ranges_from_spec_conv : forall l first k id sz,
  nth_error l k = Some (id, sz) ->
  nth_error (ranges_from first l) k =
    Some (id, ((first + entries_len (firstn k l))%N, (first + entries_len (firstn k l) + leb_len sz + sz)%N)).
Proof.
  induction l as [|[id0 sz0] r IH]; intros first k id sz H; [destruct k; discriminate|].
  destruct k as [|k]; cbn [nth_error] in H; cbn [ranges_from nth_error firstn entries_len snd].
  - injection H as -> ->. rewrite N.add_0_r. reflexivity.
  - rewrite (IH _ _ _ _ H). unfold entry_len. do 3 f_equal; lia.
Qed.

(* consecutive entries are contiguous *)
Corollary ranges_from_contiguous : forall l first k id s e id' s' e',
  nth_error (ranges_from first l) k = Some (id, (s, e)) ->
  nth_error (ranges_from first l) (S k) = Some (id', (s', e')) -> s' = e.
Proof.
  intros l first k id s e id' s' e' H1 H2.
  apply ranges_from_spec in H1. apply ranges_from_spec in H2.
  destruct H1 as (sz & Hn & -> & ->). destruct H2 as (sz' & Hn' & -> & _).
  assert (E : entries_len (firstn (S k) l) = (entries_len (firstn k l) + entry_len sz)%N).
  { clear -Hn. revert k Hn. induction l as [|x r IH]; intros k Hn; [destruct k; discriminate|].
    destruct k as [|k]; cbn [nth_error] in Hn.
    - injection Hn as ->. destruct r; cbn [firstn entries_len snd]; lia.
    - change (firstn (S (S k)) (x :: r)) with (x :: firstn (S k) r).
      change (firstn (S k) (x :: r)) with (x :: firstn k r). cbn [entries_len]. rewrite (IH _ Hn). lia. }
  rewrite E. unfold entry_len. lia.
Qed.

(* sorting *)
Definition ins_go (x : N * (N * N)) :=
  fix go (l : list (N * (N * N))) := match l with [] => [x] | y :: r => if (fst y <=? fst x)%N then y :: go r else x :: l end.
Lemma ins_range_eq x l : ins_range x l = ins_go x l.
Proof. reflexivity. Qed.

Lemma ins_range_perm x l : Permutation (ins_range x l) (x :: l).
Proof.
  rewrite ins_range_eq. induction l as [|y r IH]; cbn [ins_go]; [reflexivity|].
  destruct (fst y <=? fst x)%N; [|reflexivity]. fold (ins_go x). rewrite IH. apply perm_swap.
Qed.

Definition id_le (a b : N * (N * N)) : Prop := (fst a <= fst b)%N.

Lemma ins_range_sorted x l : StronglySorted id_le l -> StronglySorted id_le (ins_range x l).
Proof.
  rewrite ins_range_eq. induction l as [|y r IH]; cbn [ins_go]; intros HS; [repeat constructor|].
  apply StronglySorted_inv in HS. destruct HS as [HS HF].
  destruct (fst y <=? fst x)%N eqn:E.
  - apply N.leb_le in E. fold (ins_go x). constructor; [apply IH, HS|].
    rewrite <- ins_range_eq. eapply Permutation_Forall; [symmetry; apply ins_range_perm|].
    constructor; [exact E|exact HF].
  - apply N.leb_gt in E. constructor; [constructor; assumption|].
    constructor; [unfold id_le; lia|]. eapply Forall_impl; [|exact HF]. unfold id_le. intros a Ha. lia.
Qed.

Lemma fold_ins_perm l : forall acc, Permutation (fold_left (fun acc x => ins_range x acc) l acc) (l ++ acc).
Proof.
  induction l as [|x l IH]; intros acc; cbn [fold_left app]; [reflexivity|].
  rewrite IH. rewrite ins_range_perm. symmetry. apply Permutation_middle.
Qed.
Lemma fold_ins_sorted l : forall acc, StronglySorted id_le acc ->
  StronglySorted id_le (fold_left (fun acc x => ins_range x acc) l acc).
Proof. induction l as [|x l IH]; intros acc H; cbn [fold_left]; [exact H|]. apply IH, ins_range_sorted, H. Qed.

Theorem sort_ranges_perm : forall l, Permutation (sort_ranges l) l.
Proof. intros l. unfold sort_ranges. rewrite fold_ins_perm. now rewrite app_nil_r. Qed.
Theorem sort_ranges_sorted : forall l, StronglySorted id_le (sort_ranges l).
Proof. intros l. apply fold_ins_sorted. constructor. Qed.

Theorem ct_function_ranges_In : forall first ids sizes x,
  In x (ct_function_ranges first ids sizes) <-> In x (ranges_from first (combine ids sizes)).
Proof.
  intros first ids sizes x. unfold ct_function_ranges. split; apply Permutation_in;
    [apply sort_ranges_perm|symmetry; apply sort_ranges_perm].
Qed.
Theorem ct_function_ranges_sorted : forall first ids sizes,
  StronglySorted id_le (ct_function_ranges first ids sizes).
Proof. intros. apply sort_ranges_sorted. Qed.

(* ================================================================== 7. code section start *)
Theorem ct_code_section_start_spec : forall c n, ct_code_section_start (c + leb_len n) n = c.
Proof. intros c n. unfold ct_code_section_start. lia. Qed.

Theorem old_formula_refuted : exists c n, (n < 128)%N /\ (c + leb_len n - 2)%N <> c.
Proof. exists 5%N, 0%N. split; [reflexivity|]. vm_compute. discriminate. Qed.

Theorem old_formula_right_iff : forall c n, (1 <= c)%N -> ((c + leb_len n - 2)%N = c <-> leb_len n = 2%N).
Proof. intros c n Hc. pose proof (leb_len_pos n). lia. Qed.

Corollary old_formula_right_range : forall c n, (1 <= c)%N ->
  ((c + leb_len n - 2)%N = c <-> (128 <= n < 16384)%N).
Proof. intros c n Hc. rewrite old_formula_right_iff by exact Hc. apply leb_len_two_iff. Qed.

(* ================================================================== 8. inserted markers *)
Lemma cupd_nth_ne {A} (l : list A) n m f : n <> m -> nth_error (Common.upd l n f) m = nth_error l m.
Proof. revert n m; induction l as [|x r IH]; intros [|n] [|m] H; cbn; auto; congruence. Qed.
Lemma cupd_nth_eq {A} (l : list A) n f v : nth_error l n = Some v -> nth_error (Common.upd l n f) n = Some (f v).
Proof.
  revert n; induction l as [|x r IH]; intros [|n]; cbn; try discriminate.
  - intros H; now injection H as ->.
  - apply IH.
Qed.

(* InstrSeqBuilder::instr_at: the new instruction sits at [pos] of sequence [cur] and carries default_loc;
   nothing else changes *)
Lemma insert_i_spec a cur pos i a' : insert_i a cur pos i = Ok a' ->
  exists q l1 l2, nth_error a (N.to_nat cur) = Some q /\ sq_instrs q = l1 ++ l2 /\ length l1 = N.to_nat pos /\
    nth_error a' (N.to_nat cur) = Some {| sq_ty := sq_ty q; sq_instrs := l1 ++ (i, default_loc) :: l2; sq_end := sq_end q |} /\
    (forall c, c <> N.to_nat cur -> nth_error a' c = nth_error a c).
Proof.
  unfold insert_i. intros H. destruct (nth_error a (N.to_nat cur)) as [q|] eqn:Eq; [|discriminate].
  destruct (insert_at (sq_instrs q) (N.to_nat pos) (i, default_loc)) as [l|] eqn:El; [|discriminate].
  injection H as <-. destruct (Proofs.Builder.insert_at_split _ _ _ _ El) as (l1 & l2 & E1 & -> & Hl).
  exists q, l1, l2. split; [reflexivity|]. split; [exact E1|]. split; [exact Hl|]. split.
  - now rewrite (cupd_nth_eq _ _ _ _ Eq).
  - intros c Hc. apply cupd_nth_ne. congruence.
Qed.

Lemma aset_items_ne {A} (a : tarena A) id f n : n <> N.to_nat id ->
  nth_error (items (aset_at a id f)) n = nth_error (items a) n.
Proof.
  unfold aset_at. cbn [items]. generalize (N.to_nat id) as k, (items a) as l. intros k l. revert k n.
  induction l as [|x r IH]; intros [|k] [|n] H; cbn; auto; congruence.
Qed.
Lemma aset_items_eq {A} (a : tarena A) id f v : nth_error (items a) (N.to_nat id) = Some v ->
  nth_error (items (aset_at a id f)) (N.to_nat id) = Some (f v).
Proof.
  unfold aset_at. cbn [items]. generalize (N.to_nat id) as k, (items a) as l. intros k l. revert k.
  induction l as [|x r IH]; intros [|k]; cbn; try discriminate.
  - intros H; now injection H as ->.
  - apply IH.
Qed.
Lemma aget_aset_at_ne {A} (a : tarena A) id g f : g <> id -> aget (aset_at a id f) g = aget a g.
Proof.
  intros H. unfold aget, index, get, is_dead. rewrite aset_items_ne; [reflexivity|].
  intros E. apply N2Nat.inj in E. congruence.
Qed.
Lemma aget_aset_at_eq {A} (a : tarena A) id f v : aget a id = Some v -> aget (aset_at a id f) id = Some (f v).
Proof.
  unfold aget, index, get, is_dead. change (dead (aset_at a id f)) with (dead a).
  destruct (existsb (Nat.eqb (N.to_nat id)) (dead a)); [discriminate|]. apply aset_items_eq.
Qed.

Lemma app_eq_len {A} (a a' b b' : list A) : length a = length a' -> a ++ b = a' ++ b' -> a = a' /\ b = b'.
Proof.
  revert a'. induction a as [|x a IH]; intros [|y a'] HL HE; cbn [length app] in *; try discriminate.
  - now split.
  - injection HE as -> HE. destruct (IH a' (eq_add_S _ _ HL) HE) as [-> ->]. now split.
Qed.

Definition marker_lf (lf : mlocalfunc) (a2 : IR.arena) : mlocalfunc :=
  {| lf_ty := lf_ty lf; lf_args := lf_args lf; lf_arena := a2; lf_entry := lf_entry lf;
     lf_orig_range := lf_orig_range lf; lf_instr_mapping := lf_instr_mapping lf |}.

Lemma insert_marker_inv m fid seq pos m' : insert_marker m (fid, seq, pos) = Ok m' ->
  exists f lf a1 a2, aget (m_funcs m) fid = Some f /\ fn_kind f = FK_Local lf /\
    insert_i (lf_arena lf) seq pos (IPlain (P_Const (V_I32 marker_z))) = Ok a1 /\
    insert_i a1 seq (pos + 1)%N (IPlain P_Drop) = Ok a2 /\
    m' = set_funcs m (aset_at (m_funcs m) fid (fun _ => {| fn_kind := FK_Local (marker_lf lf a2); fn_name := fn_name f |})).
Proof.
  unfold insert_marker. intros H. destruct (aget (m_funcs m) fid) as [f|] eqn:Ef; [|discriminate].
  destruct (fn_kind f) as [? ?|lf|?] eqn:Ek; try discriminate.
  destruct (insert_i (lf_arena lf) seq pos (IPlain (P_Const (V_I32 marker_z)))) as [a1| |] eqn:E1; try discriminate.
  cbn [rbind] in H.
  destruct (insert_i a1 seq (pos + 1)%N (IPlain P_Drop)) as [a2| |] eqn:E2; try discriminate.
  cbn [rbind] in H. injection H as <-. exists f, lf, a1, a2. repeat split; auto.
Qed.

(* only function [fid] changes *)
Theorem insert_marker_other_funcs : forall m fid seq pos m' g,
  insert_marker m (fid, seq, pos) = Ok m' -> g <> fid -> aget (m_funcs m') g = aget (m_funcs m) g.
Proof.
  intros m fid seq pos m' g H Hg. destruct (insert_marker_inv _ _ _ _ _ H) as (f & lf & a1 & a2 & _ & _ & _ & _ & ->).
  cbn [set_funcs m_funcs]. now apply aget_aset_at_ne.
Qed.

Theorem insert_marker_other_fields : forall m fid seq pos m',
  insert_marker m (fid, seq, pos) = Ok m' ->
  m_imports m' = m_imports m /\ m_tables m' = m_tables m /\ m_types m' = m_types m /\ m_globals m' = m_globals m /\
  m_locals m' = m_locals m /\ m_exports m' = m_exports m /\ m_memories m' = m_memories m /\ m_data m' = m_data m /\
  m_elements m' = m_elements m /\ m_start m' = m_start m /\ m_producers m' = m_producers m /\
  m_customs m' = m_customs m /\ m_debug m' = m_debug m /\ m_name m' = m_name m /\ m_config m' = m_config m /\
  m_code_section_offset m' = m_code_section_offset m.
Proof.
  intros m fid seq pos m' H. destruct (insert_marker_inv _ _ _ _ _ H) as (f & lf & a1 & a2 & _ & _ & _ & _ & ->).
  repeat split.
Qed.

(* function [fid]: same type, arguments, entry, name; in its arena only sequence [seq] changes, by the two
   instructions inserted at [pos], both carrying default_loc *)
Theorem insert_marker_fid : forall m fid seq pos m',
  insert_marker m (fid, seq, pos) = Ok m' ->
  exists f lf a2 q l1 l2,
    aget (m_funcs m) fid = Some f /\ fn_kind f = FK_Local lf /\
    aget (m_funcs m') fid = Some {| fn_kind := FK_Local (marker_lf lf a2); fn_name := fn_name f |} /\
    nth_error (lf_arena lf) (N.to_nat seq) = Some q /\ sq_instrs q = l1 ++ l2 /\ length l1 = N.to_nat pos /\
    nth_error a2 (N.to_nat seq) =
      Some {| sq_ty := sq_ty q;
              sq_instrs := l1 ++ (IPlain (P_Const (V_I32 marker_z)), default_loc) :: (IPlain P_Drop, default_loc) :: l2;
              sq_end := sq_end q |} /\
    (forall c, c <> N.to_nat seq -> nth_error a2 c = nth_error (lf_arena lf) c).
Proof.
  intros m fid seq pos m' H. destruct (insert_marker_inv _ _ _ _ _ H) as (f & lf & a1 & a2 & Hf & Hk & H1 & H2 & ->).
  destruct (insert_i_spec _ _ _ _ _ H1) as (q & l1 & l2 & Hq & Es & Hl & Hq1 & Ho1).
  destruct (insert_i_spec _ _ _ _ _ H2) as (q' & l1' & l2' & Hq' & Es' & Hl' & Hq2 & Ho2).
  rewrite Hq1 in Hq'. injection Hq' as <-. cbn [sq_instrs sq_ty sq_end] in Es', Hq2.
  assert (E : l1' = l1 ++ [(IPlain (P_Const (V_I32 marker_z)), default_loc)] /\ l2' = l2).
  { assert (Es2 : (l1 ++ [(IPlain (P_Const (V_I32 marker_z)), default_loc)]) ++ l2 = l1' ++ l2')
      by (rewrite <- app_assoc; exact Es').
    apply app_eq_len in Es2; [destruct Es2; split; congruence|].
    rewrite app_length. cbn [length]. lia. }
  destruct E as [-> ->]. rewrite <- app_assoc in Hq2. cbn [app] in Hq2.
  exists f, lf, a2, q, l1, l2. split; [exact Hf|]. split; [exact Hk|]. split.
  { cbn [set_funcs m_funcs]. now rewrite (aget_aset_at_eq _ _ _ _ Hf). }
  split; [exact Hq|]. split; [exact Es|]. split; [exact Hl|]. split; [exact Hq2|].
  intros c Hc. rewrite Ho2 by exact Hc. now apply Ho1.
Qed.

(* hence: whatever positions the emitter records for the two inserted instructions, they are recorded
   under default_loc, and default_loc occurs in no pair of the instruction map (ct_pairs_no_default) *)
Corollary inserted_not_in_map : forall efs v, ~ In (default_loc, v) (ct_pairs efs).
Proof. intros efs v H. now apply ct_pairs_no_default in H. Qed.

Print Assumptions leb_len_three.
Print Assumptions bt_insert_In.
Print Assumptions ct_pairs_unique_source.
Print Assumptions tag_positions_In_iff.
Print Assumptions nf_body_tag_origin.
Print Assumptions ranges_from_contiguous.
Print Assumptions ct_function_ranges_In.
Print Assumptions old_formula_right_range.
Print Assumptions insert_marker_fid.
Print Assumptions insert_marker_other_funcs.
Print Assumptions roundtrip_imap_exact.
