(* The skeleton of Module::parse (src/module/mod.rs) against which Model/ParseM.v [parse_sec] / [parseM] was written: for every payload kind the
   validator method that runs BEFORE the section is consumed and the parse step that consumes it; the custom-section dispatch (producers / name /
   .debug* / raw); what is refused; and the steps after the loop (function bodies, name sections, debug sections, the processed-by stamp, the
   callback).  HAND-MAINTAINED copy (committed); Gen/ParseSkeleton.v is regenerated from the source on every run and must be equal to it. *)
From Coq Require Import List String. Import ListNotations.
From WV Require Import Gen.ParseSkeleton.
Open Scope string_scope.
Definition expected_parse_skeleton : list (string * string) :=
  [("for payloadinparser.parse_all(wasm) > match payload?: Payload::Version{num,encoding,range,}", "validator.version");
   ("for payloadinparser.parse_all(wasm) > match payload?: Payload::DataSection(s)", "validator.data_section");
   ("for payloadinparser.parse_all(wasm) > match payload?: Payload::DataSection(s)", "ret.parse_data");
   ("for payloadinparser.parse_all(wasm) > match payload?: Payload::TypeSection(s)", "validator.type_section");
   ("for payloadinparser.parse_all(wasm) > match payload?: Payload::TypeSection(s)", "ret.parse_types");
   ("for payloadinparser.parse_all(wasm) > match payload?: Payload::ImportSection(s)", "validator.import_section");
   ("for payloadinparser.parse_all(wasm) > match payload?: Payload::ImportSection(s)", "ret.parse_imports");
   ("for payloadinparser.parse_all(wasm) > match payload?: Payload::TableSection(s)", "validator.table_section");
   ("for payloadinparser.parse_all(wasm) > match payload?: Payload::TableSection(s)", "ret.parse_tables");
   ("for payloadinparser.parse_all(wasm) > match payload?: Payload::MemorySection(s)", "validator.memory_section");
   ("for payloadinparser.parse_all(wasm) > match payload?: Payload::MemorySection(s)", "ret.parse_memories");
   ("for payloadinparser.parse_all(wasm) > match payload?: Payload::GlobalSection(s)", "validator.global_section");
   ("for payloadinparser.parse_all(wasm) > match payload?: Payload::GlobalSection(s)", "ret.parse_globals");
   ("for payloadinparser.parse_all(wasm) > match payload?: Payload::ExportSection(s)", "validator.export_section");
   ("for payloadinparser.parse_all(wasm) > match payload?: Payload::ExportSection(s)", "ret.parse_exports");
   ("for payloadinparser.parse_all(wasm) > match payload?: Payload::ElementSection(s)", "validator.element_section");
   ("for payloadinparser.parse_all(wasm) > match payload?: Payload::ElementSection(s)", "ret.parse_elements");
   ("for payloadinparser.parse_all(wasm) > match payload?: Payload::StartSection{func,range,..}", "validator.start_section");
   ("for payloadinparser.parse_all(wasm) > match payload?: Payload::StartSection{func,range,..}", "ret.start=");
   ("for payloadinparser.parse_all(wasm) > match payload?: Payload::FunctionSection(s)", "validator.function_section");
   ("for payloadinparser.parse_all(wasm) > match payload?: Payload::FunctionSection(s)", "ret.declare_local_functions");
   ("for payloadinparser.parse_all(wasm) > match payload?: Payload::DataCountSection{count,range}", "validator.data_count_section");
   ("for payloadinparser.parse_all(wasm) > match payload?: Payload::DataCountSection{count,range}", "ret.reserve_data");
   ("for payloadinparser.parse_all(wasm) > match payload?: Payload::CodeSectionStart{count,range,..}", "validator.code_section_start");
   ("for payloadinparser.parse_all(wasm) > match payload?: Payload::CodeSectionEntry(body)", "validator.code_section_entry");
   ("for payloadinparser.parse_all(wasm) > match payload?: Payload::CustomSection(s) > match s.name(): 'producers'", "ret.parse_producers_section");
   ("for payloadinparser.parse_all(wasm) > match payload?: Payload::CustomSection(s) > match s.name(): 'name'", "name_sections.push");
   ("for payloadinparser.parse_all(wasm) > match payload?: Payload::CustomSection(s) > match s.name(): name > if name.starts_with('.debug')", "debug_sections.push");
   ("for payloadinparser.parse_all(wasm) > match payload?: Payload::CustomSection(s) > match s.name(): name > else-of if name.starts_with('.debug')", "customs.add");
   ("for payloadinparser.parse_all(wasm) > match payload?: Payload::UnknownSection{id,range,..}", "validator.unknown_section");
   ("for payloadinparser.parse_all(wasm) > match payload?: Payload::End(offset)", "validator.end");
   ("for payloadinparser.parse_all(wasm) > match payload?: Payload::ModuleSection{..}|Payload::InstanceSection(..)|Payload::CoreTypeSection(..)|Payload::ComponentSection{..}|Payload::ComponentInstanceSection(..)|Payload::ComponentAliasSection(..)|Payload::ComponentTypeSection(..)|Payload::ComponentCanonicalSection(..)|Payload::ComponentStartSection{..}|Payload::ComponentImportSection(..)|Payload::ComponentExportSection(..)", "bail");
   ("for payloadinparser.parse_all(wasm) > match payload?: Payload::TagSection(s)", "validator.tag_section");
   ("for payloadinparser.parse_all(wasm) > match payload?: Payload::TagSection(s)", "bail");
   ("", "ret.parse_local_functions");
   ("", "ret.parse_debug_sections");
   ("", "producers.add_processed_by");
   ("if letSome(on_parse)=&config.on_parse", "on_parse(..)");
   ("custom-section dispatch arm", "'producers'");
   ("custom-section dispatch arm", "'name'");
   ("custom-section dispatch arm", "name")].
Theorem parse_skeleton_pinned : parse_skeleton = expected_parse_skeleton.
Proof. reflexivity. Qed.
