(* On what the validator guarantees, the parse model neither panics nor errs.
   [valid_stream w] states, purely on the payload stream, the guarantees of wasmparser's
   Validator that Module::parse relies on; [parse_total] shows they suffice. *)
From Coq Require Import List NArith ZArith Bool Arith Lia.
Import ListNotations.
From WV Require Import Gen.Ops Model.Common Model.IR Model.Arena Model.ParseFn Model.ParseSpec Model.ModuleM
                       Model.ParseM Gen.Attrs.
From WV Require Import Proofs.Arena Proofs.IndexMaps Proofs.ParseFn Proofs.Structure Proofs.Totality.
Local Open Scope nat_scope.

(* ====================================================================================== *)
(* 1. The validator's guarantees, on the stream                                             *)
(* ====================================================================================== *)

(* running context: what has been declared so far *)
Record vctx := {
  c_last : nat;                (* rank of the last non-custom section seen (0: none) *)
  c_nt : nat;                  (* declared types *)
  c_nimp : nat;                (* imported functions *)
  c_nloc : nat;                (* declared local functions *)
  c_tabs : list bool;          (* tables: table64 flag *)
  c_mems : list bool;          (* memories: memory64 flag *)
  c_globs : list valty;        (* globals: value type *)
  c_dc : option nat;           (* data count section *)
  c_ndata : nat;               (* data segments known to walrus so far *)
  c_nbodies : nat }.           (* code entries *)
Definition c_nf (c : vctx) : nat := c_nimp c + c_nloc c.
Definition ctx0 : vctx :=
  {| c_last := 0; c_nt := 0; c_nimp := 0; c_nloc := 0; c_tabs := []; c_mems := []; c_globs := [];
     c_dc := None; c_ndata := 0; c_nbodies := 0 |}.

Definition ltb_N (i : N) (n : nat) : bool := N.to_nat i <? n.

(* standard section order: strictly increasing ranks, custom sections anywhere *)
Definition rank (s : wsec) : option nat :=
  match s with
  | S_Types _ => Some 1 | S_Imports _ => Some 2 | S_Funcs _ => Some 3 | S_Tables _ => Some 4 | S_Mems _ => Some 5
  | S_Globals _ => Some 6 | S_Exports _ => Some 7 | S_Start _ => Some 8 | S_Elems _ => Some 9
  | S_DataCount _ => Some 10 | S_Code _ => Some 11 | S_Data _ => Some 12 | S_Custom _ => None
  end.
Definition order_ok (c : vctx) (s : wsec) : bool :=
  match rank s with Some r => c_last c <? r | None => true end.

(* constant expressions: the supported forms, indices in range *)
Definition const_ok (nf : nat) (globs : list valty) (k : wconst) : bool :=
  match k with
  | WC_GlobalGet i => ltb_N i (length globs)
  | WC_RefFunc i => ltb_N i nf
  | WC_Other => false
  | _ => true
  end.
(* segment offsets: an i32 (resp. i64 for a 64-bit table/memory) constant or global *)
Definition offset_valid (globs : list valty) (is64 : bool) (k : wconst) : bool :=
  match k with
  | WC_I32 _ => negb is64
  | WC_I64 _ => is64
  | WC_GlobalGet i => match nth_error globs (N.to_nat i) with
                      | Some VT_I32 => negb is64 | Some VT_I64 => is64 | _ => false end
  | _ => false
  end.

Definition import_ok (c : vctx) (i : wimport) : bool :=
  match wi_kind i with WI_Func ty => ltb_N ty (c_nt c) | _ => true end.
Definition export_ok (c : vctx) (e : wexport) : bool :=
  ltb_N (we_index e) (match we_kind e with
                      | EK_Func => c_nf c | EK_Table => length (c_tabs c)
                      | EK_Mem => length (c_mems c) | EK_Global => length (c_globs c) end).
Definition elem_ok (c : vctx) (e : welem) : bool :=
  match wel_items e with
  | WEI_Funcs fs => forallb (fun f => ltb_N f (c_nf c)) fs
  | WEI_Exprs _ es => forallb (const_ok (c_nf c) (c_globs c)) es
  end &&
  match wel_kind e with
  | WEK_Active tbl off =>
      match nth_error (c_tabs c) (N.to_nat (match tbl with Some t => t | None => 0%N end)) with
      | Some is64 => offset_valid (c_globs c) is64 off
      | None => false
      end
  | _ => true
  end.
Definition data_ok (c : vctx) (d : wdata) : bool :=
  match wd_kind d with
  | WDK_Passive => true
  | WDK_Active mi off => match nth_error (c_mems c) (N.to_nat mi) with
                         | Some is64 => offset_valid (c_globs c) is64 off
                         | None => false end
  end.
(* globals: an initializer sees the globals declared before it *)
Fixpoint globals_ok (nf : nat) (globs : list valty) (l : list (wglobalty * wconst)) : bool :=
  match l with
  | [] => true
  | (g, k) :: r => const_ok nf globs k && globals_ok nf (globs ++ [wg_ty g]) r
  end.

(* function bodies: a well-bracketed operator sequence with a final `end`; branch depths below the
   nesting depth, every operator one that walrus decodes, block types declared *)
Definition sbt_ok (nt : nat) (bt : blockty) : Prop :=
  match bt with BT_Func i => N.to_nat i < nt | _ => True end.
Fixpoint swf (nt : nat) (k : nat) (t : rt) : Prop :=
  let wl := fix wl (k : nat) (l : list rt) : Prop := match l with [] => True | x :: l' => swf nt k x /\ wl k l' end in
  match t with
  | RPlain o _ => forall f, decode_plain f o <> None
  | RNop _ => True
  | RBr d _ | RBrIf d _ => N.to_nat d < k
  | RBrTable ds d _ => N.to_nat d < k /\ Forall (fun x => N.to_nat x < k) ds
  | RBlock bt b _ _ | RLoop bt b _ _ => sbt_ok nt bt /\ wl (S k) b
  | RIf bt th el _ _ => sbt_ok nt bt /\ wl (S k) th /\ match el with Some (_, e) => wl (S k) e | None => True end
  end.
Fixpoint swfl (nt : nat) (k : nat) (l : list rt) : Prop :=
  match l with [] => True | x :: l' => swf nt k x /\ swfl nt k l' end.
Definition body_valid (nt : nat) (b : wbody) : Prop :=
  exists l eloc, wb_ops b = flat_list l ++ [(WEnd, eloc)] /\ swfl nt 1 l.

(* one payload, in context *)
Definition valid_sec_b (c : vctx) (s : wsec) : bool :=
  order_ok c s &&
  match s with
  | S_Imports l => forallb (import_ok c) l
  | S_Funcs l => forallb (fun ty => ltb_N ty (c_nt c)) l
  | S_Globals l => globals_ok (c_nf c) (c_globs c) l
  | S_Exports l => forallb (export_ok c) l
  | S_Start f => ltb_N f (c_nf c)
  | S_Elems l => forallb (elem_ok c) l
  | S_Data l => forallb (data_ok c) l && match c_dc c with Some n => length l =? n | None => true end
  | _ => true
  end.
Definition valid_sec (c : vctx) (s : wsec) : Prop :=
  valid_sec_b c s = true /\ match s with S_Code bs => Forall (body_valid (c_nt c)) bs | _ => True end.

(* context after a payload *)
Definition cimp (c : vctx) (i : wimport) : vctx :=
  match wi_kind i with
  | WI_Func _ => {| c_last := c_last c; c_nt := c_nt c; c_nimp := S (c_nimp c); c_nloc := c_nloc c; c_tabs := c_tabs c;
                    c_mems := c_mems c; c_globs := c_globs c; c_dc := c_dc c; c_ndata := c_ndata c; c_nbodies := c_nbodies c |}
  | WI_Table t => {| c_last := c_last c; c_nt := c_nt c; c_nimp := c_nimp c; c_nloc := c_nloc c; c_tabs := c_tabs c ++ [wt_64 t];
                    c_mems := c_mems c; c_globs := c_globs c; c_dc := c_dc c; c_ndata := c_ndata c; c_nbodies := c_nbodies c |}
  | WI_Mem m => {| c_last := c_last c; c_nt := c_nt c; c_nimp := c_nimp c; c_nloc := c_nloc c; c_tabs := c_tabs c;
                    c_mems := c_mems c ++ [wm_64 m]; c_globs := c_globs c; c_dc := c_dc c; c_ndata := c_ndata c; c_nbodies := c_nbodies c |}
  | WI_Global g => {| c_last := c_last c; c_nt := c_nt c; c_nimp := c_nimp c; c_nloc := c_nloc c; c_tabs := c_tabs c;
                    c_mems := c_mems c; c_globs := c_globs c ++ [wg_ty g]; c_dc := c_dc c; c_ndata := c_ndata c; c_nbodies := c_nbodies c |}
  end.
Definition set_last (c : vctx) (s : wsec) : vctx :=
  {| c_last := match rank s with Some r => r | None => c_last c end;
     c_nt := c_nt c; c_nimp := c_nimp c; c_nloc := c_nloc c; c_tabs := c_tabs c; c_mems := c_mems c;
     c_globs := c_globs c; c_dc := c_dc c; c_ndata := c_ndata c; c_nbodies := c_nbodies c |}.
Definition cstep0 (c : vctx) (s : wsec) : vctx :=
  match s with
  | S_Types ts => {| c_last := c_last c; c_nt := c_nt c + length ts; c_nimp := c_nimp c; c_nloc := c_nloc c; c_tabs := c_tabs c;
                     c_mems := c_mems c; c_globs := c_globs c; c_dc := c_dc c; c_ndata := c_ndata c; c_nbodies := c_nbodies c |}
  | S_Imports l => fold_left cimp l c
  | S_Funcs l => {| c_last := c_last c; c_nt := c_nt c; c_nimp := c_nimp c; c_nloc := c_nloc c + length l; c_tabs := c_tabs c;
                     c_mems := c_mems c; c_globs := c_globs c; c_dc := c_dc c; c_ndata := c_ndata c; c_nbodies := c_nbodies c |}
  | S_Tables l => {| c_last := c_last c; c_nt := c_nt c; c_nimp := c_nimp c; c_nloc := c_nloc c; c_tabs := c_tabs c ++ map wt_64 l;
                     c_mems := c_mems c; c_globs := c_globs c; c_dc := c_dc c; c_ndata := c_ndata c; c_nbodies := c_nbodies c |}
  | S_Mems l => {| c_last := c_last c; c_nt := c_nt c; c_nimp := c_nimp c; c_nloc := c_nloc c; c_tabs := c_tabs c;
                     c_mems := c_mems c ++ map wm_64 l; c_globs := c_globs c; c_dc := c_dc c; c_ndata := c_ndata c; c_nbodies := c_nbodies c |}
  | S_Globals l => {| c_last := c_last c; c_nt := c_nt c; c_nimp := c_nimp c; c_nloc := c_nloc c; c_tabs := c_tabs c;
                     c_mems := c_mems c; c_globs := c_globs c ++ map (fun gc_sweep => wg_ty (fst gc_sweep)) l; c_dc := c_dc c;
                     c_ndata := c_ndata c; c_nbodies := c_nbodies c |}
  | S_DataCount n => {| c_last := c_last c; c_nt := c_nt c; c_nimp := c_nimp c; c_nloc := c_nloc c; c_tabs := c_tabs c;
                     c_mems := c_mems c; c_globs := c_globs c; c_dc := Some (N.to_nat n); c_ndata := c_ndata c + N.to_nat n;
                     c_nbodies := c_nbodies c |}
  | S_Code bs => {| c_last := c_last c; c_nt := c_nt c; c_nimp := c_nimp c; c_nloc := c_nloc c; c_tabs := c_tabs c;
                     c_mems := c_mems c; c_globs := c_globs c; c_dc := c_dc c; c_ndata := c_ndata c;
                     c_nbodies := c_nbodies c + length bs |}
  | S_Data l => {| c_last := c_last c; c_nt := c_nt c; c_nimp := c_nimp c; c_nloc := c_nloc c; c_tabs := c_tabs c;
                     c_mems := c_mems c; c_globs := c_globs c; c_dc := c_dc c;
                     c_ndata := (if c_ndata c =? 0 then length l else c_ndata c); c_nbodies := c_nbodies c |}
  | _ => c
  end.
Definition cstep (c : vctx) (s : wsec) : vctx := set_last (cstep0 c s) s.

Fixpoint valid_from (c : vctx) (w : wmod) : Prop :=
  match w with
  | [] => c_nbodies c = c_nloc c              (* as many code entries as declared functions *)
  | s :: r => valid_sec c s /\ valid_from (cstep c s) r
  end.
Definition valid_stream (w : wmod) : Prop := valid_from ctx0 w.

(* the part of [valid_stream] other than the bodies is a boolean *)
Fixpoint valid_from_b (c : vctx) (w : wmod) : bool :=
  match w with
  | [] => c_nbodies c =? c_nloc c
  | s :: r => valid_sec_b c s && valid_from_b (cstep c s) r
  end.
Definition no_code (w : wmod) : Prop := forall bs, ~ In (S_Code bs) w.
Lemma valid_no_code_b : forall w c, (forall bs, ~ In (S_Code bs) w) -> valid_from_b c w = true -> valid_from c w.
Proof.
  induction w as [|s r IH]; intros c Hn H; cbn [valid_from valid_from_b] in *.
  - apply Nat.eqb_eq. exact H.
  - apply andb_true_iff in H. destruct H as [H1 H2]. split.
    + split; [exact H1|]. destruct s; try exact I. exfalso. apply (Hn bs). left. reflexivity.
    + apply IH; [|exact H2]. intros bs Hin. apply (Hn bs). right. exact Hin.
Qed.

(* ====================================================================================== *)
(* 2. The payload loop is total on valid streams                                            *)
(* ====================================================================================== *)

Lemma nth_N_lt {A} (l : list A) i : N.to_nat i < length l -> exists x, nth_N l i = Some x.
Proof.
  intros H. unfold nth_N. destruct (nth_error l (N.to_nat i)) eqn:E; eauto. apply nth_error_None in E. lia.
Qed.
Lemma nth_N_iota_lt n i : N.to_nat i < n -> nth_N (iota n) i = Some i.
Proof. intros H. unfold nth_N. rewrite iota_nth by exact H. rewrite N2Nat.id. reflexivity. Qed.
Lemma ltb_N_lt i n : ltb_N i n = true -> N.to_nat i < n.
Proof. unfold ltb_N. apply Nat.ltb_lt. Qed.
Lemma repeat_snoc {A} (a : A) n : repeat a n ++ [a] = repeat a (S n).
Proof. induction n as [|n IH]; [reflexivity|]. cbn [repeat app]. rewrite IH. reflexivity. Qed.
Lemma nth_error_map_inv {A B} (f : A -> B) l n b : nth_error (map f l) n = Some b -> exists a, nth_error l n = Some a /\ f a = b.
Proof.
  rewrite nth_error_map. destruct (nth_error l n) as [a|]; cbn [option_map]; [|discriminate].
  intros H. inversion H. eauto.
Qed.

(* what the context abstracts of the module under construction *)
Definition fcls (f : mfunc) : nat := match fn_kind f with FK_Import _ _ => 0 | FK_Uninit _ => 1 | FK_Local _ => 2 end.
Definition Abs (nt ni nl : nat) (tb me : list bool) (gl : list valty) (nd : nat) (m : wir) (ids : i2ids) : Prop :=
  length (ii_types ids) = nt /\ map fcls (items (m_funcs m)) = repeat 0 ni ++ repeat 1 nl /\
  map tb_64 (items (m_tables m)) = tb /\ map me_64 (items (m_memories m)) = me /\
  map gl_ty (items (m_globals m)) = gl /\ length (items (m_data m)) = nd.
Definition AbsC (c : vctx) (m : wir) (ids : i2ids) : Prop :=
  Abs (c_nt c) (c_nimp c) (c_nloc c) (c_tabs c) (c_mems c) (c_globs c) (c_ndata c) m ids.

Lemma abs_nf nt ni nl tb me gl nd m ids : ids_consistent m ids -> Abs nt ni nl tb me gl nd m ids ->
  length (ii_funcs ids) = ni + nl.
Proof.
  intros Hid (_ & A2 & _). unfold ids_consistent in Hid. destruct Hid as (H & _). rewrite H, iota_length.
  rewrite <- (map_length fcls), A2, app_length, !repeat_length. reflexivity.
Qed.

(* --- types *)
Lemma parse_types_abs : forall ts m ids m' ids' nt ni nl tb me gl nd,
  Abs nt ni nl tb me gl nd m ids -> parse_types m ids ts = (m', ids') -> Abs (nt + length ts) ni nl tb me gl nd m' ids'.
Proof.
  induction ts as [|[ps rs] r IH]; intros m ids m' ids' nt ni nl tb me gl nd A E; cbn [parse_types] in E.
  - inversion E; subst. rewrite Nat.add_0_r. exact A.
  - destruct (types_insert m _) as [m1 id] eqn:Et. apply IH with (nt := S nt) (ni := ni) (nl := nl) (tb := tb) (me := me) (gl := gl) (nd := nd) in E.
    + cbn [length]. replace (nt + S (length r)) with (S nt + length r) by lia. exact E.
    + apply types_insert_dead in Et. destruct Et as [Et _]. rewrite Et. destruct A as (A1 & A2 & A3 & A4 & A5 & A6).
      unfold Abs. wcbn. rewrite app_length. cbn [length]. repeat split; try assumption. lia.
Qed.

(* --- imports *)
Lemma cimp_nt c i : c_nt (cimp c i) = c_nt c. Proof. unfold cimp. destruct (wi_kind i); reflexivity. Qed.
Lemma cimp_nloc c i : c_nloc (cimp c i) = c_nloc c. Proof. unfold cimp. destruct (wi_kind i); reflexivity. Qed.
Lemma parse_import_abs m ids i c : AbsC c m ids -> c_nloc c = 0 -> import_ok c i = true ->
  exists m' ids', parse_import m ids i = POk (m', ids') /\ AbsC (cimp c i) m' ids'.
Proof.
  intros A Hl Hok. unfold parse_import, import_ok, cimp in *. destruct A as (A1 & A2 & A3 & A4 & A5 & A6).
  destruct (wi_kind i) as [ty|t|mm|g].
  - apply ltb_N_lt in Hok. rewrite <- A1 in Hok. destruct (nth_N_lt _ _ Hok) as [x Hx]. rewrite Hx. cbn [of_opt_err pbind]. wcbn.
    eexists _, _. split; [reflexivity|]. unfold AbsC, Abs. wcbn.
    cbn [c_nt c_nimp c_nloc c_tabs c_mems c_globs c_ndata]. rewrite map_app, A2, Hl. cbn [repeat map fcls fn_kind].
    rewrite !app_nil_r, repeat_snoc. repeat split; assumption.
  - wcbn. eexists _, _. split; [reflexivity|]. unfold AbsC, Abs. wcbn.
    cbn [c_nt c_nimp c_nloc c_tabs c_mems c_globs c_ndata]. rewrite map_app, A3. repeat split; assumption.
  - wcbn. eexists _, _. split; [reflexivity|]. unfold AbsC, Abs. wcbn.
    cbn [c_nt c_nimp c_nloc c_tabs c_mems c_globs c_ndata]. rewrite map_app, A4. repeat split; assumption.
  - wcbn. eexists _, _. split; [reflexivity|]. unfold AbsC, Abs. wcbn.
    cbn [c_nt c_nimp c_nloc c_tabs c_mems c_globs c_ndata]. rewrite map_app, A5. repeat split; assumption.
Qed.
Lemma parse_imports_abs : forall l m ids c c0, AbsC c m ids -> c_nloc c = 0 -> c_nt c = c_nt c0 ->
  forallb (import_ok c0) l = true ->
  exists m' ids', parse_imports m ids l = POk (m', ids') /\ AbsC (fold_left cimp l c) m' ids'.
Proof.
  induction l as [|i r IH]; intros m ids c c0 A Hl Hnt Hok; cbn [parse_imports fold_left forallb] in *.
  - eexists _, _. split; [reflexivity|exact A].
  - apply andb_true_iff in Hok. destruct Hok as [H1 H2].
    assert (H1' : import_ok c i = true) by (unfold import_ok in *; rewrite Hnt; exact H1).
    destruct (parse_import_abs m ids i c A Hl H1') as (m1 & ids1 & E1 & A1). rewrite E1. cbn [pbind fst snd].
    apply IH with (c0 := c0); [exact A1|rewrite cimp_nloc; exact Hl|rewrite cimp_nt; exact Hnt|exact H2].
Qed.

(* --- functions *)
Lemma parse_funcs_abs : forall l m ids nt ni nl tb me gl nd,
  Abs nt ni nl tb me gl nd m ids -> forallb (fun ty => ltb_N ty nt) l = true ->
  exists m' ids', parse_funcs m ids l = POk (m', ids') /\ Abs nt ni (nl + length l) tb me gl nd m' ids'.
Proof.
  induction l as [|ty r IH]; intros m ids nt ni nl tb me gl nd A Hok; cbn [parse_funcs forallb length] in *.
  - eexists _, _. split; [reflexivity|]. rewrite Nat.add_0_r. exact A.
  - apply andb_true_iff in Hok. destruct Hok as [H1 H2]. destruct A as (A1 & A2 & A3 & A4 & A5 & A6).
    apply ltb_N_lt in H1. rewrite <- A1 in H1. destruct (nth_N_lt _ _ H1) as [x Hx]. rewrite Hx. cbn [of_opt_err pbind]. wcbn.
    replace (nl + S (length r)) with (S nl + length r) by lia.
    apply IH; [|exact H2]. unfold Abs. wcbn. repeat split; try assumption.
    transitivity (map fcls (items (m_funcs m) ++ [{| fn_kind := FK_Uninit x; fn_name := None |}])).
    + destruct (synth _ _ _); wcbn; [|reflexivity]. apply upd_map. intros f. reflexivity.
    + rewrite map_app, A2, <- app_assoc. cbn [map fcls fn_kind]. rewrite repeat_snoc. reflexivity.
Qed.

(* --- tables, memories *)
Lemma parse_tables_abs : forall l m ids m' ids' nt ni nl tb me gl nd,
  Abs nt ni nl tb me gl nd m ids -> parse_tables m ids l = (m', ids') -> Abs nt ni nl (tb ++ map wt_64 l) me gl nd m' ids'.
Proof.
  induction l as [|t r IH]; intros m ids m' ids' nt ni nl tb me gl nd A E; cbn [parse_tables map] in *.
  - inversion E; subst. rewrite app_nil_r. exact A.
  - wcbn. eapply IH with (tb := tb ++ [wt_64 t]) in E.
    + rewrite <- app_assoc in E. exact E.
    + destruct A as (A1 & A2 & A3 & A4 & A5 & A6). unfold Abs. wcbn. rewrite map_app, A3. repeat split; assumption.
Qed.
Lemma parse_mems_abs : forall l m ids m' ids' nt ni nl tb me gl nd,
  Abs nt ni nl tb me gl nd m ids -> parse_mems m ids l = (m', ids') -> Abs nt ni nl tb (me ++ map wm_64 l) gl nd m' ids'.
Proof.
  induction l as [|t r IH]; intros m ids m' ids' nt ni nl tb me gl nd A E; cbn [parse_mems map] in *.
  - inversion E; subst. rewrite app_nil_r. exact A.
  - wcbn. eapply IH with (me := me ++ [wm_64 t]) in E.
    + rewrite <- app_assoc in E. exact E.
    + destruct A as (A1 & A2 & A3 & A4 & A5 & A6). unfold Abs. wcbn. rewrite map_app, A4. repeat split; assumption.
Qed.

(* --- constant expressions, globals *)
Lemma eval_const_total ids nf gl k : length (ii_funcs ids) = nf -> length (ii_globals ids) = length gl ->
  const_ok nf gl k = true -> exists mc, eval_const ids k = POk mc.
Proof.
  intros Hf Hg Hok. destruct k; cbn [eval_const const_ok] in *; eauto; try discriminate.
  - apply ltb_N_lt in Hok. rewrite <- Hg in Hok. destruct (nth_N_lt _ _ Hok) as [x Hx]. rewrite Hx. cbn. eauto.
  - apply ltb_N_lt in Hok. rewrite <- Hf in Hok. destruct (nth_N_lt _ _ Hok) as [x Hx]. rewrite Hx. cbn. eauto.
Qed.
Lemma parse_globals_abs : forall l m ids nt ni nl tb me gl nd nf,
  Abs nt ni nl tb me gl nd m ids -> length (ii_funcs ids) = nf -> length (ii_globals ids) = length gl ->
  globals_ok nf gl l = true ->
  exists m' ids', parse_globals m ids l = POk (m', ids') /\
                  Abs nt ni nl tb me (gl ++ map (fun gc_sweep => wg_ty (fst gc_sweep)) l) nd m' ids'.
Proof.
  induction l as [|[g k] r IH]; intros m ids nt ni nl tb me gl nd nf A Hf Hg Hok; cbn [parse_globals globals_ok map] in *.
  - eexists _, _. split; [reflexivity|]. rewrite app_nil_r. exact A.
  - apply andb_true_iff in Hok. destruct Hok as [H1 H2].
    destruct (eval_const_total ids nf gl k Hf Hg H1) as [mc Emc]. rewrite Emc. cbn [pbind]. wcbn.
    cbn [fst]. replace (gl ++ wg_ty g :: map (fun gc_sweep => wg_ty (fst gc_sweep)) r) with ((gl ++ [wg_ty g]) ++ map (fun gc_sweep => wg_ty (fst gc_sweep)) r)
      by (rewrite <- app_assoc; reflexivity).
    eapply IH; [| |  |exact H2].
    + destruct A as (A1 & A2 & A3 & A4 & A5 & A6). unfold Abs. wcbn. rewrite map_app, A5. repeat split; assumption.
    + wcbn. exact Hf.
    + wcbn. rewrite !app_length, Hg. reflexivity.
Qed.

(* --- exports *)
Lemma parse_exports_total : forall l m ids nt ni nl tb me gl nd,
  ids_consistent m ids -> Abs nt ni nl tb me gl nd m ids ->
  forallb (fun e => ltb_N (we_index e) (match we_kind e with EK_Func => ni + nl | EK_Table => length tb
                                                          | EK_Mem => length me | EK_Global => length gl end)) l = true ->
  exists m', parse_exports m ids l = POk m' /\ Abs nt ni nl tb me gl nd m' ids.
Proof.
  induction l as [|e r IH]; intros m ids nt ni nl tb me gl nd Hid A Hok; cbn [parse_exports forallb] in *.
  - eexists. split; [reflexivity|exact A].
  - apply andb_true_iff in Hok. destruct Hok as [H1 H2]. apply ltb_N_lt in H1.
    assert (Hlen : N.to_nat (we_index e) < length (ids_of_kind ids (we_kind e))).
    { pose proof (abs_nf _ _ _ _ _ _ _ _ _ Hid A) as Hnf. destruct A as (A1 & A2 & A3 & A4 & A5 & A6).
      unfold ids_consistent in Hid. destruct Hid as (_ & I2 & I3 & I4 & _).
      destruct (we_kind e); cbn [ids_of_kind].
      - rewrite Hnf. exact H1.
      - rewrite I2, iota_length, <- (map_length tb_64), A3. exact H1.
      - rewrite I3, iota_length, <- (map_length me_64), A4. exact H1.
      - rewrite I4, iota_length, <- (map_length gl_ty), A5. exact H1. }
    destruct (nth_N_lt _ _ Hlen) as [x Hx]. rewrite Hx. cbn [of_opt_err pbind]. wcbn.
    apply IH; [| |exact H2].
    + clear - Hid. idc_solve.
    + destruct A as (A1 & A2 & A3 & A4 & A5 & A6). unfold Abs. wcbn. repeat split; assumption.
Qed.

(* --- segment offsets *)
Lemma offset_total m ids gl is64 k : ids_consistent m ids -> map gl_ty (items (m_globals m)) = gl ->
  offset_valid gl is64 k = true ->
  exists o, eval_const ids k = POk o /\ forall m1, m_globals m1 = m_globals m -> offset_ok m1 is64 o = POk true.
Proof.
  intros Hid Hg Hok. destruct k; cbn [offset_valid eval_const] in *; try discriminate.
  - eexists; split; [reflexivity|]. intros m1 _. cbn [offset_ok]. rewrite Hok. reflexivity.
  - eexists; split; [reflexivity|]. intros m1 _. cbn [offset_ok]. rewrite Hok. reflexivity.
  - destruct (nth_error gl (N.to_nat i)) as [t|] eqn:En; [|discriminate].
    rewrite <- Hg in En. apply nth_error_map_inv in En. destruct En as [g [Eg Et]].
    assert (Hlt : N.to_nat i < length (items (m_globals m))) by (apply nth_error_Some; congruence).
    unfold ids_consistent in Hid. decompose [and] Hid. clear Hid.
    match goal with H : ii_globals ids = _ |- _ => rewrite H end.
    rewrite nth_N_iota_lt by exact Hlt. cbn [of_opt_err pbind]. eexists; split; [reflexivity|].
    intros m1 Hm1. cbn [offset_ok]. unfold global_ty. rewrite Hm1, Totality.aget_nodead by assumption.
    rewrite Eg. cbn [option_map of_opt_panic pbind]. rewrite Et.
    destruct t; try discriminate; rewrite Hok; reflexivity.
Qed.

Lemma map_pres_total {A B} (f : A -> pres B) : forall l, (forall x, In x l -> exists y, f x = POk y) ->
  exists ys, map_pres f l = POk ys.
Proof.
  induction l as [|x r IH]; intros H; cbn [map_pres]; [eauto|].
  destruct (H x (or_introl eq_refl)) as [y Ey]. rewrite Ey. cbn [pbind].
  destruct IH as [ys Eys]; [intros z Hz; apply H; right; exact Hz|]. rewrite Eys. cbn [pbind]. eauto.
Qed.

(* --- elements *)
Lemma parse_elem_total m ids e c : ids_consistent m ids -> AbsC c m ids -> elem_ok c e = true ->
  exists m' ids', parse_elem m ids e = POk (m', ids') /\ AbsC c m' ids'.
Proof.
  intros Hid A Hok. unfold elem_ok in Hok. apply andb_true_iff in Hok. destruct Hok as [Hit Hk].
  pose proof (abs_nf _ _ _ _ _ _ _ _ _ Hid A) as Hnf. fold (c_nf c) in Hnf.
  unfold parse_elem.
  match goal with |- context [pbind ?X ?K] => assert (HX : exists its, X = POk its) end.
  { destruct (wel_items e) as [fs|t es].
    - destruct (map_pres_total (fun f => of_opt_err (nth_N (ii_funcs ids) f)) fs) as [fl Efl].
      + intros f Hf. rewrite forallb_forall in Hit. apply Hit in Hf. apply ltb_N_lt in Hf. rewrite <- Hnf in Hf.
        destruct (nth_N_lt _ _ Hf) as [x Hx]. rewrite Hx. cbn. eauto.
      + rewrite Efl. cbn [pbind]. eauto.
    - destruct (map_pres_total (eval_const ids) es) as [el Eel].
      + intros k Hk'. rewrite forallb_forall in Hit. apply Hit in Hk'.
        eapply eval_const_total; [exact Hnf| |exact Hk'].
        destruct A as (A1 & A2 & A3 & A4 & A5 & A6). rewrite <- A5, map_length.
        unfold ids_consistent in Hid. decompose [and] Hid.
        match goal with H : ii_globals ids = _ |- _ => rewrite H end. apply iota_length.
      + rewrite Eel. cbn [pbind]. eauto. }
  destruct HX as [its EX]. rewrite EX. cbn [pbind]. clear EX Hit.
  destruct A as (A1 & A2 & A3 & A4 & A5 & A6).
  destruct (wel_kind e) as [| |tbl off].
  - cbn [pbind]. wcbn. eexists _, _. split; [reflexivity|]. unfold AbsC, Abs. wcbn. repeat split; assumption.
  - cbn [pbind]. wcbn. eexists _, _. split; [reflexivity|]. unfold AbsC, Abs. wcbn. repeat split; assumption.
  - set (ti := match tbl with Some t => t | None => 0%N end) in *.
    destruct (nth_error (c_tabs c) (N.to_nat ti)) as [is64|] eqn:En; [|discriminate].
    rewrite <- A3 in En. apply nth_error_map_inv in En. destruct En as [tb [Etb E64]].
    assert (Hlt : N.to_nat ti < length (items (m_tables m))) by (apply nth_error_Some; congruence).
    destruct (offset_total m ids (c_globs c) is64 off Hid A5 Hk) as [o [Eo Hoff]].
    unfold ids_consistent in Hid. decompose [and] Hid. clear Hid.
    match goal with H : ii_tables ids = _ |- _ => rewrite H end.
    rewrite nth_N_iota_lt by exact Hlt. cbn [of_opt_err pbind].
    rewrite Totality.aget_nodead by assumption. rewrite Etb. cbn [of_opt_panic pbind].
    rewrite Eo. cbn [pbind]. rewrite E64, Hoff by reflexivity. cbn [pbind]. wcbn.
    eexists _, _. split; [reflexivity|]. unfold AbsC, Abs. wcbn. repeat split; try assumption.
    rewrite upd_map; [exact A3|]. intros x. reflexivity.
Qed.
Lemma parse_elems_total : forall l m ids c, ids_consistent m ids -> AbsC c m ids -> forallb (elem_ok c) l = true ->
  exists m' ids', parse_elems m ids l = POk (m', ids') /\ AbsC c m' ids'.
Proof.
  induction l as [|e r IH]; intros m ids c Hid A Hok; cbn [parse_elems forallb] in *.
  - eexists _, _. split; [reflexivity|exact A].
  - apply andb_true_iff in Hok. destruct Hok as [H1 H2].
    destruct (parse_elem_total m ids e c Hid A H1) as (m1 & ids1 & E1 & A1). rewrite E1. cbn [pbind fst snd].
    apply IH; [eapply parse_elem_idc; eauto|exact A1|exact H2].
Qed.

(* --- data count, data *)
Lemma reserve_data_abs : forall n m ids m' ids' nt ni nl tb me gl nd,
  Abs nt ni nl tb me gl nd m ids -> reserve_data m ids n = (m', ids') -> Abs nt ni nl tb me gl (nd + n) m' ids'.
Proof.
  induction n as [|n IH]; intros m ids m' ids' nt ni nl tb me gl nd A E; cbn [reserve_data] in E.
  - inversion E; subst. rewrite Nat.add_0_r. exact A.
  - wcbn. eapply IH with (nd := S nd) in E.
    + replace (nd + S n) with (S nd + n) by lia. exact E.
    + destruct A as (A1 & A2 & A3 & A4 & A5 & A6). unfold Abs. wcbn. rewrite app_length. cbn [length].
      repeat split; try assumption. lia.
Qed.

Lemma parse_data_from_total : forall l m ids pre i c nd,
  ids_consistent m ids -> Abs (c_nt c) (c_nimp c) (c_nloc c) (c_tabs c) (c_mems c) (c_globs c) nd m ids ->
  forallb (data_ok c) l = true -> (pre = true -> N.to_nat i + length l <= nd) ->
  exists m' ids', parse_data_from m ids pre i l = POk (m', ids') /\
    Abs (c_nt c) (c_nimp c) (c_nloc c) (c_tabs c) (c_mems c) (c_globs c) (if pre then nd else nd + length l) m' ids'.
Proof.
  induction l as [|d r IH]; intros m ids pre i c nd Hid A Hok Hpre; cbn [parse_data_from forallb length] in *.
  - eexists _, _. split; [reflexivity|]. destruct pre; [|rewrite Nat.add_0_r]; exact A.
  - apply andb_true_iff in Hok. destruct Hok as [H1 H2].
    match goal with |- context [pbind ?X ?K] =>
      assert (HX : exists m1 ids1 id, X = POk (m1, ids1, id) /\ ids_consistent m1 ids1 /\
                   Abs (c_nt c) (c_nimp c) (c_nloc c) (c_tabs c) (c_mems c) (c_globs c) (if pre then nd else S nd) m1 ids1 /\
                   N.to_nat id < (if pre then nd else S nd)) end.
    { destruct pre.
      - specialize (Hpre eq_refl). destruct A as (A1 & A2 & A3 & A4 & A5 & A6).
        pose proof Hid as Hid'. unfold ids_consistent in Hid'. decompose [and] Hid'. clear Hid'.
        match goal with H : ii_data ids = _ |- _ => rewrite H end. rewrite A6.
        rewrite nth_N_iota_lt by lia. cbn [of_opt_err pbind]. eexists _, _, _. split; [reflexivity|].
        split; [exact Hid|]. split; [unfold Abs; repeat split; assumption|lia].
      - wcbn. eexists _, _, _. split; [reflexivity|]. split; [clear - Hid; idc_solve|].
        destruct A as (A1 & A2 & A3 & A4 & A5 & A6). split.
        + unfold Abs. wcbn. rewrite app_length. cbn [length]. repeat split; try assumption. lia.
        + unfold anext, next_id. rewrite Nat2N.id. lia. }
    destruct HX as (m1 & ids1 & id & EX & Hid1 & A1 & Hlt). rewrite EX. cbn [pbind]. clear EX.
    match goal with |- context [pbind ?X ?K] =>
      assert (HY : exists m2 kind, X = POk (m2, kind) /\ ids_consistent m2 ids1 /\
                   Abs (c_nt c) (c_nimp c) (c_nloc c) (c_tabs c) (c_mems c) (c_globs c) (if pre then nd else S nd) m2 ids1) end.
    { unfold data_ok in H1. destruct (wd_kind d) as [|mi off].
      - eexists _, _. split; [reflexivity|]. split; assumption.
      - destruct (nth_error (c_mems c) (N.to_nat mi)) as [is64|] eqn:En; [|discriminate].
        destruct A1 as (B1 & B2 & B3 & B4 & B5 & B6).
        rewrite <- B4 in En. apply nth_error_map_inv in En. destruct En as [mm [Emm E64]].
        assert (Hl : N.to_nat mi < length (items (m_memories m1))) by (apply nth_error_Some; congruence).
        destruct (offset_total m1 ids1 (c_globs c) is64 off Hid1 B5 H1) as [o [Eo Hoff]].
        pose proof Hid1 as Hid'. unfold ids_consistent in Hid'. decompose [and] Hid'. clear Hid'.
        match goal with H : ii_memories ids1 = _ |- _ => rewrite H end.
        rewrite nth_N_iota_lt by exact Hl. cbn [of_opt_err pbind].
        rewrite Totality.aget_nodead by assumption. rewrite Emm. cbn [of_opt_panic pbind].
        rewrite Eo. cbn [pbind]. rewrite E64, Hoff by reflexivity. cbn [pbind].
        eexists _, _. split; [reflexivity|]. split; [clear - Hid1; idc_solve|].
        unfold Abs. wcbn. repeat split; try assumption.
        rewrite upd_map; [exact B4|]. intros x. reflexivity. }
    destruct HY as (m2 & kind & EY & Hid2 & A2). rewrite EY. cbn [pbind]. clear EY.
    assert (Hg : exists dd, aget (m_data m2) id = Some dd).
    { pose proof Hid2 as Hid'. unfold ids_consistent in Hid'. decompose [and] Hid'. clear Hid'.
      rewrite Totality.aget_nodead by assumption. destruct A2 as (B1 & B2 & B3 & B4 & B5 & B6).
      destruct (nth_error (items (m_data m2)) (N.to_nat id)) eqn:En; [eauto|]. apply nth_error_None in En. lia. }
    destruct Hg as [dd Edd]. rewrite Edd. cbn [of_opt_panic pbind].
    edestruct (IH (set_data m2 (aset_at (m_data m2) id (fun t => {| da_kind := kind; da_value := wd_bytes d; da_name := da_name t |})))
                  ids1 pre (i + 1)%N c (if pre then nd else S nd)) as (m' & ids' & E' & A').
    + clear - Hid2. idc_solve.
    + destruct A2 as (B1 & B2 & B3 & B4 & B5 & B6). unfold Abs. wcbn. rewrite WV.Proofs.Arena.upd_length. repeat split; assumption.
    + exact H2.
    + intros ->. specialize (Hpre eq_refl). rewrite N2Nat.inj_add. change (N.to_nat 1) with 1. lia.
    + eexists _, _. split; [exact E'|]. destruct pre; [exact A'|].
      replace (nd + S (length r)) with (S nd + length r) by lia. exact A'.
Qed.

Lemma iter_len {A} (a : tarena A) : dead a = [] -> length (iter a) = length (items a).
Proof.
  intros D. rewrite <- (aiter_nodead_snd a D), map_length. unfold aiter. rewrite map_length. reflexivity.
Qed.

(* --- the invariant of the payload loop *)
Record Inv (c : vctx) (s : pst) : Prop := {
  iv_pi : PI (ps_m s) (ps_ids s);
  iv_abs : AbsC c (ps_m s) (ps_ids s);
  iv_nb : length (ps_bodies s) = c_nbodies c;
  iv_bv : Forall (body_valid (c_nt c)) (ps_bodies s);
  iv_o3 : c_last c < 3 -> c_nloc c = 0;
  iv_o11 : c_last c < 11 -> ps_bodies s = [];
  iv_o12 : c_last c < 12 -> c_ndata c = match c_dc c with Some n => n | None => 0 end;
  iv_o10 : c_last c < 10 -> c_dc c = None }.

Lemma parse_sec_run c s sec : Inv c s -> valid_sec c sec ->
  exists s', parse_sec s sec = POk s' /\ AbsC (cstep0 c sec) (ps_m s') (ps_ids s') /\
             ps_bodies s' = ps_bodies s ++ match sec with S_Code bs => bs | _ => [] end.
Proof.
  intros [Hpi A Hnb Hbv H3 H11 H12 H10] [Hv Hb]. pose proof (pi_idc _ _ Hpi) as Hid.
  unfold valid_sec_b in Hv. apply andb_true_iff in Hv. destruct Hv as [Ho Hv].
  unfold order_ok in Ho. unfold parse_sec. destruct sec; cbn [cstep0 rank] in *; try apply Nat.ltb_lt in Ho.
  - destruct (parse_types _ _ _) as [m1 i1] eqn:Ep. eexists. split; [reflexivity|]. wcbn.
    split; [|rewrite app_nil_r; reflexivity]. eapply parse_types_abs in Ep; [exact Ep|exact A].
  - destruct (parse_imports_abs is_ (ps_m s) (ps_ids s) c c A) as (m1 & i1 & E1 & A1); [apply H3; lia|reflexivity|exact Hv|].
    rewrite E1. cbn [pbind fst snd]. eexists. split; [reflexivity|]. wcbn. split; [exact A1|rewrite app_nil_r; reflexivity].
  - destruct (parse_funcs_abs tys (ps_m s) (ps_ids s) _ _ _ _ _ _ _ A Hv) as (m1 & i1 & E1 & A1).
    rewrite E1. cbn [pbind fst snd]. eexists. split; [reflexivity|]. wcbn. split; [exact A1|rewrite app_nil_r; reflexivity].
  - destruct (parse_tables _ _ _) as [m1 i1] eqn:Ep. eexists. split; [reflexivity|]. wcbn.
    split; [|rewrite app_nil_r; reflexivity]. eapply parse_tables_abs in Ep; [exact Ep|exact A].
  - destruct (parse_mems _ _ _) as [m1 i1] eqn:Ep. eexists. split; [reflexivity|]. wcbn.
    split; [|rewrite app_nil_r; reflexivity]. eapply parse_mems_abs in Ep; [exact Ep|exact A].
  - destruct (parse_globals_abs gs (ps_m s) (ps_ids s) _ _ _ _ _ _ _ (c_nf c) A) as (m1 & i1 & E1 & A1).
    + eapply abs_nf; eauto.
    + destruct A as (A1 & A2 & A3 & A4 & A5 & A6). rewrite <- A5, map_length.
      unfold ids_consistent in Hid. decompose [and] Hid.
      match goal with H : ii_globals _ = _ |- _ => rewrite H end. apply iota_length.
    + exact Hv.
    + rewrite E1. cbn [pbind fst snd]. eexists. split; [reflexivity|]. wcbn. split; [exact A1|rewrite app_nil_r; reflexivity].
  - destruct (parse_exports_total es (ps_m s) (ps_ids s) _ _ _ _ _ _ _ Hid A) as (m1 & E1 & A1).
    + exact Hv.
    + rewrite E1. cbn [pbind]. eexists. split; [reflexivity|]. wcbn. split; [exact A1|rewrite app_nil_r; reflexivity].
  - apply ltb_N_lt in Hv. pose proof (abs_nf _ _ _ _ _ _ _ _ _ Hid A) as Hnf. fold (c_nf c) in Hnf. rewrite <- Hnf in Hv.
    destruct (nth_N_lt _ _ Hv) as [x Hx]. rewrite Hx. cbn [of_opt_err pbind]. eexists. split; [reflexivity|]. wcbn.
    split; [|rewrite app_nil_r; reflexivity]. destruct A as (A1 & A2 & A3 & A4 & A5 & A6). unfold AbsC, Abs. wcbn. repeat split; assumption.
  - destruct (parse_elems_total es (ps_m s) (ps_ids s) c Hid A Hv) as (m1 & i1 & E1 & A1).
    rewrite E1. cbn [pbind fst snd]. eexists. split; [reflexivity|]. wcbn. split; [exact A1|rewrite app_nil_r; reflexivity].
  - destruct (reserve_data _ _ _) as [m1 i1] eqn:Ep. eexists. split; [reflexivity|]. wcbn.
    split; [|rewrite app_nil_r; reflexivity]. eapply reserve_data_abs in Ep; [exact Ep|exact A].
  - eexists. split; [reflexivity|]. wcbn. split; [exact A|reflexivity].
  - apply andb_true_iff in Hv. destruct Hv as [Hv Hdc]. unfold parse_data.
    assert (Hlen : length (iter (m_data (ps_m s))) = c_ndata c).
    { destruct A as (A1 & A2 & A3 & A4 & A5 & A6). rewrite <- A6. apply iter_len.
      unfold ids_consistent in Hid. decompose [and] Hid. assumption. }
    rewrite Hlen. specialize (H12 Ho).
    destruct (parse_data_from_total ds (ps_m s) (ps_ids s) (negb (c_ndata c =? 0)) 0%N c (c_ndata c) Hid A Hv) as (m1 & i1 & E1 & A1).
    + intros Hp. destruct (c_ndata c =? 0) eqn:En; [discriminate|]. apply Nat.eqb_neq in En.
      destruct (c_dc c) as [n|]; [|lia]. apply Nat.eqb_eq in Hdc. cbn. lia.
    + rewrite E1. cbn [pbind fst snd]. eexists. split; [reflexivity|]. wcbn. split; [|rewrite app_nil_r; reflexivity].
      unfold AbsC. cbn [c_nt c_nimp c_nloc c_tabs c_mems c_globs c_ndata].
      destruct (c_ndata c =? 0) eqn:En; cbn [negb] in A1; [|exact A1].
      apply Nat.eqb_eq in En. rewrite En in A1. exact A1.
  - eexists. split; [reflexivity|]. split; [|rewrite app_nil_r; unfold parse_custom; destruct c0 as [n d|n d|[n|]|[p|]]; reflexivity].
    destruct A as (A1 & A2 & A3 & A4 & A5 & A6). unfold parse_custom, AbsC, Abs.
    destruct c0 as [n d|n d|[n|]|[p|]]; wcbn; repeat split; assumption.
Qed.

Lemma fold_cimp_frame : forall l c,
  c_last (fold_left cimp l c) = c_last c /\ c_nt (fold_left cimp l c) = c_nt c /\
  c_nloc (fold_left cimp l c) = c_nloc c /\ c_dc (fold_left cimp l c) = c_dc c /\
  c_ndata (fold_left cimp l c) = c_ndata c /\ c_nbodies (fold_left cimp l c) = c_nbodies c.
Proof.
  induction l as [|i r IH]; intros c; cbn [fold_left]; [auto 10|].
  destruct (IH (cimp c i)) as (I1 & I2 & I3 & I4 & I5 & I6). rewrite I1, I2, I3, I4, I5, I6.
  unfold cimp. destruct (wi_kind i); cbn; auto 10.
Qed.

Lemma parse_sec_total c s sec : Inv c s -> valid_sec c sec ->
  exists s', parse_sec s sec = POk s' /\ Inv (cstep c sec) s'.
Proof.
  intros I V. destruct (parse_sec_run c s sec I V) as (s' & E & A' & Hb'). exists s'. split; [exact E|].
  destruct I as [Hpi A Hnb Hbv H3 H11 H12 H10]. destruct V as [Hv Hb].
  unfold valid_sec_b in Hv. apply andb_true_iff in Hv. destruct Hv as [Ho _]. unfold order_ok in Ho.
  assert (F := fun l => fold_cimp_frame l c).
  constructor.
  - eapply parse_sec_PI; eauto.
  - exact A'.
  - rewrite Hb', app_length, Hnb. destruct sec; cbn [cstep set_last cstep0 c_nbodies length]; try lia.
    destruct (F is_) as (_ & _ & _ & _ & _ & ->). lia.
  - rewrite Hb'. destruct sec; cbn [cstep set_last cstep0 c_nt rank] in *; try apply Nat.ltb_lt in Ho;
      rewrite ?app_nil_r; try exact Hbv.
    + rewrite H11 by lia. constructor.
    + destruct (F is_) as (_ & -> & _). exact Hbv.
    + apply Forall_app. split; assumption.
  - destruct sec; cbn [cstep set_last cstep0 c_last c_nloc rank] in *; try apply Nat.ltb_lt in Ho;
      try (destruct (F is_) as (F1 & F2 & F3 & F4 & F5 & F6); rewrite ?F1, ?F2, ?F3, ?F4, ?F5, ?F6);
      intros; try lia; auto.
  - rewrite Hb'. destruct sec; cbn [cstep set_last cstep0 c_last rank] in *; try apply Nat.ltb_lt in Ho;
      try (destruct (F is_) as (F1 & F2 & F3 & F4 & F5 & F6); rewrite ?F1, ?F2, ?F3, ?F4, ?F5, ?F6);
      intros; try lia; rewrite app_nil_r; apply H11; try lia; auto.
  - destruct sec; cbn [cstep set_last cstep0 c_last c_ndata c_dc rank] in *; try apply Nat.ltb_lt in Ho;
      try (destruct (F is_) as (F1 & F2 & F3 & F4 & F5 & F6); rewrite ?F1, ?F2, ?F3, ?F4, ?F5, ?F6);
      intros; try lia; try (apply H12; lia); auto.
    rewrite H12 by lia. rewrite H10 by lia. reflexivity.
  - destruct sec; cbn [cstep set_last cstep0 c_last c_dc rank] in *; try apply Nat.ltb_lt in Ho;
      try (destruct (F is_) as (F1 & F2 & F3 & F4 & F5 & F6); rewrite ?F1, ?F2, ?F3, ?F4, ?F5, ?F6);
      intros; try lia; try (apply H10; lia); auto.
Qed.

Lemma parse_secs_total : forall w c s, Inv c s -> valid_from c w ->
  exists s' c', parse_secs s w = POk s' /\ Inv c' s' /\ c_nbodies c' = c_nloc c'.
Proof.
  induction w as [|x r IH]; intros c s I V; cbn [parse_secs valid_from] in *.
  - eexists _, _. split; [reflexivity|]. split; [exact I|exact V].
  - destruct V as [V1 V2]. destruct (parse_sec_total c s x I V1) as (s1 & E1 & I1). rewrite E1. cbn [pbind].
    apply IH with (c := cstep c x); assumption.
Qed.

Definition pst_init (cf : config) : pst :=
  {| ps_m := empty_wir cf; ps_ids := empty_i2ids; ps_bodies := []; ps_names := []; ps_calls_on_parse := 0 |}.
Lemma Inv_init cf : Inv ctx0 (pst_init cf).
Proof.
  constructor; cbn [pst_init ps_m ps_ids ps_bodies ctx0 c_last c_nloc c_ndata c_dc c_nbodies c_nt]; auto.
  - apply PI_empty.
  - unfold AbsC, Abs. cbn. auto 10.
Qed.

(* ====================================================================================== *)
(* 3. After the payload loop: locals, entry types, bodies                                   *)
(* ====================================================================================== *)

(* --- stream-level body validity implies [wf] in the parser's context *)
Definition swl_inner (nt : nat) :=
  fix wl (k : nat) (l : list rt) : Prop := match l with [] => True | x :: l' => swf nt k x /\ wl k l' end.
Lemma swl_inner_eq nt k l : swl_inner nt k l = swfl nt k l.
Proof. induction l as [|t l IH]; [reflexivity|]. cbn [swl_inner swfl]. fold (swl_inner nt). now rewrite IH. Qed.
Lemma swf_block nt k bt b l e : swf nt k (RBlock bt b l e) = (sbt_ok nt bt /\ swfl nt (S k) b).
Proof. rewrite <- swl_inner_eq. reflexivity. Qed.
Lemma swf_loop nt k bt b l e : swf nt k (RLoop bt b l e) = (sbt_ok nt bt /\ swfl nt (S k) b).
Proof. rewrite <- swl_inner_eq. reflexivity. Qed.
Lemma swf_if nt k bt th el l e : swf nt k (RIf bt th el l e) =
  (sbt_ok nt bt /\ swfl nt (S k) th /\ match el with Some (_, eb) => swfl nt (S k) eb | None => True end).
Proof. rewrite <- swl_inner_eq. destruct el as [[le eb]|]; [rewrite <- swl_inner_eq|]; reflexivity. Qed.

Lemma Forall_swfl cx nt l : Forall (fun t => forall k, swf nt k t -> wf cx k t) l -> forall k, swfl nt k l -> wfl cx k l.
Proof.
  induction 1 as [|t l Ht _ IH]; intros k H; cbn [swfl wfl] in *; [exact I|].
  destruct H as [H1 H2]. split; [apply Ht; exact H1|apply IH; exact H2].
Qed.
Lemma swf_wf cx nt : (forall bt, sbt_ok nt bt -> bt_ok cx bt) -> forall t k, swf nt k t -> wf cx k t.
Proof.
  intros Hbt. apply (rt_ind' (fun t => forall k, swf nt k t -> wf cx k t)).
  - intros o l k H. cbn [swf wf] in *. apply H.
  - intros l k H. exact I.
  - intros d l k H. exact H.
  - intros d l k H. exact H.
  - intros ds d l k H. exact H.
  - intros bt b l e F k H. rewrite wf_block. rewrite swf_block in H. destruct H as [H1 H2].
    split; [apply Hbt; exact H1|eapply Forall_swfl; eauto].
  - intros bt b l e F k H. rewrite wf_loop. rewrite swf_loop in H. destruct H as [H1 H2].
    split; [apply Hbt; exact H1|eapply Forall_swfl; eauto].
  - intros bt th el l e F Fe k H. rewrite wf_if. rewrite swf_if in H. destruct H as (H1 & H2 & H3).
    split; [apply Hbt; exact H1|]. split; [eapply Forall_swfl; eauto|].
    destruct el as [[le eb]|]; [|exact I]. unfold optP in Fe. cbn [snd] in Fe. eapply Forall_swfl; eauto.
Qed.
Lemma swfl_wfl cx nt : (forall bt, sbt_ok nt bt -> bt_ok cx bt) -> forall l k, swfl nt k l -> wfl cx k l.
Proof.
  intros Hbt l. apply Forall_swfl. apply Forall_forall. intros t _. apply swf_wf. exact Hbt.
Qed.

(* --- block types resolve *)
Definition TInv (m : wir) (ids : i2ids) (nt : nat) : Prop :=
  dead (Arena.arena (m_types m)) = [] /\ length (ii_types ids) = nt /\ forall id, In id (ii_types ids) -> ty_ok m id.

Lemma vlist_eqb_refl : forall l, vlist_eqb l l = true.
Proof. induction l as [|x l IH]; [reflexivity|]. cbn [vlist_eqb]. unfold valty_eqb. rewrite N.eqb_refl, IH. reflexivity. Qed.
Lemma find_type_from_some : forall l n k ps rs, nth_error l k = Some (ps, rs, false) -> find_type_from n l ps rs <> None.
Proof.
  induction l as [|[[p r] en] l IH]; intros n k ps rs Hk; destruct k; cbn [nth_error] in Hk; try discriminate;
    cbn [find_type_from].
  - inversion Hk; subst. rewrite !vlist_eqb_refl. cbn. discriminate.
  - destruct (negb en && vlist_eqb p ps && vlist_eqb r rs); [discriminate|]. eapply IH; eauto.
Qed.

Lemma sbt_bt_ok m ids fid nt bt : TInv m ids nt -> sbt_ok nt bt ->
  bt_ok {| px_i2id := i2id_fun ids fid; px_types := types_list m |} bt.
Proof.
  intros (D & L & T) H. unfold bt_ok. destruct bt as [|t|i]; cbn [bt_tys]; try (cbn; discriminate).
  cbn [sbt_ok] in H. cbn [px_i2id px_types i2id_fun]. rewrite <- L in H.
  pose proof (nth_In (ii_types ids) 4294967295%N H) as Hin. apply T in Hin. destruct Hin as (t & Ht & He).
  set (id := nth (N.to_nat i) (ii_types ids) 4294967295%N) in *.
  unfold types_get in Ht. rewrite aset_index_nodead in Ht by exact D.
  assert (Hn : nth_N (types_list m) id = Some (ty_params t, ty_results t, false)).
  { unfold nth_N, types_list. rewrite nth_error_map, Ht. cbn [option_map]. rewrite He. reflexivity. }
  change (i2id_fun ids fid S_type i) with id. rewrite Hn.
  assert (Hft : find_type {| px_i2id := i2id_fun ids fid; px_types := types_list m |} (ty_params t) (ty_results t) <> None).
  { unfold find_type. cbn [px_types]. eapply find_type_from_some. exact Hn. }
  unfold existing. destruct (ty_params t) as [|p ps']; [destruct (ty_results t) as [|r [|r' rs']]|];
    try discriminate;
    (destruct (find_type _ _ _); [cbn; discriminate|congruence]).
Qed.

(* --- function-entry types are found *)
Definition tyitems (m : wir) : list mtype := items (Arena.arena (m_types m)).
Definition HE (m : wir) (rs : list valty) : Prop :=
  exists k t, nth_error (tyitems m) k = Some t /\ ty_entry t = true /\ ty_params t = [] /\ ty_results t = rs.
Definition TyMono (m m' : wir) : Prop := forall i x, nth_error (tyitems m) i = Some x -> nth_error (tyitems m') i = Some x.

Lemma find_entry_from_some : forall l n k t rs, nth_error l k = Some t -> ty_entry t = true -> ty_params t = [] ->
  ty_results t = rs -> find_entry_from n l [] rs <> None.
Proof.
  induction l as [|a l IH]; intros n k t rs Hk He Hp Hr; destruct k; cbn [nth_error] in Hk; try discriminate;
    cbn [find_entry_from existsb negb andb].
  - inversion Hk; subst a. rewrite He, Hp, Hr. cbn [vl_eqb andb]. rewrite (proj2 (vl_eqb_eq rs rs) eq_refl). discriminate.
  - destruct (ty_entry a && vl_eqb (ty_params a) [] && vl_eqb (ty_results a) rs); [discriminate|]. eapply IH; eauto.
Qed.
Lemma HE_find m rs : dead (Arena.arena (m_types m)) = [] -> HE m rs -> find_entry m rs <> None.
Proof.
  intros D (k & t & Hk & He & Hp & Hr). unfold find_entry. rewrite D. eapply find_entry_from_some; eauto.
Qed.
Lemma HE_mono m m' rs : TyMono m m' -> HE m rs -> HE m' rs.
Proof. intros M (k & t & Hk & H). exists k, t. split; [apply M; exact Hk|exact H]. Qed.
Lemma TG_mono m m' ty t : dead (Arena.arena (m_types m)) = [] -> dead (Arena.arena (m_types m')) = [] ->
  TyMono m m' -> types_get m ty = Some t -> types_get m' ty = Some t.
Proof. intros D D' M. unfold types_get. rewrite !aset_index_nodead by assumption. apply M. Qed.

(* --- one body, all bodies *)
Definition prep_ok (m : wir) (nt : nat) (p : prepared) : Prop :=
  (exists t, types_get m (pr_ty p) = Some t /\ HE m (ty_results t)) /\ body_valid nt (pr_body p).

Lemma parse_one_body_total m ids p nt : TInv m ids nt -> prep_ok m nt p -> exists lf, parse_one_body m ids p = POk lf.
Proof.
  intros T ((t & Ht & He) & (l & eloc & Eops & Hw)). unfold parse_one_body. rewrite Ht. cbn [of_opt_panic pbind].
  destruct (find_entry m (ty_results t)) as [ety|] eqn:Ef; [|exfalso; eapply HE_find; eauto; apply T].
  cbn [of_opt_panic pbind]. rewrite Eops, parse_body_arena; [eauto|].
  eapply swfl_wfl; [|exact Hw]. intros bt Hbt. eapply sbt_bt_ok; eauto.
Qed.

Lemma install_bodies_total : forall ps m ids nt, TInv m ids nt -> Forall (prep_ok m nt) ps ->
  exists m', install_bodies m ids ps = POk m'.
Proof.
  induction ps as [|p r IH]; intros m ids nt T F; cbn [install_bodies]; [eauto|].
  inversion F as [|? ? Fp Fr]; subst.
  destruct (parse_one_body_total m ids p nt T Fp) as [lf E]. rewrite E. cbn [pbind].
  apply IH with (nt := nt); [exact T|exact Fr].
Qed.

(* --- locals and entry types *)
Lemma TyMono_refl m : TyMono m m. Proof. intros i x H. exact H. Qed.
Lemma TyMono_trans a b c : TyMono a b -> TyMono b c -> TyMono a c.
Proof. intros H1 H2 i x H. apply H2, H1, H. Qed.
Lemma TyMono_eq m m' : m_types m' = m_types m -> TyMono m m'.
Proof. intros E i x H. unfold tyitems. rewrite E. exact H. Qed.

Lemma prepare_bodies_total : forall bs m ids ni i nt,
  PI m ids -> length (ii_types ids) = nt ->
  (forall j, j < length bs -> exists f ty, nth_error (items (m_funcs m)) (N.to_nat ni + N.to_nat i + j) = Some f /\
                                           fn_kind f = FK_Uninit ty) ->
  Forall (body_valid nt) bs ->
  exists m' ids' ps, prepare_bodies m ids ni i bs = POk (m', ids', ps) /\
     PI m' ids' /\ ii_types ids' = ii_types ids /\ TyMono m m' /\ Forall (prep_ok m' nt) ps.
Proof.
  induction bs as [|b r IH]; intros m ids ni i nt P L Hf Hb; cbn [prepare_bodies].
  - eexists _, _, _. split; [reflexivity|]. split; [exact P|]. split; [reflexivity|]. split; [apply TyMono_refl|constructor].
  - destruct (Hf 0) as (f & ty & Hn & Hk); [cbn; lia|]. rewrite Nat.add_0_r, <- N2Nat.inj_add in Hn.
    assert (Hlt : N.to_nat (ni + i) < length (items (m_funcs m))) by (apply nth_error_Some; congruence).
    pose proof (pi_idc _ _ P) as Hid. pose proof Hid as Hid'. unfold ids_consistent in Hid'. decompose [and] Hid'. clear Hid'.
    match goal with H : ii_funcs ids = _ |- _ => rewrite H end.
    rewrite nth_N_iota_lt by exact Hlt. cbn [of_opt_err pbind].
    assert (Hg : aget (m_funcs m) (ni + i) = Some f) by (rewrite Totality.aget_nodead by assumption; exact Hn).
    rewrite Hg. cbn [of_opt_panic pbind]. rewrite Hk.
    destruct (cl_func_ty m (pi_closed _ _ P) _ f Hg) as (t & Ht & Hte). unfold WV.Model.EmitM.func_ty in Ht. rewrite Hk in Ht.
    rewrite Ht. cbn [of_opt_panic pbind].
    destruct (add_locals m ids (ni + i) (ty_params t) _) as [[m1 ids1] args] eqn:E1.
    destruct (types_insert m1 _) as [m2 tid] eqn:E2.
    destruct (add_locals m2 ids1 (ni + i) _ _) as [[m3 ids3] ls] eqn:E3.
    destruct (add_locals_same _ _ _ _ _ _ _ _ E1) as [S1 T1].
    assert (P1 : PI m1 ids1) by (eapply PI_same; eauto; eapply add_locals_idc; [apply P|exact E1]).
    destruct (types_insert_PI _ _ _ _ _ P1 E2) as [P2 _].
    destruct (types_insert_spec _ _ _ _ (pi_twf _ _ P1) E2) as (_ & K2 & ty' & Hty' & Heq').
    destruct (types_insert_dead _ _ _ _ E2) as [Em2 _].
    destruct (add_locals_same _ _ _ _ _ _ _ _ E3) as [S3 T3].
    assert (P3 : PI m3 ids3) by (eapply PI_same; eauto; eapply add_locals_idc; [apply P2|exact E3]).
    assert (M1 : TyMono m m1) by (apply TyMono_eq; apply S1).
    assert (M2 : TyMono m1 m2) by exact K2.
    assert (M3 : TyMono m2 m3) by (apply TyMono_eq; apply S3).
    assert (M03 : TyMono m m3) by (eapply TyMono_trans; [exact M1|]; eapply TyMono_trans; eauto).
    assert (Fu : m_funcs m3 = m_funcs m).
    { destruct S1 as (_ & _ & _ & F1 & _). destruct S3 as (_ & _ & _ & F3 & _). rewrite F3, Em2. wcbn. exact F1. }
    inversion Hb as [|? ? Hb1 Hb2]; subst.
    destruct (IH m3 ids3 ni (i + 1)%N (length (ii_types ids))) as (m4 & ids4 & rest & E4 & P4 & T4 & M4 & F4).
    + exact P3.
    + rewrite T3, T1. reflexivity.
    + intros j Hj. destruct (Hf (S j)) as (f' & ty'' & Hn' & Hk'); [cbn [length]; lia|]. exists f', ty''. split; [|exact Hk'].
      rewrite Fu, N2Nat.inj_add. change (N.to_nat 1) with 1.
      replace (N.to_nat ni + (N.to_nat i + 1) + j) with (N.to_nat ni + N.to_nat i + S j) by lia. exact Hn'.
    + exact Hb2.
    + rewrite E4. cbn [pbind]. eexists _, _, _. split; [reflexivity|]. split; [exact P4|].
      split; [rewrite T4, T3, T1; reflexivity|]. split; [eapply TyMono_trans; eauto|].
      constructor; [|exact F4]. split; cbn [pr_ty pr_body]; [|exact Hb1].
      exists t. split.
      * eapply TG_mono; [| |eapply TyMono_trans; [exact M03|exact M4]|exact Ht]; [apply (pi_twf _ _ P)|apply (pi_twf _ _ P4)].
      * eapply HE_mono; [eapply TyMono_trans; [exact M3|exact M4]|].
        apply mtype_eqb_spec in Heq'. cbn [ty_params ty_results ty_entry] in Heq'. destruct Heq' as (Q1 & Q2 & Q3).
        exists (N.to_nat tid), ty'. unfold tyitems. split; [exact Hty'|]. split; [congruence|]. split; congruence.
Qed.

(* ====================================================================================== *)
(* 4. Module::parse is total on valid streams                                               *)
(* ====================================================================================== *)

Theorem parse_total cf ver w : valid_stream w -> exists s, parseM cf ver w = POk s.
Proof.
  intros V. unfold parseM. fold (pst_init cf).
  destruct (parse_secs_total w ctx0 (pst_init cf) (Inv_init cf) V) as (s1 & c & E1 & I & Hcnt).
  rewrite E1. cbn [pbind]. destruct I as [Hpi A Hnb Hbv _ _ _ _].
  pose proof (pi_idc _ _ Hpi) as Hid.
  assert (Hnf : length (iter (m_funcs (ps_m s1))) = c_nimp c + c_nloc c).
  { rewrite iter_len by (unfold ids_consistent in Hid; decompose [and] Hid; assumption).
    destruct A as (_ & A2 & _). rewrite <- (map_length fcls), A2, app_length, !repeat_length. reflexivity. }
  unfold len_N. rewrite Hnf, Hnb, Hcnt.
  replace (N.of_nat (c_nimp c + c_nloc c) <? N.of_nat (c_nloc c))%N with false by (symmetry; apply N.ltb_ge; lia).
  replace (N.of_nat (c_nimp c + c_nloc c) - N.of_nat (c_nloc c))%N with (N.of_nat (c_nimp c)) by lia.
  destruct (prepare_bodies_total (ps_bodies s1) (ps_m s1) (ps_ids s1) (N.of_nat (c_nimp c)) 0%N (c_nt c) Hpi)
    as (m1 & ids1 & ps & E2 & P2 & T2 & M2 & F2).
  - apply A.
  - intros j Hj. rewrite Hnb, Hcnt in Hj. destruct A as (_ & A2 & _).
    rewrite Nat2N.id. change (N.to_nat 0) with 0. rewrite Nat.add_0_r.
    assert (Hn : nth_error (map fcls (items (m_funcs (ps_m s1)))) (c_nimp c + j) = Some 1).
    { rewrite A2, nth_error_app2 by (rewrite repeat_length; lia). rewrite repeat_length.
      replace (c_nimp c + j - c_nimp c) with j by lia.
      clear - Hj. revert j Hj. induction (c_nloc c) as [|n IHn]; intros j Hj; [lia|].
      destruct j; cbn [repeat nth_error]; [reflexivity|apply IHn; lia]. }
    apply nth_error_map_inv in Hn. destruct Hn as (f & Hf & Hc). unfold fcls in Hc.
    destruct (fn_kind f) as [? ?|?|ty] eqn:Ek; try discriminate. eauto.
  - exact Hbv.
  - rewrite E2. cbn [pbind].
    destruct (install_bodies_total ps m1 ids1 (c_nt c)) as (m2 & E3).
    + split; [apply (pi_twf _ _ P2)|]. split; [rewrite T2; apply A|apply (pi_ity _ _ P2)].
    + exact F2.
    + rewrite E3. cbn [pbind]. eauto.
Qed.

Corollary parse_no_panic cf ver w : valid_stream w -> parseM cf ver w <> PPanic.
Proof. intros V. destruct (parse_total cf ver w V) as [s E]. rewrite E. discriminate. Qed.
Corollary parse_no_err cf ver w : valid_stream w -> parseM cf ver w <> PErr.
Proof. intros V. destruct (parse_total cf ver w V) as [s E]. rewrite E. discriminate. Qed.

(* the boolean part suffices for streams without a code section *)
Corollary parse_total_no_code cf ver w : no_code w -> valid_from_b ctx0 w = true -> exists s, parseM cf ver w = POk s.
Proof. intros Hn Hv. apply parse_total. apply valid_no_code_b; assumption. Qed.

(* ====================================================================================== *)
(* 5. A concrete module                                                                     *)
(* ====================================================================================== *)
Definition ex_b1 : list rt :=
  [RBlock (BT_Val VT_I32)
     [RPlain (W_LocalGet 0) 11;
      RIf (BT_Val VT_I32) [RPlain (W_I32Const 1) 13] (Some (14%N, [RPlain (W_I32Const 2) 15])) 12 16] 10 17].
Definition ex_b2 : list rt :=
  [RPlain (W_Call 0) 21;
   RBlock BT_Empty [RPlain (W_I32Const 0) 23; RBrIf 0 24; RNop 25] 22 26;
   RIf (BT_Func 1) [RPlain (W_Call 2) 28] None 27 29].
Definition ex_mod : wmod :=
  [ S_Types [([VT_I32], [VT_I32]); ([], [])];
    S_Imports [{| wi_module := [101%N]; wi_name := [102%N]; wi_kind := WI_Func 1 |}];
    S_Funcs [0%N; 1%N];
    S_Tables [{| wt_elem := RT_Funcref; wt_64 := false; wt_init := 2; wt_max := None |}];
    S_Mems [{| wm_64 := false; wm_shared := false; wm_init := 1; wm_max := None; wm_page := None |}];
    S_Globals [({| wg_ty := VT_I32; wg_mut := false; wg_shared := false |}, WC_I32 42)];
    S_Exports [{| we_name := [109%N]; we_kind := EK_Func; we_index := 1 |};
               {| we_name := [110%N]; we_kind := EK_Mem; we_index := 0 |}];
    S_Start 2;
    S_Elems [{| wel_kind := WEK_Active None (WC_GlobalGet 0); wel_items := WEI_Funcs [1%N; 2%N] |}];
    S_DataCount 1;
    S_Code [{| wb_locals := [(1%N, VT_I64)]; wb_ops := flat_list ex_b1 ++ [(WEnd, 18%N)] |};
            {| wb_locals := []; wb_ops := flat_list ex_b2 ++ [(WEnd, 30%N)] |}];
    S_Data [{| wd_kind := WDK_Active 0 (WC_I32 8); wd_bytes := [1%N; 2%N; 3%N] |}];
    S_Custom (CS_Raw [120%N] [0%N]) ].

Example ex_valid : valid_stream ex_mod.
Proof.
  unfold valid_stream, ex_mod. cbn [valid_from]. unfold valid_sec.
  repeat match goal with |- _ /\ _ => split end;
    try (vm_compute; reflexivity); try exact I.
  cbn [cstep cstep0 set_last c_nt fold_left cimp wi_kind rank ctx0 length Nat.add].
  repeat constructor; (eexists; eexists; split; [reflexivity|]);
    cbn [swfl swf ex_b1 ex_b2 sbt_ok]; repeat split; try (cbn; lia); try (intros f H; vm_compute in H; discriminate H).
Qed.
Example ex_parses : exists s, parseM default_config [49%N] ex_mod = POk s.
Proof. vm_compute. eexists. reflexivity. Qed.

Corollary ex_parses_by_theorem : exists s, parseM default_config [49%N] ex_mod = POk s.
Proof. apply parse_total, ex_valid. Qed.

(* ====================================================================================== *)
(* 6. What remains reachable: the two places where [valid_stream] is narrower than a          *)
(*    feature-complete validator                                                             *)
(* ====================================================================================== *)

(* (a) a constant expression outside walrus's ConstExpr (e.g. extended-const `i32.add`): walrus returns an error *)
Definition other_const_mod : wmod :=
  [ S_Globals [({| wg_ty := VT_I32; wg_mut := false; wg_shared := false |}, WC_Other)] ].
Theorem const_other_refuted : parseM default_config [49%N] other_const_mod = PErr.
Proof. vm_compute. reflexivity. Qed.
(* the only clause of [valid_stream] it fails is the supported-form clause of [const_ok]: with any supported
   initializer in its place the stream is valid *)
Example const_other_only_form :
  valid_stream [ S_Globals [({| wg_ty := VT_I32; wg_mut := false; wg_shared := false |}, WC_I32 0)] ].
Proof. apply valid_no_code_b; [intros bs [H|[]]; discriminate|reflexivity]. Qed.

(* (b) an operator [decode_plain] has no image for: `ref.null` of a heap type other than func/extern
   (typed function references / GC): the body parser panics *)
Definition ref_null_mod : wmod :=
  [ S_Types [([], [])]; S_Funcs [0%N];
    S_Code [{| wb_locals := []; wb_ops := [(WOp (W_RefNull (HT_Other 0)), 1%N); (WOp W_Drop, 2%N); (WEnd, 3%N)] |}] ].
Theorem ref_null_other_refuted : parseM default_config [49%N] ref_null_mod = PPanic.
Proof. vm_compute. reflexivity. Qed.

(* the order and count clauses are load-bearing: on streams the validator rejects, the panic paths are live *)
Definition misordered_mod : wmod :=
  [ S_Types [([], [])]; S_Funcs [0%N];
    S_Imports [{| wi_module := [101%N]; wi_name := [102%N]; wi_kind := WI_Func 0 |}];
    S_Code [{| wb_locals := []; wb_ops := [(WEnd, 3%N)] |}] ].
Theorem order_needed : parseM default_config [49%N] misordered_mod = PPanic.
Proof. vm_compute. reflexivity. Qed.
Definition extra_body_mod : wmod :=
  [ S_Types [([], [])]; S_Code [{| wb_locals := []; wb_ops := [(WEnd, 3%N)] |}] ].
Theorem count_needed : parseM default_config [49%N] extra_body_mod = PPanic.
Proof. vm_compute. reflexivity. Qed.

Print Assumptions parse_total.
Print Assumptions parse_no_panic.
Print Assumptions parse_no_err.
Print Assumptions parse_total_no_code.
Print Assumptions ex_valid.
Print Assumptions ex_parses.
Print Assumptions const_other_refuted.
Print Assumptions ref_null_other_refuted.
