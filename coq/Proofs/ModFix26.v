(* C08, module level fixpoint, part 26: towards the parse-side invariant [offsets_ok] (the offset constant of an
   active segment has the index type of its table / memory).  Delivered: the definition, the transport lemma,
   the establishing lemma for parse_elem.  NOT reached: the data half and the propagation through parse_secs / parseM. *)
From Coq Require Import List NArith ZArith Bool Arith Lia.
Import ListNotations.
From WV Require Import Gen.Ops Model.Common Model.IR Model.Arena Model.ModuleM Model.ParseM Model.EmitM Gen.Attrs.
From WV Require Import Proofs.Arena Proofs.IndexMaps Proofs.Structure Proofs.Structure2.
Local Open Scope nat_scope.

Definition offsets_ok (m : wir) : Prop :=
  (forall id e t off, In (id, e) (aiter (m_elements m)) -> el_kind e = ELK_Active t off ->
     exists tb, aget (m_tables m) t = Some tb /\ offset_ok m (tb_64 tb) off = POk true) /\
  (forall id d mem off, In (id, d) (aiter (m_data m)) -> da_kind d = DK_Active mem off ->
     exists me, aget (m_memories m) mem = Some me /\ offset_ok m (me_64 me) off = POk true).

(* offset_ok reads the module only through the value types of its globals *)
Lemma offset_ok_core m m' b off : (forall g, global_ty m' g = global_ty m g) -> offset_ok m' b off = offset_ok m b off.
Proof. intros H. unfold offset_ok. destruct off as [v|g|t|f]; try reflexivity. rewrite H. reflexivity. Qed.
Lemma offset_ok_globals m m' b off : m_globals m' = m_globals m -> offset_ok m' b off = offset_ok m b off.
Proof. intros H. apply offset_ok_core. intros g. unfold global_ty. rewrite H. reflexivity. Qed.

(* parse_elem establishes the clause for the segment it appends *)
Lemma parse_elem_offset m ids e m1 ids1 : parse_elem m ids e = POk (m1, ids1) ->
  m_globals m1 = m_globals m /\
  exists kind its, items (m_elements m1) = items (m_elements m) ++ [{| el_kind := kind; el_items := its; el_name := None |}] /\
    match kind with
    | ELK_Active t off => exists tb, aget (m_tables m) t = Some tb /\ offset_ok m1 (tb_64 tb) off = POk true
    | _ => True end.
Proof.
  intros Ex. unfold parse_elem in Ex. pinv Ex as its Eits. pinv Ex as mk Emk. destruct mk as [m2 kind].
  wcbn. inversion Ex; subst m1 ids1; clear Ex. wcbn.
  assert (H : m_globals m2 = m_globals m /\ m_elements m2 = m_elements m /\
              match kind with
              | ELK_Active t off => exists tb, aget (m_tables m) t = Some tb /\ offset_ok m2 (tb_64 tb) off = POk true
              | _ => True end).
  { destruct (wel_kind e) as [| |tbl off].
    - inversion Emk; subst; repeat split.
    - inversion Emk; subst; repeat split.
    - pinv Emk as tid Etid. pinv Emk as tb Etb. pinv Emk as o Eo. pinv Emk as ok Eok. destruct ok; [|discriminate].
      inversion Emk; subst m2 kind; clear Emk. wcbn. split; [reflexivity|]. split; [reflexivity|].
      exists tb. split; [|exact Eok]. destruct (aget (m_tables m) tid); [inversion Etb; reflexivity|discriminate]. }
  destruct H as (Hg & He & Hk). split; [exact Hg|]. exists kind, its. split; [rewrite He; reflexivity|].
  destruct kind as [| |t off]; try exact I. destruct Hk as (tb & Ht & Ho). exists tb. split; [exact Ht|].
  rewrite <- Ho. apply offset_ok_globals. wcbn. reflexivity.
Qed.

(* the clause survives every step that only APPENDS globals (value types of old globals unchanged) *)
Definition G_tys (m : wir) : list valty := map gl_ty (items (m_globals m)).
Lemma global_ty_nth m g : dead (m_globals m) = [] -> global_ty m g = nth_error (G_tys m) (N.to_nat g).
Proof. intros D. unfold global_ty, G_tys. rewrite (aget_nodead _ _ D), nth_error_map. reflexivity. Qed.
Lemma offset_ok_mono m m' b off ext : dead (m_globals m) = [] -> dead (m_globals m') = [] -> G_tys m' = G_tys m ++ ext ->
  offset_ok m b off = POk true -> offset_ok m' b off = POk true.
Proof.
  intros D D' HG H. unfold offset_ok in *. destruct off as [v|g|t|f]; try exact H.
  rewrite (global_ty_nth _ _ D) in H. rewrite (global_ty_nth _ _ D'), HG.
  destruct (nth_error (G_tys m) (N.to_nat g)) as [ty|] eqn:En; [|discriminate H].
  assert (L : N.to_nat g < length (G_tys m)) by (apply nth_error_Some; rewrite En; discriminate).
  rewrite (nth_error_app1 _ _ L), En. exact H.
Qed.

Print Assumptions offset_ok_core.
Print Assumptions parse_elem_offset.
Print Assumptions offset_ok_mono.
