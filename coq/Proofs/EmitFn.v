(* Proofs about the function-body emitter model (Model/EmitFn.v) against the
   declarative flattening (Model/EmitSpec.v). *)
From Coq Require Import List NArith ZArith Arith Lia Bool. Import ListNotations.
From WV Require Import Gen.Ops Model.Common Model.IR Model.Traversal Model.EmitFn Model.EmitSpec.
Open Scope N_scope.

(* ------------------------------------------------------------------ nested induction *)
Section ind.
  Variable P : tree -> Prop. Variable Q : item -> Prop.
  Hypothesis HT : forall s ty items e, Forall (fun x => Q (fst x)) items -> P (T s ty items e).
  Hypothesis HP : forall p, Q (ItP p).
  Hypothesis HBr : forall s, Q (ItBr s).
  Hypothesis HBrIf : forall s, Q (ItBrIf s).
  Hypothesis HBrT : forall ss d, Q (ItBrTable ss d).
  Hypothesis HB : forall t, P t -> Q (ItB t).
  Hypothesis HL : forall t, P t -> Q (ItL t).
  Hypothesis HI : forall c a, P c -> P a -> Q (ItI c a).
  Fixpoint tree_ind' (t : tree) : P t :=
    match t with T s ty items e => HT s ty items e
      ((fix go (l : list (item * N)) : Forall (fun x => Q (fst x)) l :=
          match l with
          | [] => Forall_nil _
          | x :: l' => Forall_cons x (item_ind' (fst x)) (go l')
          end) items) end
  with item_ind' (it : item) : Q it :=
    match it with
    | ItP p => HP p | ItBr s => HBr s | ItBrIf s => HBrIf s | ItBrTable ss d => HBrT ss d
    | ItB t => HB t (tree_ind' t) | ItL t => HL t (tree_ind' t)
    | ItI c a => HI c a (tree_ind' c) (tree_ind' a)
    end.
  Lemma tree_item_ind : (forall t, P t) /\ (forall it, Q it).
  Proof. split; [exact tree_ind' | exact item_ind']. Qed.
End ind.

(* ------------------------------------------------------------------ unfolding equations *)
Definition tty (t : tree) : seqty := match t with T _ ty _ _ => ty end.
Definition tend (t : tree) : N := match t with T _ _ _ e => e end.
Definition titems (t : tree) : list (item * N) := match t with T _ _ items _ => items end.

Definition ievs (x : item * N) : list ev := item_events false (fst x) (snd x).
Definition items_events (l : list (item * N)) : list ev := flat_map ievs l.
Definition tail_events (t : tree) : list ev :=
  seq_visit (shallow_seq t) ++ items_events (titems t) ++ [EEnd (tsid t)].

Lemma events_T t : events false t = EStart (tsid t) :: tail_events t.
Proof. destruct t; reflexivity. Qed.

Definition here (i : instr) (loc : N) : list ev := EInstr i loc :: instr_visit default_hook_recurses false i.
Lemma item_events_eq it loc : item_events false it loc =
  here (shallow it) loc ++
  match it with ItB t | ItL t => events false t | ItI c a => events false c ++ events false a | _ => [] end.
Proof. destruct it; cbn [item_events]; unfold here; rewrite ?app_nil_r; reflexivity. Qed.

Fixpoint flt_items (cx : ectx) (env : list N) (l : list (item * N)) : res (list (N * wins)) :=
  match l with
  | [] => Ok []
  | x :: l' => rbind (flt_item cx env (fst x) (snd x)) (fun a => rmap (app a) (flt_items cx env l'))
  end.
Lemma flt_tree_T cx env t k :
  flt_tree cx env t k = rmap (fun body => body ++ [(tend t, terminator k)]) (flt_items cx (tsid t :: env) (titems t)).
Proof. destruct t as [s ty items e]. cbn [flt_tree tend tsid titems]. f_equal.
  induction items as [|x l IH]; cbn [flt_items]; [reflexivity|]. rewrite IH. reflexivity. Qed.
Lemma flt_item_B cx env t loc :
  flt_item cx env (ItB t) loc = rmap (cons (loc, WBlock (block_type cx (tty t)))) (flt_tree cx env t KBlock).
Proof. destruct t; reflexivity. Qed.
Lemma flt_item_L cx env t loc :
  flt_item cx env (ItL t) loc = rmap (cons (loc, WLoop (block_type cx (tty t)))) (flt_tree cx env t KLoop).
Proof. destruct t; reflexivity. Qed.
Lemma flt_item_I cx env c a loc :
  flt_item cx env (ItI c a) loc =
  rbind (flt_tree cx env c KIf) (fun x => rmap (fun y => (loc, WIf (block_type cx (tty c))) :: x ++ y) (flt_tree cx env a KElse)).
Proof. destruct c; reflexivity. Qed.

Lemma Den_T ar t : Den ar t <->
  nth_error ar (N.to_nat (tsid t)) = Some (shallow_seq t) /\ Forall (fun x => IDen ar (fst x)) (titems t).
Proof.
  destruct t as [s ty items e]. cbn [Den tsid titems]. split; intros [H1 H2]; (split; [exact H1|]); clear H1.
  - induction items as [|x l IH]; [constructor|]. destruct H2 as [Ha Hb]. constructor; [exact Ha|apply IH; exact Hb].
  - induction H2 as [|x l Ha Hb IH]; [exact I|]. split; [exact Ha|exact IH].
Qed.

Lemma rmap_ok {A B} (f : A -> B) r y : rmap f r = Ok y -> exists x, r = Ok x /\ y = f x.
Proof. destruct r; cbn; intros H; inversion H; eauto. Qed.
Lemma rbind_ok {A B} (r : res A) (f : A -> res B) y : rbind r f = Ok y -> exists x, r = Ok x /\ f x = Ok y.
Proof. destruct r; cbn; intros H; try discriminate; eauto. Qed.

(* ------------------------------------------------------------------ the machine *)
Definition mk b k o p m : estate := {| blocks := b; kinds := k; out := o; epos := p; imap := m |}.
Definition kcont (k : bkind) (ks : list bkind) : list bkind := match k with KIf => KElse :: ks | _ => ks end.

Lemma emit_events_app cx ar a : forall st b,
  emit_events cx ar st (a ++ b) = rbind (emit_events cx ar st a) (fun s1 => emit_events cx ar s1 b).
Proof. induction a as [|e a IH]; intros st b; cbn [app emit_events rbind]; [reflexivity|].
  destruct (emit_step cx ar st e); cbn [rbind]; auto. Qed.

Definition ignored (e : ev) : Prop := match e with EStart _ | EEnd _ | EInstr _ _ => False | _ => True end.
Lemma emit_events_ignored cx ar l : Forall ignored l -> forall st, emit_events cx ar st l = Ok st.
Proof. induction 1 as [|e l He _ IH]; intros st; cbn [emit_events]; [reflexivity|].
  destruct e; cbn [ignored] in He; try contradiction; cbn [emit_step rbind]; apply IH. Qed.
Lemma field_events_ignored i : Forall ignored (field_events i).
Proof. destruct i; cbn [field_events]; apply Forall_forall; intros x Hx; apply in_map_iff in Hx as (y & <- & _); exact I. Qed.
Lemma instr_visit_ignored r i : Forall ignored (instr_visit r false i).
Proof. unfold instr_visit. constructor; [exact I|]. apply Forall_app; split; [|apply field_events_ignored].
  destruct (negb false && r); [apply field_events_ignored|constructor]. Qed.
Lemma seq_visit_ignored q : Forall ignored (seq_visit q).
Proof. unfold seq_visit. destruct (sq_ty q); repeat constructor. Qed.

Lemma run_here cx ar st i loc rest :
  emit_events cx ar st (here i loc ++ rest) =
  rbind (emit_step cx ar st (EInstr i loc)) (fun st1 => emit_events cx ar st1 rest).
Proof. unfold here. cbn [app emit_events]. destruct (emit_step cx ar st (EInstr i loc)); cbn [rbind]; auto.
  rewrite emit_events_app, emit_events_ignored by apply instr_visit_ignored. reflexivity. Qed.

Lemma total_len_app cx a b : total_len cx (a ++ b) = total_len cx a + total_len cx b.
Proof. induction a as [|x a IH]; [reflexivity|]. cbn [app]. unfold total_len in *. cbn [fold_right]. rewrite IH. lia. Qed.
Lemma tag_positions_app cx a : forall p b,
  tag_positions cx p (a ++ b) = tag_positions cx p a ++ tag_positions cx (p + total_len cx a) b.
Proof. induction a as [|[loc w] a IH]; intros p b.
  - cbn [app tag_positions total_len fold_right]. rewrite N.add_0_r. reflexivity.
  - cbn [app tag_positions]. rewrite IH. unfold total_len. cbn [fold_right snd]. rewrite N.add_assoc. reflexivity. Qed.

Lemma branch_targets_eq st ss : branch_targets st ss = depths_of (blocks st) ss.
Proof. induction ss as [|s ss IH]; cbn [branch_targets depths_of]; [reflexivity|]. rewrite IH. reflexivity. Qed.

Lemma total_len_cons cx x tg : total_len cx (x :: tg) = ex_ilen cx (snd x) + total_len cx tg.
Proof. reflexivity. Qed.
Lemma total_len_nil cx : total_len cx [] = 0.
Proof. reflexivity. Qed.

Ltac norm :=
  repeat (rewrite ?map_app, ?tag_positions_app, ?total_len_app, ?total_len_cons, ?total_len_nil,
                  <- ?app_assoc, ?N.add_assoc, ?N.add_0_r, ?app_nil_r;
          cbn [app map snd fst tag_positions]).

Section Main.
  Variables (cx : ectx) (ar : arena).

  Definition Ptree (t : tree) : Prop := forall env k ks tg o p m, Den ar t -> flt_tree cx env t k = Ok tg ->
    emit_events cx ar (mk (tsid t :: env) (k :: ks) o p m) (tail_events t) =
    Ok (mk env (kcont k ks) (o ++ map snd tg) (p + total_len cx tg) (m ++ tag_positions cx p tg)).
  Definition Qitem (it : item) : Prop := forall env ks loc tg o p m, IDen ar it -> flt_item cx env it loc = Ok tg ->
    emit_events cx ar (mk env ks o p m) (item_events false it loc) =
    Ok (mk env ks (o ++ map snd tg) (p + total_len cx tg) (m ++ tag_positions cx p tg)).

  Lemma step_start t env k ks o p m : Den ar t ->
    emit_step cx ar (mk env (k :: ks) o p m) (EStart (tsid t)) =
    Ok (let b := block_type cx (tty t) in
        match k with
        | KBlock => mk (tsid t :: env) (k :: ks) (o ++ [WBlock b]) (p + ex_ilen cx (WBlock b)) m
        | KLoop => mk (tsid t :: env) (k :: ks) (o ++ [WLoop b]) (p + ex_ilen cx (WLoop b)) m
        | KIf => mk (tsid t :: env) (k :: ks) (o ++ [WIf b]) (p + ex_ilen cx (WIf b)) m
        | _ => mk (tsid t :: env) (k :: ks) o p m
        end).
  Proof. intros HD. apply Den_T in HD as [Hn _]. cbn [emit_step mk kinds]. rewrite Hn.
    destruct t; destruct k; reflexivity. Qed.

  Lemma step_end t env k ks o p m : Den ar t ->
    emit_step cx ar (mk (tsid t :: env) (k :: ks) o p m) (EEnd (tsid t)) =
    Ok (mk env (kcont k ks) (o ++ [terminator k]) (p + ex_ilen cx (terminator k)) (m ++ [(tend t, p)])).
  Proof. intros HD. apply Den_T in HD as [Hn _]. cbn [emit_step mk kinds blocks]. rewrite Hn.
    destruct t; destruct k; reflexivity. Qed.

  Lemma items_run items : Forall (fun x => Qitem (fst x)) items ->
    forall env ks tg o p m, Forall (fun x => IDen ar (fst x)) items -> flt_items cx env items = Ok tg ->
    emit_events cx ar (mk env ks o p m) (items_events items) =
    Ok (mk env ks (o ++ map snd tg) (p + total_len cx tg) (m ++ tag_positions cx p tg)).
  Proof.
    induction 1 as [|x l Hx _ IH]; intros env ks tg o p m HD Hf.
    - cbn [flt_items] in Hf. inversion Hf; subst. cbn [items_events flat_map emit_events]. norm. reflexivity.
    - inversion HD as [|? ? HDx HDl]; subst. cbn [flt_items] in Hf.
      apply rbind_ok in Hf as (a & Ha & Hf). apply rmap_ok in Hf as (b & Hb & ->).
      cbn [items_events flat_map]. rewrite emit_events_app. unfold ievs at 1.
      rewrite (Hx env ks (snd x) a o p m HDx Ha). cbn [rbind].
      fold (items_events l). rewrite (IH env ks b _ _ _ HDl Hb). norm. reflexivity.
  Qed.

  Lemma tree_of_items t : Forall (fun x => Qitem (fst x)) (titems t) -> Ptree t.
  Proof.
    intros HQ env k ks tg o p m HD Hf. rewrite flt_tree_T in Hf. apply rmap_ok in Hf as (body & Hb & ->).
    unfold tail_events. rewrite emit_events_app, emit_events_ignored by apply seq_visit_ignored. cbn [rbind].
    rewrite emit_events_app.
    rewrite (items_run _ HQ (tsid t :: env) (k :: ks) body o p m (proj2 (proj1 (Den_T ar t) HD)) Hb). cbn [rbind emit_events].
    rewrite (step_end t env k ks _ _ _ HD). cbn [rbind]. norm. reflexivity.
  Qed.

  Theorem emit_tree_item : (forall t, Ptree t) /\ (forall it, Qitem it).
  Proof.
    apply tree_item_ind.
    - intros s ty items e HQ. apply tree_of_items. exact HQ.
    - (* plain *) intros pl env ks loc tg o p m _ Hf. cbn [flt_item] in Hf.
      destruct (encode_plain (ex_id2i cx) pl) as [w|] eqn:E; [|discriminate]. inversion Hf; subst.
      rewrite item_events_eq, run_here. cbn [shallow emit_step]. rewrite E. cbn [rbind emit_events]. norm. reflexivity.
    - (* br *) intros s env ks loc tg o p m _ Hf. cbn [flt_item] in Hf. apply rmap_ok in Hf as (d & Hd & ->).
      rewrite item_events_eq, run_here. cbn [shallow emit_step]. unfold branch_target. cbn [record mk blocks].
      unfold depth_of in Hd. rewrite Hd. cbn [rmap rbind emit_events]. norm. reflexivity.
    - (* br_if *) intros s env ks loc tg o p m _ Hf. cbn [flt_item] in Hf. apply rmap_ok in Hf as (d & Hd & ->).
      rewrite item_events_eq, run_here. cbn [shallow emit_step]. unfold branch_target. cbn [record mk blocks].
      unfold depth_of in Hd. rewrite Hd. cbn [rmap rbind emit_events]. norm. reflexivity.
    - (* br_table *) intros ss d env ks loc tg o p m _ Hf. cbn [flt_item] in Hf.
      apply rbind_ok in Hf as (dd & Hd & Hf). apply rmap_ok in Hf as (ds & Hds & ->).
      rewrite item_events_eq, run_here. cbn [shallow emit_step]. rewrite branch_targets_eq. unfold branch_target. cbn [record mk blocks].
      unfold depth_of in Hd. rewrite Hd, Hds. cbn [rmap rbind emit_events]. norm. reflexivity.
    - (* block *) intros t Pt env ks loc tg o p m HD Hf. cbn [IDen] in HD. rewrite flt_item_B in Hf.
      apply rmap_ok in Hf as (tg' & Hf & ->).
      rewrite item_events_eq, run_here. cbn [shallow emit_step rbind]. rewrite events_T. cbn [emit_events].
      change (with_stacks (record (mk env ks o p m) loc) _ _) with (mk env (KBlock :: ks) o p (m ++ [(loc, p)])). rewrite (step_start t env KBlock ks _ _ _ HD). cbn [rbind].
      rewrite (Pt env KBlock ks tg' _ _ _ HD Hf). cbn [kcont]. norm. reflexivity.
    - (* loop *) intros t Pt env ks loc tg o p m HD Hf. cbn [IDen] in HD. rewrite flt_item_L in Hf.
      apply rmap_ok in Hf as (tg' & Hf & ->).
      rewrite item_events_eq, run_here. cbn [shallow emit_step rbind]. rewrite events_T. cbn [emit_events].
      change (with_stacks (record (mk env ks o p m) loc) _ _) with (mk env (KLoop :: ks) o p (m ++ [(loc, p)])). rewrite (step_start t env KLoop ks _ _ _ HD). cbn [rbind].
      rewrite (Pt env KLoop ks tg' _ _ _ HD Hf). cbn [kcont]. norm. reflexivity.
    - (* if/else *) intros c a Pc Pa env ks loc tg o p m HD Hf. cbn [IDen] in HD. destruct HD as [HDc HDa].
      rewrite flt_item_I in Hf. apply rbind_ok in Hf as (x & Hx & Hf). apply rmap_ok in Hf as (y & Hy & ->).
      rewrite item_events_eq, run_here. cbn [shallow emit_step rbind]. rewrite !events_T. cbn [app emit_events].
      change (with_stacks (record (mk env ks o p m) loc) _ _) with (mk env (KIf :: ks) o p (m ++ [(loc, p)])). rewrite (step_start c env KIf ks _ _ _ HDc). cbn [rbind].
      rewrite emit_events_app. rewrite (Pc env KIf ks x _ _ _ HDc Hx). cbn [kcont rbind emit_events].
      rewrite (step_start a env KElse ks _ _ _ HDa). cbn [rbind].
      rewrite (Pa env KElse ks y _ _ _ HDa Hy). cbn [kcont]. norm. reflexivity.
  Qed.
End Main.

(* ------------------------------------------------------------------ A *)
Theorem emit_tree_spec : forall cx ar t tg p0,
  Den ar t -> flt_tree cx [] t KEntry = Ok tg ->
  exists st', emit_events cx ar (init_estate p0) (events false t) = Ok st' /\
    out st' = map snd tg /\ imap st' = tag_positions cx p0 tg /\
    blocks st' = [] /\ kinds st' = [] /\ epos st' = p0 + total_len cx tg.
Proof.
  intros cx ar t tg p0 HD Hf. rewrite events_T. cbn [emit_events].
  change (init_estate p0) with (mk [] [KEntry] [] p0 []).
  rewrite (step_start cx ar t [] KEntry [] _ _ _ HD). cbn [rbind].
  rewrite (proj1 (emit_tree_item cx ar) t [] KEntry [] tg _ _ _ HD Hf).
  eexists; split; [reflexivity|]. cbn [mk out imap blocks kinds epos kcont app]. auto.
Qed.

(* ------------------------------------------------------------------ B *)
Lemma position_In s env : forall n, In s env -> exists d, position s env n = Some d.
Proof. induction env as [|x env IH]; intros n Hin; [destruct Hin|]. cbn [position].
  destruct (N.eqb x s) eqn:E; [eauto|]. destruct Hin as [->|Hin]; [rewrite N.eqb_refl in E; discriminate|]. apply IH; exact Hin. Qed.
Lemma depth_of_ok env s : In s env -> exists d, depth_of env s = Ok d.
Proof. intros Hin. destruct (position_In s env 0 Hin) as [d Hd]. exists d. unfold depth_of. rewrite Hd. reflexivity. Qed.
Lemma depths_of_ok env ss : Forall (fun s => In s env) ss -> exists ds, depths_of env ss = Ok ds.
Proof. induction 1 as [|s ss Hs _ [ds IH]]; cbn [depths_of]; [eauto|].
  destruct (depth_of_ok env s Hs) as [d Hd]. rewrite Hd, IH. cbn [rbind rmap]. eauto. Qed.

Lemma scoped_T id2i env t : scoped id2i env t <-> Forall (fun x => scoped_item id2i (tsid t :: env) (fst x)) (titems t).
Proof.
  destruct t as [s ty items e]. cbn [scoped tsid titems]. split; intros H.
  - induction items as [|x l IH]; [constructor|]. destruct H as [Ha Hb]. constructor; [exact Ha|apply IH; exact Hb].
  - induction H as [|x l Ha Hb IH]; [exact I|]. split; [exact Ha|exact IH].
Qed.

Section FltOk.
  Variable cx : ectx.
  Definition Pok (t : tree) : Prop := forall env k, scoped (ex_id2i cx) env t -> exists tg, flt_tree cx env t k = Ok tg.
  Definition Qok (it : item) : Prop := forall env loc, scoped_item (ex_id2i cx) env it -> exists tg, flt_item cx env it loc = Ok tg.

  Lemma flt_items_ok items : Forall (fun x => Qok (fst x)) items ->
    forall env, Forall (fun x => scoped_item (ex_id2i cx) env (fst x)) items -> exists tg, flt_items cx env items = Ok tg.
  Proof. induction 1 as [|x l Hx _ IH]; intros env Hs; cbn [flt_items]; [eauto|].
    inversion Hs as [|? ? Hsx Hsl]; subst. destruct (Hx env (snd x) Hsx) as [a Ha]. destruct (IH env Hsl) as [b Hb].
    rewrite Ha, Hb. cbn [rbind rmap]. eauto. Qed.

  Theorem flt_ok_both : (forall t, Pok t) /\ (forall it, Qok it).
  Proof.
    apply tree_item_ind.
    - intros s ty items e HQ env k Hs. apply scoped_T in Hs. rewrite flt_tree_T.
      destruct (flt_items_ok _ HQ _ Hs) as [b Hb]. cbn [titems tsid] in *. rewrite Hb. cbn [rmap]. eauto.
    - intros pl env loc Hs. cbn [scoped_item] in Hs. cbn [flt_item].
      destruct (encode_plain (ex_id2i cx) pl); [eauto|contradiction].
    - intros s env loc Hs. cbn [scoped_item] in Hs. cbn [flt_item]. destruct (depth_of_ok env s Hs) as [d Hd]. rewrite Hd. cbn [rmap]. eauto.
    - intros s env loc Hs. cbn [scoped_item] in Hs. cbn [flt_item]. destruct (depth_of_ok env s Hs) as [d Hd]. rewrite Hd. cbn [rmap]. eauto.
    - intros ss d env loc Hs. cbn [scoped_item] in Hs. destruct Hs as [Hd Hss]. cbn [flt_item].
      destruct (depth_of_ok env d Hd) as [dd Hdd]. destruct (depths_of_ok env ss Hss) as [ds Hds].
      rewrite Hdd, Hds. cbn [rbind rmap]. eauto.
    - intros t Pt env loc Hs. cbn [scoped_item] in Hs. rewrite flt_item_B. destruct (Pt env KBlock Hs) as [tg Htg]. rewrite Htg. cbn [rmap]. eauto.
    - intros t Pt env loc Hs. cbn [scoped_item] in Hs. rewrite flt_item_L. destruct (Pt env KLoop Hs) as [tg Htg]. rewrite Htg. cbn [rmap]. eauto.
    - intros c a Pc Pa env loc Hs. cbn [scoped_item] in Hs. destruct Hs as [Hc Ha]. rewrite flt_item_I.
      destruct (Pc env KIf Hc) as [x Hx]. destruct (Pa env KElse Ha) as [y Hy]. rewrite Hx, Hy. cbn [rbind rmap]. eauto.
  Qed.
End FltOk.

Theorem flt_ok : forall cx env t k, scoped (ex_id2i cx) env t -> exists tg, flt_tree cx env t k = Ok tg.
Proof. intros cx env t k. apply (proj1 (flt_ok_both cx)). Qed.
Theorem flt_item_ok : forall cx env it loc, scoped_item (ex_id2i cx) env it -> exists tg, flt_item cx env it loc = Ok tg.
Proof. intros cx env it loc. apply (proj2 (flt_ok_both cx)). Qed.

(* ------------------------------------------------------------------ C *)
Theorem emit_no_panic : forall cx ar t p0, Den ar t -> scoped (ex_id2i cx) [] t ->
  exists st', emit_events cx ar (init_estate p0) (events false t) = Ok st' /\ blocks st' = [] /\ kinds st' = [].
Proof.
  intros cx ar t p0 HD Hs. destruct (flt_ok cx [] t KEntry Hs) as [tg Htg].
  destruct (emit_tree_spec cx ar t tg p0 HD Htg) as (st' & Hr & _ & _ & Hb & Hk & _). eauto.
Qed.

(* ------------------------------------------------------------------ D *)
Theorem emit_body_spec : forall cx ar t tg p0 fuel,
  Den ar t -> dfs_in_order false fuel ar (tsid t) = Ok (events false t) ->
  flt_tree cx [] t KEntry = Ok tg ->
  exists st', emit_body cx fuel ar (tsid t) p0 = Ok st' /\ out st' = map snd tg /\ imap st' = tag_positions cx p0 tg.
Proof.
  intros cx ar t tg p0 fuel HD Hdfs Hf. unfold emit_body. rewrite Hdfs. cbn [rbind].
  destruct (emit_tree_spec cx ar t tg p0 HD Hf) as (st' & Hr & Ho & Hi & _). eauto.
Qed.

(* ------------------------------------------------------------------ E *)
Theorem flt_depth_position : forall cx env s loc tg,
  flt_item cx env (ItBr s) loc = Ok tg -> exists d, tg = [(loc, WBr d)] /\ position s env 0 = Some d.
Proof. intros cx env s loc tg Hf. cbn [flt_item] in Hf. apply rmap_ok in Hf as (d & Hd & ->). exists d. split; [reflexivity|].
  unfold depth_of in Hd. destruct (position s env 0); cbn [of_opt] in Hd; inversion Hd; reflexivity. Qed.
Theorem flt_depth_position_brif : forall cx env s loc tg,
  flt_item cx env (ItBrIf s) loc = Ok tg -> exists d, tg = [(loc, WBrIf d)] /\ position s env 0 = Some d.
Proof. intros cx env s loc tg Hf. cbn [flt_item] in Hf. apply rmap_ok in Hf as (d & Hd & ->). exists d. split; [reflexivity|].
  unfold depth_of in Hd. destruct (position s env 0); cbn [of_opt] in Hd; inversion Hd; reflexivity. Qed.

(* the depth is the index of the FIRST occurrence of the target among the enclosing sequences *)
Lemma position_first s env : forall n d, position s env n = Some d ->
  exists i, d = n + N.of_nat i /\ nth_error env i = Some s /\ forall j, (j < i)%nat -> nth_error env j <> Some s.
Proof.
  induction env as [|x env IH]; intros n d H; cbn [position] in H; [discriminate|].
  destruct (N.eqb x s) eqn:E.
  - apply N.eqb_eq in E. subst x. inversion H; subst. exists O. split; [cbn; lia|]. split; [reflexivity|]. intros j Hj; lia.
  - apply IH in H as (i & -> & Hn & Hlt). exists (S i). split; [lia|]. split; [exact Hn|].
    intros [|j] Hj; cbn [nth_error].
    + intros Heq. inversion Heq; subst. rewrite N.eqb_refl in E. discriminate.
    + apply Hlt. lia.
Qed.
Corollary position_sound s env d : position s env 0 = Some d ->
  nth_error env (N.to_nat d) = Some s /\ forall j, (j < N.to_nat d)%nat -> nth_error env j <> Some s.
Proof. intros H. apply position_first in H as (i & -> & Hn & Hlt). rewrite N.add_0_l, Nat2N.id. auto. Qed.

Definition wdelta (w : wins) : Z := match w with WBlock _ | WLoop _ | WIf _ => 1 | WEnd => -1 | _ => 0 end.
Fixpoint opens (ws : list wins) : Z := match ws with [] => 0 | w :: ws' => wdelta w + opens ws' end.
Lemma opens_app a b : opens (a ++ b) = (opens a + opens b)%Z.
Proof. induction a as [|w a IH]; cbn [app opens]; [reflexivity|]. rewrite IH. lia. Qed.

Section Balanced.
  Variable cx : ectx.
  Definition Pbal (t : tree) : Prop := forall env k tg, flt_tree cx env t k = Ok tg ->
    opens (map snd tg) = match k with KIf => 0 | _ => -1 end%Z.
  Definition Qbal (it : item) : Prop := forall env loc tg, flt_item cx env it loc = Ok tg -> opens (map snd tg) = 0%Z.

  Lemma flt_items_bal items : Forall (fun x => Qbal (fst x)) items ->
    forall env tg, flt_items cx env items = Ok tg -> opens (map snd tg) = 0%Z.
  Proof. induction 1 as [|x l Hx _ IH]; intros env tg Hf; cbn [flt_items] in Hf.
    - inversion Hf; reflexivity.
    - apply rbind_ok in Hf as (a & Ha & Hf). apply rmap_ok in Hf as (b & Hb & ->).
      rewrite map_app, opens_app, (Hx _ _ _ Ha), (IH _ _ Hb). reflexivity. Qed.

  Theorem flt_balanced_both : (forall t, Pbal t) /\ (forall it, Qbal it).
  Proof.
    apply tree_item_ind.
    - intros s ty items e HQ env k tg Hf. rewrite flt_tree_T in Hf. apply rmap_ok in Hf as (b & Hb & ->).
      rewrite map_app, opens_app, (flt_items_bal _ HQ _ _ Hb). destruct k; reflexivity.
    - intros pl env loc tg Hf. cbn [flt_item] in Hf. destruct (encode_plain (ex_id2i cx) pl); inversion Hf; reflexivity.
    - intros s env loc tg Hf. cbn [flt_item] in Hf. apply rmap_ok in Hf as (d & _ & ->). reflexivity.
    - intros s env loc tg Hf. cbn [flt_item] in Hf. apply rmap_ok in Hf as (d & _ & ->). reflexivity.
    - intros ss d env loc tg Hf. cbn [flt_item] in Hf. apply rbind_ok in Hf as (dd & _ & Hf). apply rmap_ok in Hf as (ds & _ & ->). reflexivity.
    - intros t Pt env loc tg Hf. rewrite flt_item_B in Hf. apply rmap_ok in Hf as (tg' & Hf & ->).
      cbn [map snd opens wdelta]. rewrite (Pt _ _ _ Hf). reflexivity.
    - intros t Pt env loc tg Hf. rewrite flt_item_L in Hf. apply rmap_ok in Hf as (tg' & Hf & ->).
      cbn [map snd opens wdelta]. rewrite (Pt _ _ _ Hf). reflexivity.
    - intros c a Pc Pa env loc tg Hf. rewrite flt_item_I in Hf. apply rbind_ok in Hf as (x & Hx & Hf). apply rmap_ok in Hf as (y & Hy & ->).
      cbn [map snd opens wdelta]. rewrite map_app, opens_app, (Pc _ _ _ Hx), (Pa _ _ _ Hy). reflexivity.
  Qed.
End Balanced.

Theorem flt_balanced : forall cx env t k tg, flt_tree cx env t k = Ok tg ->
  opens (map snd tg) = match k with KIf => 0 | _ => -1 end%Z.
Proof. intros cx env t k tg. apply (proj1 (flt_balanced_both cx)). Qed.
Theorem flt_item_balanced : forall cx env it loc tg, flt_item cx env it loc = Ok tg -> opens (map snd tg) = 0%Z.
Proof. intros cx env it loc tg. apply (proj2 (flt_balanced_both cx)). Qed.

(* a stronger nesting check: a depth counter that may never underflow, and WElse only
   inside an open construct; [wnest ws d] = depth after reading [ws] from depth [d] *)
Fixpoint wnest (ws : list wins) (d : nat) : option nat :=
  match ws with
  | [] => Some d
  | w :: ws' =>
      match w with
      | WBlock _ | WLoop _ | WIf _ => wnest ws' (S d)
      | WEnd => match d with O => None | S d' => wnest ws' d' end
      | WElse => match d with O => None | S _ => wnest ws' d end
      | _ => wnest ws' d
      end
  end.

Section Nested.
  Variable cx : ectx.
  Definition Pnest (t : tree) : Prop := forall env k tg, flt_tree cx env t k = Ok tg ->
    forall rest d, wnest (map snd tg ++ rest) (S d) = wnest rest (match k with KIf => S d | _ => d end).
  Definition Qnest (it : item) : Prop := forall env loc tg, flt_item cx env it loc = Ok tg ->
    forall rest d, wnest (map snd tg ++ rest) d = wnest rest d.

  Lemma flt_items_nest items : Forall (fun x => Qnest (fst x)) items ->
    forall env tg, flt_items cx env items = Ok tg -> forall rest d, wnest (map snd tg ++ rest) d = wnest rest d.
  Proof. induction 1 as [|x l Hx _ IH]; intros env tg Hf rest d; cbn [flt_items] in Hf.
    - inversion Hf; reflexivity.
    - apply rbind_ok in Hf as (a & Ha & Hf). apply rmap_ok in Hf as (b & Hb & ->).
      rewrite map_app, <- app_assoc, (Hx _ _ _ Ha), (IH _ _ Hb). reflexivity. Qed.

  Theorem flt_nested_both : (forall t, Pnest t) /\ (forall it, Qnest it).
  Proof.
    apply tree_item_ind.
    - intros s ty items e HQ env k tg Hf rest d. rewrite flt_tree_T in Hf. apply rmap_ok in Hf as (b & Hb & ->).
      rewrite map_app, <- app_assoc, (flt_items_nest _ HQ _ _ Hb). destruct k; reflexivity.
    - intros pl env loc tg Hf rest d. cbn [flt_item] in Hf. destruct (encode_plain (ex_id2i cx) pl); inversion Hf; reflexivity.
    - intros s env loc tg Hf rest d. cbn [flt_item] in Hf. apply rmap_ok in Hf as (x & _ & ->). reflexivity.
    - intros s env loc tg Hf rest d. cbn [flt_item] in Hf. apply rmap_ok in Hf as (x & _ & ->). reflexivity.
    - intros ss dflt env loc tg Hf rest d. cbn [flt_item] in Hf. apply rbind_ok in Hf as (dd & _ & Hf). apply rmap_ok in Hf as (ds & _ & ->). reflexivity.
    - intros t Pt env loc tg Hf rest d. rewrite flt_item_B in Hf. apply rmap_ok in Hf as (tg' & Hf & ->).
      cbn [map snd app wnest]. rewrite (Pt _ _ _ Hf). reflexivity.
    - intros t Pt env loc tg Hf rest d. rewrite flt_item_L in Hf. apply rmap_ok in Hf as (tg' & Hf & ->).
      cbn [map snd app wnest]. rewrite (Pt _ _ _ Hf). reflexivity.
    - intros c a Pc Pa env loc tg Hf rest d. rewrite flt_item_I in Hf. apply rbind_ok in Hf as (x & Hx & Hf). apply rmap_ok in Hf as (y & Hy & ->).
      cbn [map snd app wnest]. rewrite map_app, <- app_assoc, (Pc _ _ _ Hx), (Pa _ _ _ Hy). reflexivity.
  Qed.
End Nested.

(* a whole function body (entry sequence, one implicit frame) is well nested and closes that frame *)
Theorem flt_nested : forall cx t tg, flt_tree cx [] t KEntry = Ok tg -> wnest (map snd tg) 1 = Some O.
Proof. intros cx t tg Hf. pose proof (proj1 (flt_nested_both cx) t [] KEntry tg Hf [] O) as H.
  rewrite app_nil_r in H. exact H. Qed.

Print Assumptions emit_tree_spec.
Print Assumptions flt_ok.
Print Assumptions emit_no_panic.
Print Assumptions emit_body_spec.
Print Assumptions flt_balanced.
Print Assumptions flt_nested.
