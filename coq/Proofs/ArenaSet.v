(* Proofs about the de-duplicating ArenaSet model (Model/Arena.v). *)
From Coq Require Import List NArith Bool Arith Lia.
Import ListNotations.
From WV Require Import Model.Arena Proofs.Arena.

Section ArenaSetProofs.
  Variable A : Type.
  Variable on_delete : A -> A.
  Variable eqA : A -> A -> bool.
  Hypothesis eqA_refl : forall x, eqA x x = true.
  Hypothesis eqA_sym : forall x y, eqA x y = eqA y x.
  Hypothesis eqA_trans : forall x y z, eqA x y = true -> eqA y z = true -> eqA x z = true.

  Implicit Types s : aset A.
  Implicit Types m : list (A * nat).

  Notation sstep := (sstep on_delete eqA).
  Notation srun := (srun on_delete eqA).
  Notation lookup := (lookup eqA).
  Notation map_remove := (map_remove eqA).
  Notation insert := (insert eqA).
  Notation aset_remove := (aset_remove on_delete eqA).

  Definition SInv s : Prop :=
    Inv A (arena s) /\
    (forall k id, In (k, id) (already s) -> index (arena s) id = Some k) /\
    (forall id v, index (arena s) id = Some v -> lookup (already s) v = Some id).

  Lemma eqA_congr k v v' : eqA v v' = true -> eqA k v = eqA k v'.
  Proof.
    intros H. destruct (eqA k v) eqn:E1, (eqA k v') eqn:E2; try reflexivity.
    - rewrite (eqA_trans k v v' E1 H) in E2. discriminate.
    - rewrite eqA_sym in H. rewrite (eqA_trans k v' v E2 H) in E1. discriminate.
  Qed.

  Lemma lookup_eqA m v v' : eqA v v' = true -> lookup m v = lookup m v'.
  Proof.
    intros H. induction m as [|[k id] r IH]; cbn; [reflexivity|].
    rewrite (eqA_congr k v v' H), IH. reflexivity.
  Qed.

  Lemma lookup_In m v id : lookup m v = Some id -> exists k, In (k, id) m /\ eqA k v = true.
  Proof.
    induction m as [|[k i] r IH]; cbn; [discriminate|].
    destruct (eqA k v) eqn:E.
    - intros H; inversion H; subst. exists k. auto.
    - intros H. destruct (IH H) as [k' [Hin He]]. exists k'. auto.
  Qed.

  Lemma lookup_remove_eq m v v' : eqA v v' = true -> lookup (map_remove m v) v' = None.
  Proof.
    intros H. induction m as [|[k id] r IH]; cbn; [reflexivity|].
    destruct (eqA k v) eqn:E; [exact IH|]. cbn.
    rewrite <- (eqA_congr k v v' H), E. exact IH.
  Qed.

  Lemma lookup_remove_ne m v v' : eqA v v' = false -> lookup (map_remove m v) v' = lookup m v'.
  Proof.
    intros H. induction m as [|[k id] r IH]; cbn; [reflexivity|].
    destruct (eqA k v) eqn:E.
    - destruct (eqA k v') eqn:E'; [|exact IH].
      rewrite eqA_sym in E. rewrite (eqA_trans v k v' E E') in H. discriminate.
    - cbn. rewrite IH. reflexivity.
  Qed.

  Lemma In_remove m v k id : In (k, id) (map_remove m v) -> In (k, id) m /\ eqA k v = false.
  Proof.
    induction m as [|[k0 i0] r IH]; cbn; [intros []|].
    destruct (eqA k0 v) eqn:E.
    - intros H. destruct (IH H). auto.
    - cbn. intros [H|H]; [inversion H; subst; auto|]. destruct (IH H). auto.
  Qed.

  (* ---- de-duplication ---- *)
  Theorem insert_existing s id v0 v :
    SInv s -> index (arena s) id = Some v0 -> eqA v0 v = true -> insert s v = (s, id).
  Proof.
    intros [_ [_ H3]] Hi He. unfold Arena.insert.
    rewrite <- (lookup_eqA (already s) v0 v He), (H3 _ _ Hi). reflexivity.
  Qed.

  Lemma lookup_absent s v :
    SInv s -> (forall id v0, index (arena s) id = Some v0 -> eqA v0 v = false) ->
    lookup (already s) v = None.
  Proof.
    intros [_ [H2 _]] Hn. destruct (lookup (already s) v) as [id|] eqn:E; [|reflexivity].
    destruct (lookup_In _ _ _ E) as [k [Hin He]].
    rewrite (Hn _ _ (H2 _ _ Hin)) in He. discriminate.
  Qed.

  Lemma index_alloc_old (a : tarena A) v id :
    id < length (items a) -> index (fst (alloc a v)) id = index a id.
  Proof.
    intros H. unfold index, get, is_dead; cbn. destruct (existsb _ _); [reflexivity|].
    apply nth_error_app1; exact H.
  Qed.

  Lemma index_alloc_new (a : tarena A) v :
    Inv A a -> index (fst (alloc a v)) (next_id a) = Some v.
  Proof.
    intros [_ Hb]. unfold index, get, next_id, is_dead; cbn.
    destruct (existsb _ _) eqn:E.
    - apply existsb_exists in E. destruct E as [d [Hd He]]. apply Nat.eqb_eq in He; subst.
      rewrite Forall_forall in Hb. apply Hb in Hd. lia.
    - rewrite nth_error_app2, Nat.sub_diag by lia. reflexivity.
  Qed.

  Lemma index_alloc_inv (a : tarena A) v id w :
    index (fst (alloc a v)) id = Some w ->
    (id < length (items a) /\ index a id = Some w) \/ (id = length (items a) /\ w = v).
  Proof.
    intros H. pose proof (index_lt _ _ _ _ H) as Hlt. cbn in Hlt.
    rewrite app_length in Hlt; cbn in Hlt.
    destruct (Nat.eq_dec id (length (items a))) as [->|Hne].
    - right. split; [reflexivity|]. unfold index, get in H.
      destruct (is_dead _ _); [discriminate|]. cbn in H.
      rewrite nth_error_app2, Nat.sub_diag in H by lia. cbn in H. congruence.
    - left. assert (id < length (items a)) by lia. split; [assumption|].
      rewrite index_alloc_old in H; assumption.
  Qed.

  Theorem insert_fresh s v :
    SInv s -> (forall id v0, index (arena s) id = Some v0 -> eqA v0 v = false) ->
    exists s', insert s v = (s', next_id (arena s)) /\
               index (arena s') (next_id (arena s)) = Some v /\ SInv s' /\
               (forall id, id < next_id (arena s) -> index (arena s') id = index (arena s) id).
  Proof.
    intros HS Hn. pose proof (lookup_absent s v HS Hn) as Hl.
    destruct HS as [H1 [H2 H3]].
    unfold Arena.insert. rewrite Hl.
    exists {| arena := fst (alloc (arena s) v); already := (v, next_id (arena s)) :: already s |}.
    split; [reflexivity|]. unfold SInv. cbn [arena already].
    split; [apply index_alloc_new; exact H1|]. split; [|intros id Hid; apply index_alloc_old; exact Hid].
    split; [apply alloc_inv; exact H1|]. split.
    - intros k id [Hin|Hin].
      + inversion Hin; subst. apply index_alloc_new; exact H1.
      + pose proof (H2 _ _ Hin) as Hi. rewrite index_alloc_old; [exact Hi|].
        eapply index_lt; exact Hi.
    - intros id w Hi. apply index_alloc_inv in Hi. cbn [Arena.lookup].
      destruct Hi as [[Hlt Hi]|[-> ->]].
      + rewrite eqA_sym, (Hn _ _ Hi). apply H3; exact Hi.
      + rewrite eqA_refl. reflexivity.
  Qed.

  Lemma remove_inv s id s' : SInv s -> aset_remove s id = Some s' -> SInv s'.
  Proof.
    intros [H1 [H2 H3]] H. unfold Arena.aset_remove in H.
    destruct (index (arena s) id) as [v|] eqn:Ei; [|discriminate].
    destruct (delete on_delete (arena s) id) as [a'|] eqn:Ed; [|discriminate].
    inversion H; subst; clear H. unfold SInv. cbn [arena already].
    split; [eapply delete_inv; eauto|]. split.
    - intros k id' Hin. apply In_remove in Hin. destruct Hin as [Hin He].
      pose proof (H2 _ _ Hin) as Hi.
      assert (id' <> id) as Hne.
      { intros ->. rewrite Ei in Hi. inversion Hi; subst. rewrite eqA_refl in He. discriminate. }
      rewrite (delete_isolated _ _ _ _ _ _ Ed Hne). exact Hi.
    - intros id' w Hi.
      assert (id' <> id) as Hne.
      { intros ->. pose proof (delete_dead _ _ _ _ _ Ed) as Hd.
        apply dead_absent in Hd. destruct Hd as [Hd _]. congruence. }
      rewrite (delete_isolated _ _ _ _ _ _ Ed Hne) in Hi.
      rewrite lookup_remove_ne; [apply H3; exact Hi|].
      destruct (eqA v w) eqn:E; [|reflexivity]. exfalso.
      pose proof (lookup_eqA (already s) v w E) as Hl.
      rewrite (H3 _ _ Ei), (H3 _ _ Hi) in Hl. congruence.
  Qed.

  Lemma sinv_empty : SInv aset_empty.
  Proof.
    split; [apply inv_empty|]. split.
    - intros k id [].
    - intros id v H. unfold index, get in H. cbn in H. destruct id; discriminate.
  Qed.

  Lemma insert_cases s v :
    SInv s ->
    (exists id v0, index (arena s) id = Some v0 /\ eqA v0 v = true) \/
    (forall id v0, index (arena s) id = Some v0 -> eqA v0 v = false).
  Proof.
    intros HS. destruct (lookup (already s) v) as [id|] eqn:E.
    - left. destruct (lookup_In _ _ _ E) as [k [Hin He]].
      destruct HS as [_ [H2 _]]. exists id, k. split; [apply H2; exact Hin|exact He].
    - right. intros id v0 Hi. destruct (eqA v0 v) eqn:He; [|reflexivity].
      destruct HS as [_ [_ H3]]. rewrite <- (lookup_eqA _ v0 v He), (H3 _ _ Hi) in E. discriminate.
  Qed.

  Lemma sstep_inv s o : SInv s -> SInv (fst (sstep s o)).
  Proof.
    intros HS. destruct o as [v|id|id|id| | |w| ]; cbn; try exact HS.
    - destruct (insert_cases s v HS) as [[id [v0 [Hi He]]]|Hn].
      + rewrite (insert_existing s id v0 v HS Hi He). exact HS.
      + destruct (insert_fresh s v HS Hn) as [s' [E [_ [HS' _]]]]. rewrite E. exact HS'.
    - destruct (aset_remove s id) eqn:E; cbn; [eapply remove_inv; eauto|exact HS].
  Qed.

  Lemma srun_cons s o r :
    srun s (o :: r) = (fst (srun (fst (sstep s o)) r), snd (sstep s o) :: snd (srun (fst (sstep s o)) r)).
  Proof.
    cbn [Arena.srun]. destruct (sstep s o) as [s' x]. cbn [fst snd].
    destruct (Arena.srun on_delete eqA s' r) as [s'' xs]. reflexivity.
  Qed.

  Theorem srun_inv ops : forall s, SInv s -> SInv (fst (srun s ops)).
  Proof.
    induction ops as [|o r IH]; intros s H; [exact H|].
    rewrite srun_cons. cbn [fst]. apply IH, sstep_inv, H.
  Qed.

  (* live items are pairwise distinct w.r.t. the key equality *)
  Theorem live_distinct s id1 id2 v1 v2 :
    SInv s -> index (arena s) id1 = Some v1 -> index (arena s) id2 = Some v2 ->
    eqA v1 v2 = true -> id1 = id2.
  Proof.
    intros [_ [_ H3]] Hi1 Hi2 He.
    pose proof (lookup_eqA (already s) v1 v2 He) as Hl.
    rewrite (H3 _ _ Hi1), (H3 _ _ Hi2) in Hl. congruence.
  Qed.

  (* re-adding a value after its id was deleted yields a fresh id, never the old one *)
  Theorem readd_after_delete s id v s' v' :
    SInv s -> index (arena s) id = Some v -> aset_remove s id = Some s' -> eqA v v' = true ->
    exists s'', insert s' v' = (s'', next_id (arena s)) /\ id < next_id (arena s) /\
                index (arena s'') id = None.
  Proof.
    intros HS Hi Hr He.
    pose proof (remove_inv _ _ _ HS Hr) as HS'.
    unfold Arena.aset_remove in Hr. rewrite Hi in Hr.
    destruct (delete on_delete (arena s) id) as [a'|] eqn:Ed; [|discriminate].
    inversion Hr; subst; clear Hr. cbn [arena] in *.
    assert (Hnext : next_id a' = next_id (arena s)).
    { unfold delete in Ed. destruct (contains (arena s) id); [|discriminate].
      inversion Ed. unfold next_id; cbn. apply upd_length. }
    assert (Hn : forall id0 v0, index a' id0 = Some v0 -> eqA v0 v' = false).
    { intros id0 v0 Hi0. destruct (eqA v0 v') eqn:E; [|reflexivity]. exfalso.
      assert (id0 <> id) as Hne.
      { intros ->. pose proof (delete_dead _ _ _ _ _ Ed) as Hd.
        apply dead_absent in Hd. destruct Hd as [Hd _]. congruence. }
      rewrite (delete_isolated _ _ _ _ _ _ Ed Hne) in Hi0.
      apply Hne. eapply (live_distinct s id0 id v0 v HS Hi0 Hi).
      rewrite (eqA_sym v v') in He. eapply eqA_trans; eauto. }
    destruct (insert_fresh _ v' HS' Hn) as [s'' [E [_ [_ Hold]]]]. cbn [arena] in *.
    exists s''. rewrite <- Hnext. split; [exact E|].
    pose proof (index_lt _ _ _ _ Hi) as Hlt.
    split; [rewrite Hnext; exact Hlt|].
    rewrite Hold by (rewrite Hnext; exact Hlt).
    pose proof (delete_dead _ _ _ _ _ Ed) as Hd. apply dead_absent in Hd. tauto.
  Qed.
End ArenaSetProofs.
