(* C08, module level: assembly of the fixpoint  emit (parse (emit (parse w))) = emit (parse w)
   from the per-kind payload fixpoints (ModFix2 .. ModFix8). *)
From Coq Require Import List NArith ZArith Bool Arith Lia.
Import ListNotations.
From WV Require Import Gen.Ops Model.Common Model.IR Model.Arena Model.ModuleM Model.ParseM Model.EmitM.
From WV Require Import Proofs.IndexMaps Proofs.Structure Proofs.Structure2 Proofs.Renumbering.
From WV Require Import Proofs.ModFix Proofs.ModFix2 Proofs.ModFix3 Proofs.ModFix4 Proofs.ModFix5 Proofs.ModFix6 Proofs.ModFix8.
From WV Require Proofs.ModFix7 Proofs.ModFix13.
Local Open Scope nat_scope.

(* R2: every renumbering map of the second trip is the identity, given that re-parsed functions keep their size *)
Theorem canonical_identity_maps : forall cf ver w ilen s1 e1 s2 e2,
  two_trips cf ver w ilen s1 e1 s2 e2 -> sizes_stable s1 e1 s2 ->
  rho_id s2 e2 S_type /\ rho_id s2 e2 S_func /\ rho_id s2 e2 S_table /\ rho_id s2 e2 S_memory /\
  rho_id s2 e2 S_global /\ rho_id s2 e2 S_elem /\ rho_id s2 e2 S_data.
Proof.
  intros cf ver w ilen s1 e1 s2 e2 TT SS.
  split; [eapply types_identity; exact TT|].
  split; [eapply funcs_identity; eassumption|].
  split; [eapply tmg_identity; [exact TT|left; reflexivity]|].
  split; [eapply tmg_identity; [exact TT|right; left; reflexivity]|].
  split; [eapply tmg_identity; [exact TT|right; right; reflexivity]|].
  eapply seg_identity; exact TT.
Qed.

(* the part of R2 that needs nothing about function bodies *)
Theorem canonical_identity_maps_nofunc : forall cf ver w ilen s1 e1 s2 e2,
  two_trips cf ver w ilen s1 e1 s2 e2 ->
  rho_id s2 e2 S_type /\ rho_id s2 e2 S_table /\ rho_id s2 e2 S_memory /\
  rho_id s2 e2 S_global /\ rho_id s2 e2 S_elem /\ rho_id s2 e2 S_data.
Proof.
  intros cf ver w ilen s1 e1 s2 e2 TT.
  split; [eapply types_identity; exact TT|].
  split; [eapply tmg_identity; [exact TT|left; reflexivity]|].
  split; [eapply tmg_identity; [exact TT|right; left; reflexivity]|].
  split; [eapply tmg_identity; [exact TT|right; right; reflexivity]|].
  eapply seg_identity; exact TT.
Qed.

(* R4, with what is left about function bodies and names as VISIBLE premises *)
Theorem module_fixpoint_from_body_facts : forall cf ver w ilen s1 e1 s2 e2,
  two_trips cf ver w ilen s1 e1 s2 e2 ->
  sizes_stable s1 e1 s2 ->                                                   (* re-parsed functions keep their size *)
  flat_map code_of (em_secs e2) = flat_map code_of (em_secs e1) ->           (* the code section is reproduced *)
  (sg_uses (ps_m s2) <-> sg_uses (ps_m s1)) ->                               (* some body uses a data segment *)
  name_payload (em_secs e2) = name_payload (em_secs e1) ->                   (* the name section is reproduced *)
  em_secs e2 = em_secs e1.
Proof.
  intros cf ver w ilen s1 e1 s2 e2 TT SS HC HU HN.
  destruct (canonical_identity_maps _ _ _ _ _ _ _ _ TT SS) as (Hty & Hf & Ht & Hm & Hg & He & Hd).
  apply (module_fixpoint_from_payloads _ _ _ _ _ _ _ _ TT).
  - eapply fix_types; exact TT.
  - eapply fix_imports; eassumption.
  - eapply fix_funcs_decl; eassumption.
  - eapply fix_tables; exact TT.
  - eapply fix_mems; exact TT.
  - eapply fix_globals; eassumption.
  - eapply fix_exports; eassumption.
  - eapply fix_start; eassumption.
  - eapply fix_elems; eassumption.
  - eapply fix_data_count; eassumption.
  - exact HC.
  - eapply fix_data; eassumption.
  - eapply fix_customs; eassumption.
Qed.


(* the name section: skipped by configuration, or reproduced when the local maps of the second trip are the identity *)
Definition names_premise (cf : config) (e1 : emitted) (s2 : pst) (e2 : emitted) : Prop :=
  cf_skip_name cf = true \/
  (cf_synthetic_names cf = false /\ ModFix7.locals_identity s2 e2 /\
   ModFix7.locals_canon s2 (ModFix7.stream_names (em_secs e1))).

Theorem fix_names_all : forall cf ver w ilen s1 e1 s2 e2,
  two_trips cf ver w ilen s1 e1 s2 e2 -> sizes_stable s1 e1 s2 -> names_premise cf e1 s2 e2 ->
  ModFix8.name_payload (em_secs e2) = ModFix8.name_payload (em_secs e1).
Proof.
  intros cf ver w ilen s1 e1 s2 e2 TT SS [Hs|(Hsyn & LI & LC)].
  - eapply skip_name_case; eassumption.
  - destruct (canonical_identity_maps _ _ _ _ _ _ _ _ TT SS) as (Hty & Hf & Ht & Hm & Hg & He & Hd).
    destruct (cf_skip_name cf) eqn:Hskip; [eapply skip_name_case; eassumption|].
    change (ModFix7.name_payload (em_secs e2) = ModFix7.name_payload (em_secs e1)).
    eapply ModFix7.fix_names; try eassumption.
    eapply ModFix13.counts_kept_holds; exact TT.
Qed.

Theorem module_fixpoint_from_body_facts2 : forall cf ver w ilen s1 e1 s2 e2,
  two_trips cf ver w ilen s1 e1 s2 e2 ->
  sizes_stable s1 e1 s2 ->
  flat_map code_of (em_secs e2) = flat_map code_of (em_secs e1) ->
  (sg_uses (ps_m s2) <-> sg_uses (ps_m s1)) ->
  names_premise cf e1 s2 e2 ->
  em_secs e2 = em_secs e1.
Proof.
  intros cf ver w ilen s1 e1 s2 e2 TT SS HC HU HN.
  eapply module_fixpoint_from_body_facts; try eassumption. eapply fix_names_all; eassumption.
Qed.

Print Assumptions canonical_identity_maps.
Print Assumptions module_fixpoint_from_body_facts2.
Print Assumptions module_fixpoint_from_body_facts.
