(* The renumbering of the round trip is CONSISTENT (C01 / C04): per index space, the composite map
     rho S i = the emitted index of the entity that input index i of space S denotes
   (Proofs/Structure.v [rho]) is a bijection of [0, n_S) for S in {func, table, memory, global, elem, data};
   it is a surjection that identifies exactly the structurally equal input types for S = type; and after a
   GC pass it is an injective partial map defined exactly on the kept entities. *)
From Coq Require Import List NArith ZArith Bool Arith Lia Permutation Sorted.
Import ListNotations.
From WV Require Import Gen.Ops Model.Common Model.IR Model.Arena Model.Traversal Model.EmitFn Model.Locals
                       Model.ParseFn Model.ModuleM Model.ParseM Model.EmitM Model.GC Gen.Attrs.
From WV Require Import Proofs.Arena Proofs.Order Proofs.IndexMaps Proofs.Names Proofs.Totality Proofs.ParseTotal
                       Proofs.TotalityBodies Proofs.Structure Proofs.ParsedWf Proofs.Structure2.
Local Open Scope nat_scope.

Notation rho := WV.Proofs.Structure.rho.

(* ====================================================================================== *)
(* 0. generic: a numbered, duplicate-free list of emitted ids against an iota vector       *)
(* ====================================================================================== *)

(* [f] is a permutation of [0, n): total into [0,n), injective wherever it is defined, onto [0,n) *)
Definition perm_on (n : nat) (f : N -> res N) : Prop :=
  (forall i, N.to_nat i < n -> exists j, f i = Ok j /\ N.to_nat j < n) /\
  (forall i i' j, f i = Ok j -> f i' = Ok j -> i = i') /\
  (forall j, N.to_nat j < n -> exists i, N.to_nat i < n /\ f i = Ok j).

(* the ids of space S in emission order *)
Definition emitted_ids (e : emitted) (S : space) : list N := map fst (space_map (em_x2i e) S).
(* the number of input entities of space S (imports + definitions) *)
Definition n_in (s : pst) (S : space) : nat := length (ids_space (ps_ids s) S).

Lemma ids_space_eq ids S : ids_space ids S = space_ids ids S.
Proof. destruct S; reflexivity. Qed.

Lemma iota_NoDup n : NoDup (iota n).
Proof. unfold iota. apply NoDup_map_inj; [intros a b; apply Nat2N.inj|apply seq_NoDup]. Qed.

Lemma nth_error_ext' {A} : forall (l l' : list A), (forall k, nth_error l k = nth_error l' k) -> l = l'.
Proof.
  induction l as [|a l IH]; intros [|b l'] H; [reflexivity|specialize (H 0); discriminate|specialize (H 0); discriminate|].
  pose proof (H 0) as H0. cbn in H0. inversion H0; subst b. f_equal. apply IH. intros k. exact (H (S k)).
Qed.

Section Gen.
  Variables (s : pst) (e : emitted) (S : space) (n : nat).
  Hypothesis Hn : ids_space (ps_ids s) S = iota n.
  Hypothesis W : wf_map (space_map (em_x2i e) S).

  Lemma rho_eq i : rho s e S i = if N.to_nat i <? n then get_idx (em_x2i e) S i else Panic.
  Proof.
    unfold WV.Proofs.Structure.rho. rewrite Hn. destruct (N.to_nat i <? n) eqn:E.
    - apply Nat.ltb_lt in E. rewrite iota_nth by exact E. rewrite N2Nat.id. reflexivity.
    - apply Nat.ltb_ge in E. replace (nth_error (iota n) (N.to_nat i)) with (@None N); [reflexivity|].
      symmetry. apply nth_error_None. rewrite iota_length. exact E.
  Qed.

  (* rho S i = j  iff  i is an input index and the entity sits at position j of the emitted order *)
  Lemma rho_pos i j : rho s e S i = Ok j <-> N.to_nat i < n /\ nth_error (emitted_ids e S) (N.to_nat j) = Some i.
  Proof.
    rewrite rho_eq. unfold emitted_ids. destruct (N.to_nat i <? n) eqn:E.
    - apply Nat.ltb_lt in E. rewrite (x2i_positions _ _ _ _ W). tauto.
    - apply Nat.ltb_ge in E. split; [discriminate|]. intros [H _]. lia.
  Qed.

  Lemma rho_inj_gen i i' j : rho s e S i = Ok j -> rho s e S i' = Ok j -> i = i'.
  Proof. rewrite !rho_pos. intros [_ H] [_ H']. congruence. Qed.

  Lemma rho_defined_gen i : (exists j, rho s e S i = Ok j) <-> N.to_nat i < n /\ In i (emitted_ids e S).
  Proof.
    split.
    - intros [j H]. apply rho_pos in H. destruct H as [H1 H2]. split; [exact H1|]. eapply nth_error_In; eauto.
    - intros [H1 H2]. apply In_nth_error in H2. destruct H2 as [k Hk]. exists (N.of_nat k). apply rho_pos.
      rewrite Nat2N.id. auto.
  Qed.

  Lemma rho_range_gen i j : rho s e S i = Ok j -> N.to_nat j < length (emitted_ids e S).
  Proof. intros H. apply rho_pos in H. destruct H as [_ H]. apply nth_error_Some. congruence. Qed.

  (* every emitted index comes from an input index, provided the emitted ids are input ids *)
  Lemma rho_onto_gen j : (forall id, In id (emitted_ids e S) -> N.to_nat id < n) ->
    N.to_nat j < length (emitted_ids e S) -> exists i, N.to_nat i < n /\ rho s e S i = Ok j.
  Proof.
    intros Hin Hj. destruct (nth_error (emitted_ids e S) (N.to_nat j)) as [i|] eqn:E.
    - exists i. assert (Hi : N.to_nat i < n) by (apply Hin; eapply nth_error_In; eauto).
      split; [exact Hi|]. apply rho_pos. auto.
    - apply nth_error_None in E. lia.
  Qed.

  (* the total case: the emitted ids are exactly the input ids *)
  Hypothesis full : forall id, In id (emitted_ids e S) <-> N.to_nat id < n.

  Lemma emitted_length_gen : length (emitted_ids e S) = n.
  Proof.
    destruct W as [_ ND]. fold (emitted_ids e S) in ND. apply Nat.le_antisymm.
    - rewrite <- (iota_length n). apply NoDup_incl_length; [exact ND|]. intros x Hx. apply iota_In, full, Hx.
    - rewrite <- (iota_length n) at 1. apply NoDup_incl_length; [apply iota_NoDup|]. intros x Hx. apply full, iota_In, Hx.
  Qed.

  Lemma rho_perm_gen : perm_on n (rho s e S).
  Proof.
    split; [|split].
    - intros i Hi. destruct (proj2 (rho_defined_gen i)) as [j Hj]; [split; [exact Hi|apply full, Hi]|].
      exists j. split; [exact Hj|]. rewrite <- emitted_length_gen. eapply rho_range_gen; eauto.
    - apply rho_inj_gen.
    - intros j Hj. apply rho_onto_gen; [intros id; apply full|rewrite emitted_length_gen; exact Hj].
  Qed.

  (* identity, when the emission order is the arena order *)
  Lemma rho_id_gen : emitted_ids e S = iota n -> forall i, N.to_nat i < n -> rho s e S i = Ok i.
  Proof. intros E i Hi. apply rho_pos. split; [exact Hi|]. rewrite E, iota_nth by exact Hi. rewrite N2Nat.id. reflexivity. Qed.
  (* and conversely: if rho is the identity on [0,n) the emission order is the arena order *)
  Lemma rho_id_conv_gen : (forall i, N.to_nat i < n -> rho s e S i = Ok i) -> emitted_ids e S = iota n.
  Proof.
    intros H. apply nth_error_ext'. intros k. destruct (Nat.lt_ge_cases k n) as [Hk|Hk].
    - rewrite iota_nth by exact Hk. specialize (H (N.of_nat k)). rewrite Nat2N.id in H. specialize (H Hk).
      apply rho_pos in H. rewrite Nat2N.id in H. tauto.
    - replace (nth_error (iota n) k) with (@None N) by (symmetry; apply nth_error_None; rewrite iota_length; exact Hk).
      apply nth_error_None. rewrite emitted_length_gen. exact Hk.
  Qed.
End Gen.

(* ====================================================================================== *)
(* 1. the emitted ids of an entity space are exactly the live entities (any closed module) *)
(* ====================================================================================== *)
Lemma emitM_final m ilen dw e : emitM m ilen dw = Ok e ->
  exists fs, used_local_functions m = Ok fs /\ final_maps m fs (em_x2i e).
Proof. intros H. destruct (emitM_x2i _ _ _ _ H) as [fs [Hfs X]]. exists fs. split; [exact Hfs|exact X]. Qed.

Lemma imported_live m S id : closed m -> In id (imp_ids S (live_imports m)) -> ent_live m S id.
Proof.
  intros C H. unfold imp_ids in H. apply in_flat_map in H. destruct H as [i [Hi H]].
  pose proof (cl_imports m C i Hi) as L. unfold imp_id in H.
  destruct (im_kind i); destruct S; cbn [ent_live] in *; try (destruct H; fail); destruct H as [<-|[]]; exact L.
Qed.

(* an id that has an index is a live entity *)
Lemma indexed_live m ilen dw e S id : emitM m ilen dw = Ok e -> closed m -> S <> S_type ->
  In id (emitted_ids e S) -> ent_live m S id.
Proof.
  intros HE C HS H. destruct (emitM_x2i _ _ _ _ HE) as (fs & Hfs & Xty & Xf & Xt & Xm & Xg & Xe & Xd).
  unfold emitted_ids in H. destruct S; cbn [space_map ent_live] in *; try congruence.
  - rewrite Xf, number_fst in H. apply in_app_or in H. destruct H as [H|H]; [exact (imported_live m S_func id C H)|].
    apply (proj2 (used_local_functions_ids _ _ Hfs)) in H. destruct H as (f & lf & Hin & _).
    exists f. apply aiter_aget. exact Hin.
  - rewrite Xt, number_fst in H. apply in_app_or in H. destruct H as [H|H]; [exact (imported_live m S_table id C H)|].
    apply in_map_iff in H. destruct H as [[id' v] [E H]]. cbn [fst] in E. subst id'. apply filter_In in H.
    exists v. apply aiter_aget. tauto.
  - rewrite Xm, number_fst in H. apply in_app_or in H. destruct H as [H|H]; [exact (imported_live m S_memory id C H)|].
    apply in_map_iff in H. destruct H as [[id' v] [E H]]. cbn [fst] in E. subst id'. apply filter_In in H.
    exists v. apply aiter_aget. tauto.
  - rewrite Xg, number_fst in H. apply in_app_or in H. destruct H as [H|H]; [exact (imported_live m S_global id C H)|].
    rewrite local_globals_ids in H.
    apply in_map_iff in H. destruct H as [[id' v] [E H]]. cbn [fst] in E. subst id'. apply filter_In in H.
    exists v. apply aiter_aget. tauto.
  - rewrite Xd, number_fst in H. apply in_map_iff in H. destruct H as [[id' v] [E H]]. cbn [fst] in E. subst id'.
    exists v. apply aiter_aget. exact H.
  - rewrite Xe, number_fst in H. apply in_map_iff in H. destruct H as [[id' v] [E H]]. cbn [fst] in E. subst id'.
    exists v. apply aiter_aget. exact H.
  - destruct H.
Qed.

Theorem emitted_iff_live m ilen dw e S id : emitM m ilen dw = Ok e -> closed m -> S <> S_type ->
  (In id (emitted_ids e S) <-> ent_live m S id).
Proof.
  intros HE C HS. split; [apply (indexed_live _ _ _ _ _ _ HE C HS)|].
  destruct (emitM_final _ _ _ _ HE) as [fs [Hfs F]]. apply (live_indexed m fs _ C Hfs F).
Qed.

(* liveness in a module without dead slots = being below the arena length *)
Definition arena_len (m : wir) (S : space) : nat :=
  match S with
  | S_func => length (items (m_funcs m)) | S_table => length (items (m_tables m))
  | S_memory => length (items (m_memories m)) | S_global => length (items (m_globals m))
  | S_elem => length (items (m_elements m)) | S_data => length (items (m_data m))
  | _ => 0
  end.

Lemma aget_lt {A} (a : tarena A) id v : aget a id = Some v -> N.to_nat id < length (items a).
Proof. intros H. apply Structure.aget_nth in H. apply nth_error_Some. congruence. Qed.

Lemma live_lt m S id : S <> S_type -> ent_live m S id -> N.to_nat id < arena_len m S.
Proof.
  intros HS H. destruct S; cbn [ent_live arena_len] in *; try congruence; try (destruct H as [v H]; exact (aget_lt _ _ _ H)).
  destruct H.
Qed.

Lemma lt_live_space m ids S id : ids_consistent m ids -> S <> S_type -> S <> S_local ->
  N.to_nat id < arena_len m S -> ent_live m S id.
Proof.
  intros I HS HL H. unfold ids_consistent in I. decompose [and] I. clear I.
  destruct S; cbn [ent_live arena_len] in *; try congruence; apply lt_live; assumption.
Qed.

Lemma idc_space_len m ids S : ids_consistent m ids -> S <> S_type -> S <> S_local -> ids_space ids S = iota (arena_len m S).
Proof.
  intros I HS HL. unfold ids_consistent in I. decompose [and] I. clear I.
  destruct S; cbn [ids_space arena_len]; congruence.
Qed.

(* the emit-time map of every entity space of a parsed module is well formed *)
Theorem parsed_wf_space cf ver w s ilen dw e S : parseM cf ver w = POk s -> emitM (ps_m s) ilen dw = Ok e ->
  S <> S_local -> wf_map (space_map (em_x2i e) S).
Proof.
  intros HP HE HL. destruct (parsed_wf_maps _ _ _ _ _ _ _ HP HE) as (Wt & Wm & Wg).
  destruct (rho_elements_data_id _ _ _ _ _ _ _ HP HE) as (We & Wd & _).
  destruct S; try assumption; try congruence.
  - exact (parsed_wf_funcs _ _ _ _ _ _ _ HP HE).
  - apply (emit_order_types _ _ _ _ HE).
Qed.

(* ====================================================================================== *)
(* 2. parse ; emit : rho S is a permutation of [0, n_S)                                     *)
(* ====================================================================================== *)
Section RoundTrip.
  Variables (cf : config) (ver : list N) (w : wmod) (s : pst) (ilen : wins -> N) (dw : list wsec) (e : emitted).
  Hypothesis HP : parseM cf ver w = POk s.
  Hypothesis HE : emitM (ps_m s) ilen dw = Ok e.

  Lemma n_in_arena S : S <> S_type -> S <> S_local -> n_in s S = arena_len (ps_m s) S.
  Proof. intros HS HL. unfold n_in. rewrite (idc_space_len _ _ S (parseM_ids _ _ _ _ HP) HS HL). apply iota_length. Qed.

  Lemma ids_space_n S : S <> S_type -> S <> S_local -> ids_space (ps_ids s) S = iota (n_in s S).
  Proof. intros HS HL. rewrite (n_in_arena S HS HL). apply (idc_space_len _ _ S (parseM_ids _ _ _ _ HP) HS HL). Qed.

  (* the emitted ids are exactly the input ids: nothing is dropped, nothing is invented *)
  Theorem emitted_full S id : S <> S_type -> S <> S_local -> (In id (emitted_ids e S) <-> N.to_nat id < n_in s S).
  Proof.
    intros HS HL. rewrite (emitted_iff_live _ _ _ _ S id HE (parseM_closed _ _ _ _ HP) HS), (n_in_arena S HS HL). split.
    - apply live_lt, HS.
    - apply (lt_live_space _ _ S id (parseM_ids _ _ _ _ HP) HS HL).
  Qed.

  Theorem emitted_count S : S <> S_type -> S <> S_local -> length (emitted_ids e S) = n_in s S.
  Proof.
    intros HS HL. apply (emitted_length_gen e S (n_in s S) (parsed_wf_space _ _ _ _ _ _ _ S HP HE HL)).
    intros id. apply emitted_full; assumption.
  Qed.

  (* 1. totality *)
  Theorem rho_total S i : S <> S_type -> S <> S_local -> N.to_nat i < n_in s S ->
    exists j, rho s e S i = Ok j /\ N.to_nat j < n_in s S.
  Proof.
    intros HS HL. apply (rho_perm_gen s e S (n_in s S) (ids_space_n S HS HL) (parsed_wf_space _ _ _ _ _ _ _ S HP HE HL)).
    intros id. apply emitted_full; assumption.
  Qed.
  (*    ... and conversely every emitted index comes from an input index *)
  Theorem rho_onto S j : S <> S_type -> S <> S_local -> N.to_nat j < length (emitted_ids e S) ->
    exists i, N.to_nat i < n_in s S /\ rho s e S i = Ok j.
  Proof.
    intros HS HL Hj. apply (rho_perm_gen s e S (n_in s S) (ids_space_n S HS HL) (parsed_wf_space _ _ _ _ _ _ _ S HP HE HL)).
    - intros id. apply emitted_full; assumption.
    - rewrite <- (emitted_count S HS HL). exact Hj.
  Qed.
  (*    rho is undefined outside the input range *)
  Theorem rho_defined S i : S <> S_type -> S <> S_local -> ((exists j, rho s e S i = Ok j) <-> N.to_nat i < n_in s S).
  Proof.
    intros HS HL. rewrite (rho_defined_gen s e S (n_in s S) (ids_space_n S HS HL) (parsed_wf_space _ _ _ _ _ _ _ S HP HE HL)).
    rewrite (emitted_full S i HS HL). tauto.
  Qed.
  (* 2. injectivity *)
  Theorem rho_inj S i i' j : S <> S_type -> S <> S_local -> rho s e S i = Ok j -> rho s e S i' = Ok j -> i = i'.
  Proof.
    intros HS HL. apply (rho_inj_gen s e S (n_in s S) (ids_space_n S HS HL) (parsed_wf_space _ _ _ _ _ _ _ S HP HE HL)).
  Qed.
  (* 3. permutation *)
  Theorem rho_perm S : S <> S_type -> S <> S_local -> perm_on (n_in s S) (rho s e S).
  Proof.
    intros HS HL. apply (rho_perm_gen s e S (n_in s S) (ids_space_n S HS HL) (parsed_wf_space _ _ _ _ _ _ _ S HP HE HL)).
    intros id. apply emitted_full; assumption.
  Qed.
  (*    positional reading: rho S i = j iff input entity i is the j-th emitted one *)
  Theorem rho_position S i j : S <> S_type -> S <> S_local ->
    (rho s e S i = Ok j <-> N.to_nat i < n_in s S /\ nth_error (emitted_ids e S) (N.to_nat j) = Some i).
  Proof. intros HS HL. apply (rho_pos s e S (n_in s S) (ids_space_n S HS HL) (parsed_wf_space _ _ _ _ _ _ _ S HP HE HL)). Qed.
  (*    identity iff the emission order is the arena (= input) order *)
  Theorem rho_identity_iff S : S <> S_type -> S <> S_local ->
    ((forall i, N.to_nat i < n_in s S -> rho s e S i = Ok i) <-> emitted_ids e S = iota (n_in s S)).
  Proof.
    intros HS HL. split.
    - apply (rho_id_conv_gen s e S (n_in s S) (ids_space_n S HS HL) (parsed_wf_space _ _ _ _ _ _ _ S HP HE HL)).
      intros id. apply emitted_full; assumption.
    - apply (rho_id_gen s e S (n_in s S) (ids_space_n S HS HL) (parsed_wf_space _ _ _ _ _ _ _ S HP HE HL)).
  Qed.

  (* elements, data: always the identity *)
  Theorem rho_elem_id i : N.to_nat i < n_in s S_elem -> rho s e S_elem i = Ok i.
  Proof.
    intros Hi. rewrite rho_entity_conv; [|exact (parseM_ids _ _ _ _ HP)|discriminate|discriminate|exact Hi].
    apply (rho_elements_data_id _ _ _ _ _ _ _ HP HE). exact Hi.
  Qed.
  Theorem rho_data_id i : N.to_nat i < n_in s S_data -> rho s e S_data i = Ok i.
  Proof.
    intros Hi. rewrite rho_entity_conv; [|exact (parseM_ids _ _ _ _ HP)|discriminate|discriminate|exact Hi].
    apply (rho_elements_data_id _ _ _ _ _ _ _ HP HE). exact Hi.
  Qed.
End RoundTrip.

(* ====================================================================================== *)
(* 3. well-formed imports: an invariant of the parser that GC preserves                     *)
(* ====================================================================================== *)
Definition imp_ent (i : mimport) : space * N :=
  match im_kind i with
  | MI_Func f => (S_func, f) | MI_Table t => (S_table, t) | MI_Mem t => (S_memory, t) | MI_Global g => (S_global, g)
  end.
(* the entity says of itself that it is imported *)
Definition marked (m : wir) (p : space * N) : Prop :=
  match fst p with
  | S_func => exists v, aget (m_funcs m) (snd p) = Some v /\ is_imp_fn v
  | S_table => exists v, aget (m_tables m) (snd p) = Some v /\ tb_import v <> None
  | S_memory => exists v, aget (m_memories m) (snd p) = Some v /\ me_import v <> None
  | S_global => exists v, aget (m_globals m) (snd p) = Some v /\ is_imp_gl v
  | _ => False
  end.
(* no two live imports name the same entity; the entity of a live import is live and marked as imported *)
Definition imports_wf (m : wir) : Prop :=
  (forall id1 id2 i1 i2, aget (m_imports m) id1 = Some i1 -> aget (m_imports m) id2 = Some i2 ->
                         imp_ent i1 = imp_ent i2 -> id1 = id2) /\
  (forall id i, aget (m_imports m) id = Some i -> marked m (imp_ent i)).

Lemma imp_id_ent S i x : In x (imp_id S i) -> imp_ent i = (S, x).
Proof.
  unfold imp_id, imp_ent. destruct (im_kind i); destruct S; intros H; try (destruct H; fail); destruct H as [<-|[]]; reflexivity.
Qed.

Lemma imp_ids_NoDup_gen S : forall (l : list (N * mimport)), NoDup (map fst l) ->
  (forall id1 id2 i1 i2, In (id1, i1) l -> In (id2, i2) l -> imp_ent i1 = imp_ent i2 -> id1 = id2) ->
  NoDup (imp_ids S (map snd l)).
Proof.
  induction l as [|[id i] r IH]; intros ND U; [constructor|].
  cbn [map fst snd imp_ids flat_map] in *. fold (imp_ids S (map snd r)). inversion ND as [|? ? Hni NDr]; subst.
  assert (IHr : NoDup (imp_ids S (map snd r))).
  { apply IH; [exact NDr|]. intros id1 id2 i1 i2 H1 H2. apply U; right; assumption. }
  apply NoDup_app_intro; [|exact IHr|].
  - unfold imp_id. destruct (im_kind i); destruct S; try constructor; try (intros []); constructor.
  - intros x Hx Hr. apply imp_id_ent in Hx. unfold imp_ids in Hr. apply in_flat_map in Hr. destruct Hr as [i2 [Hi2 Hx2]].
    apply imp_id_ent in Hx2. apply in_map_iff in Hi2. destruct Hi2 as [[id2 i2'] [E Hin]]. cbn [snd] in E. subst i2'.
    assert (id = id2) by (apply (U id id2 i i2); [left; reflexivity|right; exact Hin|congruence]). subst id2.
    apply Hni. apply in_map_iff. exists (id, i2). split; [reflexivity|exact Hin].
Qed.

Lemma imp_ids_NoDup m S : imports_wf m -> NoDup (imp_ids S (live_imports m)).
Proof.
  intros [U _]. unfold live_imports. apply imp_ids_NoDup_gen; [apply aiter_NoDup|].
  intros id1 id2 i1 i2 H1 H2. apply aiter_aget in H1. apply aiter_aget in H2. eapply U; eauto.
Qed.

Lemma imp_ids_marked m S x : imports_wf m -> In x (imp_ids S (live_imports m)) -> marked m (S, x).
Proof.
  intros [_ M] H. unfold imp_ids in H. apply in_flat_map in H. destruct H as [i [Hi Hx]].
  apply live_imports_In in Hi. destruct Hi as [id Hi]. apply imp_id_ent in Hx. rewrite <- Hx. eapply M; eauto.
Qed.

(* with well-formed imports every emit-time map is well formed *)
Theorem imports_wf_maps m ilen dw e S : imports_wf m -> emitM m ilen dw = Ok e -> S <> S_local ->
  wf_map (space_map (em_x2i e) S).
Proof.
  intros IW HE HL. destruct (emitM_x2i _ _ _ _ HE) as (fs & Hfs & Xty & Xf & Xt & Xm & Xg & Xe & Xd).
  destruct S; cbn [space_map]; try congruence.
  - rewrite Xf. apply number_wf. apply NoDup_app_intro; [apply imp_ids_NoDup, IW|apply (used_local_functions_ids _ _ Hfs)|].
    intros x Hx Hl. apply (imp_ids_marked m S_func x IW) in Hx. cbn in Hx. destruct Hx as [v [Hv Hp]].
    apply (proj2 (used_local_functions_ids _ _ Hfs)) in Hl. destruct Hl as (f & lf & Hin & Hk). apply aiter_aget in Hin.
    rewrite Hv in Hin. inversion Hin; subst f. unfold is_imp_fn in Hp. rewrite Hk in Hp. exact Hp.
  - apply (emit_order_types _ _ _ _ HE).
  - rewrite Xt. apply number_wf. apply NoDup_app_intro; [apply imp_ids_NoDup, IW|apply local_tables_NoDup|].
    intros x Hx Hl. apply (imp_ids_marked m S_table x IW) in Hx. cbn in Hx. destruct Hx as [v [Hv Hp]].
    apply in_map_iff in Hl. destruct Hl as [[x' v'] [E Hl]]. cbn [fst] in E. subst x'. apply filter_In in Hl.
    destruct Hl as [Hl Hk]. cbn [snd] in Hk. apply aiter_aget in Hl. rewrite Hv in Hl. inversion Hl; subst v'.
    destruct (tb_import v); [discriminate|congruence].
  - rewrite Xm. apply number_wf. apply NoDup_app_intro; [apply imp_ids_NoDup, IW|apply local_memories_NoDup|].
    intros x Hx Hl. apply (imp_ids_marked m S_memory x IW) in Hx. cbn in Hx. destruct Hx as [v [Hv Hp]].
    apply in_map_iff in Hl. destruct Hl as [[x' v'] [E Hl]]. cbn [fst] in E. subst x'. apply filter_In in Hl.
    destruct Hl as [Hl Hk]. cbn [snd] in Hk. apply aiter_aget in Hl. rewrite Hv in Hl. inversion Hl; subst v'.
    destruct (me_import v); [discriminate|congruence].
  - rewrite Xg. apply number_wf. apply NoDup_app_intro; [apply imp_ids_NoDup, IW|apply local_globals_NoDup|].
    intros x Hx Hl. apply (imp_ids_marked m S_global x IW) in Hx. cbn in Hx. destruct Hx as [v [Hv Hp]].
    rewrite local_globals_ids in Hl.
    apply in_map_iff in Hl. destruct Hl as [[x' v'] [E Hl]]. cbn [fst] in E. subst x'. apply filter_In in Hl.
    destruct Hl as [Hl Hk]. cbn [snd] in Hk. apply aiter_aget in Hl. rewrite Hv in Hl. inversion Hl; subst v'.
    unfold is_imp_gl in Hp. destruct (gl_kind v); [discriminate|exact Hp].
  - apply (emit_order_data _ _ _ _ HE).
  - apply (emit_order_elements _ _ _ _ HE).
Qed.

(* --- the parser establishes it *)
Lemma NoDup_app_inv {A} (a b : list A) : NoDup (a ++ b) -> NoDup a /\ NoDup b /\ forall x, In x a -> ~ In x b.
Proof.
  induction a as [|h a IH]; cbn [app]; intros H.
  - split; [constructor|]. split; [exact H|]. intros x [].
  - inversion H as [|? ? Hn Hr]; subst. destruct (IH Hr) as (Ha & Hb & Hd). split; [|split; [exact Hb|]].
    + constructor; [|exact Ha]. intros Hin. apply Hn. apply in_or_app. left. exact Hin.
    + intros x [<-|Hx]; [|apply Hd, Hx]. intros Hin. apply Hn. apply in_or_app. right. exact Hin.
Qed.

Lemma flat_map_NoDup_nth {A B} (k : A -> list B) : forall l a b x y t, NoDup (flat_map k l) ->
  nth_error l a = Some x -> nth_error l b = Some y -> In t (k x) -> In t (k y) -> a = b.
Proof.
  induction l as [|h r IH]; intros a b x y t ND Ha Hb Hx Hy; [destruct a; discriminate|].
  cbn [flat_map] in ND. apply NoDup_app_inv in ND. destruct ND as (_ & NDr & Hd).
  destruct a as [|a]; destruct b as [|b]; cbn [nth_error] in Ha, Hb.
  - reflexivity.
  - inversion Ha; subst h. exfalso. apply (Hd t Hx). apply in_flat_map. exists y. split; [eapply nth_error_In; eauto|exact Hy].
  - inversion Hb; subst h. exfalso. apply (Hd t Hy). apply in_flat_map. exists x. split; [eapply nth_error_In; eauto|exact Hx].
  - f_equal. eapply IH; eauto.
Qed.

Theorem parsed_imports_wf cf ver w s : parseM cf ver w = POk s -> imports_wf (ps_m s).
Proof.
  intros HP. pose proof (parseM_ids _ _ _ _ HP) as I. pose proof (parseM_iv _ _ _ _ HP) as (Jt & Jm & Jg & Jf).
  unfold ids_consistent in I. decompose [and] I. clear I.
  assert (AI : forall id, aget (m_imports (ps_m s)) id = nth_error (items (m_imports (ps_m s))) (N.to_nat id))
    by (intros id; apply Totality.aget_nodead; assumption).
  split.
  - intros id1 id2 i1 i2 G1 G2 E. rewrite AI in G1, G2. apply N2Nat.inj. unfold imp_ent in E.
    destruct (im_kind i1) as [x1|x1|x1|x1] eqn:E1; destruct (im_kind i2) as [x2|x2|x2|x2] eqn:E2; try discriminate;
      inversion E; subst x2.
    + destruct Jf as [ND _]. unfold ifuncs in ND. eapply (flat_map_NoDup_nth _ _ _ _ i1 i2 x1 ND G1 G2); [rewrite E1|rewrite E2]; left; reflexivity.
    + destruct Jt as [ND _]. unfold itabs in ND. eapply (flat_map_NoDup_nth _ _ _ _ i1 i2 x1 ND G1 G2); [rewrite E1|rewrite E2]; left; reflexivity.
    + destruct Jm as [ND _]. unfold imems in ND. eapply (flat_map_NoDup_nth _ _ _ _ i1 i2 x1 ND G1 G2); [rewrite E1|rewrite E2]; left; reflexivity.
    + destruct Jg as [ND _]. unfold iglobs in ND. eapply (flat_map_NoDup_nth _ _ _ _ i1 i2 x1 ND G1 G2); [rewrite E1|rewrite E2]; left; reflexivity.
  - intros id i Hi. rewrite AI in Hi. apply nth_error_In in Hi. unfold imp_ent, marked.
    destruct (im_kind i) as [x|x|x|x] eqn:Ek; cbn [fst snd].
    + destruct Jf as [_ F]. rewrite Forall_forall in F. destruct (F x) as [v [Hv Hp]].
      { unfold ifuncs. apply in_flat_map. exists i. split; [exact Hi|rewrite Ek; left; reflexivity]. }
      exists v. split; [rewrite Totality.aget_nodead by assumption; exact Hv|exact Hp].
    + destruct Jt as [_ F]. rewrite Forall_forall in F. destruct (F x) as [v [Hv Hp]].
      { unfold itabs. apply in_flat_map. exists i. split; [exact Hi|rewrite Ek; left; reflexivity]. }
      exists v. split; [rewrite Totality.aget_nodead by assumption; exact Hv|exact Hp].
    + destruct Jm as [_ F]. rewrite Forall_forall in F. destruct (F x) as [v [Hv Hp]].
      { unfold imems. apply in_flat_map. exists i. split; [exact Hi|rewrite Ek; left; reflexivity]. }
      exists v. split; [rewrite Totality.aget_nodead by assumption; exact Hv|exact Hp].
    + destruct Jg as [_ F]. rewrite Forall_forall in F. destruct (F x) as [v [Hv Hp]].
      { unfold iglobs. apply in_flat_map. exists i. split; [exact Hi|rewrite Ek; left; reflexivity]. }
      exists v. split; [rewrite Totality.aget_nodead by assumption; exact Hv|exact Hp].
Qed.

(* --- GC preserves it *)
Theorem gc_imports_wf m m' : imports_wf m -> gc_sweep m = Ok m' -> imports_wf m'.
Proof.
  intros [U M] Hg. destruct (gc_shape _ _ Hg) as [u [Hu R]]. split.
  - intros id1 id2 i1 i2 H1 H2. apply (gr_imports _ _ _ R) in H1. apply (gr_imports _ _ _ R) in H2.
    destruct H1 as [H1 _]. destruct H2 as [H2 _]. eapply U; eauto.
  - intros id i Hi. apply (gr_imports _ _ _ R) in Hi. destruct Hi as [Hi Hk]. specialize (M id i Hi).
    unfold imp_used in Hk. unfold imp_ent, marked in *. destruct (im_kind i) as [x|x|x|x]; cbn [fst snd] in *;
      apply G.mem_ent_In in Hk; destruct M as [v [Hv Hp]]; exists v; (split; [|exact Hp]).
    + apply (gr_funcs _ _ _ R). auto.
    + apply (gr_tables _ _ _ R). auto.
    + apply (gr_memories _ _ _ R). auto.
    + apply (gr_globals _ _ _ R). auto.
Qed.

(* ====================================================================================== *)
(* 5. parse ; gc_sweep ; emit : rho is an injective partial map, defined exactly on the kept ones *)
(* ====================================================================================== *)
Lemma gc_live_iff m m' u S id : gc_rel m m' u -> S <> S_type -> S <> S_local ->
  (ent_live m' S id <-> ent_live m S id /\ In (S, id) u).
Proof.
  intros R HS HL. destruct S; cbn [ent_live]; try congruence; unfold liveF, liveT, liveM, liveG; split.
  all: try (intros [v H]; first [apply (gr_funcs _ _ _ R) in H | apply (gr_tables _ _ _ R) in H | apply (gr_memories _ _ _ R) in H
                                | apply (gr_globals _ _ _ R) in H | apply (gr_data _ _ _ R) in H | apply (gr_elements _ _ _ R) in H];
            destruct H as [H Hu]; split; [exists v; exact H|exact Hu]).
  all: intros [[v H] Hu]; exists v;
       first [apply (gr_funcs _ _ _ R); tauto | apply (gr_tables _ _ _ R); tauto | apply (gr_memories _ _ _ R); tauto
             | apply (gr_globals _ _ _ R); tauto | apply (gr_data _ _ _ R); tauto | apply (gr_elements _ _ _ R); tauto].
Qed.

Section AfterGC.
  Variables (cf : config) (ver : list N) (w : wmod) (s : pst) (ilen : wins -> N) (dw : list wsec) (m' : wir) (e' : emitted).
  Hypothesis HP : parseM cf ver w = POk s.
  Hypothesis HG : gc_sweep (ps_m s) = Ok m'.
  Hypothesis HE : emitM m' ilen dw = Ok e'.

  Theorem gc_wf_space S : S <> S_local -> wf_map (space_map (em_x2i e') S).
  Proof.
    intros HL. apply (imports_wf_maps m' ilen dw e' S); [|exact HE|exact HL].
    eapply gc_imports_wf; [|exact HG]. eapply parsed_imports_wf; exact HP.
  Qed.

  (* the emitted ids are exactly the kept input ids *)
  Theorem gc_emitted_kept : exists u, used (ps_m s) = Ok u /\
    forall S id, S <> S_type -> S <> S_local ->
      (In id (emitted_ids e' S) <-> N.to_nat id < n_in s S /\ In (S, id) u).
  Proof.
    destruct (gc_shape _ _ HG) as [u [Hu R]]. exists u. split; [exact Hu|]. intros S id HS HL.
    destruct (gc_closed_after_parse _ _ _ _ _ HP HG) as [C _].
    rewrite (emitted_iff_live _ _ _ _ S id HE C HS), (gc_live_iff _ _ _ S id R HS HL), (n_in_arena _ _ _ _ HP S HS HL).
    split; intros [H1 H2]; (split; [|exact H2]).
    - apply live_lt; assumption.
    - apply (lt_live_space _ _ S id (parseM_ids _ _ _ _ HP) HS HL H1).
  Qed.

  (* injectivity: two kept entities never collapse onto one emitted index *)
  Theorem rho_gc_inj S i i' j : S <> S_type -> S <> S_local -> rho s e' S i = Ok j -> rho s e' S i' = Ok j -> i = i'.
  Proof. intros HS HL. apply (rho_inj_gen s e' S (n_in s S) (ids_space_n _ _ _ _ HP S HS HL) (gc_wf_space S HL)). Qed.

  (* defined exactly on the kept entities *)
  Theorem rho_gc_defined : exists u, used (ps_m s) = Ok u /\
    forall S i, S <> S_type -> S <> S_local ->
      ((exists j, rho s e' S i = Ok j) <-> N.to_nat i < n_in s S /\ In (S, i) u).
  Proof.
    destruct gc_emitted_kept as [u [Hu K]]. exists u. split; [exact Hu|]. intros S i HS HL.
    rewrite (rho_defined_gen s e' S (n_in s S) (ids_space_n _ _ _ _ HP S HS HL) (gc_wf_space S HL)).
    rewrite (K S i HS HL). tauto.
  Qed.

  (* the range is exactly the emitted index space [0, number of kept entities) *)
  Theorem rho_gc_range S i j : S <> S_type -> S <> S_local -> rho s e' S i = Ok j -> N.to_nat j < length (emitted_ids e' S).
  Proof. intros HS HL. apply (rho_range_gen s e' S (n_in s S) (ids_space_n _ _ _ _ HP S HS HL) (gc_wf_space S HL)). Qed.
  Theorem rho_gc_onto S j : S <> S_type -> S <> S_local -> N.to_nat j < length (emitted_ids e' S) ->
    exists i, N.to_nat i < n_in s S /\ rho s e' S i = Ok j.
  Proof.
    intros HS HL. apply (rho_onto_gen s e' S (n_in s S) (ids_space_n _ _ _ _ HP S HS HL) (gc_wf_space S HL)).
    destruct gc_emitted_kept as [u [_ K]]. intros id Hid. apply (K S id HS HL) in Hid. tauto.
  Qed.
  Theorem rho_gc_position S i j : S <> S_type -> S <> S_local ->
    (rho s e' S i = Ok j <-> N.to_nat i < n_in s S /\ nth_error (emitted_ids e' S) (N.to_nat j) = Some i).
  Proof. intros HS HL. apply (rho_pos s e' S (n_in s S) (ids_space_n _ _ _ _ HP S HS HL) (gc_wf_space S HL)). Qed.
  (* nothing is emitted twice; at most the input entities are emitted *)
  Theorem gc_emitted_count S : S <> S_type -> S <> S_local -> length (emitted_ids e' S) <= n_in s S.
  Proof.
    intros HS HL. rewrite <- (iota_length (n_in s S)). apply NoDup_incl_length; [apply (gc_wf_space S HL)|].
    destruct gc_emitted_kept as [u [_ K]]. intros id Hid. apply iota_In. apply (K S id HS HL) in Hid. tauto.
  Qed.
End AfterGC.

(* ====================================================================================== *)
(* 4. types: de-duplication.  The ArenaSet holds every key once.                            *)
(* ====================================================================================== *)
Definition TU (s : aset mtype) : Prop :=
  (forall id v, nth_error (items (Arena.arena s)) id = Some v -> exists k, In (k, id) (already s) /\ mtype_eqb k v = true) /\
  (forall id1 id2 v1 v2, nth_error (items (Arena.arena s)) id1 = Some v1 -> nth_error (items (Arena.arena s)) id2 = Some v2 ->
     mtype_eqb v1 v2 = true -> id1 = id2).

Lemma lookup_none (l : list (mtype * nat)) v : lookup mtype_eqb l v = None -> forall k id, In (k, id) l -> mtype_eqb k v = false.
Proof.
  induction l as [|[k0 i0] r IH]; cbn [lookup]; intros H k id Hin; [destruct Hin|].
  destruct (mtype_eqb k0 v) eqn:E; [discriminate|]. destruct Hin as [Hin|Hin]; [inversion Hin; subst; exact E|eapply IH; eauto].
Qed.

Lemma TU_empty : TU aset_empty.
Proof. split; [intros i v H; destruct i; discriminate|intros i1 i2 v1 v2 H; destruct i1; discriminate]. Qed.

Lemma types_insert_TU m t m1 id : TU (m_types m) -> types_insert m t = (m1, id) -> TU (m_types m1).
Proof.
  intros [C U] E. unfold types_insert, insert in E.
  destruct (lookup mtype_eqb (already (m_types m)) t) as [i|] eqn:El.
  - inversion E; subst; clear E. wcbn. split; assumption.
  - wcbn. inversion E; subst; clear E. wcbn. pose proof (lookup_none _ _ El) as NL. unfold next_id.
    assert (New : forall i v, nth_error (items (Arena.arena (m_types m)) ++ [t]) i = Some v ->
                   nth_error (items (Arena.arena (m_types m))) i = Some v \/ (i = length (items (Arena.arena (m_types m))) /\ v = t)).
    { intros i v H. destruct (Nat.lt_ge_cases i (length (items (Arena.arena (m_types m))))) as [L|L].
      - rewrite nth_error_app1 in H by exact L. left; exact H.
      - rewrite nth_error_app2 in H by exact L. right.
        destruct (i - length (items (Arena.arena (m_types m)))) as [|d] eqn:Ed; cbn in H; [|destruct d; discriminate].
        inversion H; subst. split; [lia|reflexivity]. }
    assert (Fresh : forall i v, nth_error (items (Arena.arena (m_types m))) i = Some v -> mtype_eqb v t = false).
    { intros i v H. destruct (C _ _ H) as [k [Hin He]]. destruct (mtype_eqb v t) eqn:Ev; [|reflexivity].
      rewrite <- (NL _ _ Hin). symmetry. eapply mtype_eqb_trans; eauto. }
    split.
    + intros i v H. apply New in H. destruct H as [H|[-> ->]].
      * destruct (C _ _ H) as [k [Hin He]]. exists k. split; [right; exact Hin|exact He].
      * exists t. split; [left; reflexivity|apply mtype_eqb_refl'].
    + intros id1 id2 v1 v2 H1 H2 He. apply New in H1. apply New in H2.
      destruct H1 as [H1|[-> ->]]; destruct H2 as [H2|[-> ->]].
      * eapply U; eauto.
      * rewrite (Fresh _ _ H1) in He. discriminate.
      * apply mtype_eqb_sym in He. rewrite (Fresh _ _ H2) in He. discriminate.
      * reflexivity.
Qed.

Lemma parse_types_TU : forall ts m ids m' ids', TU (m_types m) -> parse_types m ids ts = (m', ids') -> TU (m_types m').
Proof.
  induction ts as [|[ps rs] r IH]; intros m ids m' ids' W E; cbn [parse_types] in E.
  - inversion E; subst. exact W.
  - destruct (types_insert m _) as [m1 id] eqn:Et. eapply IH; [|exact E]. eapply types_insert_TU; eauto.
Qed.

Lemma parse_sec_TU s sec s' : TU (m_types (ps_m s)) -> parse_sec s sec = POk s' -> TU (m_types (ps_m s')).
Proof.
  intros W E. destruct sec; try (pose proof (parse_sec_frameB _ _ _ E) as [[E1 _] _]; rewrite E1; exact W).
  unfold parse_sec in E. destruct (parse_types _ _ _) as [m1 i1] eqn:Ep. inversion E; subst; clear E. wcbn.
  eapply parse_types_TU; eauto.
Qed.
Lemma parse_secs_TU : forall w s s', TU (m_types (ps_m s)) -> parse_secs s w = POk s' -> TU (m_types (ps_m s')).
Proof.
  induction w as [|x r IH]; intros s s' H E; cbn [parse_secs] in E.
  - inversion E; subst; exact H.
  - pinv E as s1 E1. eapply IH; [|exact E]. eapply parse_sec_TU; eauto.
Qed.

Lemma prepare_bodies_TU : forall bs m ids ni i m' ids' ps,
  TU (m_types m) -> prepare_bodies m ids ni i bs = POk (m', ids', ps) -> TU (m_types m').
Proof.
  induction bs as [|b r IH]; intros m ids ni i m' ids' ps W E; cbn [prepare_bodies] in E.
  - inversion E; subst; exact W.
  - pinv E as fid Efid. pinv E as f Ef. destruct (fn_kind f); try discriminate.
    pinv E as t Et.
    destruct (add_locals m ids fid (ty_params t) _) as [[m1 ids1] args] eqn:E1.
    destruct (types_insert m1 _) as [m2 tid] eqn:E2.
    destruct (add_locals m2 ids1 fid _ _) as [[m3 ids3] ls] eqn:E3.
    pinv E as x Ex. destruct x as [[m4 ids4] rest]. inversion E; subst; clear E.
    eapply IH; [|exact Ex].
    rewrite (ParsedWf.add_locals_types _ _ _ _ _ _ _ _ E3).
    eapply types_insert_TU; [|exact E2].
    rewrite (ParsedWf.add_locals_types _ _ _ _ _ _ _ _ E1). exact W.
Qed.

(* renaming: the items change only in [ty_name], which the key equality ignores *)
Lemma TU_rename (s : aset mtype) (a' : tarena mtype) :
  TU s -> length (items a') = length (items (Arena.arena s)) -> items_eqv (items (Arena.arena s)) (items a') ->
  TU {| Arena.arena := a'; already := already s |}.
Proof.
  intros [C U] L Q.
  assert (Back : forall i v', nth_error (items a') i = Some v' ->
                   exists v, nth_error (items (Arena.arena s)) i = Some v /\ mtype_eqb v v' = true).
  { intros i v' H. destruct (nth_error (items (Arena.arena s)) i) as [v|] eqn:E.
    - exists v. split; [reflexivity|]. destruct (Q _ _ E) as [v2 [H2 He]]. rewrite H in H2. inversion H2; subst. exact He.
    - apply nth_error_None in E. assert (i < length (items a')) by (apply nth_error_Some; congruence). lia. }
  split; wcbn.
  - intros id v' H. destruct (Back _ _ H) as [v [Hv He]]. destruct (C _ _ Hv) as [k [Hin Hk]].
    exists k. split; [exact Hin|]. eapply mtype_eqb_trans; eauto.
  - intros id1 id2 v1 v2 H1 H2 He. destruct (Back _ _ H1) as [u1 [Hu1 He1]]. destruct (Back _ _ H2) as [u2 [Hu2 He2]].
    apply (U id1 id2 u1 u2 Hu1 Hu2). eapply mtype_eqb_trans; [exact He1|]. eapply mtype_eqb_trans; [exact He|].
    apply mtype_eqb_sym. exact He2.
Qed.

Lemma parse_names_TU m ids n : TU (m_types m) -> TU (m_types (parse_names m ids n)).
Proof.
  intros W. unfold parse_names.
  set (m1 := match wn_module n with Some s => set_name m (Some s) | None => m end).
  assert (H1 : m_types m1 = m_types m) by (subst m1; destruct (wn_module n); reflexivity).
  clearbody m1. cbv zeta.
  match goal with |- context [apply_local_names ?mm _ _] => set (m2 := mm) end.
  assert (H2 : m_types m2 = m_types m) by (subst m2; wcbn; exact H1).
  clearbody m2. clear H1.
  destruct (apply_local_names m2 ids (wn_locals n)) as [m3|] eqn:E3; [|rewrite H2; exact W].
  apply ParsedWf.apply_local_names_types in E3. wcbn.
  assert (W3 : TU (m_types m3)) by (rewrite E3, H2; exact W).
  destruct (apply_names_types_eqv (ii_types ids) (wn_types n) (Arena.arena (m_types m3))) as [D Q].
  apply TU_rename; [exact W3| |exact Q]. apply (apply_names_shape set_type_name).
Qed.

Theorem parseM_TU : forall cf ver w s, parseM cf ver w = POk s -> TU (m_types (ps_m s)).
Proof.
  intros cf ver w s E. unfold parseM in E. pinv E as s1 E1.
  apply parse_secs_TU in E1; [|apply TU_empty].
  destruct (_ <? _)%N; [discriminate|].
  pinv E as x Ex. destruct x as [[m1 ids1] prepared]. pinv E as m2 E2. inversion E; subst; clear E. wcbn.
  apply prepare_bodies_TU in Ex; [|exact E1].
  apply ParsedWf.install_bodies_types in E2.
  assert (H : forall l m, TU (m_types m) -> TU (m_types (fold_left (fun m n => parse_names m ids1 n) l m))).
  { induction l as [|n r IH]; intros m W; cbn [fold_left]; [exact W|]. apply IH, parse_names_TU, W. }
  apply H. rewrite E2. exact Ex.
Qed.

(* --- every non-entry type of the arena is denoted by some input type index *)
Definition TE (s : aset mtype) (tys : list N) : Prop :=
  forall id v, nth_error (items (Arena.arena s)) id = Some v -> ty_entry v = false -> In (N.of_nat id) tys.

Lemma nth_snoc {A} (l : list A) t i v : nth_error (l ++ [t]) i = Some v ->
  nth_error l i = Some v \/ (i = length l /\ v = t).
Proof.
  intros H. destruct (Nat.lt_ge_cases i (length l)) as [L|L].
  - rewrite nth_error_app1 in H by exact L. left; exact H.
  - rewrite nth_error_app2 in H by exact L. right.
    destruct (i - length l) as [|d] eqn:Ed; cbn in H; [|destruct d; discriminate].
    inversion H; subst. split; [lia|reflexivity].
Qed.

Lemma types_insert_TE m t m1 id tys : TE (m_types m) tys -> types_insert m t = (m1, id) ->
  TE (m_types m1) (tys ++ [id]) /\ (ty_entry t = true -> TE (m_types m1) tys).
Proof.
  intros H E. unfold types_insert, insert in E.
  destruct (lookup mtype_eqb (already (m_types m)) t) as [i|] eqn:El.
  - inversion E; subst; clear E. wcbn. split; [|intros _; exact H].
    intros k v Hk He. apply in_or_app. left. eapply H; eauto.
  - wcbn. inversion E; subst; clear E. wcbn. unfold next_id. split.
    + intros k v Hk He. apply in_or_app. apply nth_snoc in Hk. destruct Hk as [Hk|[-> ->]].
      * left. eapply H; eauto.
      * right. left. reflexivity.
    + intros Ht k v Hk He. apply nth_snoc in Hk. destruct Hk as [Hk|[-> ->]]; [eapply H; eauto|congruence].
Qed.

Lemma parse_types_TE : forall ts m ids m' ids', TE (m_types m) (ii_types ids) -> parse_types m ids ts = (m', ids') ->
  TE (m_types m') (ii_types ids').
Proof.
  induction ts as [|[ps rs] r IH]; intros m ids m' ids' W E; cbn [parse_types] in E.
  - inversion E; subst. exact W.
  - destruct (types_insert m _) as [m1 id] eqn:Et. eapply IH; [|exact E]. wcbn. exact (proj1 (types_insert_TE _ _ _ _ _ W Et)).
Qed.
Lemma parse_sec_TE s sec s' : TE (m_types (ps_m s)) (ii_types (ps_ids s)) -> parse_sec s sec = POk s' ->
  TE (m_types (ps_m s')) (ii_types (ps_ids s')).
Proof.
  intros W E. destruct sec; try (pose proof (parse_sec_frameB _ _ _ E) as [[E1 E2] _]; rewrite E1, E2; exact W).
  unfold parse_sec in E. destruct (parse_types _ _ _) as [m1 i1] eqn:Ep. inversion E; subst; clear E. wcbn.
  eapply parse_types_TE; eauto.
Qed.
Lemma parse_secs_TE : forall w s s', TE (m_types (ps_m s)) (ii_types (ps_ids s)) -> parse_secs s w = POk s' ->
  TE (m_types (ps_m s')) (ii_types (ps_ids s')).
Proof.
  induction w as [|x r IH]; intros s s' H E; cbn [parse_secs] in E.
  - inversion E; subst; exact H.
  - pinv E as s1 E1. eapply IH; [|exact E]. eapply parse_sec_TE; eauto.
Qed.
Lemma prepare_bodies_TE : forall bs m ids ni i m' ids' ps,
  TE (m_types m) (ii_types ids) -> prepare_bodies m ids ni i bs = POk (m', ids', ps) -> TE (m_types m') (ii_types ids').
Proof.
  induction bs as [|b r IH]; intros m ids ni i m' ids' ps W E; cbn [prepare_bodies] in E.
  - inversion E; subst; exact W.
  - pinv E as fid Efid. pinv E as f Ef. destruct (fn_kind f); try discriminate.
    pinv E as t Et.
    destruct (add_locals m ids fid (ty_params t) _) as [[m1 ids1] args] eqn:E1.
    destruct (types_insert m1 _) as [m2 tid] eqn:E2.
    destruct (add_locals m2 ids1 fid _ _) as [[m3 ids3] ls] eqn:E3.
    pinv E as x Ex. destruct x as [[m4 ids4] rest]. inversion E; subst; clear E.
    eapply IH; [|exact Ex].
    rewrite (ParsedWf.add_locals_types _ _ _ _ _ _ _ _ E3), (add_locals_ty _ _ _ _ _ _ _ _ E3).
    refine (proj2 (types_insert_TE _ _ _ _ _ _ E2) eq_refl).
    rewrite (ParsedWf.add_locals_types _ _ _ _ _ _ _ _ E1), (add_locals_ty _ _ _ _ _ _ _ _ E1). exact W.
Qed.
Lemma TE_rename (s : aset mtype) (a' : tarena mtype) tys :
  TE s tys -> length (items a') = length (items (Arena.arena s)) -> items_eqv (items (Arena.arena s)) (items a') ->
  TE {| Arena.arena := a'; already := already s |} tys.
Proof.
  intros H L Q id v' Hv He. wcbn.
  destruct (nth_error (items (Arena.arena s)) id) as [v|] eqn:E.
  - destruct (Q _ _ E) as [v2 [H2 Hq]]. rewrite Hv in H2. inversion H2; subst v2. apply mtype_eqb_spec in Hq.
    apply (H id v E). destruct Hq as (_ & _ & Hq). congruence.
  - apply nth_error_None in E. assert (id < length (items a')) by (apply nth_error_Some; congruence). lia.
Qed.
Lemma parse_names_TE m ids n tys : TE (m_types m) tys -> TE (m_types (parse_names m ids n)) tys.
Proof.
  intros W. unfold parse_names.
  set (m1 := match wn_module n with Some s => set_name m (Some s) | None => m end).
  assert (H1 : m_types m1 = m_types m) by (subst m1; destruct (wn_module n); reflexivity).
  clearbody m1. cbv zeta.
  match goal with |- context [apply_local_names ?mm _ _] => set (m2 := mm) end.
  assert (H2 : m_types m2 = m_types m) by (subst m2; wcbn; exact H1).
  clearbody m2. clear H1.
  destruct (apply_local_names m2 ids (wn_locals n)) as [m3|] eqn:E3; [|rewrite H2; exact W].
  apply ParsedWf.apply_local_names_types in E3. wcbn.
  assert (W3 : TE (m_types m3) tys) by (rewrite E3, H2; exact W).
  destruct (apply_names_types_eqv (ii_types ids) (wn_types n) (Arena.arena (m_types m3))) as [D Q].
  apply TE_rename; [exact W3| |exact Q]. apply (apply_names_shape set_type_name).
Qed.
Theorem parseM_TE : forall cf ver w s, parseM cf ver w = POk s -> TE (m_types (ps_m s)) (ii_types (ps_ids s)).
Proof.
  intros cf ver w s E. unfold parseM in E. pinv E as s1 E1.
  apply parse_secs_TE in E1; [|intros id v H; destruct id; discriminate].
  destruct (_ <? _)%N; [discriminate|].
  pinv E as x Ex. destruct x as [[m1 ids1] prepared]. pinv E as m2 E2. inversion E; subst; clear E. wcbn.
  apply prepare_bodies_TE in Ex; [|exact E1].
  apply ParsedWf.install_bodies_types in E2.
  assert (H : forall l m, TE (m_types m) (ii_types ids1) -> TE (m_types (fold_left (fun m n => parse_names m ids1 n) l m)) (ii_types ids1)).
  { induction l as [|n r IH]; intros m W; cbn [fold_left]; [exact W|]. apply IH, parse_names_TE, W. }
  apply H. rewrite E2. exact Ex.
Qed.

Section Types.
  Variables (cf : config) (ver : list N) (w : wmod) (s : pst) (ilen : wins -> N) (dw : list wsec) (e : emitted).
  Hypothesis HP : parseM cf ver w = POk s.
  Hypothesis HE : emitM (ps_m s) ilen dw = Ok e.
  (* the input types, in type-index order *)
  Let T := flat_map types_of w.

  Lemma n_in_types : n_in s S_type = length T.
  Proof. destruct (parseM_sigs _ _ _ _ HP) as [[HL _] _]. exact HL. Qed.

  Lemma rho_type_unfold i j : rho s e S_type i = Ok j <->
    exists id, nth_error (ii_types (ps_ids s)) (N.to_nat i) = Some id /\ get_idx (em_x2i e) S_type id = Ok j.
  Proof.
    unfold WV.Proofs.Structure.rho. cbn [ids_space]. destruct (nth_error (ii_types (ps_ids s)) (N.to_nat i)) as [id|].
    - split; [intros H; exists id; auto|intros [id' [E H]]; inversion E; subst; exact H].
    - split; [discriminate|intros [id' [E _]]; discriminate].
  Qed.

  (* input type index i denotes a live non-entry type with the input's params and results *)
  Lemma type_denotes i t : nth_error T (N.to_nat i) = Some t ->
    exists id ty, nth_error (ii_types (ps_ids s)) (N.to_nat i) = Some id /\
                  nth_error (items (Arena.arena (m_types (ps_m s)))) (N.to_nat id) = Some ty /\ ty_sig ty t /\
                  types_get (ps_m s) id = Some ty.
  Proof.
    intros Hi. destruct (parseM_sigs _ _ _ _ HP) as [[_ HT] _]. destruct (HT _ _ Hi) as (id & ty & H1 & H2 & H3).
    exists id, ty. split; [exact H1|]. split; [exact H2|]. split; [exact H3|].
    unfold types_get. rewrite aset_index_nodead; [exact H2|]. apply (parseM_types_wf _ _ _ _ HP).
  Qed.

  (* totality: every input type index has an emitted index *)
  Theorem rho_type_total i : N.to_nat i < n_in s S_type ->
    exists j, rho s e S_type i = Ok j /\ N.to_nat j < length (emitted_ids e S_type).
  Proof.
    rewrite n_in_types. intros Hi. destruct (nth_error T (N.to_nat i)) as [t|] eqn:Et; [|apply nth_error_None in Et; lia].
    destruct (type_denotes i t Et) as (id & ty & H1 & H2 & (_ & _ & H3) & H4).
    pose proof (emitted_types_In _ _ _ H4 H3) as Hin.
    destruct (emit_order_types _ _ _ _ HE) as [Eo Wt]. rewrite <- Eo in Hin.
    apply In_nth_error in Hin. destruct Hin as [k Hk]. exists (N.of_nat k). split.
    - apply rho_type_unfold. exists id. split; [exact H1|]. apply (x2i_positions _ S_type _ _ Wt). rewrite Nat2N.id. exact Hk.
    - rewrite Nat2N.id. unfold emitted_ids. cbn [space_map]. apply nth_error_Some. congruence.
  Qed.
  Theorem rho_type_defined i : (exists j, rho s e S_type i = Ok j) <-> N.to_nat i < n_in s S_type.
  Proof.
    split.
    - intros [j H]. apply rho_type_unfold in H. destruct H as [id [H _]]. unfold n_in. cbn [ids_space].
      apply nth_error_Some. congruence.
    - intros H. destruct (rho_type_total i H) as [j [Hj _]]. eauto.
  Qed.

  (* de-duplication: two input type indices get the same emitted index exactly when the input types have the same
     params and results *)
  Theorem rho_type_identifies i i' t t' j j' :
    nth_error T (N.to_nat i) = Some t -> nth_error T (N.to_nat i') = Some t' ->
    rho s e S_type i = Ok j -> rho s e S_type i' = Ok j' -> (j = j' <-> t = t').
  Proof.
    intros Ht Ht' Hj Hj'.
    destruct (type_denotes i t Ht) as (id & ty & H1 & H2 & (P1 & P2 & P3) & _).
    destruct (type_denotes i' t' Ht') as (id' & ty' & H1' & H2' & (P1' & P2' & P3') & _).
    apply rho_type_unfold in Hj. destruct Hj as (x & X1 & Hj). rewrite H1 in X1. inversion X1; subst x; clear X1.
    apply rho_type_unfold in Hj'. destruct Hj' as (x & X1 & Hj'). rewrite H1' in X1. inversion X1; subst x; clear X1.
    destruct (emit_order_types _ _ _ _ HE) as [_ Wt]. split.
    - intros <-. assert (id = id') by (eapply (lookup_inj _ id id' j Wt); [exact Hj|exact Hj']). subst id'.
      rewrite H2 in H2'. inversion H2'; subst ty'. destruct t, t'. cbn [fst snd] in *. congruence.
    - intros <-. destruct (parseM_TU _ _ _ _ HP) as [_ U].
      assert (E : N.to_nat id = N.to_nat id').
      { apply (U _ _ ty ty' H2 H2'). apply mtype_eqb_spec. repeat split; congruence. }
      apply N2Nat.inj in E. subst id'. congruence.
  Qed.
  Corollary rho_type_eq_iff i i' t t' :
    nth_error T (N.to_nat i) = Some t -> nth_error T (N.to_nat i') = Some t' ->
    (rho s e S_type i = rho s e S_type i' <-> t = t').
  Proof.
    intros Ht Ht'.
    assert (Li : N.to_nat i < n_in s S_type) by (rewrite n_in_types; apply nth_error_Some; congruence).
    assert (Li' : N.to_nat i' < n_in s S_type) by (rewrite n_in_types; apply nth_error_Some; congruence).
    destruct (rho_type_total i Li) as [j [Hj _]]. destruct (rho_type_total i' Li') as [j' [Hj' _]].
    rewrite <- (rho_type_identifies i i' t t' j j' Ht Ht' Hj Hj'). rewrite Hj, Hj'. split; [intros H; inversion H; reflexivity|intros ->; reflexivity].
  Qed.
  (* surjectivity: every emitted type index is the image of an input type index *)
  Theorem rho_type_onto j : N.to_nat j < length (emitted_ids e S_type) ->
    exists i, N.to_nat i < n_in s S_type /\ rho s e S_type i = Ok j.
  Proof.
    intros Hj. destruct (emit_order_types _ _ _ _ HE) as [Eo Wt].
    destruct (nth_error (emitted_ids e S_type) (N.to_nat j)) as [id|] eqn:En; [|apply nth_error_None in En; lia].
    assert (Hin : In id (map fst (emitted_types (ps_m s)))).
    { rewrite <- Eo. eapply nth_error_In. exact En. }
    apply in_map_iff in Hin. destruct Hin as [[id0 ty] [E0 Hin]]. cbn [fst] in E0. subst id0.
    unfold emitted_types in Hin. eapply Permutation_in in Hin; [|apply sort_types_perm].
    apply filter_In in Hin. destruct Hin as [Hin Hne]. cbn [snd] in Hne. unfold live_types, aset_iter in Hin.
    apply (aiter_In_nth (Arena.arena (m_types (ps_m s)))) in Hin.
    assert (Hent : ty_entry ty = false) by (destruct (ty_entry ty); [discriminate|reflexivity]).
    pose proof (parseM_TE _ _ _ _ HP _ _ Hin Hent) as Hi. rewrite N2Nat.id in Hi.
    apply In_nth_error in Hi. destruct Hi as [k Hk]. exists (N.of_nat k). rewrite Nat2N.id. split.
    - unfold n_in. cbn [ids_space]. apply nth_error_Some. congruence.
    - apply rho_type_unfold. exists id. rewrite Nat2N.id. split; [exact Hk|].
      apply (x2i_positions _ S_type _ _ Wt). exact En.
  Qed.
End Types.

(* ====================================================================================== *)
(* 6. tables / memories / globals: when is rho the identity?                                *)
(* ====================================================================================== *)
(* 6a. a parser invariant: the import records list the imported entities of each kind in increasing id order *)
Definition tmg (S : space) : Prop := S = S_table \/ S = S_memory \/ S = S_global.
Definition ISort (m : wir) : Prop := forall S, tmg S ->
  StronglySorted N.lt (imp_ids S (items (m_imports m))) /\
  forall x, In x (imp_ids S (items (m_imports m))) -> N.to_nat x < arena_len m S.

Lemma sorted_app (l1 l2 : list N) : StronglySorted N.lt l1 -> StronglySorted N.lt l2 ->
  (forall x y, In x l1 -> In y l2 -> (x < y)%N) -> StronglySorted N.lt (l1 ++ l2).
Proof.
  induction l1 as [|a l1 IH]; cbn [app]; intros H1 H2 Hc; [exact H2|].
  inversion H1 as [|? ? Hs Hall]; subst. constructor.
  - apply IH; [exact Hs|exact H2|]. intros x y Hx Hy. apply Hc; [right; exact Hx|exact Hy].
  - apply Forall_app. split; [exact Hall|]. apply Forall_forall. intros y Hy. apply Hc; [left; reflexivity|exact Hy].
Qed.
Lemma sorted_seq : forall c a, StronglySorted N.lt (map N.of_nat (seq a c)).
Proof.
  induction c as [|c IH]; intros a; cbn [seq map]; constructor; [apply IH|].
  apply Forall_forall. intros y Hy. apply in_map_iff in Hy. destruct Hy as [k [<- Hk]]. apply in_seq in Hk. lia.
Qed.
Lemma iota_sorted n : StronglySorted N.lt (iota n).
Proof. apply sorted_seq. Qed.

Lemma sorted_ext : forall l l' : list N, StronglySorted N.lt l -> StronglySorted N.lt l' ->
  (forall x, In x l <-> In x l') -> l = l'.
Proof.
  induction l as [|a l IH]; intros [|b l'] H H' E.
  - reflexivity.
  - exfalso. apply (proj2 (E b)). left; reflexivity.
  - exfalso. apply (proj1 (E a)). left; reflexivity.
  - inversion H as [|? ? Hs Ha]; subst. inversion H' as [|? ? Hs' Hb]; subst. rewrite Forall_forall in Ha, Hb.
    assert (a = b).
    { destruct (proj1 (E a) (or_introl eq_refl)) as [Hab|Hab]; [congruence|].
      destruct (proj2 (E b) (or_introl eq_refl)) as [Hba|Hba]; [congruence|].
      apply Hb in Hab. apply Ha in Hba. lia. }
    subst b. f_equal. apply IH; [exact Hs|exact Hs'|]. intros x. split; intros Hx.
    + destruct (proj1 (E x) (or_intror Hx)) as [<-|Hx']; [|exact Hx']. apply Ha in Hx. lia.
    + destruct (proj2 (E x) (or_intror Hx)) as [<-|Hx']; [|exact Hx']. apply Hb in Hx. lia.
Qed.
Lemma sorted_full_iota (l : list N) n : StronglySorted N.lt l -> (forall x, In x l <-> N.to_nat x < n) -> l = iota n.
Proof. intros H F. apply sorted_ext; [exact H|apply iota_sorted|]. intros x. rewrite F. symmetry. apply iota_In. Qed.

Lemma imp_ids_app S a b : imp_ids S (a ++ b) = imp_ids S a ++ imp_ids S b.
Proof. unfold imp_ids. apply flat_map_app. Qed.

Lemma imp_ids_entries : forall l nf nt nm ng base,
  imp_ids S_table (imp_entries nf nt nm ng l) = map N.of_nat (seq nt (length (imp_tables base l))) /\
  imp_ids S_memory (imp_entries nf nt nm ng l) = map N.of_nat (seq nm (length (imp_mems base l))) /\
  imp_ids S_global (imp_entries nf nt nm ng l) = map N.of_nat (seq ng (length (imp_globals base l))).
Proof.
  unfold imp_ids. induction l as [|i r IH]; intros nf nt nm ng base; [repeat split; reflexivity|].
  cbn [imp_entries imp_tables imp_mems imp_globals]. destruct (wi_kind i).
  - destruct (IH (S nf) nt nm ng (S base)) as (A & B & C). cbn [flat_map imp_id im_kind app]. auto.
  - destruct (IH nf (S nt) nm ng (S base)) as (A & B & C). cbn [flat_map imp_id im_kind app length seq map].
    rewrite A. auto.
  - destruct (IH nf nt (S nm) ng (S base)) as (A & B & C). cbn [flat_map imp_id im_kind app length seq map].
    rewrite B. auto.
  - destruct (IH nf nt nm (S ng) (S base)) as (A & B & C). cbn [flat_map imp_id im_kind app length seq map].
    rewrite C. auto.
Qed.

Lemma arena_len_K m : arena_len m S_table = length (K_tables m) /\ arena_len m S_memory = length (K_mems m) /\
  arena_len m S_global = length (K_globals m).
Proof. unfold K_tables, K_mems, K_globals. rewrite !map_length. auto. Qed.

Lemma ISort_step_new (old : list N) (lo c hi : nat) :
  StronglySorted N.lt old -> (forall x, In x old -> N.to_nat x < lo) -> hi = lo + c ->
  StronglySorted N.lt (old ++ map N.of_nat (seq lo c)) /\
  forall x, In x (old ++ map N.of_nat (seq lo c)) -> N.to_nat x < hi.
Proof.
  intros Hs Hb ->. split.
  - apply sorted_app; [exact Hs|apply sorted_seq|]. intros x y Hx Hy. apply Hb in Hx. apply in_map_iff in Hy.
    destruct Hy as [k [<- Hk]]. apply in_seq in Hk. lia.
  - intros x Hx. apply in_app_or in Hx. destruct Hx as [Hx|Hx]; [apply Hb in Hx; lia|].
    apply in_map_iff in Hx. destruct Hx as [k [<- Hk]]. apply in_seq in Hk. rewrite Nat2N.id. lia.
Qed.

Lemma parse_sec_ISort s sec s' : ids_consistent (ps_m s) (ps_ids s) -> ISort (ps_m s) -> parse_sec s sec = POk s' ->
  ISort (ps_m s').
Proof.
  intros Hid IS E.
  destruct (parse_sec_TM _ _ _ E) as [T1 T2]. destruct (parse_sec_GES _ _ _ Hid E) as (G1 & _ & _).
  assert (Mono : forall S, tmg S -> arena_len (ps_m s) S <= arena_len (ps_m s') S).
  { destruct (arena_len_K (ps_m s)) as (A1 & A2 & A3). destruct (arena_len_K (ps_m s')) as (B1 & B2 & B3).
    intros S [-> | [-> | ->] ]; [rewrite A1, B1, T1|rewrite A2, B2, T2|rewrite A3, B3, G1]; rewrite app_length; lia. }
  pose proof (parse_sec_FT _ _ _ E) as (_ & _ & M).
  destruct sec; try (intros S HS; rewrite M; destruct (IS S HS) as [I1 I2]; split; [exact I1|];
                     intros x Hx; specialize (I2 x Hx); specialize (Mono S HS); lia).
  clear M T1 T2 G1 Mono.
  unfold parse_sec in E. pinv E as x Ex. destruct x as [m1 i1]. inversion E; subst; clear E. wcbn.
  match type of Ex with parse_imports _ _ ?l0 = _ => set (l := l0) in * end.
  apply parse_imports_spec in Ex. cbv zeta in Ex. destruct Ex as (E1 & E2 & E3 & _ & E5 & _).
  destruct (imp_ids_entries l (length (items (m_funcs (ps_m s)))) (length (items (m_tables (ps_m s))))
              (length (items (m_memories (ps_m s)))) (length (items (m_globals (ps_m s))))
              (length (items (m_imports (ps_m s))))) as (A & B & C).
  intros S HS. destruct (IS S HS) as [I1 I2]. rewrite E5, imp_ids_app.
  destruct HS as [-> | [-> | ->] ]; cbn [arena_len] in *.
  - rewrite A. apply ISort_step_new; [exact I1|exact I2|]. rewrite E1, app_length. reflexivity.
  - rewrite B. apply ISort_step_new; [exact I1|exact I2|]. rewrite E2, app_length. reflexivity.
  - rewrite C. apply ISort_step_new; [exact I1|exact I2|]. rewrite E3, app_length. reflexivity.
Qed.
Lemma parse_secs_ISort : forall w s s', ids_consistent (ps_m s) (ps_ids s) -> ISort (ps_m s) -> parse_secs s w = POk s' ->
  ISort (ps_m s').
Proof.
  induction w as [|x r IH]; intros s s' Hid H E; cbn [parse_secs] in E.
  - inversion E; subst; exact H.
  - pinv E as s1 E1. eapply IH; [|eapply parse_sec_ISort; eauto|exact E]. eapply parse_sec_idc; eauto.
Qed.
Theorem parseM_ISort cf ver w s : parseM cf ver w = POk s -> ISort (ps_m s).
Proof.
  intros E. destruct (parseM_KK _ _ _ _ E) as [s1 [E1 EK]].
  assert (I1 : ISort (ps_m s1)).
  { apply (parse_secs_ISort w (pst0 cf) s1 (idc_empty cf)); [|exact E1]. intros S _. split; [constructor|intros x []]. }
  unfold KK in EK. injection EK; intros Kd Ke Kg Km Kt _ _ Ki.
  destruct (arena_len_K (ps_m s)) as (A1 & A2 & A3). destruct (arena_len_K (ps_m s1)) as (B1 & B2 & B3).
  intros S HS. rewrite Ki. destruct (I1 S HS) as [J1 J2]. split; [exact J1|]. intros x Hx. specialize (J2 x Hx).
  destruct HS as [-> | [-> | ->] ]; [rewrite A1, Kt, <- B1|rewrite A2, Km, <- B2|rewrite A3, Kg, <- B3]; exact J2.
Qed.

(* 6b. arena-level condition: every imported entity sits before every defined one *)
Definition imp_flag (m : wir) (S : space) (k : nat) : option bool :=
  match S with
  | S_table => option_map (fun t => isS (tb_import t)) (nth_error (items (m_tables m)) k)
  | S_memory => option_map (fun t => isS (me_import t)) (nth_error (items (m_memories m)) k)
  | S_global => option_map (fun g => match gl_kind g with GK_Import _ => true | GK_Local _ => false end)
                           (nth_error (items (m_globals m)) k)
  | _ => None
  end.
Definition imports_first (m : wir) (S : space) : Prop :=
  forall a b, imp_flag m S a = Some true -> imp_flag m S b = Some false -> a < b.

(* the emission order, per space *)
Theorem emitted_ids_shape m ilen dw e : emitM m ilen dw = Ok e ->
  exists fs, used_local_functions m = Ok fs /\
    emitted_ids e S_func = imported_funcs m ++ map fst fs /\
    emitted_ids e S_table = imported_tables m ++ map fst (local_tables m) /\
    emitted_ids e S_memory = imported_memories m ++ map fst (local_memories m) /\
    emitted_ids e S_global = imported_globals m ++ map gid (local_globals m) /\
    emitted_ids e S_elem = map fst (aiter (m_elements m)) /\
    emitted_ids e S_data = map fst (aiter (m_data m)) /\
    emitted_ids e S_type = map fst (emitted_types m).
Proof.
  intros HE. destruct (emitM_x2i _ _ _ _ HE) as (fs & Hfs & Xty & Xf & Xt & Xm & Xg & Xe & Xd).
  exists fs. split; [exact Hfs|]. unfold emitted_ids. cbn [space_map].
  rewrite Xty, Xf, Xt, Xm, Xg, Xe, Xd, !number_fst. repeat split; reflexivity.
Qed.

Section Identity.
  Variables (cf : config) (ver : list N) (w : wmod) (s : pst) (ilen : wins -> N) (dw : list wsec) (e : emitted).
  Hypothesis HP : parseM cf ver w = POk s.
  Hypothesis HE : emitM (ps_m s) ilen dw = Ok e.

  Lemma live_imports_items : live_imports (ps_m s) = items (m_imports (ps_m s)).
  Proof.
    pose proof (parseM_ids _ _ _ _ HP) as I. unfold ids_consistent in I. decompose [and] I. clear I.
    apply aiter_snd_nodead. assumption.
  Qed.

  Lemma marked_flag S x : tmg S -> marked (ps_m s) (S, x) -> imp_flag (ps_m s) S (N.to_nat x) = Some true.
  Proof.
    intros HS M. unfold marked in M. destruct HS as [-> | [-> | ->] ]; cbn [fst snd imp_flag] in *;
      destruct M as [v [Hv Hp]]; apply Structure.aget_nth in Hv; rewrite Hv; cbn [option_map].
    - destruct (tb_import v); [reflexivity|congruence].
    - destruct (me_import v); [reflexivity|congruence].
    - unfold is_imp_gl in Hp. destruct (gl_kind v); [reflexivity|destruct Hp].
  Qed.

  Theorem rho_tmg_identity S : tmg S -> imports_first (ps_m s) S ->
    forall i, N.to_nat i < n_in s S -> rho s e S i = Ok i.
  Proof.
    intros HS IF.
    assert (HT : S <> S_type) by (destruct HS as [-> | [-> | ->] ]; discriminate).
    assert (HL : S <> S_local) by (destruct HS as [-> | [-> | ->] ]; discriminate).
    apply (rho_identity_iff _ _ _ _ _ _ _ HP HE S HT HL).
    apply sorted_full_iota; [|intros x; apply (emitted_full _ _ _ _ _ _ _ HP HE S x HT HL)].
    destruct (emitted_ids_shape _ _ _ _ HE) as (fs & _ & _ & Ht & Hm & Hg & _).
    pose proof (parsed_imports_wf _ _ _ _ HP) as IW. destruct (parseM_ISort _ _ _ _ HP S HS) as [Srt _].
    rewrite <- live_imports_items in Srt.
    assert (Cross : forall (loc : list N),
              (forall y, In y loc -> imp_flag (ps_m s) S (N.to_nat y) = Some false) -> StronglySorted N.lt loc ->
              StronglySorted N.lt (imp_ids S (live_imports (ps_m s)) ++ loc)).
    { intros loc Hloc Sl. apply sorted_app; [exact Srt|exact Sl|]. intros x y Hx Hy.
      apply (imp_ids_marked _ S x IW) in Hx. apply (marked_flag S x HS) in Hx. specialize (IF _ _ Hx (Hloc y Hy)). lia. }
    destruct HS as [-> | [-> | ->] ].
    - rewrite Ht. apply Cross.
      + intros y Hy. apply in_map_iff in Hy. destruct Hy as [[y' v] [Ey Hy]]. cbn [fst] in Ey. subst y'. apply filter_In in Hy.
        destruct Hy as [Hy Hk]. cbn [snd] in Hk. apply aiter_aget, Structure.aget_nth in Hy. cbn [imp_flag]. rewrite Hy. cbn [option_map].
        destruct (tb_import v); [discriminate|reflexivity].
      + apply sorted_map_filter, aiter_sorted.
    - rewrite Hm. apply Cross.
      + intros y Hy. apply in_map_iff in Hy. destruct Hy as [[y' v] [Ey Hy]]. cbn [fst] in Ey. subst y'. apply filter_In in Hy.
        destruct Hy as [Hy Hk]. cbn [snd] in Hk. apply aiter_aget, Structure.aget_nth in Hy. cbn [imp_flag]. rewrite Hy. cbn [option_map].
        destruct (me_import v); [discriminate|reflexivity].
      + apply sorted_map_filter, aiter_sorted.
    - rewrite Hg. apply Cross.
      + intros y Hy. rewrite local_globals_ids in Hy.
        apply in_map_iff in Hy. destruct Hy as [[y' v] [Ey Hy]]. cbn [fst] in Ey. subst y'. apply filter_In in Hy.
        destruct Hy as [Hy Hk]. cbn [snd] in Hk. apply aiter_aget, Structure.aget_nth in Hy. cbn [imp_flag]. rewrite Hy. cbn [option_map].
        destruct (gl_kind v); [discriminate|reflexivity].
      + apply local_globals_sorted.
  Qed.
End Identity.

(* 6c. stream-level condition: the import payloads come before the payloads that define entities of the space *)
Definition defines (S : space) (sec : wsec) : bool :=
  match S, sec with
  | S_table, S_Tables _ => true | S_memory, S_Mems _ => true | S_global, S_Globals _ => true | _, _ => false
  end.
Definition imports_then_defs (S : space) (w : wmod) : Prop :=
  exists w1 w2, w = w1 ++ w2 /\ Forall (fun sec => defines S sec = false) w1 /\ Forall (fun sec => imports_of sec = []) w2.

Lemma split_first {X} (f : X -> bool) (A B : list X) :
  Forall (fun x => f x = true) A -> Forall (fun x => f x = false) B ->
  forall a b, option_map f (nth_error (A ++ B) a) = Some true -> option_map f (nth_error (A ++ B) b) = Some false -> a < b.
Proof.
  intros HA HB a b Ha Hb. rewrite Forall_forall in HA, HB.
  assert (La : a < length A).
  { destruct (Nat.lt_ge_cases a (length A)) as [L|L]; [exact L|]. rewrite nth_error_app2 in Ha by exact L.
    destruct (nth_error B (a - length A)) as [x|] eqn:E; [|discriminate]. apply nth_error_In in E. apply HB in E.
    cbn in Ha. congruence. }
  assert (Lb : length A <= b).
  { destruct (Nat.lt_ge_cases b (length A)) as [L|L]; [|exact L]. rewrite nth_error_app1 in Hb by exact L.
    destruct (nth_error A b) as [x|] eqn:E; [|discriminate]. apply nth_error_In in E. apply HA in E.
    cbn in Hb. congruence. }
  lia.
Qed.

Lemma imp_flag_K m k :
  imp_flag m S_table k = option_map snd (nth_error (K_tables m) k) /\
  imp_flag m S_memory k = option_map snd (nth_error (K_mems m) k) /\
  imp_flag m S_global k = option_map (fun c => match snd c with None => true | Some _ => false end) (nth_error (K_globals m) k).
Proof.
  unfold K_tables, K_mems, K_globals. cbn [imp_flag]. rewrite !nth_error_map. repeat split.
  - destruct (nth_error (items (m_tables m)) k); reflexivity.
  - destruct (nth_error (items (m_memories m)) k); reflexivity.
  - destruct (nth_error (items (m_globals m)) k) as [g|]; [|reflexivity]. cbn [option_map gcore snd]. destruct (gl_kind g); reflexivity.
Qed.

Theorem stream_imports_first cf ver w s S : parseM cf ver w = POk s -> tmg S -> imports_then_defs S w ->
  imports_first (ps_m s) S.
Proof.
  intros HP HS (w1 & w2 & -> & F1 & F2). destruct (parseM_tables _ _ _ _ HP) as [Kt Km]. destruct (parseM_GES _ _ _ _ HP) as (Kg & _ & _).
  rewrite flat_map_app in Kt, Km, Kg. rewrite Forall_forall in F1, F2.
  intros a b Ha Hb. destruct (imp_flag_K (ps_m s) a) as (A1 & A2 & A3). destruct (imp_flag_K (ps_m s) b) as (B1 & B2 & B3).
  destruct HS as [-> | [-> | ->] ].
  - rewrite A1, Kt in Ha. rewrite B1, Kt in Hb. refine (split_first snd _ _ _ _ a b Ha Hb); apply Forall_forall; intros c Hc;
      apply in_flat_map in Hc; destruct Hc as [sec [Hs Hc]].
    + specialize (F1 _ Hs). destruct sec; cbn [defines sec_tables] in *; try (destruct Hc; fail); try discriminate.
      apply in_map_iff in Hc. destruct Hc as [t [<- _]]. reflexivity.
    + specialize (F2 _ Hs). destruct sec; cbn [imports_of sec_tables] in *; try (destruct Hc; fail).
      * subst. destruct Hc.
      * apply in_map_iff in Hc. destruct Hc as [t [<- _]]. reflexivity.
  - rewrite A2, Km in Ha. rewrite B2, Km in Hb. refine (split_first snd _ _ _ _ a b Ha Hb); apply Forall_forall; intros c Hc;
      apply in_flat_map in Hc; destruct Hc as [sec [Hs Hc]].
    + specialize (F1 _ Hs). destruct sec; cbn [defines sec_mems] in *; try (destruct Hc; fail); try discriminate.
      apply in_map_iff in Hc. destruct Hc as [t [<- _]]. reflexivity.
    + specialize (F2 _ Hs). destruct sec; cbn [imports_of sec_mems] in *; try (destruct Hc; fail).
      * subst. destruct Hc.
      * apply in_map_iff in Hc. destruct Hc as [t [<- _]]. reflexivity.
  - rewrite A3, Kg in Ha. rewrite B3, Kg in Hb.
    refine (split_first (fun c : wglobalty * option mconst => match snd c with None => true | Some _ => false end) _ _ _ _ a b Ha Hb);
      apply Forall_forall; intros c Hc; apply in_flat_map in Hc; destruct Hc as [sec [Hs Hc]].
    + specialize (F1 _ Hs). destruct sec; cbn [defines sec_globals] in *; try (destruct Hc; fail); try discriminate.
      apply in_map_iff in Hc. destruct Hc as [t [<- _]]. reflexivity.
    + specialize (F2 _ Hs). destruct sec; cbn [imports_of sec_globals] in *; try (destruct Hc; fail).
      * subst. destruct Hc.
      * apply in_map_iff in Hc. destruct Hc as [t [<- _]]. reflexivity.
Qed.

(* the validator's section order gives the stream condition *)
Lemma c_last_cstep c sec : c_last (cstep c sec) = match rank sec with Some r => r | None => c_last c end.
Proof.
  unfold cstep, set_last. cbn [c_last]. destruct sec; cbn [rank cstep0 c_last]; reflexivity.
Qed.

Lemma valid_no_imports : forall w c, valid_from c w -> 2 <= c_last c -> Forall (fun sec => imports_of sec = []) w.
Proof.
  induction w as [|sec r IH]; intros c V L; [constructor|]. cbn [valid_from] in V. destruct V as [[Vs _] Vr].
  unfold valid_sec_b in Vs. apply andb_true_iff in Vs. destruct Vs as [Ho _]. unfold order_ok in Ho.
  constructor.
  - destruct sec; try reflexivity. cbn [rank] in Ho. apply Nat.ltb_lt in Ho. lia.
  - apply (IH (cstep c sec) Vr). rewrite c_last_cstep. destruct (rank sec) as [k|]; [apply Nat.ltb_lt in Ho; lia|exact L].
Qed.

Theorem valid_imports_then_defs S : tmg S -> forall w c, valid_from c w -> imports_then_defs S w.
Proof.
  intros HS. induction w as [|sec r IH]; intros c V.
  - exists [], []. repeat split; constructor.
  - cbn [valid_from] in V. destruct V as [Vs Vr].
    destruct (defines S sec) eqn:Ed.
    + exists [], (sec :: r). split; [reflexivity|]. split; [constructor|]. constructor.
      * destruct sec; try reflexivity. destruct S; discriminate.
      * apply (valid_no_imports r (cstep c sec) Vr). rewrite c_last_cstep.
        destruct S; destruct sec; try discriminate; cbn [rank]; lia.
    + destruct (IH _ Vr) as (r1 & r2 & -> & F1 & F2). exists (sec :: r1), r2. split; [reflexivity|].
      split; [constructor; assumption|exact F2].
Qed.
Corollary valid_stream_imports_then_defs S w : tmg S -> valid_stream w -> imports_then_defs S w.
Proof. intros HS V. exact (valid_imports_then_defs S HS w ctx0 V). Qed.

(* tables / memories / globals keep their indices on a validator-ordered stream *)
Theorem rho_tmg_identity_stream cf ver w s ilen dw e S :
  parseM cf ver w = POk s -> emitM (ps_m s) ilen dw = Ok e -> tmg S -> imports_then_defs S w ->
  forall i, N.to_nat i < n_in s S -> rho s e S i = Ok i.
Proof.
  intros HP HE HS HW. apply (rho_tmg_identity _ _ _ _ _ _ _ HP HE S HS). eapply stream_imports_first; eauto.
Qed.
Corollary rho_tmg_identity_valid cf ver w s ilen dw e S :
  parseM cf ver w = POk s -> emitM (ps_m s) ilen dw = Ok e -> tmg S -> valid_stream w ->
  forall i, N.to_nat i < n_in s S -> rho s e S i = Ok i.
Proof. intros HP HE HS V. apply (rho_tmg_identity_stream _ _ _ _ _ _ _ S HP HE HS). apply valid_stream_imports_then_defs; assumption. Qed.

(* ====================================================================================== *)
(* 7. functions: rho is the emitter's order (imports in import order, then locals by size)  *)
(* ====================================================================================== *)
Theorem rho_func_order cf ver w s ilen dw e : parseM cf ver w = POk s -> emitM (ps_m s) ilen dw = Ok e ->
  exists fs, used_local_functions (ps_m s) = Ok fs /\
    forall i j, rho s e S_func i = Ok j <->
      N.to_nat i < n_in s S_func /\ nth_error (imported_funcs (ps_m s) ++ map fst fs) (N.to_nat j) = Some i.
Proof.
  intros HP HE. destruct (emitted_ids_shape _ _ _ _ HE) as (fs & Hfs & Hf & _). exists fs. split; [exact Hfs|].
  intros i j. rewrite <- Hf. apply (rho_position _ _ _ _ _ _ _ HP HE); discriminate.
Qed.

(* n_S is the number of input entities: imports + definitions of the stream *)
Theorem n_in_stream cf ver w s : parseM cf ver w = POk s ->
  n_in s S_table = length (flat_map sec_tables w) /\ n_in s S_memory = length (flat_map sec_mems w) /\
  n_in s S_global = length (flat_map sec_globals w) /\ n_in s S_type = length (flat_map types_of w).
Proof.
  intros HP. destruct (parseM_tables _ _ _ _ HP) as [Kt Km]. destruct (parseM_GES _ _ _ _ HP) as (Kg & _ & _).
  destruct (arena_len_K (ps_m s)) as (A1 & A2 & A3).
  rewrite !(n_in_arena _ _ _ _ HP) by discriminate. rewrite A1, A2, A3, Kt, Km, Kg.
  repeat split. destruct (parseM_sigs _ _ _ _ HP) as [[HL _] _]. exact HL.
Qed.

(* the stream premise of 6c is needed: an import payload after the table payload moves the defined table *)
Theorem rho_tmg_identity_refuted :
  exists w s e, parseM default_config [48%N] w = POk s /\ emitM (ps_m s) (fun _ => 1%N) [] = Ok e /\
    N.to_nat 0 < n_in s S_table /\ rho s e S_table 0%N = Ok 1%N.
Proof.
  exists [S_Tables [ex_tb]; S_Imports [{| wi_module := [101%N]; wi_name := [102%N]; wi_kind := WI_Table ex_tb |}]].
  eexists. eexists. split; [vm_compute; reflexivity|]. split; [vm_compute; reflexivity|]. vm_compute. split; [lia|reflexivity].
Qed.

Print Assumptions rho_total.
Print Assumptions rho_onto.
Print Assumptions rho_defined.
Print Assumptions rho_inj.
Print Assumptions rho_perm.
Print Assumptions rho_position.
Print Assumptions rho_identity_iff.
Print Assumptions emitted_full.
Print Assumptions emitted_count.
Print Assumptions rho_elem_id.
Print Assumptions rho_data_id.
Print Assumptions rho_func_order.
Print Assumptions rho_tmg_identity.
Print Assumptions rho_tmg_identity_stream.
Print Assumptions rho_tmg_identity_valid.
Print Assumptions rho_tmg_identity_refuted.
Print Assumptions n_in_stream.
Print Assumptions rho_type_total.
Print Assumptions rho_type_defined.
Print Assumptions rho_type_onto.
Print Assumptions rho_type_identifies.
Print Assumptions rho_type_eq_iff.
Print Assumptions parseM_TU.
Print Assumptions parseM_TE.
Print Assumptions parseM_ISort.
Print Assumptions parsed_imports_wf.
Print Assumptions gc_imports_wf.
Print Assumptions imports_wf_maps.
Print Assumptions emitted_iff_live.
Print Assumptions gc_wf_space.
Print Assumptions gc_emitted_kept.
Print Assumptions rho_gc_inj.
Print Assumptions rho_gc_defined.
Print Assumptions rho_gc_range.
Print Assumptions rho_gc_onto.
Print Assumptions rho_gc_position.
Print Assumptions gc_emitted_count.
