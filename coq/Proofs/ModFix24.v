(* C08, module level: totality of the second trip (the second parse and emit cannot fail), assembled from
   ModFix16 (section-level validity of emitted streams), ModFix22 (emitted bodies are validator-valid), ModFix23 (index
   bounds of emitted segments), TotalityBodies (emission is total on valid streams with in-range references).
   What is not proved stays a VISIBLE premise. *)
From Coq Require Import List NArith ZArith Bool Arith Lia.
Import ListNotations.
From WV Require Import Gen.Ops Model.Common Model.IR Model.Arena Model.ModuleM Model.ParseM Model.EmitM.
From WV Require Import Proofs.Structure Proofs.Structure2 Proofs.ParseTotal.
From WV Require Import Proofs.ModFix.
From WV Require Proofs.TotalityBodies Proofs.ModFix16 Proofs.ModFix22 Proofs.ModFix23 Proofs.ModFix20 Proofs.ModFix25 Proofs.ModFix28.
Local Open Scope nat_scope.

(* the emitted stream satisfies the validator's guarantees, given its section-level (boolean) validity *)
Theorem emitted_stream_valid : forall cf ver w s1 ilen e1,
  valid_stream w -> parseM cf ver w = POk s1 -> emitM (ps_m s1) ilen [] = Ok e1 ->
  valid_from_b ctx0 (em_secs e1) = true -> valid_stream (em_secs e1).
Proof.
  intros cf ver w s1 ilen e1 V P1 E1 Hb. eapply ModFix16.emitted_valid_stream; [exact E1|exact Hb|].
  exact (ModFix22.emitted_bodies_valid_sections _ _ _ _ _ _ V P1 E1).
Qed.

(* the second PARSE cannot fail; premises left: the offset-type clause of active element / data segments *)
Theorem second_parse_total : forall cf ver w s1 ilen e1,
  valid_stream w -> parseM cf ver w = POk s1 -> emitM (ps_m s1) ilen [] = Ok e1 ->
  (forall pre l post we, em_secs e1 = pre ++ S_Elems l :: post -> In we l -> ModFix23.elem_off (ModFix16.ctx_after pre) we) ->
  (forall pre l post d, em_secs e1 = pre ++ S_Data l :: post -> In d l -> ModFix23.data_off (ModFix16.ctx_after pre) d) ->
  valid_stream (em_secs e1) /\ exists s2, parseM cf ver (em_secs e1) = POk s2.
Proof.
  intros cf ver w s1 ilen e1 V P1 E1 EO DO.
  pose proof (ModFix23.emitted_valid_b_full2 _ _ _ _ _ _ P1 E1 EO DO) as Hb.
  pose proof (emitted_stream_valid _ _ _ _ _ _ V P1 E1 Hb) as V1. split; [exact V1|]. apply parse_total. exact V1.
Qed.

(* the whole second trip exists and reproduces the first emit *)
Theorem module_fixpoint_total_partial : forall cf ver w s1 ilen e1,
  valid_stream w -> parseM cf ver w = POk s1 -> emitM (ps_m s1) ilen [] = Ok e1 ->
  (forall pre l post we, em_secs e1 = pre ++ S_Elems l :: post -> In we l -> ModFix23.elem_off (ModFix16.ctx_after pre) we) ->
  (forall pre l post d, em_secs e1 = pre ++ S_Data l :: post -> In d l -> ModFix23.data_off (ModFix16.ctx_after pre) d) ->
  exists s2 e2, parseM cf ver (em_secs e1) = POk s2 /\ emitM (ps_m s2) ilen [] = Ok e2 /\
    ((cf_skip_name cf = true \/ cf_synthetic_names cf = false) -> em_secs e2 = em_secs e1).
Proof.
  intros cf ver w s1 ilen e1 V P1 E1 EO DO.
  destruct (second_parse_total _ _ _ _ _ _ V P1 E1 EO DO) as (V1 & s2 & P2).
  destruct (TotalityBodies.emit_total_after_parse_final_partial cf ver (em_secs e1) s2 ilen [] V1 P2
              (ModFix25.emitted_refs_in_range _ _ _ _ _ _ _ V P1 E1 (ModFix28.counts_kept_3 _ _ _ _ _ _ _ P1 E1 P2))) as [e2 E2].
  exists s2, e2. split; [exact P2|]. split; [exact E2|].
  intros HN. exact (ModFix20.module_fixpoint_partial cf ver w ilen s1 e1 s2 e2 P1 E1 P2 E2 V HN).
Qed.

Print Assumptions emitted_stream_valid.
Print Assumptions second_parse_total.
Print Assumptions module_fixpoint_total_partial.
