(* Theorems for Model/ModBytes.v: the binary format of every section (C04 / C08 / C12).
     1. [codec_*] / [dec_enc_*]  : per item kind, decoding the writer's bytes gives the item back and leaves the rest;
        [dec_enc_sec]            : the same per section kind (positions: [place_sec]);
        [dec_enc_wmod]           : whole modules, for the zero-position reader and for the position reader;
     2. [encodable_total], [emitted_bytes] : the writer is total on streams whose constants / operators are encodable;
     3. [everything_*]           : a module with one of everything, its bytes (as wasm-encoder writes them) and the round trip.
   [wf_wmod] = the ranges LEB128 can carry (u32 indices and counts, u64 limits), names that are UTF-8 and shorter than 2^32,
   operators [wf_imm] (Proofs/Bytes.v), element segments in the form [wire_elem] (Run/ModuleRun.v) produces, custom sections
   classified by their name, section / body / name-subsection sizes that fit a u32. *)
From Coq Require Import List NArith ZArith Bool Lia. Import ListNotations.
From WV Require Import Gen.Ops Model.Common Model.IR Model.Leb Model.Frame Model.Bytes Model.ModuleM Model.ModBytes.
From WV Require Import Proofs.Leb Proofs.Frame Proofs.Bytes.
Local Open Scope N_scope.

(* ------------------------------------------------------------------ generic: item codecs, vectors *)
Definition codec {A} (enc : A -> option (list N)) (dec : list N -> option (A * list N)) (wf : A -> bool) : Prop :=
  forall a bs, enc a = Some bs -> wf a = true -> bs <> [] /\ forall rest, dec (bs ++ rest) = Some (a, rest).

Lemma enc_many_inv {A} (enc : A -> option (list N)) a r bs : enc_many enc (a :: r) = Some bs ->
  exists x y, enc a = Some x /\ enc_many enc r = Some y /\ bs = x ++ y.
Proof.
  cbn [enc_many]. destruct (enc a) as [x|]; [|discriminate]. destruct (enc_many enc r) as [y|]; [|discriminate].
  intros H. apply Some_inj in H. subst. eauto.
Qed.
Lemma dec_enc_many {A} enc dec wf : @codec A enc dec wf -> forall l bs rest, enc_many enc l = Some bs -> forallb wf l = true ->
  dec_many dec (length l) (bs ++ rest) = Some (l, rest) /\ (length l <= length bs)%nat.
Proof.
  intros C. induction l as [|a l IH]; intros bs rest E W.
  - apply Some_inj in E. subst. split; [reflexivity|cbn; lia].
  - destruct (enc_many_inv _ _ _ _ E) as (x & y & Ex & Ey & ->).
    cbn [forallb] in W. apply andb_true_iff in W. destruct W as [Wa Wl].
    destruct (C a x Ex Wa) as [Nx Dx]. destruct (IH y rest Ey Wl) as [Dy Ly].
    split.
    + cbn [length dec_many]. rewrite <- app_assoc, Dx, Dy. reflexivity.
    + rewrite app_length. cbn [length]. destruct x; [congruence|]. cbn [length]. lia.
Qed.
Definition wf_vec {A} (wf : A -> bool) (l : list A) : bool := forallb wf l && u32_ok (lenB l).
Lemma codec_vec {A} enc dec wf : @codec A enc dec wf -> codec (enc_vec enc) (dec_vec dec) (wf_vec wf).
Proof.
  intros C l bs E W. unfold enc_vec in E. destruct (enc_many enc l) as [b|] eqn:Eb; [|discriminate]. apply Some_inj in E. subst bs.
  unfold wf_vec in W. apply andb_true_iff in W. destruct W as [Wl Wn].
  split. { destruct (enc_u_nonempty (lenB l)) as (x & r & ->). discriminate. }
  intros rest. unfold dec_vec. rewrite <- app_assoc, (dec_enc_u _ _ (u32_small _ Wn)).
  destruct (dec_enc_many _ _ _ C l b rest Eb Wl) as [D L].
  assert (G : (lenB (b ++ rest) <? lenB l) = false).
  { apply N.ltb_ge. unfold lenB. rewrite app_length. lia. }
  rewrite G. unfold lenB. rewrite Nat2N.id. exact D.
Qed.
Lemma codec_all {A} enc dec wf a bs : @codec A enc dec wf -> enc a = Some bs -> wf a = true -> all_used (dec bs) = Some a.
Proof. intros C E W. destruct (C a bs E W) as [_ D]. specialize (D []). rewrite app_nil_r in D. rewrite D. reflexivity. Qed.

(* ------------------------------------------------------------------ ranges *)
Definition u64_ok (n : N) : bool := n <? 2 ^ 64.
Lemma u64_small a : u64_ok a = true -> a < 2 ^ 126.
Proof. intros H. apply N.ltb_lt in H. apply (small_of_lt _ 64); [exact H|discriminate]. Qed.
Definition wf_opt_u64 (o : option N) : bool := match o with Some m => u64_ok m | None => true end.
Definition wf_str (s : str) : bool := u32_ok (lenB s) && utf8_ok s.

(* ------------------------------------------------------------------ bytes, names *)
Lemma enc_bytes_nonempty s : enc_bytes s <> [].
Proof. unfold enc_bytes. destruct (enc_u_nonempty (lenB s)) as (x & r & ->). discriminate. Qed.
Lemma dec_enc_bytes s rest : lenB s < 2 ^ 126 -> dec_bytes (enc_bytes s ++ rest) = Some (s, rest).
Proof.
  intros H. unfold dec_bytes, enc_bytes. rewrite <- app_assoc, (dec_enc_u _ _ H).
  change (lenB (s ++ rest)) with (lenN (s ++ rest)). change (lenB s) with (lenN s).
  rewrite lenN_ltb_app, takeN_lenN_app, dropN_lenN_app. reflexivity.
Qed.
Lemma dec_enc_name s rest : wf_str s = true -> dec_name (enc_name s ++ rest) = Some (s, rest).
Proof.
  unfold wf_str. intros W. apply andb_true_iff in W. destruct W as [Wn Wu].
  unfold dec_name, enc_name. rewrite (dec_enc_bytes _ _ (u32_small _ Wn)), Wu. reflexivity.
Qed.

(* ------------------------------------------------------------------ value types, function types *)
Lemma codec_valty : codec enc_valty dec_valty (fun _ => true).
Proof.
  intros t bs E _. unfold enc_valty in E. apply Some_inj in E. subst bs. split; [discriminate|].
  intros rest. cbn [app dec_valty]. rewrite valty_of_byte_byte. reflexivity.
Qed.
Lemma codec_u : codec enc_u_o dec_u_o u32_ok.
Proof.
  intros a bs E W. unfold enc_u_o in E. apply Some_inj in E. subst bs. split.
  - destruct (enc_u_nonempty a) as (x & r & ->). discriminate.
  - intros rest. unfold dec_u_o. apply dec_enc_u. exact (u32_small _ W).
Qed.
Lemma dec_refty_byte e r : dec_refty (refty_byte e :: r) = Some (e, r).
Proof. destruct e; reflexivity. Qed.

Definition wf_valtys (l : list valty) : bool := wf_vec (fun _ => true) l.
Definition wf_functy (t : functy) : bool := wf_valtys (fst t) && wf_valtys (snd t).
Lemma codec_functy : codec enc_functy dec_functy wf_functy.
Proof.
  intros [ps rs] bs E W. unfold enc_functy in E. cbn [fst snd] in E.
  destruct (enc_vec enc_valty ps) as [p|] eqn:Ep; [|discriminate]. destruct (enc_vec enc_valty rs) as [r|] eqn:Er; [|discriminate].
  apply Some_inj in E. subst bs. unfold wf_functy in W. cbn [fst snd] in W. apply andb_true_iff in W. destruct W as [Wp Wr].
  split; [discriminate|]. intros rest.
  destruct (codec_vec _ _ _ codec_valty ps p Ep Wp) as [_ Dp]. destruct (codec_vec _ _ _ codec_valty rs r Er Wr) as [_ Dr].
  cbn [app dec_functy]. change (96 =? 96) with true. cbv iota. rewrite <- app_assoc, Dp, Dr. reflexivity.
Qed.

(* ------------------------------------------------------------------ limits *)
Lemma dec_enc_opt_u o rest : wf_opt_u64 o = true ->
  dec_opt_u (match o with Some _ => true | None => false end) (enc_opt_u o ++ rest) = Some (o, rest).
Proof. destruct o as [m|]; intros W; cbn [dec_opt_u enc_opt_u app]; [rewrite (dec_enc_u _ _ (u64_small _ W))|]; reflexivity. Qed.

Definition wf_table (t : wtable) : bool := u64_ok (wt_init t) && wf_opt_u64 (wt_max t).
Lemma table_flags hm is64 : let fl := b2n hm + 4 * b2n is64 in
  (8 <=? fl) || N.testbit fl 1 = false /\ N.testbit fl 0 = hm /\ N.testbit fl 2 = is64.
Proof. destruct hm, is64; vm_compute; auto. Qed.
Lemma dec_enc_table t rest : wf_table t = true -> dec_table (enc_table t ++ rest) = Some (t, rest).
Proof.
  unfold wf_table. intros W. apply andb_true_iff in W. destruct W as [Wi Wm].
  unfold dec_table, enc_table. cbn [app]. rewrite dec_refty_byte.
  destruct (table_flags (match wt_max t with Some _ => true | None => false end) (wt_64 t)) as (F1 & F2 & F3).
  cbv zeta in F1, F2, F3. rewrite F1, F2, F3. rewrite <- app_assoc, (dec_enc_u _ _ (u64_small _ Wi)), (dec_enc_opt_u _ _ Wm).
  destruct t; reflexivity.
Qed.
Lemma enc_table_nonempty t : enc_table t <> [].
Proof. discriminate. Qed.
Lemma codec_table : codec enc_table_o dec_table wf_table.
Proof.
  intros t bs E W. unfold enc_table_o in E. apply Some_inj in E. subst bs. split; [apply enc_table_nonempty|].
  intros rest. exact (dec_enc_table _ _ W).
Qed.

Definition wf_mem (m : wmem) : bool := u64_ok (wm_init m) && wf_opt_u64 (wm_max m) && wf_opt_u64 (wm_page m).
Lemma mem_flags hm sh is64 pg : let fl := b2n hm + 2 * b2n sh + 4 * b2n is64 + 8 * b2n pg in
  (16 <=? fl) = false /\ N.testbit fl 0 = hm /\ N.testbit fl 1 = sh /\ N.testbit fl 2 = is64 /\ N.testbit fl 3 = pg.
Proof. destruct hm, sh, is64, pg; vm_compute; auto. Qed.
Lemma dec_enc_mem m rest : wf_mem m = true -> dec_mem (enc_mem m ++ rest) = Some (m, rest).
Proof.
  unfold wf_mem. intros W. apply andb_true_iff in W. destruct W as [W Wp]. apply andb_true_iff in W. destruct W as [Wi Wm].
  unfold dec_mem, enc_mem. cbn [app].
  destruct (mem_flags (match wm_max m with Some _ => true | None => false end) (wm_shared m) (wm_64 m)
              (match wm_page m with Some _ => true | None => false end)) as (F1 & F2 & F3 & F4 & F5).
  cbv zeta in F1, F2, F3, F4, F5. rewrite F1, F2, F3, F4, F5.
  rewrite <- !app_assoc, (dec_enc_u _ _ (u64_small _ Wi)), (dec_enc_opt_u _ _ Wm), (dec_enc_opt_u _ _ Wp).
  destruct m; reflexivity.
Qed.
Lemma codec_mem : codec enc_mem_o dec_mem wf_mem.
Proof.
  intros m bs E W. unfold enc_mem_o in E. apply Some_inj in E. subst bs. split; [discriminate|].
  intros rest. exact (dec_enc_mem _ _ W).
Qed.

Lemma globalty_flags mu sh : let fl := b2n mu + 2 * b2n sh in (4 <=? fl) = false /\ N.testbit fl 0 = mu /\ N.testbit fl 1 = sh.
Proof. destruct mu, sh; vm_compute; auto. Qed.
Lemma dec_enc_globalty g rest : dec_globalty (enc_globalty g ++ rest) = Some (g, rest).
Proof.
  unfold dec_globalty, enc_globalty. cbn [app dec_valty]. rewrite valty_of_byte_byte.
  destruct (globalty_flags (wg_mut g) (wg_shared g)) as (F1 & F2 & F3). cbv zeta in F1, F2, F3. rewrite F1, F2, F3.
  destruct g; reflexivity.
Qed.

(* ------------------------------------------------------------------ constant expressions *)
Definition wf_const (c : wconst) : bool := match const_op c with Some i => wf_imm i | None => false end.
Lemma const_op_inv c i : const_op c = Some i -> const_of_ins i = c /\ exists o, i = WOp o.
Proof.
  destruct c as [z|z|n|n|n|g|t|f|]; try destruct t; intros H; cbn [const_op] in H; try discriminate H;
    apply Some_inj in H; subst i; (split; [reflexivity|eexists; reflexivity]).
Qed.
Lemma dec_ins_end rest : dec_ins (11 :: rest) = Some (WEnd, rest).
Proof. reflexivity. Qed.
Lemma codec_const : codec enc_const dec_const wf_const.
Proof.
  intros c bs E W. unfold enc_const in E. unfold wf_const in W.
  destruct (const_op c) as [i|] eqn:Ec; [|discriminate]. destruct (enc_ins i) as [b|] eqn:Ei; [|discriminate].
  apply Some_inj in E. subst bs. destruct (const_op_inv _ _ Ec) as [Hc [o Ho]].
  destruct (enc_ins_nonempty _ _ Ei) as (x & tl & Hb).
  split. { rewrite Hb. discriminate. }
  intros rest. unfold dec_const. rewrite <- app_assoc. cbn [app].
  assert (L : exists f, length (b ++ 11 :: rest) = S (S f)).
  { rewrite Hb. cbn [app length]. rewrite app_length. cbn [length]. rewrite Nat.add_succ_r. eexists. reflexivity. }
  destruct L as [f ->]. cbn [dec_until_end]. rewrite (dec_enc_ins _ _ (11 :: rest) Ei W). subst i. cbv iota.
  rewrite dec_ins_end. cbv iota. rewrite <- Hc. reflexivity.
Qed.

(* ------------------------------------------------------------------ imports, exports, globals *)
Definition wf_importkind (k : wimportkind) : bool :=
  match k with WI_Func t => u32_ok t | WI_Table t => wf_table t | WI_Mem m => wf_mem m | WI_Global _ => true end.
Lemma dec_enc_importkind k rest : wf_importkind k = true -> dec_importkind (enc_importkind k ++ rest) = Some (k, rest).
Proof.
  destruct k as [t|t|m|g]; cbn [wf_importkind enc_importkind app dec_importkind]; intros W.
  - change (0 =? 0) with true. cbv iota. rewrite (dec_enc_u _ _ (u32_small _ W)). reflexivity.
  - change (1 =? 0) with false. change (1 =? 1) with true. cbv iota. rewrite (dec_enc_table _ _ W). reflexivity.
  - change (2 =? 0) with false. change (2 =? 1) with false. change (2 =? 2) with true. cbv iota. rewrite (dec_enc_mem _ _ W). reflexivity.
  - change (3 =? 0) with false. change (3 =? 1) with false. change (3 =? 2) with false. change (3 =? 3) with true. cbv iota.
    rewrite dec_enc_globalty. reflexivity.
Qed.
Definition wf_import (i : wimport) : bool := wf_str (wi_module i) && wf_str (wi_name i) && wf_importkind (wi_kind i).
Lemma codec_import : codec enc_import dec_import wf_import.
Proof.
  intros i bs E W. unfold enc_import in E. apply Some_inj in E. subst bs.
  unfold wf_import in W. apply andb_true_iff in W. destruct W as [W Wk]. apply andb_true_iff in W. destruct W as [Wm Wn].
  split. { intros H. apply app_eq_nil in H. destruct H as [H _]. exact (enc_bytes_nonempty _ H). }
  intros rest. unfold dec_import. rewrite <- !app_assoc, (dec_enc_name _ _ Wm), (dec_enc_name _ _ Wn), (dec_enc_importkind _ _ Wk).
  destruct i; reflexivity.
Qed.
Lemma ekind_of_byte_byte k : ekind_of_byte (ekind_byte k) = Some k.
Proof. destruct k; reflexivity. Qed.
Definition wf_export (e : wexport) : bool := wf_str (we_name e) && u32_ok (we_index e).
Lemma codec_export : codec enc_export dec_export wf_export.
Proof.
  intros e bs E W. unfold enc_export in E. apply Some_inj in E. subst bs.
  unfold wf_export in W. apply andb_true_iff in W. destruct W as [Wn Wi].
  split. { intros H. apply app_eq_nil in H. destruct H as [H _]. exact (enc_bytes_nonempty _ H). }
  intros rest. unfold dec_export. rewrite <- app_assoc, (dec_enc_name _ _ Wn). cbn [app]. rewrite ekind_of_byte_byte.
  rewrite (dec_enc_u _ _ (u32_small _ Wi)). destruct e; reflexivity.
Qed.
Definition wf_global (g : wglobalty * wconst) : bool := wf_const (snd g).
Lemma codec_global : codec enc_global dec_global wf_global.
Proof.
  intros [t c] bs E W. unfold enc_global in E. cbn [fst snd] in E. destruct (enc_const c) as [cb|] eqn:Ec; [|discriminate].
  apply Some_inj in E. subst bs. unfold wf_global in W. cbn [snd] in W. split; [discriminate|].
  intros rest. destruct (codec_const c cb Ec W) as [_ D]. unfold dec_global. rewrite <- app_assoc, dec_enc_globalty, D. reflexivity.
Qed.

(* ------------------------------------------------------------------ element segments *)
Definition wf_opt_u32 (o : option N) : bool := match o with Some m => u32_ok m | None => true end.
Definition elem_canonical (e : welem) : bool :=
  match wel_kind e, wel_items e with WEK_Active None _, WEI_Exprs RT_Externref _ => false | _, _ => true end.
Definition wf_elem (e : welem) : bool :=
  elem_canonical e &&
  match wel_kind e with WEK_Active t o => wf_opt_u32 t && wf_const o | _ => true end &&
  match wel_items e with WEI_Funcs fs => wf_vec u32_ok fs | WEI_Exprs _ es => wf_vec wf_const es end.

Local Arguments dec_vec : simpl never.
Local Arguments dec_const : simpl never.
Local Arguments enc_u : simpl never.
Local Arguments dec_u_o : simpl never.
Local Arguments enc_vec : simpl never.
Local Arguments enc_const : simpl never.
Local Arguments dec_refty : simpl never.
Local Arguments refty_byte : simpl never.

Lemma codec_elem : codec enc_elem dec_elem wf_elem.
Proof.
  intros [k it] bs E W. unfold wf_elem in W. cbn [wel_kind wel_items] in W.
  apply andb_true_iff in W. destruct W as [W Wi]. apply andb_true_iff in W. destruct W as [Wc Wk].
  unfold enc_elem in E. cbn [wel_kind wel_items] in E.
  destruct k as [| |t o]; destruct it as [fs|rt es].
  - cbn in E. destruct (enc_vec enc_u_o fs) as [b|] eqn:Eb; [|discriminate]. apply Some_inj in E. subst bs.
    split; [discriminate|]. intros rest. destruct (codec_vec _ _ _ codec_u fs b Eb Wi) as [_ D].
    unfold dec_elem. cbn. rewrite D. reflexivity.
  - cbn in E. destruct (enc_vec enc_const es) as [b|] eqn:Eb; [|discriminate]. apply Some_inj in E. subst bs.
    split; [discriminate|]. intros rest. destruct (codec_vec _ _ _ codec_const es b Eb Wi) as [_ D].
    unfold dec_elem. cbn. rewrite dec_refty_byte, D. reflexivity.
  - cbn in E. destruct (enc_vec enc_u_o fs) as [b|] eqn:Eb; [|discriminate]. apply Some_inj in E. subst bs.
    split; [discriminate|]. intros rest. destruct (codec_vec _ _ _ codec_u fs b Eb Wi) as [_ D].
    unfold dec_elem. cbn. rewrite D. reflexivity.
  - cbn in E. destruct (enc_vec enc_const es) as [b|] eqn:Eb; [|discriminate]. apply Some_inj in E. subst bs.
    split; [discriminate|]. intros rest. destruct (codec_vec _ _ _ codec_const es b Eb Wi) as [_ D].
    unfold dec_elem. cbn. rewrite dec_refty_byte, D. reflexivity.
  - apply andb_true_iff in Wk. destruct Wk as [Wt Wo].
    destruct (enc_const o) as [ob|] eqn:Eo; [|discriminate]. destruct (codec_const o ob Eo Wo) as [_ Do].
    destruct (enc_vec enc_u_o fs) as [b|] eqn:Eb; [|destruct t; discriminate]. destruct (codec_vec _ _ _ codec_u fs b Eb Wi) as [_ D].
    destruct t as [t|]; cbn in E; apply Some_inj in E; subst bs; (split; [discriminate|]); intros rest; unfold dec_elem; cbn.
    + rewrite <- !app_assoc, (dec_enc_u _ _ (u32_small _ Wt)), Do. cbn. rewrite D. reflexivity.
    + rewrite <- !app_assoc, Do. cbn. rewrite D. reflexivity.
  - apply andb_true_iff in Wk. destruct Wk as [Wt Wo].
    destruct (enc_const o) as [ob|] eqn:Eo; [|discriminate]. destruct (codec_const o ob Eo Wo) as [_ Do].
    destruct (enc_vec enc_const es) as [b|] eqn:Eb; [|destruct t, rt; discriminate]. destruct (codec_vec _ _ _ codec_const es b Eb Wi) as [_ D].
    destruct t as [t|]; [|destruct rt; [|discriminate Wc]]; cbn in E; apply Some_inj in E; subst bs; (split; [discriminate|]); intros rest; unfold dec_elem; cbn.
    + rewrite <- !app_assoc, (dec_enc_u _ _ (u32_small _ Wt)), Do. cbn. rewrite dec_refty_byte, D. reflexivity.
    + rewrite <- !app_assoc, Do. cbn. rewrite D. reflexivity.
Qed.

Local Arguments dec_vec : simpl never.
Local Arguments dec_const : simpl never.
Local Arguments enc_u : simpl never.
Local Arguments enc_const : simpl never.
Local Arguments dec_bytes : simpl never.
Local Arguments enc_bytes : simpl never.

(* ------------------------------------------------------------------ data segments *)
Definition wf_data (d : wdata) : bool :=
  match wd_kind d with WDK_Passive => true | WDK_Active m o => u32_ok m && wf_const o end && u32_ok (lenB (wd_bytes d)).
Lemma codec_data : codec enc_data dec_data wf_data.
Proof.
  intros [k b] bs E W. unfold wf_data in W. cbn [wd_kind wd_bytes] in W. apply andb_true_iff in W. destruct W as [Wk Wb].
  unfold enc_data in E. cbn [wd_kind wd_bytes] in E. pose proof (dec_enc_bytes b) as Db. specialize (fun r => Db r (u32_small _ Wb)).
  destruct k as [|m o].
  - apply Some_inj in E. subst bs. split; [discriminate|]. intros rest. unfold dec_data. cbn. rewrite Db. reflexivity.
  - apply andb_true_iff in Wk. destruct Wk as [Wm Wo].
    destruct (enc_const o) as [ob|] eqn:Eo; [|discriminate]. destruct (codec_const o ob Eo Wo) as [_ Do].
    apply Some_inj in E. subst bs. destruct (m =? 0) eqn:Em.
    + apply N.eqb_eq in Em. subst m. split; [discriminate|]. intros rest. unfold dec_data. cbn.
      rewrite <- !app_assoc, Do, Db. reflexivity.
    + split; [discriminate|]. intros rest. unfold dec_data. cbn.
      rewrite <- !app_assoc, (dec_enc_u _ _ (u32_small _ Wm)), Do, Db. reflexivity.
Qed.

Local Arguments dec_vec : simpl never.
Local Arguments enc_u : simpl never.
Local Arguments enc_vec : simpl never.

(* ------------------------------------------------------------------ producers *)
Definition wf_pvalue (v : str * str) : bool := wf_str (fst v) && wf_str (snd v).
Lemma codec_pvalue : codec enc_pvalue dec_pvalue wf_pvalue.
Proof.
  intros [n v] bs E W. unfold enc_pvalue in E. apply Some_inj in E. subst bs. cbn [fst snd].
  unfold wf_pvalue in W. cbn [fst snd] in W. apply andb_true_iff in W. destruct W as [Wn Wv].
  split. { intros H. apply app_eq_nil in H. destruct H as [H _]. exact (enc_bytes_nonempty _ H). }
  intros rest. unfold dec_pvalue. rewrite <- app_assoc, (dec_enc_name _ _ Wn), (dec_enc_name _ _ Wv). reflexivity.
Qed.
Definition wf_pfield (f : str * list (str * str)) : bool := wf_str (fst f) && field_name_ok (fst f) && wf_vec wf_pvalue (snd f).
Lemma codec_pfield : codec enc_pfield dec_pfield wf_pfield.
Proof.
  intros [n vs] bs E W. unfold enc_pfield in E. cbn [fst snd] in E. destruct (enc_vec enc_pvalue vs) as [b|] eqn:Eb; [|discriminate].
  apply Some_inj in E. subst bs. unfold wf_pfield in W. cbn [fst snd] in W.
  apply andb_true_iff in W. destruct W as [W Wv]. apply andb_true_iff in W. destruct W as [Wn Wf].
  split. { intros H. apply app_eq_nil in H. destruct H as [H _]. exact (enc_bytes_nonempty _ H). }
  intros rest. destruct (codec_vec _ _ _ codec_pvalue vs b Eb Wv) as [_ D].
  unfold dec_pfield. rewrite <- app_assoc, (dec_enc_name _ _ Wn), Wf, D. reflexivity.
Qed.
Definition wf_producers (p : wproducers) : bool := wf_vec wf_pfield p.
Theorem dec_enc_producers p b : enc_producers p = Some b -> wf_producers p = true -> dec_producers b = Some p.
Proof. intros E W. exact (codec_all _ _ _ _ _ (codec_vec _ _ _ codec_pfield) E W). Qed.

(* ------------------------------------------------------------------ the name section *)
Definition wf_naming (p : N * str) : bool := u32_ok (fst p) && wf_str (snd p).
Lemma codec_naming : codec enc_naming dec_naming wf_naming.
Proof.
  intros [i s] bs E W. unfold enc_naming in E. apply Some_inj in E. subst bs. cbn [fst snd].
  unfold wf_naming in W. cbn [fst snd] in W. apply andb_true_iff in W. destruct W as [Wi Ws].
  split. { destruct (enc_u_nonempty i) as (x & r & ->). discriminate. }
  intros rest. unfold dec_naming. rewrite <- app_assoc, (dec_enc_u _ _ (u32_small _ Wi)), (dec_enc_name _ _ Ws). reflexivity.
Qed.
Definition wf_namemap (m : namemap) : bool := wf_vec wf_naming m.
Definition wf_indirect (p : N * namemap) : bool := u32_ok (fst p) && wf_namemap (snd p).
Lemma codec_indirect : codec enc_indirect dec_indirect wf_indirect.
Proof.
  intros [i m] bs E W. unfold enc_indirect, enc_namemap in E. cbn [fst snd] in E. destruct (enc_vec enc_naming m) as [b|] eqn:Eb; [|discriminate].
  apply Some_inj in E. subst bs. unfold wf_indirect in W. cbn [fst snd] in W. apply andb_true_iff in W. destruct W as [Wi Wm].
  split. { destruct (enc_u_nonempty i) as (x & r & ->). discriminate. }
  intros rest. destruct (codec_vec _ _ _ codec_naming m b Eb Wm) as [_ D].
  unfold dec_indirect. rewrite <- app_assoc, (dec_enc_u _ _ (u32_small _ Wi)), D. reflexivity.
Qed.

Lemma skipn_le {A} n (l : list A) : (length (skipn n l) <= length l)%nat.
Proof. rewrite skipn_length. lia. Qed.
Lemma dec_subs_fuel : forall f bs f' a, (length bs <= f)%nat -> (length bs <= f')%nat -> dec_subs f a bs = dec_subs f' a bs.
Proof.
  induction f as [|f IH]; intros bs f' a H H'.
  - destruct bs; [|cbn [length] in H; lia]. destruct f'; reflexivity.
  - destruct bs as [|id r]; [destruct f'; reflexivity|]. destruct f' as [|f']; [cbn [length] in H'; lia|].
    cbn [dec_subs]. destruct (128 <=? id); [reflexivity|]. destruct (dec_u r) as [[n r1]|] eqn:Eu; [|reflexivity].
    destruct (lenB r1 <? n); [reflexivity|]. destruct (set_sub id (takeN n r1) a) as [a'|]; [|reflexivity].
    pose proof (dec_u_len _ _ _ Eu) as L. pose proof (skipn_le (N.to_nat n) r1) as L2. unfold dropN.
    cbn [length] in H, H'. apply IH; lia.
Qed.
(* one subsection *)
Lemma dec_subs_step id c a a' rest : id < 128 -> u32_ok (lenB c) = true -> set_sub id c a = Some a' ->
  dec_subs (length (subsec id c ++ rest)) a (subsec id c ++ rest) = dec_subs (length rest) a' rest.
Proof.
  intros Hid Hc Hs. unfold subsec. cbn [app length dec_subs].
  assert (G : (128 <=? id) = false) by (apply N.leb_gt; exact Hid). rewrite G.
  rewrite <- app_assoc, (dec_enc_u _ _ (u32_small _ Hc)).
  change (lenB (c ++ rest)) with (lenN (c ++ rest)). change (lenB c) with (lenN c).
  rewrite lenN_ltb_app, takeN_lenN_app, dropN_lenN_app, Hs.
  apply dec_subs_fuel; [|lia]. rewrite !app_length. lia.
Qed.
(* an optional subsection, as [enc_map_sub] writes it *)
Definition sub_size_ok {A} (enc : list A -> option (list N)) (m : list A) : bool :=
  match m with [] => true | _ => match enc m with Some c => u32_ok (lenB c) | None => false end end.
Lemma dec_subs_opt {A} (enc : list A -> option (list N)) id (m : list A) s a a' rest :
  enc_map_sub enc id m = Some s -> id < 128 -> sub_size_ok enc m = true ->
  (m = [] -> a' = a) -> (forall c, enc m = Some c -> set_sub id c a = Some a') ->
  dec_subs (length (s ++ rest)) a (s ++ rest) = dec_subs (length rest) a' rest.
Proof.
  intros E Hid Hz H0 H1. destruct m as [|x m].
  - cbn [enc_map_sub] in E. apply Some_inj in E. subst s. rewrite (H0 eq_refl). reflexivity.
  - cbn [enc_map_sub] in E. cbn [sub_size_ok] in Hz. destruct (enc (x :: m)) as [c|] eqn:Ec; [|discriminate].
    apply Some_inj in E. subst s. apply dec_subs_step; [exact Hid|exact Hz|]. apply H1. reflexivity.
Qed.

Definition wf_modname (o : option str) : bool := match o with Some s => wf_str s && u32_ok (lenB (enc_name s)) | None => true end.
Definition wf_nsub (m : namemap) : bool := wf_namemap m && sub_size_ok enc_namemap m.
Definition wf_names (n : wnames) : bool :=
  wf_modname (wn_module n) && wf_nsub (wn_funcs n) &&
  (wf_vec wf_indirect (wn_locals n) && sub_size_ok (enc_vec enc_indirect) (wn_locals n)) &&
  wf_nsub (wn_types n) && wf_nsub (wn_tables n) && wf_nsub (wn_mems n) && wf_nsub (wn_globals n) && wf_nsub (wn_elems n) && wf_nsub (wn_data n).

Lemma namemap_used m c : enc_namemap m = Some c -> wf_namemap m = true -> all_used (dec_vec dec_naming c) = Some m.
Proof. intros E W. exact (codec_all _ _ _ _ _ (codec_vec _ _ _ codec_naming) E W). Qed.

Theorem dec_enc_names n b : enc_names n = Some b -> wf_names n = true -> dec_names b = Some n.
Proof.
  destruct n as [mo fs ls ts tbs ms gs es ds]. unfold wf_names, enc_names. cbn [wn_module wn_funcs wn_locals wn_types wn_tables wn_mems wn_globals wn_elems wn_data].
  intros E W.
  repeat (let H := fresh "W" in apply andb_true_iff in W; destruct W as [W H]).
  destruct (enc_map_sub enc_namemap 1 fs) as [s1|] eqn:E1; [|discriminate].
  destruct (enc_map_sub (enc_vec enc_indirect) 2 ls) as [s2|] eqn:E2; [|discriminate].
  destruct (enc_map_sub enc_namemap 4 ts) as [s4|] eqn:E4; [|discriminate].
  destruct (enc_map_sub enc_namemap 5 tbs) as [s5|] eqn:E5; [|discriminate].
  destruct (enc_map_sub enc_namemap 6 ms) as [s6|] eqn:E6; [|discriminate].
  destruct (enc_map_sub enc_namemap 7 gs) as [s7|] eqn:E7; [|discriminate].
  destruct (enc_map_sub enc_namemap 8 es) as [s8|] eqn:E8; [|discriminate].
  destruct (enc_map_sub enc_namemap 9 ds) as [s9|] eqn:E9; [|discriminate].
  apply Some_inj in E. subst b. unfold dec_names.
  (* the module name *)
  set (a0 := {| wn_module := mo; wn_funcs := []; wn_locals := []; wn_types := []; wn_tables := []; wn_mems := []; wn_globals := [];
                wn_elems := []; wn_data := [] |}).
  assert (S0 : forall rest, dec_subs (length ((match mo with Some s => subsec 0 (enc_name s) | None => [] end) ++ rest)) empty_names
                 ((match mo with Some s => subsec 0 (enc_name s) | None => [] end) ++ rest) = dec_subs (length rest) a0 rest).
  { intros rest. destruct mo as [s|]; [|reflexivity]. cbn [wf_modname] in W. apply andb_true_iff in W. destruct W as [Ws Wz].
    apply dec_subs_step; [reflexivity|exact Wz|]. unfold set_sub. change (0 =? 0) with true. cbv iota.
    pose proof (dec_enc_name s [] Ws) as D. rewrite app_nil_r in D. rewrite D. reflexivity. }
  rewrite S0. clear S0.
  unfold wf_nsub in *.
  repeat match goal with H : _ && _ = true |- _ => apply andb_true_iff in H; destruct H end.
  rewrite (dec_subs_opt enc_namemap 1 fs s1 a0 {| wn_module := mo; wn_funcs := fs; wn_locals := []; wn_types := []; wn_tables := []; wn_mems := []; wn_globals := []; wn_elems := []; wn_data := [] |});
    [|assumption|reflexivity|assumption|intros ->; reflexivity|intros c Ec; unfold set_sub; cbn [N.eqb Pos.eqb]; rewrite (namemap_used _ _ Ec) by assumption; reflexivity].
  rewrite (dec_subs_opt (enc_vec enc_indirect) 2 ls s2 _ {| wn_module := mo; wn_funcs := fs; wn_locals := ls; wn_types := []; wn_tables := []; wn_mems := []; wn_globals := []; wn_elems := []; wn_data := [] |});
    [|assumption|reflexivity|assumption|intros ->; reflexivity|intros c Ec; unfold set_sub; cbn [N.eqb Pos.eqb]; rewrite (codec_all _ _ _ _ _ (codec_vec _ _ _ codec_indirect) Ec) by assumption; reflexivity].
  rewrite (dec_subs_opt enc_namemap 4 ts s4 _ {| wn_module := mo; wn_funcs := fs; wn_locals := ls; wn_types := ts; wn_tables := []; wn_mems := []; wn_globals := []; wn_elems := []; wn_data := [] |});
    [|assumption|reflexivity|assumption|intros ->; reflexivity|intros c Ec; unfold set_sub; cbn [N.eqb Pos.eqb]; rewrite (namemap_used _ _ Ec) by assumption; reflexivity].
  rewrite (dec_subs_opt enc_namemap 5 tbs s5 _ {| wn_module := mo; wn_funcs := fs; wn_locals := ls; wn_types := ts; wn_tables := tbs; wn_mems := []; wn_globals := []; wn_elems := []; wn_data := [] |});
    [|assumption|reflexivity|assumption|intros ->; reflexivity|intros c Ec; unfold set_sub; cbn [N.eqb Pos.eqb]; rewrite (namemap_used _ _ Ec) by assumption; reflexivity].
  rewrite (dec_subs_opt enc_namemap 6 ms s6 _ {| wn_module := mo; wn_funcs := fs; wn_locals := ls; wn_types := ts; wn_tables := tbs; wn_mems := ms; wn_globals := []; wn_elems := []; wn_data := [] |});
    [|assumption|reflexivity|assumption|intros ->; reflexivity|intros c Ec; unfold set_sub; cbn [N.eqb Pos.eqb]; rewrite (namemap_used _ _ Ec) by assumption; reflexivity].
  rewrite (dec_subs_opt enc_namemap 7 gs s7 _ {| wn_module := mo; wn_funcs := fs; wn_locals := ls; wn_types := ts; wn_tables := tbs; wn_mems := ms; wn_globals := gs; wn_elems := []; wn_data := [] |});
    [|assumption|reflexivity|assumption|intros ->; reflexivity|intros c Ec; unfold set_sub; cbn [N.eqb Pos.eqb]; rewrite (namemap_used _ _ Ec) by assumption; reflexivity].
  rewrite (dec_subs_opt enc_namemap 8 es s8 _ {| wn_module := mo; wn_funcs := fs; wn_locals := ls; wn_types := ts; wn_tables := tbs; wn_mems := ms; wn_globals := gs; wn_elems := es; wn_data := [] |});
    [|assumption|reflexivity|assumption|intros ->; reflexivity|intros c Ec; unfold set_sub; cbn [N.eqb Pos.eqb]; rewrite (namemap_used _ _ Ec) by assumption; reflexivity].
  rewrite <- (app_nil_r s9).
  rewrite (dec_subs_opt enc_namemap 9 ds s9 _ {| wn_module := mo; wn_funcs := fs; wn_locals := ls; wn_types := ts; wn_tables := tbs; wn_mems := ms; wn_globals := gs; wn_elems := es; wn_data := ds |});
    [|assumption|reflexivity|assumption|intros ->; reflexivity|intros c Ec; unfold set_sub; cbn [N.eqb Pos.eqb]; rewrite (namemap_used _ _ Ec) by assumption; reflexivity].
  reflexivity.
Qed.

(* ------------------------------------------------------------------ the code section, with positions *)
Lemma lenN_sub_app {A} (a b : list A) : lenN (a ++ b) - lenN b = lenN a.
Proof. rewrite lenN_app. lia. Qed.
Lemma unframe_entries_at_frame : forall bodies cur tl, Forall small bodies ->
  unframe_entries_at (length bodies) cur (flat_map frame_entry bodies ++ tl) = Some (combine (map snd (entry_starts cur bodies)) bodies, tl).
Proof.
  induction bodies as [|b r IH]; intros cur tl S; [reflexivity|].
  inversion S as [|? ? Sb Sr]; subst. cbn [length flat_map unframe_entries_at entry_starts map snd combine].
  change (frame_entry b) with (enc_u (lenN b) ++ b). rewrite <- !app_assoc. rewrite (dec_enc_u _ _ Sb).
  rewrite lenN_ltb_app, takeN_lenN_app, dropN_lenN_app.
  rewrite (lenN_sub_app (enc_u (lenN b)) (b ++ flat_map frame_entry r ++ tl)).
  rewrite (IH _ tl Sr). reflexivity.
Qed.
Lemma map_combine_snd {A B C} (f : B -> C) : forall (a : list A) (b : list B),
  map (fun q => (fst q, f (snd q))) (combine a b) = combine a (map f b).
Proof. induction a as [|x a IH]; intros [|y b]; cbn [combine map fst snd]; [reflexivity..|]. rewrite IH. reflexivity. Qed.

Definition wf_wbody (b : wbody) : bool :=
  wf_body (wb_locals b) (map fst (wb_ops b)) &&
  match enc_body (wb_locals b) (map fst (wb_ops b)) with Some x => u32_ok (lenB x) | None => false end.
Definition wf_bodies (l : list wbody) : bool := forallb wf_wbody l && u32_ok (lenB l).

Lemma enc_bodies_cons b r bytess : enc_bodies (b :: r) = Some bytess ->
  exists x l, enc_body (fst b) (snd b) = Some x /\ enc_bodies r = Some l /\ bytess = x :: l.
Proof.
  cbn [enc_bodies]. destruct (enc_body (fst b) (snd b)) as [x|]; [|discriminate]. destruct (enc_bodies r) as [l|]; [|discriminate].
  intros H. apply Some_inj in H. subst. eauto.
Qed.
Lemma bodies_small : forall l bytess, enc_bodies (map body_of l) = Some bytess -> forallb wf_wbody l = true -> Forall small bytess.
Proof.
  induction l as [|b l IH]; intros bytess E W.
  - apply Some_inj in E. subst. constructor.
  - cbn [map] in E. destruct (enc_bodies_cons _ _ _ E) as (x & r & Ex & Er & ->). cbn [body_of fst snd] in Ex.
    cbn [forallb] in W. apply andb_true_iff in W. destruct W as [Wb Wl]. unfold wf_wbody in Wb. apply andb_true_iff in Wb. destruct Wb as [_ Wz].
    rewrite Ex in Wz. constructor; [exact (u32_small _ Wz)|exact (IH _ Er Wl)].
Qed.
Lemma bodies_pos wp : forall l bytess cur, enc_bodies (map body_of l) = Some bytess -> forallb wf_wbody l = true ->
  exists l', place_bodies wp l (entry_starts cur bytess) = Some l' /\
             dec_bodies_pos wp (combine (map snd (entry_starts cur bytess)) bytess) = Some l'.
Proof.
  induction l as [|b l IH]; intros bytess cur E W.
  - apply Some_inj in E. subst. exists []. split; reflexivity.
  - cbn [map] in E. destruct (enc_bodies_cons _ _ _ E) as (x & r & Ex & Er & ->). cbn [body_of fst snd] in Ex.
    cbn [forallb] in W. apply andb_true_iff in W. destruct W as [Wb Wl]. unfold wf_wbody in Wb. apply andb_true_iff in Wb. destruct Wb as [Wb _].
    cbn [entry_starts map snd combine place_bodies dec_bodies_pos].
    set (s := cur + lenN (enc_u (lenN x))).
    destruct (IH r (s + lenN x) Er Wl) as (l' & Pl & Dl). rewrite Pl, Dl.
    assert (O : exists offs, ins_offsets (lenB (enc_locals (wb_locals b))) (map fst (wb_ops b)) = Some offs).
    { unfold enc_body in Ex. destruct (enc_inss (map fst (wb_ops b))) as [ib|] eqn:Ei; [|discriminate]. exact (ins_offsets_total _ _ _ Ei). }
    destruct O as [offs O]. unfold place_body. rewrite O.
    unfold dec_body_pos. cbn [fst snd]. rewrite (dec_body_at_canonical _ _ _ _ Ex Wb O).
    rewrite (map_combine_snd (fun o => if wp then s + o else 0)).
    eexists. split; reflexivity.
Qed.
Lemma frame_entries_len : forall bodies : list (list N), (length bodies <= length (flat_map frame_entry bodies))%nat.
Proof.
  induction bodies as [|b r IH]; [cbn; lia|]. cbn [flat_map length]. rewrite app_length. unfold frame_entry at 1.
  destruct (enc_u_nonempty (lenN b)) as (x & t & ->). cbn [app length]. lia.
Qed.
Theorem dec_enc_code wp pos l payload : enc_code_sec l = Some payload -> wf_bodies l = true ->
  exists l', place_sec wp pos (S_Code l) = Some (S_Code l') /\ dec_code_sec wp pos payload = Some l'.
Proof.
  unfold enc_code_sec, enc_code, wf_bodies. intros E W. apply andb_true_iff in W. destruct W as [Wl Wn].
  destruct (enc_bodies (map body_of l)) as [bytess|] eqn:Eb; [|discriminate]. apply Some_inj in E. subst payload.
  pose proof (bodies_small _ _ Eb Wl) as S.
  assert (Ln : lenN bytess = lenB l).
  { unfold lenN, lenB. rewrite (enc_bodies_length _ _ Eb), map_length. reflexivity. }
  destruct (bodies_pos wp l bytess (pos + lenN (enc_u (lenN bytess))) Eb Wl) as (l' & Pl & Dl).
  exists l'. split.
  - cbn [place_sec]. rewrite Eb, Pl. reflexivity.
  - unfold dec_code_sec, code_payload. rewrite (dec_enc_u _ (flat_map frame_entry bytess)) by (rewrite Ln; exact (u32_small _ Wn)).
    assert (G : (lenN (flat_map frame_entry bytess) <? lenN bytess) = false).
    { apply N.ltb_ge. unfold lenN. pose proof (frame_entries_len bytess). lia. }
    rewrite G. rewrite lenN_sub_app. unfold lenN at 1. rewrite Nat2N.id.
    rewrite <- (app_nil_r (flat_map frame_entry bytess)), (unframe_entries_at_frame _ _ [] S). exact Dl.
Qed.

(* ------------------------------------------------------------------ custom sections *)
Definition wf_custom (c : wcsec) : bool :=
  match c with
  | CS_Raw n _ => wf_str n && negb (str_eqb n name_str) && negb (str_eqb n producers_str) && negb (starts_with debug_prefix n)
  | CS_Debug n _ => wf_str n && starts_with debug_prefix n
  | CS_Name (Some nm) => wf_names nm
  | CS_Producers (Some p) => wf_producers p
  | CS_Name None | CS_Producers None => false
  end.
Lemma debug_not_name n : starts_with debug_prefix n = true -> str_eqb n name_str = false /\ str_eqb n producers_str = false.
Proof.
  destruct n as [|x n]; [discriminate|]. cbn [starts_with debug_prefix]. intros H. apply andb_true_iff in H. destruct H as [H _].
  apply N.eqb_eq in H. subst x. split; reflexivity.
Qed.
Lemma dec_name_custom n d : wf_str n = true -> dec_name (custom_payload n d) = Some (n, d).
Proof.
  intros W. unfold custom_payload. change (enc_u (lenN n) ++ n ++ d) with (enc_u (lenB n) ++ n ++ d).
  rewrite app_assoc. exact (dec_enc_name n d W).
Qed.
Theorem dec_enc_custom c b : enc_custom c = Some b -> wf_custom c = true -> dec_custom b = Some c.
Proof.
  destruct c as [n d|n d|[nm|]|[p|]]; cbn [enc_custom wf_custom]; intros E W; try discriminate.
  - apply Some_inj in E. subst b. apply andb_true_iff in W. destruct W as [W W0]. apply andb_true_iff in W. destruct W as [W W1].
    apply andb_true_iff in W. destruct W as [W W2]. apply negb_true_iff in W0, W1, W2. unfold dec_custom. rewrite (dec_name_custom _ _ W), W2, W1, W0. reflexivity.
  - apply Some_inj in E. subst b. apply andb_true_iff in W. destruct W as [W Wd]. destruct (debug_not_name _ Wd) as [N1 N2].
    unfold dec_custom. rewrite (dec_name_custom _ _ W), N1, N2, Wd. reflexivity.
  - destruct (enc_names nm) as [x|] eqn:En; [|discriminate]. apply Some_inj in E. subst b.
    unfold dec_custom. rewrite (dec_name_custom name_str x eq_refl). change (str_eqb name_str name_str) with true. cbv iota.
    rewrite (dec_enc_names _ _ En W). reflexivity.
  - destruct (enc_producers p) as [x|] eqn:En; [|discriminate]. apply Some_inj in E. subst b.
    unfold dec_custom. rewrite (dec_name_custom producers_str x eq_refl).
    change (str_eqb producers_str name_str) with false. change (str_eqb producers_str producers_str) with true. cbv iota.
    rewrite (dec_enc_producers _ _ En W). reflexivity.
Qed.

(* ------------------------------------------------------------------ sections *)
Definition wf_sec (s : wsec) : bool :=
  match s with
  | S_Custom c => wf_custom c
  | S_Types ts => wf_vec wf_functy ts
  | S_Imports l => wf_vec wf_import l
  | S_Funcs l => wf_vec u32_ok l
  | S_Tables l => wf_vec wf_table l
  | S_Mems l => wf_vec wf_mem l
  | S_Globals l => wf_vec wf_global l
  | S_Exports l => wf_vec wf_export l
  | S_Start f => u32_ok f
  | S_Elems l => wf_vec wf_elem l
  | S_DataCount n => u32_ok n
  | S_Code l => wf_bodies l
  | S_Data l => wf_vec wf_data l
  end.
Lemma all_used_u n : u32_ok n = true -> all_used (dec_u (enc_u n)) = Some n.
Proof. intros W. pose proof (dec_enc_u n [] (u32_small _ W)) as D. rewrite app_nil_r in D. rewrite D. reflexivity. Qed.
Ltac vec_sec C :=
  match goal with
  | E : match enc_vec ?enc ?l with Some _ => _ | None => None end = Some _, W : wf_vec _ ?l = true |- _ =>
      let b := fresh "b" in let Eb := fresh "Eb" in
      destruct (enc_vec enc l) as [b|] eqn:Eb; [|discriminate E]; inversion E; subst;
      eexists; split; [reflexivity|]; unfold dec_sec; cbn [N.eqb Pos.eqb];
      rewrite (codec_all _ _ _ _ _ (codec_vec _ _ _ C) Eb W); reflexivity
  end.
Theorem dec_enc_sec wp pos s id p : enc_sec s = Some (id, p) -> wf_sec s = true ->
  exists s', place_sec wp pos s = Some s' /\ dec_sec wp pos id p = Some s'.
Proof.
  destruct s as [ts|l|l|l|l|l|l|f|l|n|l|l|c]; cbn [enc_sec wf_sec]; intros E W.
  - vec_sec codec_functy.
  - vec_sec codec_import.
  - vec_sec codec_u.
  - vec_sec codec_table.
  - vec_sec codec_mem.
  - vec_sec codec_global.
  - vec_sec codec_export.
  - inversion E; subst. eexists; split; [reflexivity|]. unfold dec_sec; cbn [N.eqb Pos.eqb]. rewrite (all_used_u _ W). reflexivity.
  - vec_sec codec_elem.
  - inversion E; subst. eexists; split; [reflexivity|]. unfold dec_sec; cbn [N.eqb Pos.eqb]. rewrite (all_used_u _ W). reflexivity.
  - destruct (enc_code_sec l) as [b|] eqn:Eb; [|discriminate]. inversion E; subst.
    destruct (dec_enc_code wp pos l p Eb W) as (l' & Pl & Dl). exists (S_Code l'). split; [exact Pl|].
    unfold dec_sec; cbn [N.eqb Pos.eqb]. rewrite Dl. reflexivity.
  - vec_sec codec_data.
  - destruct (enc_custom c) as [b|] eqn:Eb; [|discriminate]. inversion E; subst. eexists; split; [reflexivity|].
    unfold dec_sec; cbn [N.eqb Pos.eqb]. rewrite (dec_enc_custom _ _ Eb W). reflexivity.
Qed.
(* the sections other than the code section carry no positions: the reader gives the section itself *)
Corollary dec_enc_sec_plain wp pos s id p : enc_sec s = Some (id, p) -> wf_sec s = true ->
  (forall l, s <> S_Code l) -> dec_sec wp pos id p = Some s.
Proof.
  intros E W N. destruct (dec_enc_sec wp pos s id p E W) as (s' & P & D). rewrite D. f_equal.
  destruct s; cbn [place_sec] in P; try (apply Some_inj in P; symmetry; exact P). exfalso. exact (N _ eq_refl).
Qed.

(* ------------------------------------------------------------------ the module *)
Fixpoint sec_starts (cur : N) (secs : list (N * list N)) : list (N * (N * list N)) :=
  match secs with
  | [] => []
  | s :: r => let start := cur + 1 + lenN (enc_u (lenN (snd s))) in (start, (fst s, snd s)) :: sec_starts (start + lenN (snd s)) r
  end.
Lemma unframe_at_frame : forall secs cur fuel, Forall small_sec secs -> (length secs <= fuel)%nat ->
  unframe_at fuel cur (flat_map frame_section secs) = Some (sec_starts cur secs).
Proof.
  induction secs as [|[id p] r IH]; intros cur fuel S F.
  - destruct fuel; reflexivity.
  - destruct fuel as [|fuel]; [cbn [length] in F; lia|]. inversion S as [|? ? Sp Sr]; subst. unfold small_sec, small in Sp. cbn [snd] in Sp.
    cbn [flat_map sec_starts fst snd]. change (frame_section (id, p)) with (id :: enc_u (lenN p) ++ p).
    cbn [app unframe_at]. rewrite <- app_assoc, (dec_enc_u _ _ Sp).
    rewrite lenN_ltb_app, takeN_lenN_app, dropN_lenN_app, (lenN_sub_app (enc_u (lenN p)) (p ++ flat_map frame_section r)).
    rewrite (IH _ fuel Sr) by (cbn [length] in F; lia). reflexivity.
Qed.
Lemma frame_sections_len : forall secs : list (N * list N), (length secs <= length (flat_map frame_section secs))%nat.
Proof. induction secs as [|s r IH]; [cbn; lia|]. cbn [flat_map length]. rewrite app_length. unfold frame_section at 1. cbn [length]. lia. Qed.

Definition sec_size_ok (s : wsec) : bool := match enc_sec s with Some (_, p) => u32_ok (lenB p) | None => false end.
Definition wf_wmod (w : wmod) : bool := forallb wf_sec w && forallb sec_size_ok w.

Lemma enc_secs_cons s r encs : enc_secs (s :: r) = Some encs ->
  exists id p l, enc_sec s = Some (id, p) /\ enc_secs r = Some l /\ encs = (id, p) :: l.
Proof.
  cbn [enc_secs]. destruct (enc_sec s) as [[id p]|]; [|discriminate]. destruct (enc_secs r) as [l|]; [|discriminate].
  intros H. apply Some_inj in H. subst. eauto 6.
Qed.
Lemma secs_small : forall w encs, enc_secs w = Some encs -> forallb sec_size_ok w = true -> Forall small_sec encs.
Proof.
  induction w as [|s w IH]; intros encs E W.
  - apply Some_inj in E. subst. constructor.
  - destruct (enc_secs_cons _ _ _ E) as (id & p & l & Es & El & ->). cbn [forallb] in W. apply andb_true_iff in W. destruct W as [Ws Wl].
    unfold sec_size_ok in Ws. rewrite Es in Ws. constructor; [exact (u32_small _ Ws)|exact (IH _ El Wl)].
Qed.
Lemma dec_secs_place wp : forall w encs cur, enc_secs w = Some encs -> forallb wf_sec w = true ->
  exists w', place_secs wp cur w = Some w' /\ dec_secs wp (sec_starts cur encs) = Some w'.
Proof.
  induction w as [|s w IH]; intros encs cur E W.
  - apply Some_inj in E. subst. exists []. split; reflexivity.
  - destruct (enc_secs_cons _ _ _ E) as (id & p & l & Es & El & ->). cbn [forallb] in W. apply andb_true_iff in W. destruct W as [Ws Wl].
    cbn [place_secs sec_starts dec_secs fst snd]. rewrite Es. cbv zeta.
    destruct (dec_enc_sec wp (cur + 1 + lenN (enc_u (lenN p))) s id p Es Ws) as (s' & Ps & Ds). rewrite Ps, Ds.
    destruct (IH l (cur + 1 + lenN (enc_u (lenN p)) + lenN p) El Wl) as (w' & Pw & Dw). rewrite Pw, Dw. eexists. split; reflexivity.
Qed.

(* MAIN: reading back what the writer wrote, with the positions the writer implies ([place_wmod]) or with all positions 0 *)
Theorem dec_enc_wmod w bs : enc_wmod w = Some bs -> wf_wmod w = true ->
  forall wp, exists w', place_wmod wp w = Some w' /\ dec_wmod wp bs = Some w'.
Proof.
  unfold enc_wmod, wf_wmod. intros E W wp. apply andb_true_iff in W. destruct W as [Ww Wz].
  destruct (enc_secs w) as [encs|] eqn:Ee; [|discriminate]. apply Some_inj in E. subst bs.
  destruct (dec_secs_place wp w encs 8 Ee Ww) as (w' & P & D). exists w'. split; [exact P|].
  unfold dec_wmod, unframe_module_at, frame_module. rewrite firstn8_magic, skipn8_magic, magic_eqb.
  rewrite (unframe_at_frame _ 8 _ (secs_small _ _ Ee Wz)); [exact D|].
  rewrite app_length. pose proof (frame_sections_len encs). lia.
Qed.

(* ---- what [place_wmod] does: nothing but the positions; with [wp = false] they are all 0 ---- *)
Definition zero_body (b : wbody) : wbody := {| wb_locals := wb_locals b; wb_ops := map (fun p => (fst p, 0)) (wb_ops b) |}.
Definition zero_sec (s : wsec) : wsec := match s with S_Code l => S_Code (map zero_body l) | _ => s end.
Definition zero_wmod (w : wmod) : wmod := map zero_sec w.
Lemma ins_offsets_length : forall ops cur l, ins_offsets cur ops = Some l -> length l = length ops.
Proof.
  induction ops as [|i ops IH]; intros cur l H.
  - apply Some_inj in H. subst. reflexivity.
  - cbn [ins_offsets] in H. destruct (ilen_model i) as [n|]; [|discriminate]. destruct (ins_offsets (cur + n) ops) as [l'|] eqn:E; [|discriminate].
    apply Some_inj in H. subst. cbn [length]. rewrite (IH _ _ E). reflexivity.
Qed.
Lemma zero_ops_combine {A B} (f : B -> N) : forall (ops : list (A * N)) (offs : list B), length offs = length ops ->
  map (fun p => (fst p, 0)) (combine (map fst ops) (map f offs)) = map (fun p => (fst p, 0)) ops.
Proof.
  induction ops as [|[i q] ops IH]; intros [|o offs] L; try discriminate L; [reflexivity|].
  cbn [map combine fst]. rewrite IH by (cbn [length] in L; lia). reflexivity.
Qed.
Lemma const_ops_combine {A B} : forall (ops : list (A * N)) (offs : list B), length offs = length ops ->
  combine (map fst ops) (map (fun _ => 0) offs) = map (fun p => (fst p, 0)) ops.
Proof.
  induction ops as [|[i q] ops IH]; intros [|o offs] L; try discriminate L; [reflexivity|].
  cbn [map combine fst]. rewrite IH by (cbn [length] in L; lia). reflexivity.
Qed.
Lemma place_body_zero wp s b b' : place_body wp s b = Some b' -> zero_body b' = zero_body b /\ (wp = false -> b' = zero_body b).
Proof.
  unfold place_body. destruct (ins_offsets _ _) as [offs|] eqn:O; [|discriminate]. intros H. apply Some_inj in H. subst b'.
  pose proof (ins_offsets_length _ _ _ O) as L. rewrite map_length in L. split.
  - unfold zero_body. cbn [wb_locals wb_ops]. rewrite (zero_ops_combine _ _ _ L). reflexivity.
  - intros ->. unfold zero_body. rewrite (const_ops_combine _ _ L). reflexivity.
Qed.
Lemma place_bodies_zero wp : forall l starts l', place_bodies wp l starts = Some l' ->
  map zero_body l' = map zero_body l /\ (wp = false -> l' = map zero_body l).
Proof.
  induction l as [|b l IH]; intros starts l' H.
  - apply Some_inj in H. subst. split; reflexivity.
  - destruct starts as [|[c s] st]; [discriminate|]. cbn [place_bodies] in H.
    destruct (place_body wp s b) as [b'|] eqn:Eb; [|discriminate]. destruct (place_bodies wp l st) as [r'|] eqn:Er; [|discriminate].
    apply Some_inj in H. subst l'. destruct (place_body_zero _ _ _ _ Eb) as [Z1 Z2]. destruct (IH _ _ Er) as [Y1 Y2].
    split; [cbn [map]; rewrite Z1, Y1; reflexivity|]. intros F. cbn [map]. rewrite (Z2 F), (Y2 F). reflexivity.
Qed.
Lemma place_sec_zero wp pos s s' : place_sec wp pos s = Some s' -> zero_sec s' = zero_sec s /\ (wp = false -> s' = zero_sec s).
Proof.
  destruct s; cbn [place_sec]; intros H; try (apply Some_inj in H; subst s'; split; reflexivity).
  destruct (enc_bodies _) as [bytess|]; [|discriminate]. destruct (place_bodies wp bs _) as [l'|] eqn:E; [|discriminate].
  apply Some_inj in H. subst s'. destruct (place_bodies_zero _ _ _ _ E) as [Z1 Z2]. split; [cbn [zero_sec]; rewrite Z1; reflexivity|].
  intros F. cbn [zero_sec]. rewrite (Z2 F). reflexivity.
Qed.
Lemma place_secs_zero wp : forall w cur w', place_secs wp cur w = Some w' -> zero_wmod w' = zero_wmod w /\ (wp = false -> w' = zero_wmod w).
Proof.
  induction w as [|s w IH]; intros cur w' H.
  - apply Some_inj in H. subst. split; reflexivity.
  - cbn [place_secs] in H. destruct (enc_sec s) as [[id p]|]; [|discriminate]. cbv zeta in H.
    destruct (place_sec wp _ s) as [s'|] eqn:Es; [|discriminate]. destruct (place_secs wp _ w) as [r'|] eqn:Er; [|discriminate].
    apply Some_inj in H. subst w'. destruct (place_sec_zero _ _ _ _ Es) as [Z1 Z2]. destruct (IH _ _ Er) as [Y1 Y2].
    unfold zero_wmod in *. split; [cbn [map]; rewrite Z1, Y1; reflexivity|]. intros F. cbn [map]. rewrite (Z2 F), (Y2 F). reflexivity.
Qed.
(* the zero-position reader *)
Theorem dec_enc_wmod_zero w bs : enc_wmod w = Some bs -> wf_wmod w = true -> dec_wmod false bs = Some (zero_wmod w).
Proof.
  intros E W. destruct (dec_enc_wmod w bs E W false) as (w' & P & D). rewrite D. f_equal.
  destruct (place_secs_zero false w 8 w' P) as [_ Z]. exact (Z eq_refl).
Qed.
Corollary dec_enc_wmod_zero_id w bs : enc_wmod w = Some bs -> wf_wmod w = true -> zero_wmod w = w -> dec_wmod false bs = Some w.
Proof. intros E W Z. rewrite (dec_enc_wmod_zero w bs E W), Z. reflexivity. Qed.
(* the position reader: the same stream, every operator at the file offset the writer put it *)
Theorem dec_enc_wmod_pos w bs : enc_wmod w = Some bs -> wf_wmod w = true ->
  exists w', place_wmod true w = Some w' /\ dec_wmod true bs = Some w' /\ zero_wmod w' = zero_wmod w.
Proof.
  intros E W. destruct (dec_enc_wmod w bs E W true) as (w' & P & D). exists w'. split; [exact P|]. split; [exact D|].
  exact (proj1 (place_secs_zero true w 8 w' P)).
Qed.

From WV Require Import Model.EmitM Proofs.CustomsCfg.
From WV Require Proofs.ModFix8.
(* ------------------------------------------------------------------ 2. the writer is total on encodable streams *)
Definition encodable_ins (i : wins) : bool :=
  match i with WOp o => match snd (op_split o) with I_heap (HT_Other _) => false | _ => true end | _ => true end.
Lemma enc_ins_total i : encodable_ins i = true -> exists bs, enc_ins i = Some bs.
Proof.
  destruct i as [o| | | | | | | | |]; intros H; try (eexists; reflexivity).
  cbn [enc_ins]. unfold enc_op. pose proof (covered_all o) as C. unfold covered in C.
  destruct (find_tag (fst (op_split o))) as [row|]; [|discriminate]. cbn [encodable_ins] in H.
  destruct (snd (op_split o)) as [| | | | | | | | | |h| | | |]; try (eexists; reflexivity).
  destruct h; try discriminate H; eexists; reflexivity.
Qed.
Definition encodable_const (c : wconst) : bool := match c with WC_Other => false | _ => true end.
Lemma enc_const_total c : encodable_const c = true -> exists bs, enc_const c = Some bs.
Proof.
  intros H. unfold enc_const. destruct c as [z|z|n|n|n|g|t|f|]; try discriminate H; try destruct t; cbn [const_op];
    match goal with |- context [enc_ins ?i] => destruct (enc_ins_total i eq_refl) as [b ->] end; eexists; reflexivity.
Qed.
Lemma enc_many_total {A} (enc : A -> option (list N)) (ok : A -> bool) : (forall a, ok a = true -> exists bs, enc a = Some bs) ->
  forall l, forallb ok l = true -> exists bs, enc_many enc l = Some bs.
Proof.
  intros T. induction l as [|a l IH]; intros H; [eexists; reflexivity|].
  cbn [forallb] in H. apply andb_true_iff in H. destruct H as [Ha Hl]. destruct (T a Ha) as [x Ex]. destruct (IH Hl) as [y Ey].
  cbn [enc_many]. rewrite Ex, Ey. eexists. reflexivity.
Qed.
Lemma enc_vec_total {A} (enc : A -> option (list N)) (ok : A -> bool) : (forall a, ok a = true -> exists bs, enc a = Some bs) ->
  forall l, forallb ok l = true -> exists bs, enc_vec enc l = Some bs.
Proof. intros T l H. destruct (enc_many_total enc ok T l H) as [b Eb]. unfold enc_vec. rewrite Eb. eexists. reflexivity. Qed.
Lemma forallb_true {A} (l : list A) : forallb (fun _ => true) l = true.
Proof. induction l; [reflexivity|exact IHl]. Qed.
Lemma enc_vec_total_all {A} (enc : A -> option (list N)) : (forall a, exists bs, enc a = Some bs) -> forall l, exists bs, enc_vec enc l = Some bs.
Proof. intros T l. apply (enc_vec_total enc (fun _ => true)); [intros a _; apply T|apply forallb_true]. Qed.

Definition encodable_elem (e : welem) : bool :=
  match wel_kind e with WEK_Active _ o => encodable_const o | _ => true end &&
  match wel_items e with WEI_Exprs _ es => forallb encodable_const es | _ => true end.
Definition encodable_data (d : wdata) : bool := match wd_kind d with WDK_Active _ o => encodable_const o | _ => true end.
Definition encodable_body (b : wbody) : bool := forallb (fun p => encodable_ins (fst p)) (wb_ops b).
(* constants and operators *)
Definition consts_ops_ok (s : wsec) : bool :=
  match s with
  | S_Globals l => forallb (fun g => encodable_const (snd g)) l
  | S_Elems l => forallb encodable_elem l
  | S_Data l => forallb encodable_data l
  | S_Code l => forallb encodable_body l
  | _ => true
  end.
(* an unparsable name / producers section has no canonical bytes *)
Definition parsed_custom (s : wsec) : bool :=
  match s with S_Custom (CS_Name None) | S_Custom (CS_Producers None) => false | _ => true end.
Definition encodable_sec (s : wsec) : bool := consts_ops_ok s && parsed_custom s.
Definition encodable_wmod (w : wmod) : bool := forallb encodable_sec w.

Lemma enc_u_o_total a : exists bs, enc_u_o a = Some bs. Proof. eexists; reflexivity. Qed.
Lemma enc_elem_total e : encodable_elem e = true -> exists bs, enc_elem e = Some bs.
Proof.
  destruct e as [k it]. unfold encodable_elem, enc_elem. cbn [wel_kind wel_items]. intros H. apply andb_true_iff in H. destruct H as [Hk Hi].
  assert (I : forall ty : bool, exists items, match it with
            | WEI_Funcs fs => match enc_vec enc_u_o fs with Some b => Some ((if ty then [0] else []) ++ b) | None => None end
            | WEI_Exprs rt es => match enc_vec enc_const es with Some b => Some ((if ty then [refty_byte rt] else []) ++ b) | None => None end
            end = Some items).
  { intros ty. destruct it as [fs|rt es].
    - destruct (enc_vec_total_all enc_u_o enc_u_o_total fs) as [b ->]. eexists. reflexivity.
    - destruct (enc_vec_total enc_const encodable_const enc_const_total es Hi) as [b ->]. eexists. reflexivity. }
  destruct k as [| |t o].
  - destruct (I true) as [items ->]. eexists. reflexivity.
  - destruct (I true) as [items ->]. eexists. reflexivity.
  - destruct (enc_const_total o Hk) as [ob ->]. destruct t as [t|]; [|destruct it as [fs|[|] es]];
      (destruct (I true) as [items ->] || destruct (I false) as [items ->]); eexists; reflexivity.
Qed.
Lemma enc_data_total d : encodable_data d = true -> exists bs, enc_data d = Some bs.
Proof.
  destruct d as [[|m o] b]; unfold encodable_data, enc_data; cbn [wd_kind wd_bytes]; intros H; [eexists; reflexivity|].
  destruct (enc_const_total o H) as [ob ->]. eexists. reflexivity.
Qed.
Lemma enc_inss_total : forall ops, forallb encodable_ins ops = true -> exists bs, enc_inss ops = Some bs.
Proof.
  induction ops as [|i ops IH]; intros H; [eexists; reflexivity|]. cbn [forallb] in H. apply andb_true_iff in H. destruct H as [Hi Ho].
  destruct (enc_ins_total i Hi) as [a Ea]. destruct (IH Ho) as [b Eb]. cbn [enc_inss]. rewrite Ea, Eb. eexists. reflexivity.
Qed.
Lemma forallb_map_fst {A B} (f : A -> bool) : forall l : list (A * B), forallb f (map fst l) = forallb (fun p => f (fst p)) l.
Proof. induction l as [|x l IH]; [reflexivity|]. cbn [map forallb]. rewrite IH. reflexivity. Qed.
Lemma enc_bodies_total : forall l, forallb encodable_body l = true -> exists bs, enc_bodies (map body_of l) = Some bs.
Proof.
  induction l as [|b l IH]; intros H; [eexists; reflexivity|]. cbn [forallb] in H. apply andb_true_iff in H. destruct H as [Hb Hl].
  destruct (IH Hl) as [r Er]. cbn [map enc_bodies body_of fst snd]. unfold enc_body.
  unfold encodable_body in Hb. rewrite <- (forallb_map_fst encodable_ins) in Hb. destruct (enc_inss_total _ Hb) as [ib ->]. rewrite Er. eexists. reflexivity.
Qed.
Lemma enc_names_total n : exists bs, enc_names n = Some bs.
Proof.
  assert (T1 : forall m, exists c, enc_namemap m = Some c) by (intros m; apply enc_vec_total_all; intros a; eexists; reflexivity).
  assert (T2 : forall m, exists c, enc_vec enc_indirect m = Some c).
  { intros m. apply enc_vec_total_all. intros [i nm]. unfold enc_indirect. cbn [fst snd]. destruct (T1 nm) as [c ->]. eexists. reflexivity. }
  assert (S1 : forall id m, exists s, enc_map_sub enc_namemap id m = Some s).
  { intros id [|x m]; [eexists; reflexivity|]. cbn [enc_map_sub]. destruct (T1 (x :: m)) as [c ->]. eexists. reflexivity. }
  assert (S2 : forall id m, exists s, enc_map_sub (enc_vec enc_indirect) id m = Some s).
  { intros id [|x m]; [eexists; reflexivity|]. cbn [enc_map_sub]. destruct (T2 (x :: m)) as [c ->]. eexists. reflexivity. }
  unfold enc_names.
  destruct (S1 1 (wn_funcs n)) as [s1 ->]. destruct (S2 2 (wn_locals n)) as [s2 ->]. destruct (S1 4 (wn_types n)) as [s4 ->].
  destruct (S1 5 (wn_tables n)) as [s5 ->]. destruct (S1 6 (wn_mems n)) as [s6 ->]. destruct (S1 7 (wn_globals n)) as [s7 ->].
  destruct (S1 8 (wn_elems n)) as [s8 ->]. destruct (S1 9 (wn_data n)) as [s9 ->]. eexists. reflexivity.
Qed.
Lemma enc_producers_total p : exists bs, enc_producers p = Some bs.
Proof.
  apply enc_vec_total_all. intros [n vs]. unfold enc_pfield. cbn [fst snd].
  destruct (enc_vec_total_all enc_pvalue (fun v => ex_intro _ _ eq_refl) vs) as [b ->]. eexists. reflexivity.
Qed.
Lemma enc_sec_total s : encodable_sec s = true -> exists x, enc_sec s = Some x.
Proof.
  unfold encodable_sec. intros H. apply andb_true_iff in H. destruct H as [Hc Hp].
  destruct s as [ts|l|l|l|l|l|l|f|l|n|l|l|c]; cbn [enc_sec consts_ops_ok] in *; try (eexists; reflexivity).
  - destruct (enc_vec_total_all enc_functy) with (l := ts) as [b ->]; [|eexists; reflexivity].
    intros [ps rs]. unfold enc_functy. cbn [fst snd].
    destruct (enc_vec_total_all enc_valty (fun t => ex_intro _ _ eq_refl) ps) as [p ->].
    destruct (enc_vec_total_all enc_valty (fun t => ex_intro _ _ eq_refl) rs) as [r ->]. eexists. reflexivity.
  - destruct (enc_vec_total_all enc_import (fun t => ex_intro _ _ eq_refl) l) as [b ->]. eexists. reflexivity.
  - destruct (enc_vec_total_all enc_u_o enc_u_o_total l) as [b ->]. eexists. reflexivity.
  - destruct (enc_vec_total_all enc_table_o (fun t => ex_intro _ _ eq_refl) l) as [b ->]. eexists. reflexivity.
  - destruct (enc_vec_total_all enc_mem_o (fun t => ex_intro _ _ eq_refl) l) as [b ->]. eexists. reflexivity.
  - destruct (enc_vec_total enc_global (fun g => encodable_const (snd g))) with (l := l) as [b ->]; [|exact Hc|eexists; reflexivity].
    intros [t c] Hg. unfold enc_global. cbn [fst snd] in *. destruct (enc_const_total c Hg) as [cb ->]. eexists. reflexivity.
  - destruct (enc_vec_total_all enc_export (fun t => ex_intro _ _ eq_refl) l) as [b ->]. eexists. reflexivity.
  - destruct (enc_vec_total enc_elem encodable_elem enc_elem_total l Hc) as [b ->]. eexists. reflexivity.
  - unfold enc_code_sec, enc_code. destruct (enc_bodies_total l Hc) as [b ->]. eexists. reflexivity.
  - destruct (enc_vec_total enc_data encodable_data enc_data_total l Hc) as [b ->]. eexists. reflexivity.
  - destruct c as [n d|n d|[nm|]|[p|]]; cbn [enc_custom parsed_custom] in *; try discriminate Hp; try (eexists; reflexivity).
    + destruct (enc_names_total nm) as [b ->]. eexists. reflexivity.
    + destruct (enc_producers_total p) as [b ->]. eexists. reflexivity.
Qed.
Theorem encodable_total w : encodable_wmod w = true -> exists bs, enc_wmod w = Some bs.
Proof.
  unfold encodable_wmod, enc_wmod. intros H.
  assert (E : exists l, enc_secs w = Some l).
  { induction w as [|s w IH]; [eexists; reflexivity|]. cbn [forallb] in H. apply andb_true_iff in H. destruct H as [Hs Hw].
    destruct (enc_sec_total s Hs) as [x Ex]. destruct (IH Hw) as [l El]. cbn [enc_secs]. rewrite Ex, El. eexists. reflexivity. }
  destruct E as [l ->]. eexists. reflexivity.
Qed.

(* what [emitM] emits: its name / producers sections are always parsed ones, so only constants and operators matter *)
Lemma forallb_app' {A} (f : A -> bool) a b : forallb f a = true -> forallb f b = true -> forallb f (a ++ b) = true.
Proof. intros Ha Hb. rewrite forallb_app, Ha, Hb. reflexivity. Qed.
Lemma emitM_customs_parsed m ilen e : emitM m ilen [] = Ok e -> forallb parsed_custom (em_secs e) = true.
Proof.
  intros H. destruct (ModFix8.emitM_shape _ _ _ H) as (front & x & efs & nm & Pf & En & ->).
  apply forallb_app'; [|apply forallb_app'; [|apply forallb_app']].
  - apply forallb_forall. intros s Hs. unfold plain_secs in Pf. rewrite Forall_forall in Pf. specialize (Pf s Hs). destruct s; try reflexivity; discriminate Pf.
  - unfold sec_names in En. destruct (cf_skip_name _); [injection En as <-; reflexivity|].
    destruct (emit_names_shape _ _ _ _ En) as [->|[n ->]]; reflexivity.
  - unfold sec_producers. destruct (cf_skip_producers _); [reflexivity|]. destruct (m_producers m); reflexivity.
  - unfold sec_customs. induction (m_customs m) as [|[c|] cs IH]; [reflexivity| |exact IH].
    cbn [flat_map]. destruct (starts_with_debug (cu_name c)); [exact IH|]. cbn [app forallb parsed_custom]. exact IH.
Qed.
Theorem emitted_bytes m ilen e : emitM m ilen [] = Ok e -> forallb consts_ops_ok (em_secs e) = true ->
  exists bs, enc_wmod (em_secs e) = Some bs.
Proof.
  intros H C. apply encodable_total. unfold encodable_wmod, encodable_sec. pose proof (emitM_customs_parsed _ _ _ H) as P.
  induction (em_secs e) as [|s w IH]; [reflexivity|]. cbn [forallb] in *.
  apply andb_true_iff in C. destruct C as [Cs Cw]. apply andb_true_iff in P. destruct P as [Ps Pw]. rewrite Cs, Ps, (IH Cw Pw). reflexivity.
Qed.

(* the reader's framing is [unframe_module] of Model/Frame.v with the payload offsets added *)
Lemma unframe_at_sections : forall fuel cur bs l, unframe_at fuel cur bs = Some l -> unframe_sections fuel bs = Some (map snd l).
Proof.
  induction fuel as [|f IH]; intros cur bs l H.
  - destruct bs; [|discriminate]. apply Some_inj in H. subst. reflexivity.
  - destruct bs as [|id r]; [apply Some_inj in H; subst; reflexivity|]. cbn [unframe_at] in H. cbn [unframe_sections].
    destruct (dec_u r) as [[n r']|]; [|discriminate]. destruct (lenN r' <? n); [discriminate|].
    destruct (unframe_at f _ (dropN n r')) as [rest|] eqn:E; [|discriminate]. apply Some_inj in H. subst l.
    rewrite (IH _ _ _ E). reflexivity.
Qed.
Theorem unframe_module_at_module bs l : unframe_module_at bs = Some l -> unframe_module bs = Some (map snd l).
Proof. unfold unframe_module_at, unframe_module. destruct (Frame.nlist_eqb _ _); [|discriminate]. apply unframe_at_sections. Qed.

(* ------------------------------------------------------------------ 3. non-vacuity: one of everything
   imports of all four kinds, a table, a 64-bit memory with a maximum, a mutable global initialised by global.get, exports of all
   four kinds, start, four element segments (flag forms 0, 5, 6, 3), data count, two bodies, a passive and an active (memory 1)
   data segment, a raw custom section, a name section (module, function, local and global names), a producers section.
   The bytes are what wasm-encoder 0.214 writes for it (`vh modbytes-example`; the module validates and is one of the inputs of `vh modbytes`); the terms are what src/wmodcoq.rs prints for them. *)
Definition everything_bytes : list N :=
  [0;97;115;109;1;0;0;0;1;10;2;96;0;0;96;2;127;126;1;124;2;39;4;3;101;110;118;1;102;0;1;3;101;110;118;1;116;1;112;1;1;172;2;3;101;110;118;1;109;2;0;1;3;101;110;118;1;103;3;127;0;3;3;2;0;1;4;4;1;111;0;4;5;6;1;5;2;240;162;4;6;14;2;127;1;35;0;11;125;0;67;0;0;192;63;11;7;26;4;3;114;117;110;0;1;3;109;101;109;2;1;3;116;97;98;1;1;4;103;108;111;98;3;1;8;1;1;9;31;4;0;65;0;11;2;0;1;5;112;2;210;2;11;208;112;11;6;1;65;0;11;111;1;208;111;11;3;0;1;2;12;1;2;10;32;2;3;0;1;11;26;2;2;127;1;124;2;64;65;184;126;33;2;65;0;65;3;65;0;252;8;0;0;11;32;4;11;11;14;2;1;3;1;2;3;2;1;66;8;11;2;255;0;0;10;5;104;101;108;108;111;1;2;3;200;0;47;4;110;97;109;101;0;4;3;109;111;100;1;11;2;1;3;111;110;101;2;3;116;119;111;2;9;1;2;2;0;1;97;2;1;120;7;10;1;1;7;99;111;117;110;116;101;114;0;60;9;112;114;111;100;117;99;101;114;115;2;12;112;114;111;99;101;115;115;101;100;45;98;121;2;6;119;97;108;114;117;115;4;48;46;50;49;1;120;0;8;108;97;110;103;117;97;103;101;1;4;82;117;115;116;4;49;46;56;48].
Definition everything : wmod :=
  [S_Types [([], []); ([VT_I32; VT_I64], [VT_F64])];
    S_Imports [{| wi_module := [101;110;118]; wi_name := [102]; wi_kind := WI_Func 1 |}; {| wi_module := [101;110;118]; wi_name := [116]; wi_kind := WI_Table {| wt_elem := RT_Funcref; wt_64 := false; wt_init := 1; wt_max := (Some 300) |} |}; {| wi_module := [101;110;118]; wi_name := [109]; wi_kind := WI_Mem {| wm_64 := false; wm_shared := false; wm_init := 1; wm_max := None; wm_page := None |} |}; {| wi_module := [101;110;118]; wi_name := [103]; wi_kind := WI_Global {| wg_ty := VT_I32; wg_mut := false; wg_shared := false |} |}];
    S_Funcs [0; 1];
    S_Tables [{| wt_elem := RT_Externref; wt_64 := false; wt_init := 4; wt_max := None |}];
    S_Mems [{| wm_64 := true; wm_shared := false; wm_init := 2; wm_max := (Some 70000); wm_page := None |}];
    S_Globals [({| wg_ty := VT_I32; wg_mut := true; wg_shared := false |}, WC_GlobalGet 0); ({| wg_ty := VT_F32; wg_mut := false; wg_shared := false |}, WC_F32 1069547520)];
    S_Exports [{| we_name := [114;117;110]; we_kind := EK_Func; we_index := 1 |}; {| we_name := [109;101;109]; we_kind := EK_Mem; we_index := 1 |}; {| we_name := [116;97;98]; we_kind := EK_Table; we_index := 1 |}; {| we_name := [103;108;111;98]; we_kind := EK_Global; we_index := 1 |}];
    S_Start 1;
    S_Elems [{| wel_kind := WEK_Active None (WC_I32 (0)%Z); wel_items := WEI_Funcs [0; 1] |}; {| wel_kind := WEK_Passive; wel_items := WEI_Exprs RT_Funcref [WC_RefFunc 2; WC_RefNull RT_Funcref] |}; {| wel_kind := WEK_Active (Some 1) (WC_I32 (0)%Z); wel_items := WEI_Exprs RT_Externref [WC_RefNull RT_Externref] |}; {| wel_kind := WEK_Declared; wel_items := WEI_Funcs [2] |}];
    S_DataCount 2;
    S_Code [{| wb_locals := []; wb_ops := [(WNop, 0); (WEnd, 0)] |}; {| wb_locals := [(2, VT_I32); (1, VT_F64)]; wb_ops := [(WBlock BT_Empty, 0); (WOp (W_I32Const (-200)%Z), 0); (WOp (W_LocalSet 2), 0); (WOp (W_I32Const (0)%Z), 0); (WOp (W_I32Const (3)%Z), 0); (WOp (W_I32Const (0)%Z), 0); (WOp (W_MemoryInit 0 0), 0); (WEnd, 0); (WOp (W_LocalGet 4), 0); (WEnd, 0)] |}];
    S_Data [{| wd_kind := WDK_Passive; wd_bytes := [1;2;3] |}; {| wd_kind := WDK_Active 1 (WC_I64 (8)%Z); wd_bytes := [255;0] |}];
    S_Custom (CS_Raw [104;101;108;108;111] [1;2;3;200]);
    S_Custom (CS_Name (Some {| wn_module := (Some [109;111;100]); wn_funcs := [(1, [111;110;101]); (2, [116;119;111])]; wn_locals := [(2, [(0, [97]); (2, [120])])]; wn_types := []; wn_tables := []; wn_mems := []; wn_globals := [(1, [99;111;117;110;116;101;114])]; wn_elems := []; wn_data := [] |}));
    S_Custom (CS_Producers (Some [([112;114;111;99;101;115;115;101;100;45;98;121], [([119;97;108;114;117;115], [48;46;50;49]); ([120], [])]); ([108;97;110;103;117;97;103;101], [([82;117;115;116], [49;46;56;48])])]))].
Definition everything_pos : wmod :=
  [S_Types [([], []); ([VT_I32; VT_I64], [VT_F64])];
    S_Imports [{| wi_module := [101;110;118]; wi_name := [102]; wi_kind := WI_Func 1 |}; {| wi_module := [101;110;118]; wi_name := [116]; wi_kind := WI_Table {| wt_elem := RT_Funcref; wt_64 := false; wt_init := 1; wt_max := (Some 300) |} |}; {| wi_module := [101;110;118]; wi_name := [109]; wi_kind := WI_Mem {| wm_64 := false; wm_shared := false; wm_init := 1; wm_max := None; wm_page := None |} |}; {| wi_module := [101;110;118]; wi_name := [103]; wi_kind := WI_Global {| wg_ty := VT_I32; wg_mut := false; wg_shared := false |} |}];
    S_Funcs [0; 1];
    S_Tables [{| wt_elem := RT_Externref; wt_64 := false; wt_init := 4; wt_max := None |}];
    S_Mems [{| wm_64 := true; wm_shared := false; wm_init := 2; wm_max := (Some 70000); wm_page := None |}];
    S_Globals [({| wg_ty := VT_I32; wg_mut := true; wg_shared := false |}, WC_GlobalGet 0); ({| wg_ty := VT_F32; wg_mut := false; wg_shared := false |}, WC_F32 1069547520)];
    S_Exports [{| we_name := [114;117;110]; we_kind := EK_Func; we_index := 1 |}; {| we_name := [109;101;109]; we_kind := EK_Mem; we_index := 1 |}; {| we_name := [116;97;98]; we_kind := EK_Table; we_index := 1 |}; {| we_name := [103;108;111;98]; we_kind := EK_Global; we_index := 1 |}];
    S_Start 1;
    S_Elems [{| wel_kind := WEK_Active None (WC_I32 (0)%Z); wel_items := WEI_Funcs [0; 1] |}; {| wel_kind := WEK_Passive; wel_items := WEI_Exprs RT_Funcref [WC_RefFunc 2; WC_RefNull RT_Funcref] |}; {| wel_kind := WEK_Active (Some 1) (WC_I32 (0)%Z); wel_items := WEI_Exprs RT_Externref [WC_RefNull RT_Externref] |}; {| wel_kind := WEK_Declared; wel_items := WEI_Funcs [2] |}];
    S_DataCount 2;
    S_Code [{| wb_locals := []; wb_ops := [(WNop, 168); (WEnd, 169)] |}; {| wb_locals := [(2, VT_I32); (1, VT_F64)]; wb_ops := [(WBlock BT_Empty, 176); (WOp (W_I32Const (-200)%Z), 178); (WOp (W_LocalSet 2), 181); (WOp (W_I32Const (0)%Z), 183); (WOp (W_I32Const (3)%Z), 185); (WOp (W_I32Const (0)%Z), 187); (WOp (W_MemoryInit 0 0), 189); (WEnd, 193); (WOp (W_LocalGet 4), 194); (WEnd, 196)] |}];
    S_Data [{| wd_kind := WDK_Passive; wd_bytes := [1;2;3] |}; {| wd_kind := WDK_Active 1 (WC_I64 (8)%Z); wd_bytes := [255;0] |}];
    S_Custom (CS_Raw [104;101;108;108;111] [1;2;3;200]);
    S_Custom (CS_Name (Some {| wn_module := (Some [109;111;100]); wn_funcs := [(1, [111;110;101]); (2, [116;119;111])]; wn_locals := [(2, [(0, [97]); (2, [120])])]; wn_types := []; wn_tables := []; wn_mems := []; wn_globals := [(1, [99;111;117;110;116;101;114])]; wn_elems := []; wn_data := [] |}));
    S_Custom (CS_Producers (Some [([112;114;111;99;101;115;115;101;100;45;98;121], [([119;97;108;114;117;115], [48;46;50;49]); ([120], [])]); ([108;97;110;103;117;97;103;101], [([82;117;115;116], [49;46;56;48])])]))].
Example everything_enc : enc_wmod everything = Some everything_bytes.
Proof. vm_compute. reflexivity. Qed.
Example everything_enc_pos : enc_wmod everything_pos = Some everything_bytes.      (* the writer ignores positions *)
Proof. vm_compute. reflexivity. Qed.
Example everything_wf : wf_wmod everything = true.
Proof. vm_compute. reflexivity. Qed.
Example everything_encodable : encodable_wmod everything = true.
Proof. vm_compute. reflexivity. Qed.
Example everything_dec0 : dec_wmod false everything_bytes = Some everything.
Proof. vm_compute. reflexivity. Qed.
Example everything_dec_pos : dec_wmod true everything_bytes = Some everything_pos.
Proof. vm_compute. reflexivity. Qed.
Example everything_place : place_wmod true everything = Some everything_pos.
Proof. vm_compute. reflexivity. Qed.
(* the same two facts as instances of the theorems (the premises are satisfiable) *)
Example everything_by_theorem : dec_wmod false everything_bytes = Some everything.
Proof. apply (dec_enc_wmod_zero_id everything everything_bytes everything_enc everything_wf). vm_compute. reflexivity. Qed.
Example everything_pos_by_theorem : dec_wmod true everything_bytes = Some everything_pos.
Proof.
  destruct (dec_enc_wmod everything everything_bytes everything_enc everything_wf true) as (w' & P & D).
  rewrite everything_place in P. apply Some_inj in P. subst w'. exact D.
Qed.
(* a non-canonical encoding of a segment the writer normalises: [wf_wmod] refuses it, and the round trip really fails *)
Definition noncanonical : wmod :=
  [S_Elems [{| wel_kind := WEK_Active None (WC_I32 0%Z); wel_items := WEI_Exprs RT_Externref [WC_RefNull RT_Externref] |}]].
Example noncanonical_refuted : wf_wmod noncanonical = false /\
  exists bs w', enc_wmod noncanonical = Some bs /\ dec_wmod false bs = Some w' /\ w' <> noncanonical.
Proof. split; [vm_compute; reflexivity|]. eexists _, _. split; [vm_compute; reflexivity|]. split; [vm_compute; reflexivity|]. discriminate. Qed.

Print Assumptions unframe_module_at_module.
Print Assumptions dec_enc_sec.
Print Assumptions dec_enc_wmod.
Print Assumptions dec_enc_wmod_zero.
Print Assumptions dec_enc_wmod_pos.
Print Assumptions dec_enc_names.
Print Assumptions dec_enc_producers.
Print Assumptions encodable_total.
Print Assumptions emitted_bytes.
Print Assumptions everything_by_theorem.
Print Assumptions noncanonical_refuted.

(* ------------------------------------------------------------------ corollaries *)
(* [wf_wmod] alone is enough: its size conditions already say that every section has bytes *)
Theorem wf_wmod_encodes w : wf_wmod w = true -> exists bs, enc_wmod w = Some bs.
Proof.
  unfold wf_wmod, enc_wmod. intros W. apply andb_true_iff in W. destruct W as [_ Wz].
  assert (E : exists l, enc_secs w = Some l).
  { induction w as [|s w IH]; [eexists; reflexivity|]. cbn [forallb] in Wz. apply andb_true_iff in Wz. destruct Wz as [Ws Ww].
    unfold sec_size_ok in Ws. destruct (enc_sec s) as [[id p]|] eqn:Es; [|discriminate]. destruct (IH Ww) as [l El].
    cbn [enc_secs]. rewrite Es, El. eexists. reflexivity. }
  destruct E as [l ->]. eexists. reflexivity.
Qed.
Theorem wf_wmod_round_trip w : wf_wmod w = true ->
  exists bs, enc_wmod w = Some bs /\ dec_wmod false bs = Some (zero_wmod w) /\
             exists w', place_wmod true w = Some w' /\ dec_wmod true bs = Some w' /\ zero_wmod w' = zero_wmod w.
Proof.
  intros W. destruct (wf_wmod_encodes w W) as [bs E]. exists bs. split; [exact E|]. split; [exact (dec_enc_wmod_zero w bs E W)|].
  exact (dec_enc_wmod_pos w bs E W).
Qed.
(* the writer is injective on well-formed streams, up to operator positions (which it does not write) *)
Theorem enc_wmod_inj w1 w2 bs : enc_wmod w1 = Some bs -> enc_wmod w2 = Some bs -> wf_wmod w1 = true -> wf_wmod w2 = true ->
  zero_wmod w1 = zero_wmod w2.
Proof.
  intros E1 E2 W1 W2. pose proof (dec_enc_wmod_zero _ _ E1 W1) as D1. pose proof (dec_enc_wmod_zero _ _ E2 W2) as D2.
  rewrite D1 in D2. apply Some_inj in D2. exact D2.
Qed.
(* emitM, written out and read back *)
Theorem emitted_bytes_read_back m ilen e : emitM m ilen [] = Ok e -> wf_wmod (em_secs e) = true ->
  exists bs, enc_wmod (em_secs e) = Some bs /\ dec_wmod false bs = Some (zero_wmod (em_secs e)) /\
             exists w', place_wmod true (em_secs e) = Some w' /\ dec_wmod true bs = Some w' /\ zero_wmod w' = zero_wmod (em_secs e).
Proof. intros _ W. exact (wf_wmod_round_trip _ W). Qed.
Print Assumptions wf_wmod_round_trip.
Print Assumptions enc_wmod_inj.
Print Assumptions emitted_bytes_read_back.
