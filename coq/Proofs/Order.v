(* Order-freeness of everything walrus sorts after iterating a hash-ordered container
   (C08: hash iteration order cannot leak into the output), and the local slot assignment facts.
   1. Locals: sort_ids (dedup insertion sort) is a function of the SET of its input.
   2. emit_locals slot assignment: parameters first, distinct slots, coverage, types of the runs.
   3. Generic stable insertion sort (the shape of ins_ty / ins_f / ins_nm), instantiated for
      sort_nm, the function emission order, and sort_types. *)
From Coq Require Import List NArith Arith Lia Bool Permutation Sorted.
Import ListNotations.
From WV Require Import Gen.Ops Model.Common Model.IR Model.Locals Model.ModuleM Model.EmitM.
Local Open Scope nat_scope.

(* ====================================================================================== *)
(* 0. small list facts                                                                    *)
(* ====================================================================================== *)

Lemma NoDup_app_intro {A} (l1 l2 : list A) :
  NoDup l1 -> NoDup l2 -> (forall x, In x l1 -> In x l2 -> False) -> NoDup (l1 ++ l2).
Proof.
  induction l1 as [|a l1 IH]; intros N1 N2 D; cbn [app]; auto.
  inversion N1 as [|? ? Ha N1']; subst. constructor.
  - rewrite in_app_iff. intros [H|H]; [auto|]. apply (D a); [now left|exact H].
  - apply IH; auto. intros x H1 H2. apply (D x); [now right|exact H2].
Qed.

Lemma NoDup_map_inj {A B} (f : A -> B) (l : list A) :
  (forall a b, f a = f b -> a = b) -> NoDup l -> NoDup (map f l).
Proof.
  intros Hinj. induction 1 as [|a l Ha Hn IH]; cbn [map]; constructor; auto.
  rewrite in_map_iff. intros (b & Hb & Hin). apply Hinj in Hb. now subst.
Qed.

Lemma map_fst_combine {A B} (a : list A) : forall (b : list B), length a = length b -> map fst (combine a b) = a.
Proof. induction a as [|x a IH]; intros [|y b] H; cbn in *; try discriminate; auto. f_equal. apply IH. lia. Qed.
Lemma map_snd_combine {A B} (a : list A) : forall (b : list B), length a = length b -> map snd (combine a b) = b.
Proof. induction a as [|x a IH]; intros [|y b] H; cbn in *; try discriminate; auto. f_equal. apply IH. lia. Qed.

Lemma in_combine_seq {A B} (f : nat -> B) (a : list A) : forall s x y,
  In (x, y) (combine a (map f (seq s (length a)))) -> exists k, nth_error a k = Some x /\ y = f (s + k).
Proof.
  induction a as [|z a IH]; intros s x y H; cbn in H; [destruct H|].
  destruct H as [H|H].
  - inversion H; subst. exists 0. rewrite Nat.add_0_r. auto.
  - destruct (IH _ _ _ H) as (k & Hk & ->). exists (S k). split; auto. f_equal. lia.
Qed.

Lemma Forall2_nth_error {A B} (R : A -> B -> Prop) l1 l2 :
  Forall2 R l1 l2 -> forall k a, nth_error l1 k = Some a -> exists b, nth_error l2 k = Some b /\ R a b.
Proof.
  induction 1 as [|x y l1 l2 Hxy HF IH]; intros [|k] a Hk; cbn in *; try discriminate.
  - inversion Hk; subst. eauto.
  - eauto.
Qed.

Lemma nth_error_firstn_lt {A} (l : list A) : forall n k, k < n -> nth_error (firstn n l) k = nth_error l k.
Proof. induction l as [|a l IH]; intros [|n] [|k] H; cbn; auto; try lia. apply IH. lia. Qed.

Lemma StronglySorted_lt_NoDup l : StronglySorted N.lt l -> NoDup l.
Proof.
  induction 1 as [|a l Hs IH Hall]; constructor; auto.
  intros Hin. rewrite Forall_forall in Hall. apply Hall in Hin. lia.
Qed.

Lemma mem_N_spec x l : mem_N x l = true <-> In x l.
Proof.
  unfold mem_N. rewrite existsb_exists. split.
  - intros (y & Hy & E). apply N.eqb_eq in E. now subst.
  - intros H. exists x. split; auto. apply N.eqb_refl.
Qed.

(* ====================================================================================== *)
(* 1. sort_ids: the hash-ordered used_locals set, sorted                                   *)
(* ====================================================================================== *)

Lemma sort_ids_cons a l : sort_ids (a :: l) = insert_sorted a (sort_ids l).
Proof. reflexivity. Qed.

Lemma insert_sorted_in x l z : In z (insert_sorted x l) <-> z = x \/ In z l.
Proof.
  induction l as [|y r IH]; cbn [insert_sorted].
  - cbn. intuition congruence.
  - destruct (N.ltb_spec x y) as [Hlt|Hge].
    + cbn [In]. intuition congruence.
    + destruct (N.eqb_spec x y) as [->|Hne].
      * cbn [In]. intuition congruence.
      * cbn [In]. rewrite IH. intuition congruence.
Qed.

Lemma insert_sorted_SS x l : StronglySorted N.lt l -> StronglySorted N.lt (insert_sorted x l).
Proof.
  induction 1 as [|y r Hs IH Hall]; cbn [insert_sorted]; [repeat constructor|].
  destruct (N.ltb_spec x y) as [Hlt|Hge].
  - constructor; [constructor; auto|]. constructor; auto.
    eapply Forall_impl; [|exact Hall]. intros z Hz. cbn beta in Hz. lia.
  - destruct (N.eqb_spec x y) as [->|Hne]; [constructor; auto|].
    constructor; auto. rewrite Forall_forall in *. intros z Hz.
    apply insert_sorted_in in Hz. destruct Hz as [->|Hz]; [lia|auto].
Qed.

Theorem sort_ids_sorted : forall l, StronglySorted N.lt (sort_ids l).
Proof. induction l as [|a l IH]; [constructor|]. rewrite sort_ids_cons. now apply insert_sorted_SS. Qed.

Theorem sort_ids_members : forall l x, In x (sort_ids l) <-> In x l.
Proof.
  induction l as [|a l IH]; intros x; [reflexivity|].
  rewrite sort_ids_cons, insert_sorted_in, IH. cbn [In]. intuition congruence.
Qed.

(* a strictly increasing list is determined by its set of members *)
Lemma sorted_lt_ext : forall l1 l2, StronglySorted N.lt l1 -> StronglySorted N.lt l2 ->
  (forall x, In x l1 <-> In x l2) -> l1 = l2.
Proof.
  induction l1 as [|a l1 IH]; intros [|b l2] S1 S2 H; auto.
  - exfalso. apply (proj2 (H b)). now left.
  - exfalso. apply (proj1 (H a)). now left.
  - inversion S1 as [|? ? S1' H1]; subst. inversion S2 as [|? ? S2' H2]; subst.
    rewrite Forall_forall in H1, H2.
    assert (E : a = b).
    { destruct (proj1 (H a) (or_introl eq_refl)) as [E|Ia]; auto.
      destruct (proj2 (H b) (or_introl eq_refl)) as [E|Ib]; auto.
      apply H1 in Ib. apply H2 in Ia. lia. }
    subst b. f_equal. apply IH; auto. intros x; split; intros Hx.
    + destruct (proj1 (H x) (or_intror Hx)) as [E|]; auto. subst x. apply H1 in Hx. lia.
    + destruct (proj2 (H x) (or_intror Hx)) as [E|]; auto. subst x. apply H2 in Hx. lia.
Qed.

Theorem sort_ids_order_free : forall l l', (forall x, In x l <-> In x l') -> sort_ids l = sort_ids l'.
Proof.
  intros l l' H. apply sorted_lt_ext; try apply sort_ids_sorted.
  intros x. rewrite !sort_ids_members. apply H.
Qed.

Corollary sort_ids_perm_free : forall l l', Permutation l l' -> sort_ids l = sort_ids l'.
Proof.
  intros l l' P. apply sort_ids_order_free. intros x; split; apply Permutation_in; auto using Permutation_sym.
Qed.

Theorem emit_locals_order_free : forall ty args l l', (forall x, In x l <-> In x l') ->
  emit_locals ty args l = emit_locals ty args l'.
Proof. intros ty args l l' H. unfold emit_locals. now rewrite (sort_ids_order_free l l' H). Qed.

Theorem sort_ids_id : forall l, StronglySorted N.lt l -> sort_ids l = l.
Proof. intros l S. apply sorted_lt_ext; auto using sort_ids_sorted. apply sort_ids_members. Qed.

(* ====================================================================================== *)
(* 2. emit_locals: slot assignment                                                        *)
(* ====================================================================================== *)

(* every valty's code matches exactly one member of all_valtys *)
Lemma all_valtys_complete : forall t, In t all_valtys.
Proof. intros []; cbn; tauto. Qed.
Lemma all_valtys_codes_NoDup : NoDup (map valty_code all_valtys).
Proof. cbn. repeat (constructor; [cbn; intuition congruence|]). constructor. Qed.
Lemma all_valtys_unique_code : forall t, exists ts1 ts2, all_valtys = ts1 ++ t :: ts2 /\
  forall t', In t' (ts1 ++ ts2) -> valty_code t' <> valty_code t.
Proof.
  intros t. destruct (in_split _ _ (all_valtys_complete t)) as (ts1 & ts2 & E).
  exists ts1, ts2. split; auto. intros t' Hin Hc.
  pose proof all_valtys_codes_NoDup as ND. rewrite E, map_app in ND. cbn [map] in ND.
  apply NoDup_remove_2 in ND. apply ND. rewrite <- map_app, <- Hc. now apply in_map.
Qed.

(* partition of a list into classes, exactly one class per element *)
Lemma flat_map_filter_skip {A B} (p : B -> A -> bool) x ls ts :
  (forall t, In t ts -> p t x = false) ->
  flat_map (fun t => filter (p t) (x :: ls)) ts = flat_map (fun t => filter (p t) ls) ts.
Proof.
  induction ts as [|t ts IH]; intros H; cbn [flat_map]; auto.
  rewrite IH by (intros; apply H; now right). cbn [filter]. rewrite (H t) by now left. reflexivity.
Qed.
Lemma flat_map_filter_one {A B} (p : B -> A -> bool) x ls ts1 t0 ts2 :
  p t0 x = true -> (forall t, In t (ts1 ++ ts2) -> p t x = false) ->
  Permutation (flat_map (fun t => filter (p t) (x :: ls)) (ts1 ++ t0 :: ts2))
              (x :: flat_map (fun t => filter (p t) ls) (ts1 ++ t0 :: ts2)).
Proof.
  intros H0 Hn. rewrite !flat_map_app. cbn [flat_map].
  rewrite !flat_map_filter_skip by (intros; apply Hn; rewrite in_app_iff; auto).
  cbn [filter]. rewrite H0. symmetry. apply Permutation_middle.
Qed.

Lemma flat_map_nonempty {B} (f : B -> list N) ts :
  flat_map snd (filter (fun g : B * list N => negb (match snd g with [] => true | _ => false end))
                       (map (fun t => (t, f t)) ts)) = flat_map f ts.
Proof.
  induction ts as [|t ts IH]; cbn [map filter flat_map snd]; auto.
  destruct (f t) eqn:E; cbn [negb flat_map snd app]; rewrite IH; auto.
Qed.

Definition slot_types (args_tys : list valty) (decls : list (N * valty)) : list valty :=
  args_tys ++ flat_map (fun d => repeat (snd d) (N.to_nat (fst d))) decls.

Section LocalsFacts.
  Variable ty : N -> valty.

  Lemma of_type_partition ls : Permutation (flat_map (fun t => of_type ty t ls) all_valtys) ls.
  Proof.
    induction ls as [|a ls IH].
    - cbn. constructor.
    - eapply perm_trans; [|apply perm_skip, IH]. unfold of_type.
      destruct (all_valtys_unique_code (ty a)) as (ts1 & ts2 & E & Hu). rewrite E.
      apply (flat_map_filter_one (fun t l => N.eqb (valty_code (ty l)) (valty_code t))).
      + apply N.eqb_refl.
      + intros t Ht. apply N.eqb_neq. intros Hc. apply (Hu t Ht). now symmetry.
  Qed.

  Definition non_args (args used : list N) : list N := filter (fun l => negb (mem_N l args)) (sort_ids used).
  Definition locals_groups (args used : list N) : list (valty * list N) :=
    filter (fun g => negb (match snd g with [] => true | _ => false end))
           (map (fun t => (t, of_type ty t (non_args args used))) all_valtys).
  Definition locals_order (args used : list N) : list N := args ++ flat_map snd (locals_groups args used).

  Lemma emit_locals_eq args used :
    emit_locals ty args used =
      (map (fun g => (len_N (snd g), fst g)) (locals_groups args used),
       combine (locals_order args used) (map N.of_nat (seq 0 (length (locals_order args used))))).
  Proof. reflexivity. Qed.

  Lemma groups_perm args used : Permutation (flat_map snd (locals_groups args used)) (non_args args used).
  Proof. unfold locals_groups. rewrite flat_map_nonempty. apply of_type_partition. Qed.

  Lemma non_args_NoDup args used : NoDup (non_args args used).
  Proof. apply NoDup_filter, StronglySorted_lt_NoDup, sort_ids_sorted. Qed.
  Lemma non_args_in args used x : In x (non_args args used) <-> In x used /\ ~ In x args.
  Proof.
    unfold non_args. rewrite filter_In, sort_ids_members, negb_true_iff.
    pose proof (mem_N_spec x args) as M. destruct (mem_N x args); intuition congruence.
  Qed.

  Lemma locals_order_NoDup args used : NoDup args -> NoDup (locals_order args used).
  Proof.
    intros ND. apply NoDup_app_intro; auto.
    - eapply Permutation_NoDup; [apply Permutation_sym, groups_perm|apply non_args_NoDup].
    - intros x Ha Hg. eapply Permutation_in in Hg; [|apply groups_perm].
      apply non_args_in in Hg. tauto.
  Qed.

  (* parameter k keeps index k *)
  Theorem locals_args_first : forall args used decls lmap, emit_locals ty args used = (decls, lmap) ->
    firstn (length args) lmap = combine args (map N.of_nat (seq 0 (length args))).
  Proof.
    intros args used decls lmap E. rewrite emit_locals_eq in E. inversion E; subst; clear E.
    unfold locals_order. set (rest := flat_map snd _).
    rewrite combine_firstn, firstn_app, Nat.sub_diag, firstn_O, app_nil_r, firstn_all.
    rewrite app_length, seq_app, map_app, firstn_app, map_length, seq_length, Nat.sub_diag, firstn_O, app_nil_r.
    rewrite firstn_all2 by (rewrite map_length, seq_length; lia). reflexivity.
  Qed.

  (* one distinct slot per local *)
  Theorem locals_distinct_slots : forall args used decls lmap, NoDup args -> emit_locals ty args used = (decls, lmap) ->
    NoDup (map snd lmap) /\ NoDup (map fst lmap).
  Proof.
    intros args used decls lmap ND E. rewrite emit_locals_eq in E. inversion E; subst; clear E. split.
    - rewrite map_snd_combine by (now rewrite map_length, seq_length).
      apply NoDup_map_inj; [apply Nat2N.inj|apply seq_NoDup].
    - rewrite map_fst_combine by (now rewrite map_length, seq_length).
      now apply locals_order_NoDup.
  Qed.

  Lemma locals_order_in args used x : In x (locals_order args used) <-> In x args \/ In x used.
  Proof.
    unfold locals_order. rewrite in_app_iff. split.
    - intros [H|H]; auto. eapply Permutation_in in H; [|apply groups_perm]. apply non_args_in in H. tauto.
    - intros [H|H]; auto. destruct (mem_N x args) eqn:M; [left; now apply mem_N_spec|right].
      eapply Permutation_in; [apply Permutation_sym, groups_perm|]. apply non_args_in. split; auto.
      rewrite <- mem_N_spec. congruence.
  Qed.

  (* the slots hold exactly the parameters and the used locals *)
  Theorem locals_slots_exact : forall args used decls lmap, emit_locals ty args used = (decls, lmap) ->
    forall x, In x (map fst lmap) <-> In x args \/ In x used.
  Proof.
    intros args used decls lmap E x. rewrite emit_locals_eq in E. inversion E; subst; clear E.
    rewrite map_fst_combine by (now rewrite map_length, seq_length). apply locals_order_in.
  Qed.

  (* every used local has a slot *)
  Theorem locals_cover_used : forall args used decls lmap, emit_locals ty args used = (decls, lmap) ->
    forall x, In x used -> In x (map fst lmap).
  Proof. intros args used decls lmap E x Hx. rewrite (locals_slots_exact _ _ _ _ E). now right. Qed.

  Lemma repeat_typed t l : Forall (fun id => valty_code (ty id) = valty_code t) l ->
    Forall2 (fun id t' => valty_code t' = valty_code (ty id)) l (repeat t (length l)).
  Proof. induction 1; cbn [repeat length]; constructor; auto. Qed.

  Lemma groups_typed (groups : list (valty * list N)) :
    Forall (fun g => Forall (fun id => valty_code (ty id) = valty_code (fst g)) (snd g)) groups ->
    Forall2 (fun id t => valty_code t = valty_code (ty id)) (flat_map snd groups)
            (flat_map (fun d : N * valty => repeat (snd d) (N.to_nat (fst d))) (map (fun g => (len_N (snd g), fst g)) groups)).
  Proof.
    induction 1 as [|g groups Hg HF IH]; cbn [flat_map map]; [constructor|].
    apply Forall2_app; auto. cbn [fst snd]. unfold len_N. rewrite Nat2N.id. now apply repeat_typed.
  Qed.

  Lemma locals_groups_typed args used :
    Forall (fun g => Forall (fun id => valty_code (ty id) = valty_code (fst g)) (snd g)) (locals_groups args used).
  Proof.
    unfold locals_groups. rewrite Forall_forall. intros g Hg. apply filter_In in Hg. destruct Hg as (Hg & _).
    apply in_map_iff in Hg. destruct Hg as (t & <- & _). cbn [fst snd]. rewrite Forall_forall.
    intros id Hid. unfold of_type in Hid. apply filter_In in Hid. now apply N.eqb_eq.
  Qed.

  (* the declared run at a non-parameter slot has the local's type (positional form) *)
  Theorem locals_typed_pos : forall args args_tys used decls lmap, length args_tys = length args ->
    emit_locals ty args used = (decls, lmap) ->
    forall k id idx, length args <= k -> nth_error lmap k = Some (id, idx) ->
      idx = N.of_nat k /\
      exists t, nth_error (slot_types args_tys decls) (N.to_nat idx) = Some t /\ valty_code t = valty_code (ty id).
  Proof.
    intros args args_tys used decls lmap HL E k id idx Hk Hn.
    rewrite emit_locals_eq in E. inversion E; subst; clear E.
    assert (Hin : In (id, idx) (combine (locals_order args used) (map N.of_nat (seq 0 (length (locals_order args used))))))
      by (eapply nth_error_In; eauto).
    pose proof (nth_error_Some (combine (locals_order args used) (map N.of_nat (seq 0 (length (locals_order args used))))) k) as Hlt.
    rewrite Hn in Hlt. rewrite combine_length, map_length, seq_length, Nat.min_id in Hlt.
    assert (Hk' : k < length (locals_order args used)) by (apply Hlt; discriminate).
    assert (Hfst : nth_error (locals_order args used) k = Some id).
    { rewrite <- (map_fst_combine (locals_order args used) (map N.of_nat (seq 0 (length (locals_order args used)))))
        by (now rewrite map_length, seq_length).
      erewrite map_nth_error; [|exact Hn]. reflexivity. }
    assert (Hsnd : nth_error (map N.of_nat (seq 0 (length (locals_order args used)))) k = Some idx).
    { rewrite <- (map_snd_combine (locals_order args used) (map N.of_nat (seq 0 (length (locals_order args used))))) at 1
        by (now rewrite map_length, seq_length).
      erewrite map_nth_error; [|exact Hn]. reflexivity. }
    erewrite map_nth_error in Hsnd; [|rewrite nth_error_nth' with (d := 0) by (now rewrite seq_length); rewrite seq_nth by exact Hk'; reflexivity].
    cbn [plus] in Hsnd. inversion Hsnd; subst idx. split; auto.
    unfold locals_order in Hfst. rewrite nth_error_app2 in Hfst by exact Hk.
    destruct (Forall2_nth_error _ _ _ (groups_typed _ (locals_groups_typed args used)) _ _ Hfst) as (t & Ht & Hc).
    exists t. split; auto. unfold slot_types. rewrite Nat2N.id, nth_error_app2 by lia. now rewrite HL.
  Qed.

  (* the declared run at the slot of a non-parameter local has the local's type *)
  Theorem locals_typed : forall args args_tys used decls lmap, length args_tys = length args ->
    emit_locals ty args used = (decls, lmap) ->
    forall id idx, In (id, idx) lmap -> ~ In id args ->
      exists t, nth_error (slot_types args_tys decls) (N.to_nat idx) = Some t /\ valty_code t = valty_code (ty id).
  Proof.
    intros args args_tys used decls lmap HL E id idx Hin Hna.
    destruct (In_nth_error _ _ Hin) as (k & Hk).
    destruct (le_lt_dec (length args) k) as [Hle|Hlt].
    - eapply locals_typed_pos in Hk; eauto. tauto.
    - exfalso. apply Hna. pose proof (locals_args_first _ _ _ _ E) as F.
      assert (Hk2 : nth_error (firstn (length args) lmap) k = Some (id, idx))
        by (now rewrite nth_error_firstn_lt).
      rewrite F in Hk2. apply nth_error_In in Hk2. apply in_combine_l in Hk2. exact Hk2.
  Qed.
End LocalsFacts.

(* ====================================================================================== *)
(* 3. generic stable insertion sort (the shape of ins_ty / ins_f / ins_nm)                *)
(* ====================================================================================== *)

Lemma StronglySorted_impl {A} (R R' : A -> A -> Prop) l :
  (forall a b, R a b -> R' a b) -> StronglySorted R l -> StronglySorted R' l.
Proof.
  intros H. induction 1 as [|a l Hs IH Hall]; constructor; auto.
  eapply Forall_impl; [|exact Hall]. auto.
Qed.

Lemma StronglySorted_app_mid {A} (R : A -> A -> Prop) acc x l :
  StronglySorted R (acc ++ x :: l) -> Forall (fun y => R y x) acc.
Proof.
  induction acc as [|a acc IH]; cbn [app]; intros H; constructor; inversion H as [|? ? Hs Hall]; subst; auto.
  rewrite Forall_forall in Hall. apply Hall. rewrite in_app_iff. right. now left.
Qed.

Lemma NoDup_map_inj_in {A B} (f : A -> B) l : NoDup (map f l) ->
  forall a b, In a l -> In b l -> f a = f b -> a = b.
Proof.
  induction l as [|x l IH]; cbn [map]; intros ND a b Ha Hb E; [destruct Ha|].
  inversion ND as [|? ? Hx ND']; subst.
  destruct Ha as [->|Ha], Hb as [->|Hb]; auto.
  - exfalso. apply Hx. rewrite E. now apply in_map.
  - exfalso. apply Hx. rewrite <- E. now apply in_map.
Qed.

Section StableInsertionSort.
  Variable A : Type.
  Variable leb : A -> A -> bool.
  Definition lebR (a b : A) : Prop := leb a b = true.

  (* insert after every element that is <= x (stable: equal keys keep arrival order) *)
  Fixpoint ins (x : A) (l : list A) : list A :=
    match l with [] => [x] | y :: r => if leb y x then y :: ins x r else x :: l end.
  Definition isort (l : list A) : list A := fold_left (fun acc x => ins x acc) l [].

  Lemma ins_perm x l : Permutation (x :: l) (ins x l).
  Proof.
    induction l as [|y l IH]; cbn [ins]; auto. destruct (leb y x); auto.
    eapply perm_trans; [apply perm_swap|]. now constructor.
  Qed.
  Lemma fold_ins_perm l : forall acc, Permutation (fold_left (fun acc x => ins x acc) l acc) (l ++ acc).
  Proof.
    induction l as [|a l IH]; intros acc; cbn [fold_left app]; [reflexivity|].
    eapply perm_trans; [apply IH|].
    eapply perm_trans; [apply Permutation_app_head, Permutation_sym, ins_perm|].
    apply Permutation_sym, Permutation_middle.
  Qed.
  Theorem isort_perm l : Permutation (isort l) l.
  Proof. unfold isort. rewrite <- (app_nil_r l) at 2. apply fold_ins_perm. Qed.

  (* identity on sorted input: needs no property of leb at all *)
  Lemma ins_last x l : Forall (fun y => lebR y x) l -> ins x l = l ++ [x].
  Proof. induction 1 as [|y l Hy HF IH]; cbn [ins app]; auto. rewrite Hy. now f_equal. Qed.
  Lemma fold_ins_id l : forall acc, StronglySorted lebR (acc ++ l) ->
    fold_left (fun acc x => ins x acc) l acc = acc ++ l.
  Proof.
    induction l as [|x l IH]; intros acc S; cbn [fold_left]; [now rewrite app_nil_r|].
    rewrite (ins_last x acc) by (eapply StronglySorted_app_mid; eauto).
    rewrite IH; rewrite <- app_assoc; auto.
  Qed.
  Theorem isort_id l : StronglySorted lebR l -> isort l = l.
  Proof. intros S. unfold isort. now rewrite fold_ins_id. Qed.

  Hypothesis leb_total : forall a b, leb a b = true \/ leb b a = true.
  Hypothesis leb_trans : forall a b c, leb a b = true -> leb b c = true -> leb a c = true.

  Lemma ins_sorted x l : StronglySorted lebR l -> StronglySorted lebR (ins x l).
  Proof.
    induction 1 as [|y l Hs IH Hall]; cbn [ins]; [repeat constructor|].
    destruct (leb y x) eqn:E.
    - constructor; auto. eapply Permutation_Forall; [apply ins_perm|]. constructor; auto.
    - assert (Hxy : lebR x y) by (destruct (leb_total x y); [auto|congruence]).
      constructor; [constructor; auto|]. constructor; auto.
      eapply Forall_impl; [|exact Hall]. intros z Hz. eapply leb_trans; eauto.
  Qed.
  Lemma fold_ins_sorted l : forall acc, StronglySorted lebR acc ->
    StronglySorted lebR (fold_left (fun acc x => ins x acc) l acc).
  Proof. induction l as [|a l IH]; intros acc S; cbn [fold_left]; auto. apply IH. now apply ins_sorted. Qed.
  Theorem isort_sorted l : StronglySorted lebR (isort l).
  Proof. apply fold_ins_sorted. constructor. Qed.

  (* a sorted list is determined by its elements, when leb is antisymmetric ON THOSE ELEMENTS *)
  Lemma sorted_perm_eq l1 : forall l2,
    (forall a b, In a l1 -> In b l1 -> leb a b = true -> leb b a = true -> a = b) ->
    StronglySorted lebR l1 -> StronglySorted lebR l2 -> Permutation l1 l2 -> l1 = l2.
  Proof.
    induction l1 as [|a l1 IH]; intros l2 AS S1 S2 P.
    - apply Permutation_nil in P. now subst.
    - destruct l2 as [|b l2]; [apply Permutation_sym, Permutation_nil in P; discriminate|].
      inversion S1 as [|? ? S1' H1]; subst. inversion S2 as [|? ? S2' H2]; subst.
      assert (E : a = b).
      { assert (Ia : In a (b :: l2)) by (eapply Permutation_in; [exact P|now left]).
        assert (Ib : In b (a :: l1)) by (eapply Permutation_in; [apply Permutation_sym; exact P|now left]).
        destruct Ia as [->|Ia]; auto. destruct Ib as [->|Ib]; auto.
        apply AS; [now left|now right| |].
        - rewrite Forall_forall in H1. now apply H1.
        - rewrite Forall_forall in H2. now apply H2. }
      subst b. f_equal. apply IH; auto.
      + intros x y Hx Hy. apply AS; now right.
      + eapply Permutation_cons_inv; eauto.
  Qed.

  Theorem isort_order_free l l' : Permutation l l' ->
    (forall a b, In a l -> In b l -> leb a b = true -> leb b a = true -> a = b) -> isort l = isort l'.
  Proof.
    intros P AS. apply sorted_perm_eq; try apply isort_sorted.
    - intros a b Ha Hb. apply AS; eapply Permutation_in; try apply isort_perm; auto.
    - eapply perm_trans; [apply isort_perm|]. eapply perm_trans; [exact P|apply Permutation_sym, isort_perm].
  Qed.

  (* the sort is the ONLY sorted arrangement *)
  Theorem isort_unique l s :
    (forall a b, In a l -> In b l -> leb a b = true -> leb b a = true -> a = b) ->
    Permutation s l -> StronglySorted lebR s -> s = isort l.
  Proof.
    intros AS P S. symmetry. apply sorted_perm_eq; auto using isort_sorted.
    - intros a b Ha Hb. apply AS; eapply Permutation_in; try apply isort_perm; auto.
    - eapply perm_trans; [apply isort_perm|now apply Permutation_sym].
  Qed.
End StableInsertionSort.

(* ---------- name maps: sort_nm ---------- *)
Definition nm_leb {A} (a b : N * A) : bool := (fst a <=? fst b)%N.
(* ins_nm takes its type argument inside the fixpoint, so this is an induction, not a conversion *)
Lemma ins_nm_ins {A} (x : N * A) l : ins_nm x l = ins _ nm_leb x l.
Proof. induction l as [|y r IH]; cbn [ins_nm ins]; [reflexivity|]. rewrite IH. reflexivity. Qed.
Lemma sort_nm_isort {A} (l : list (N * A)) : sort_nm l = isort _ nm_leb l.
Proof.
  unfold sort_nm, isort. generalize (@nil (N * A)).
  induction l as [|a l IH]; intros acc; cbn [fold_left]; auto. rewrite ins_nm_ins. apply IH.
Qed.
Lemma nm_leb_total {A} (a b : N * A) : nm_leb a b = true \/ nm_leb b a = true.
Proof. unfold nm_leb. rewrite !N.leb_le. lia. Qed.
Lemma nm_leb_trans {A} (a b c : N * A) : nm_leb a b = true -> nm_leb b c = true -> nm_leb a c = true.
Proof. unfold nm_leb. rewrite !N.leb_le. lia. Qed.

Theorem sort_nm_perm : forall A (l : list (N * A)), Permutation (sort_nm l) l.
Proof. intros. rewrite sort_nm_isort. apply isort_perm. Qed.
Theorem sort_nm_sorted : forall A (l : list (N * A)),
  StronglySorted (fun a b => fst a <= fst b)%N (sort_nm l) /\ Permutation (sort_nm l) l.
Proof.
  intros A l. split; [|apply sort_nm_perm]. rewrite sort_nm_isort.
  eapply StronglySorted_impl; [|apply isort_sorted; [apply nm_leb_total|apply nm_leb_trans]].
  intros a b H. now apply N.leb_le.
Qed.
Theorem sort_nm_order_free : forall A (l l' : list (N * A)),
  Permutation l l' -> NoDup (map fst l) -> sort_nm l = sort_nm l'.
Proof.
  intros A l l' P ND. rewrite !sort_nm_isort.
  apply (isort_order_free _ nm_leb nm_leb_total nm_leb_trans); auto.
  intros a b Ha Hb H1 H2. apply (NoDup_map_inj_in fst l ND); auto.
  unfold nm_leb in *. rewrite N.leb_le in *. lia.
Qed.
Theorem sort_nm_id : forall A (l : list (N * A)),
  StronglySorted (fun a b => fst a <= fst b)%N l -> sort_nm l = l.
Proof.
  intros A l S. rewrite sort_nm_isort. apply isort_id.
  eapply StronglySorted_impl; [|exact S]. intros a b H. now apply N.leb_le.
Qed.

(* ---------- function emission order: (Reverse(size), id) ---------- *)
Definition sort_funcs (l : list (N * N * mlocalfunc)) : list (N * N * mlocalfunc) :=
  fold_left (fun acc x => ins_f x acc) l [].
(* this is the fold of used_local_functions *)
Lemma used_local_functions_sort_funcs m :
  used_local_functions m =
    rbind (rmapM (fun p => match fn_kind (snd p) with
                           | FK_Local lf => rbind (lf_size lf) (fun sz => Ok [((sz, fst p), lf)])
                           | FK_Import _ _ => Ok []
                           | FK_Uninit _ => Panic
                           end) (aiter (m_funcs m)))
          (fun l => Ok (map (fun t => (snd (fst t), snd t)) (sort_funcs (concat l)))).
Proof. reflexivity. Qed.

Definition f_leb (a b : N * N * mlocalfunc) : bool := fkey_le (fst a) (fst b).
(* a is emitted before-or-with b: bigger size first, then smaller id *)
Definition func_before (a b : N * N * mlocalfunc) : Prop :=
  (fst (fst b) < fst (fst a) \/ (fst (fst a) = fst (fst b) /\ snd (fst a) <= snd (fst b)))%N.
Lemma sort_funcs_isort l : sort_funcs l = isort _ f_leb l.
Proof. reflexivity. Qed.
Lemma fkey_le_spec (a b : N * N) :
  fkey_le a b = true <-> (fst b < fst a \/ (fst a = fst b /\ snd a <= snd b))%N.
Proof.
  unfold fkey_le. destruct (N.ltb_spec (fst b) (fst a)); [intuition|].
  destruct (N.ltb_spec (fst a) (fst b)); [split; [discriminate|lia]|].
  rewrite N.leb_le. lia.
Qed.
Lemma f_leb_spec a b : f_leb a b = true <-> func_before a b.
Proof. apply fkey_le_spec. Qed.
Lemma f_leb_total a b : f_leb a b = true \/ f_leb b a = true.
Proof. rewrite !f_leb_spec. unfold func_before. lia. Qed.
Lemma f_leb_trans a b c : f_leb a b = true -> f_leb b c = true -> f_leb a c = true.
Proof. rewrite !f_leb_spec. unfold func_before. lia. Qed.
Lemma f_leb_antisym_id a b : f_leb a b = true -> f_leb b a = true -> snd (fst a) = snd (fst b).
Proof. rewrite !f_leb_spec. unfold func_before. lia. Qed.

Theorem sort_funcs_perm : forall l, Permutation (sort_funcs l) l.
Proof. intros. rewrite sort_funcs_isort. apply isort_perm. Qed.
Theorem sort_funcs_sorted : forall l, StronglySorted func_before (sort_funcs l).
Proof.
  intros l. rewrite sort_funcs_isort.
  eapply StronglySorted_impl; [|apply isort_sorted; [apply f_leb_total|apply f_leb_trans]].
  intros a b. apply f_leb_spec.
Qed.
Theorem func_order_free : forall l l', Permutation l l' ->
  NoDup (map (fun t : N * N * mlocalfunc => snd (fst t)) l) -> sort_funcs l = sort_funcs l'.
Proof.
  intros l l' P ND. rewrite !sort_funcs_isort.
  apply (isort_order_free _ f_leb f_leb_total f_leb_trans); auto.
  intros a b Ha Hb H1 H2. apply (NoDup_map_inj_in _ l ND); auto. now apply f_leb_antisym_id.
Qed.
Theorem sort_funcs_unique : forall l s,
  NoDup (map (fun t : N * N * mlocalfunc => snd (fst t)) l) ->
  Permutation s l -> StronglySorted func_before s -> s = sort_funcs l.
Proof.
  intros l s ND P S. rewrite sort_funcs_isort.
  apply (isort_unique _ f_leb f_leb_total f_leb_trans); auto.
  - intros a b Ha Hb H1 H2. apply (NoDup_map_inj_in _ l ND); auto. now apply f_leb_antisym_id.
  - eapply StronglySorted_impl; [|exact S]. intros a b. apply f_leb_spec.
Qed.
(* all three facts about the emission order in one statement *)
Theorem func_order_spec : forall l,
  NoDup (map (fun t : N * N * mlocalfunc => snd (fst t)) l) ->
  (forall l', Permutation l l' -> sort_funcs l = sort_funcs l') /\
  Permutation (sort_funcs l) l /\ StronglySorted func_before (sort_funcs l).
Proof. intros l ND. repeat split; auto using func_order_free, sort_funcs_perm, sort_funcs_sorted. Qed.

(* ---------- types: stable sort by (params, results) ---------- *)
Lemma vl_cmp_antisym : forall a b, vl_cmp a b = CompOpp (vl_cmp b a).
Proof.
  induction a as [|x a IH]; intros [|y b]; cbn [vl_cmp CompOpp]; auto.
  rewrite (N.compare_antisym (valty_code x) (valty_code y)).
  destruct (valty_code x ?= valty_code y)%N; cbn [CompOpp]; auto.
Qed.
Lemma vl_cmp_trans : forall c0 a b c, vl_cmp a b = c0 -> vl_cmp b c = c0 -> vl_cmp a c = c0.
Proof.
  intros c0. induction a as [|x a IH]; intros [|y b] [|z c]; cbn [vl_cmp]; try congruence.
  destruct (N.compare_spec (valty_code x) (valty_code y)),
           (N.compare_spec (valty_code y) (valty_code z)),
           (N.compare_spec (valty_code x) (valty_code z)); intros Hab Hbc; try lia; try congruence; eauto.
Qed.
Lemma vl_cmp_eq_l : forall a b, vl_cmp a b = Eq -> forall c, vl_cmp a c = vl_cmp b c.
Proof.
  induction a as [|x a IH]; intros [|y b] H [|z c]; cbn [vl_cmp] in *; try congruence.
  destruct (N.compare_spec (valty_code x) (valty_code y)) as [E| |]; try discriminate.
  rewrite E. destruct (valty_code y ?= valty_code z)%N; auto.
Qed.
Lemma vl_cmp_eq_r : forall b c, vl_cmp b c = Eq -> forall a, vl_cmp a b = vl_cmp a c.
Proof. intros b c H a. rewrite (vl_cmp_antisym a b), (vl_cmp_antisym a c). f_equal. now apply vl_cmp_eq_l. Qed.

Lemma ty_le_total : forall a b, ty_le a b = true \/ ty_le b a = true.
Proof.
  intros a b. unfold ty_le.
  rewrite (vl_cmp_antisym (ty_params b) (ty_params a)), (vl_cmp_antisym (ty_results b) (ty_results a)).
  destruct (vl_cmp (ty_params a) (ty_params b)), (vl_cmp (ty_results a) (ty_results b)); cbn [CompOpp]; auto.
Qed.
Lemma ty_le_trans : forall a b c, ty_le a b = true -> ty_le b c = true -> ty_le a c = true.
Proof.
  intros a b c H1 H2. unfold ty_le in *.
  destruct (vl_cmp (ty_params a) (ty_params b)) eqn:P1; try discriminate H1;
  destruct (vl_cmp (ty_params b) (ty_params c)) eqn:P2; try discriminate H2.
  - rewrite (vl_cmp_trans Eq _ _ _ P1 P2).
    destruct (vl_cmp (ty_results a) (ty_results b)) eqn:R1; try discriminate H1;
    destruct (vl_cmp (ty_results b) (ty_results c)) eqn:R2; try discriminate H2.
    + now rewrite (vl_cmp_trans Eq _ _ _ R1 R2).
    + now rewrite (vl_cmp_eq_l _ _ R1), R2.
    + now rewrite <- (vl_cmp_eq_r _ _ R2), R1.
    + now rewrite (vl_cmp_trans Lt _ _ _ R1 R2).
  - now rewrite (vl_cmp_eq_l _ _ P1), P2.
  - now rewrite <- (vl_cmp_eq_r _ _ P2), P1.
  - now rewrite (vl_cmp_trans Lt _ _ _ P1 P2).
Qed.

Definition t_leb (a b : N * mtype) : bool := ty_le (snd a) (snd b).
Lemma sort_types_isort l : sort_types l = isort _ t_leb l.
Proof. reflexivity. Qed.

Theorem sort_types_perm : forall l, Permutation (sort_types l) l.
Proof. intros. rewrite sort_types_isort. apply isort_perm. Qed.
Theorem sort_types_sorted : forall l, StronglySorted (fun a b => ty_le (snd a) (snd b) = true) (sort_types l).
Proof.
  intros l. rewrite sort_types_isort.
  apply (isort_sorted _ t_leb); intros; [apply ty_le_total|eapply ty_le_trans; eauto].
Qed.
Theorem sort_types_stable_id : forall l,
  StronglySorted (fun a b => ty_le (snd a) (snd b) = true) l -> sort_types l = l.
Proof. intros l S. rewrite sort_types_isort. now apply isort_id. Qed.

Print Assumptions sort_ids_order_free.
Print Assumptions emit_locals_order_free.
Print Assumptions locals_distinct_slots.
Print Assumptions sort_nm_order_free.
Print Assumptions func_order_free.
Print Assumptions sort_types_stable_id.
