(* C08, part 29: list-level form (on the K lists) of the element half of offsets_ok and its stability under appends.
   parseM_offsets_ok itself is NOT proved here (see the report): what is here is the monotone core. *)
From Coq Require Import List NArith ZArith Bool Arith Lia.
Import ListNotations.
From WV Require Import Gen.Ops Model.Common Model.IR Model.Arena Model.ModuleM Model.ParseM Model.EmitM Gen.Attrs.
From WV Require Import Proofs.Arena Proofs.IndexMaps Proofs.Structure Proofs.Structure2 Proofs.ModFix26.
Local Open Scope nat_scope.

Definition offL (G : list valty) (is64 : bool) (c : mconst) : bool :=
  match c with
  | MC_Value (V_I64 _) => is64
  | MC_Value (V_I32 _) => negb is64
  | MC_Global g => match nth_error G (N.to_nat g) with Some VT_I64 => is64 | Some VT_I32 => negb is64 | _ => false end
  | _ => false
  end.
Lemma offL_mono G ext b c : offL G b c = true -> offL (G ++ ext) b c = true.
Proof.
  unfold offL. destruct c as [v|g|t|f]; try (intros H; exact H).
  destruct (nth_error G (N.to_nat g)) as [ty|] eqn:En; [|discriminate].
  assert (L : N.to_nat g < length G) by (apply nth_error_Some; rewrite En; discriminate).
  rewrite (nth_error_app1 _ _ L), En. intros H; exact H.
Qed.

Definition EOK1 (G : list valty) (T : list bool) (c : melemkind * melemitems) : Prop :=
  match fst c with
  | ELK_Active t off => exists is64, nth_error T (N.to_nat t) = Some is64 /\ offL G is64 off = true
  | _ => True end.
Definition EOK (G : list valty) (T : list bool) (KE : list (melemkind * melemitems)) : Prop := Forall (EOK1 G T) KE.

Lemma EOK1_mono G T a b c : EOK1 G T c -> EOK1 (G ++ a) (T ++ b) c.
Proof.
  unfold EOK1. destruct (fst c) as [| |t off]; try (intros H; exact H). intros (is64 & Hn & Ho). exists is64. split.
  - assert (L : N.to_nat t < length T) by (apply nth_error_Some; rewrite Hn; discriminate). rewrite (nth_error_app1 _ _ L). exact Hn.
  - apply offL_mono. exact Ho.
Qed.
Lemma EOK_mono G T a b KE : EOK G T KE -> EOK (G ++ a) (T ++ b) KE.
Proof. unfold EOK. intros H. eapply Forall_impl; [|exact H]. intros c. apply EOK1_mono. Qed.
Lemma EOK_app G T KE new : EOK G T KE -> EOK G T new -> EOK G T (KE ++ new).
Proof. unfold EOK. intros H1 H2. apply Forall_app. split; assumption. Qed.

Definition G_of (KG : list (wglobalty * option mconst)) : list valty := map (fun g => wg_ty (fst g)) KG.
Definition T_of (KT : list (wtable * bool)) : list bool := map (fun t => wt_64 (fst t)) KT.
Definition EOKm (m : wir) : Prop := EOK (G_of (K_globals m)) (T_of (K_tables m)) (K_elems m).

(* one payload: the invariant is kept provided the NEW segments satisfy the clause in the new context
   (only an element section contributes new segments) *)
Lemma parse_sec_EOK s sec s' : ids_consistent (ps_m s) (ps_ids s) -> parse_sec s sec = POk s' -> EOKm (ps_m s) ->
  EOK (G_of (K_globals (ps_m s'))) (T_of (K_tables (ps_m s'))) (map elem_of (elems_of sec)) -> EOKm (ps_m s').
Proof.
  intros Hid E H Hnew. unfold EOKm in *.
  destruct (parse_sec_TM _ _ _ E) as [HT _]. destruct (parse_sec_GES _ _ _ Hid E) as (HG & _ & _).
  pose proof (parse_sec_E _ _ _ Hid E) as HE. rewrite HE. apply EOK_app; [|exact Hnew].
  rewrite HT, HG. unfold G_of, T_of. rewrite !map_app. apply EOK_mono. exact H.
Qed.

Print Assumptions EOK_mono.
Print Assumptions parse_sec_EOK.
