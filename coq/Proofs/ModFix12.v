(* C08, module level fixpoint, part 12: MODULE-level inversion lemmas for the CODE section: which calls of
   parse_body / emit_body / emit_locals (through parse_one_body / emit_function) the module models make. *)
From Coq Require Import List NArith ZArith Bool Arith Lia.
Import ListNotations.
From WV Require Import Gen.Ops Model.Common Model.IR Model.Arena Model.Traversal Model.EmitFn Model.Locals
                       Model.ParseFn Model.ParseSpec Model.ModuleM Model.ParseM Model.EmitM Gen.Attrs.
From WV Require Import Proofs.Arena Proofs.IndexMaps Proofs.CustomsCfg Proofs.Structure Proofs.Structure2
                       Proofs.Totality Proofs.TotalityBodies Proofs.ModFix.
From WV Require Proofs.ParsedWf Proofs.Names Proofs.Locals2.
From WV Require Import Proofs.Renumbering Proofs.ParseTotal.
Local Open Scope nat_scope.

(* ====================================================================================== *)
(* G1. the emit side: the code payload of an emitted stream                                 *)
(* ====================================================================================== *)
Lemma m12_tagged_nil {B} (f : wsec -> list B) t : (forall s, has_tag t s = false -> f s = []) ->
  forall u l, tagged u l -> u <> t -> flat_map f l = [].
Proof.
  intros Hf u l T Hu. apply flat_map_nil. intros s Hs. apply Hf. unfold tagged in T. rewrite Forall_forall in T.
  unfold has_tag. rewrite (T s Hs). apply Nat.eqb_neq. exact Hu.
Qed.
Lemma m12_code_tag : forall s, has_tag 10 s = false -> code_of s = [].
Proof. intros [] H; try reflexivity. discriminate. Qed.
Lemma m12_code_nil u l : tagged u l -> u <> 10 -> flat_map code_of l = [].
Proof. apply (m12_tagged_nil code_of 10 m12_code_tag). Qed.

(* emit_function looks at the index maps only through [space_map] *)
Lemma emit_function_ext m x x' ilen id lf : (forall S, space_map x S = space_map x' S) ->
  emit_function m x ilen id lf = emit_function m x' ilen id lf.
Proof.
  intros H. destruct x as [a1 a2 a3 a4 a5 a6 a7 a8], x' as [b1 b2 b3 b4 b5 b6 b7 b8].
  pose proof (H S_func) as H1. pose proof (H S_type) as H2. pose proof (H S_table) as H3. pose proof (H S_memory) as H4.
  pose proof (H S_global) as H5. pose proof (H S_data) as H6. pose proof (H S_elem) as H7.
  cbn [space_map xi_tables xi_types xi_funcs xi_globals xi_memories xi_elements xi_data] in *. subst. reflexivity.
Qed.

Lemma id2i_fun_ext x x' lmap : (forall S, space_map x S = space_map x' S) -> id2i_fun x lmap = id2i_fun x' lmap.
Proof.
  intros H. destruct x as [a1 a2 a3 a4 a5 a6 a7 a8], x' as [b1 b2 b3 b4 b5 b6 b7 b8].
  pose proof (H S_func) as H1. pose proof (H S_type) as H2. pose proof (H S_table) as H3. pose proof (H S_memory) as H4.
  pose proof (H S_global) as H5. pose proof (H S_data) as H6. pose proof (H S_elem) as H7.
  cbn [space_map xi_tables xi_types xi_funcs xi_globals xi_memories xi_elements xi_data] in *. subst. reflexivity.
Qed.

(* what one emit_function call consists of: the calls of emit_locals and emit_body *)
Lemma emit_function_inv m x ilen id lf ef : emit_function m x ilen id lf = Ok ef ->
  exists evs decls lmap st,
    lf_log lf = Ok evs /\
    emit_locals (local_ty_fn m) (lf_args lf) (used_of_log evs) = (decls, lmap) /\
    refs_ok x lmap evs = true /\
    emit_body {| ex_id2i := id2i_fun x lmap; ex_ilen := ilen |} (lf_fuel lf) (lf_arena lf) (lf_entry lf) 0%N = Ok st /\
    ef_body ef = {| wb_locals := decls; wb_ops := combine (out st) (map snd (imap st)) |} /\
    ef_id ef = id /\ ef_lmap ef = lmap /\ ef_imap ef = imap st /\
    ef_used ef = sort_ids (used_of_log evs ++ lf_args lf).
Proof.
  unfold emit_function. intros H. rinv H as evs Eevs.
  destruct (emit_locals _ _ _) as [decls lmap] eqn:El.
  destruct (refs_ok x lmap evs) eqn:Er; cbn [negb] in H; [|discriminate].
  rinv H as st Est. injection H as <-. exists evs, decls, lmap, st. cbn. repeat split; auto.
Qed.

(* the code section of emitM *)
Lemma emitM_code_inv m ilen e : emitM m ilen [] = Ok e ->
  exists x10 s_co, emit_code m x10 ilen = Ok (s_co, em_x2i e, em_fns e) /\
                   flat_map code_of (em_secs e) = flat_map code_of s_co.
Proof.
  intros H. unfold emitM, set_customs_take in H.
  destruct (emit_types m empty_x2i) as [s_ty x1] eqn:E1.
  rinv H as a2 E2. destruct a2 as [s_im x2].
  rinv H as a3 E3. destruct a3 as [s_fn x3].
  destruct (emit_tables m x3) as [s_tb x4] eqn:E4.
  destruct (emit_memories m x4) as [s_me x5] eqn:E5.
  rinv H as a6 E6. destruct a6 as [s_gl x6].
  rinv H as s_ex E7. rinv H as s_st E8.
  rinv H as a9 E9. destruct a9 as [s_el x9].
  rinv H as a10 E10. destruct a10 as [s_dc x10].
  rinv H as a11 E11. destruct a11 as [[s_co x11] efs].
  rinv H as s_da E12. rinv H as s_nm E13. inversion H; subst e; clear H. cbn [em_x2i em_module em_secs em_fns].
  exists x10, s_co. split; [exact E11|].
  pose proof (emit_types_tag _ _ _ _ E1) as T0. pose proof (emit_imports_tag _ _ _ _ E2) as T1.
  pose proof (emit_func_section_tag _ _ _ _ E3) as T2. pose proof (emit_tables_tag m x3) as T3. rewrite E4 in T3.
  pose proof (emit_memories_tag m x4) as T4. rewrite E5 in T4. cbn [fst] in T3, T4.
  pose proof (emit_globals_tag _ _ _ _ E6) as T5. pose proof (emit_exports_tag _ _ _ E7) as T6.
  pose proof (emit_start_tag _ _ _ E8) as T7. pose proof (emit_elements_tag _ _ _ _ E9) as T8.
  pose proof (emit_data_count_tag _ _ _ _ E10) as T9.
  pose proof (emit_data_tag _ _ _ E12) as T11.
  rewrite !flat_map_app.
  rewrite (m12_code_nil _ _ T0), (m12_code_nil _ _ T1), (m12_code_nil _ _ T2), (m12_code_nil _ _ T3), (m12_code_nil _ _ T4),
    (m12_code_nil _ _ T5), (m12_code_nil _ _ T6), (m12_code_nil _ _ T7), (m12_code_nil _ _ T8), (m12_code_nil _ _ T9),
    (m12_code_nil _ _ T11) by lia.
  cbn [app].
  assert (N1 : flat_map code_of s_nm = []).
  { destruct (cf_skip_name (m_config m)); [inversion E13; reflexivity|].
    apply emit_names_shape in E13. destruct E13 as [->|[n ->]]; reflexivity. }
  rewrite N1. cbn [app].
  match goal with |- _ ++ ?a ++ ?b ++ ?c = _ => assert (N2 : a = []); [|assert (N3 : b = []); [|assert (N4 : c = [])]] end.
  - destruct (cf_skip_producers _); [reflexivity|]. destruct (m_producers m); reflexivity.
  - destruct (cf_generate_dwarf _); reflexivity.
  - apply flat_map_nil; intros s Hs; apply in_flat_map in Hs; destruct Hs as [c [_ Hs]]; destruct c as [c|]; [|destruct Hs].
    destruct (starts_with_debug (cu_name c)); [destruct Hs|]; destruct Hs as [<-|[]]; reflexivity.
  - rewrite N2, N3, N4. cbn [app]. apply app_nil_r.
Qed.

Theorem emit_code_payload m ilen e fs : emitM m ilen [] = Ok e -> used_local_functions m = Ok fs ->
  flat_map code_of (em_secs e) = map ef_body (em_fns e) /\
  Forall2 (fun p ef => emit_function m (em_x2i e) ilen (fst p) (snd p) = Ok ef) fs (em_fns e) /\
  map ef_id (em_fns e) = map fst fs /\
  length (flat_map code_of (em_secs e)) = length fs.
Proof.
  intros He Hfs. destruct (emitM_code_inv _ _ _ He) as (x10 & s_co & Eco & Efl).
  rewrite Efl. clear Efl He. unfold emit_code in Eco. rewrite Hfs in Eco. cbn [rbind] in Eco.
  destruct fs as [|p r].
  - injection Eco as J1 J2 J3. subst s_co. rewrite <- J3. cbn. repeat split; constructor.
  - rinv Eco as efs Eefs. injection Eco as J1 J2 J3. subst s_co. rewrite <- J3. cbn [flat_map code_of app]. rewrite app_nil_r.
    apply rmapM_ok_inv in Eefs.
    assert (F : Forall2 (fun p ef => emit_function m (em_x2i e) ilen (fst p) (snd p) = Ok ef) (p :: r) efs).
    { eapply Forall2_impl; [|exact Eefs]. cbn beta. intros a b Hab. rewrite <- Hab. rewrite <- J2.
      apply emit_function_ext. intros S; destruct S; reflexivity. }
    split; [reflexivity|]. split; [exact F|]. split.
    + clear - Eefs. induction Eefs as [|a b l l' Hab _ IH]; [reflexivity|]. cbn [map]. rewrite IH. f_equal.
      unfold emit_function in Hab. rinv Hab as evs Eevs. destruct (emit_locals _ _ _) as [decls lmap].
      destruct (negb _); [discriminate|]. rinv Hab as st Est. inversion Hab; reflexivity.
    + rewrite map_length. symmetry. eapply Forall2_length; exact F.
Qed.

(* ====================================================================================== *)
(* G2. the parse side: which parse_body call produced a local function                      *)
(* ====================================================================================== *)
Lemma parse_secs_bodies_eq : forall w s s', parse_secs s w = POk s' -> ps_bodies s' = ps_bodies s ++ flat_map code_of w.
Proof.
  induction w as [|sec r IH]; intros s s' E; cbn [parse_secs] in E.
  - injection E as <-. cbn. rewrite app_nil_r. reflexivity.
  - pinv E as s1 E1. apply IH in E. rewrite E, (parse_sec_bodies _ _ _ E1), <- app_assoc. cbn [flat_map].
    destruct sec; reflexivity.
Qed.

(* --- before the bodies are installed no function is local *)
Definition nolocal (m : wir) : Prop := Forall (fun f => forall lf, fn_kind f <> FK_Local lf) (items (m_funcs m)).
Lemma Forall_upd {A} (P : A -> Prop) f : (forall x, P x -> P (f x)) -> forall l n, Forall P l -> Forall P (Arena.upd l n f).
Proof.
  intros Hf. induction l as [|x r IH]; intros [|n] H; cbn [Arena.upd]; try exact H; inversion H; subst; constructor; auto.
Qed.
Lemma nl_imports : forall l m ids m' ids', parse_imports m ids l = POk (m', ids') -> nolocal m -> nolocal m'.
Proof.
  induction l as [|i r IH]; intros m ids m' ids' E NL; cbn [parse_imports] in E; [inversion E; subst; exact NL|].
  pinv E as x Ex. apply IH in E; [exact E|]. clear IH E. unfold parse_import in Ex.
  destruct (wi_kind i) as [tyi|wt|wm|wg]; [pinv Ex as ty Ety|..]; wcbn; inversion Ex; subst; clear Ex; unfold nolocal in *; wcbn; try exact NL.
  apply Forall_app. split; [exact NL|]. constructor; [|constructor]. intros lf. cbn. discriminate.
Qed.
Lemma nl_funcs : forall l m ids m' ids', parse_funcs m ids l = POk (m', ids') -> nolocal m -> nolocal m'.
Proof.
  induction l as [|i r IH]; intros m ids m' ids' E NL; cbn [parse_funcs] in E; [inversion E; subst; exact NL|].
  pinv E as ty Ety. wcbn. apply IH in E; [exact E|]. clear IH E. unfold nolocal in *. wcbn.
  assert (F : Forall (fun f => forall lf, fn_kind f <> FK_Local lf) (items (m_funcs m) ++ [{| fn_kind := FK_Uninit ty; fn_name := None |}])).
  { apply Forall_app. split; [exact NL|]. constructor; [|constructor]. intros lf. cbn. discriminate. }
  destruct (synth _ _ _); wcbn; [|exact F]. apply Forall_upd; [|exact F]. intros x Hx lf. cbn. apply Hx.
Qed.
Lemma fu_tables : forall l m ids m' ids', parse_tables m ids l = (m', ids') -> m_funcs m' = m_funcs m.
Proof. induction l as [|t r IH]; intros m ids m' ids' E; cbn [parse_tables] in E; [inversion E; reflexivity|]. wcbn. apply IH in E. exact E. Qed.
Lemma fu_mems : forall l m ids m' ids', parse_mems m ids l = (m', ids') -> m_funcs m' = m_funcs m.
Proof. induction l as [|t r IH]; intros m ids m' ids' E; cbn [parse_mems] in E; [inversion E; reflexivity|]. wcbn. apply IH in E. exact E. Qed.
Lemma fu_globals : forall l m ids m' ids', parse_globals m ids l = POk (m', ids') -> m_funcs m' = m_funcs m.
Proof.
  induction l as [|[g c] r IH]; intros m ids m' ids' E; cbn [parse_globals] in E; [inversion E; reflexivity|].
  pinv E as t Et. wcbn. apply IH in E. exact E.
Qed.
Lemma fu_exports : forall l m ids m', parse_exports m ids l = POk m' -> m_funcs m' = m_funcs m.
Proof.
  induction l as [|e r IH]; intros m ids m' E; cbn [parse_exports] in E; [inversion E; reflexivity|].
  pinv E as t Et. wcbn. apply IH in E. exact E.
Qed.
Lemma fu_elems : forall l m ids m' ids', parse_elems m ids l = POk (m', ids') -> m_funcs m' = m_funcs m.
Proof.
  induction l as [|e r IH]; intros m ids m' ids' E; cbn [parse_elems] in E; [inversion E; reflexivity|].
  pinv E as x Ex. destruct x as [m1 ids1]. apply IH in E. wcbn. rewrite E. clear E IH.
  unfold parse_elem in Ex. pinv Ex as its Eits. pinv Ex as mk Emk. destruct mk as [m2 kind].
  wcbn. inversion Ex; subst; clear Ex. wcbn.
  destruct (wel_kind e) as [| |tbl off]; try (inversion Emk; subst; reflexivity).
  pinv Emk as tid Etid. pinv Emk as tb Etb. pinv Emk as o Eo. pinv Emk as ok Eok. destruct ok; [|discriminate].
  inversion Emk; subst. reflexivity.
Qed.
Lemma fu_reserve : forall n m ids m' ids', reserve_data m ids n = (m', ids') -> m_funcs m' = m_funcs m.
Proof. induction n as [|n IH]; intros m ids m' ids' E; cbn [reserve_data] in E; [inversion E; reflexivity|]. wcbn. apply IH in E. exact E. Qed.
Lemma fu_data : forall l m ids pre i m' ids', parse_data_from m ids pre i l = POk (m', ids') -> m_funcs m' = m_funcs m.
Proof.
  induction l as [|d r IH]; intros m ids pre i m' ids' E; cbn [parse_data_from] in E; [inversion E; reflexivity|].
  pinv E as x Ex. destruct x as [[m1 ids1] id]. pinv E as y Ey. destruct y as [m2 kind]. pinv E as u Eu.
  apply IH in E. rewrite E. clear E IH Eu. wcbn.
  assert (H1 : m_funcs m1 = m_funcs m).
  { destruct pre; [pinv Ex as z Ez; inversion Ex; reflexivity|]. wcbn. inversion Ex; reflexivity. }
  rewrite <- H1. clear H1 Ex.
  destruct (wd_kind d) as [|mi off]; [inversion Ey; reflexivity|].
  pinv Ey as mid Emid. pinv Ey as mem Emem. pinv Ey as o Eo. pinv Ey as ok Eok. destruct ok; [|discriminate].
  inversion Ey; subst. reflexivity.
Qed.
Lemma nl_sec s sec s' : parse_sec s sec = POk s' -> nolocal (ps_m s) -> nolocal (ps_m s').
Proof.
  intros E NL. unfold parse_sec in E. destruct sec.
  - destruct (parse_types _ _ _) as [m1 i1] eqn:Ep. inversion E; subst; clear E. wcbn. apply parse_types_F9 in Ep. f9 Ep.
    unfold nolocal in *. match goal with H : m_funcs m1 = _ |- _ => rewrite H end. exact NL.
  - pinv E as x Ex. destruct x as [m1 i1]. inversion E; subst; clear E. wcbn. eapply nl_imports; eauto.
  - pinv E as x Ex. destruct x as [m1 i1]. inversion E; subst; clear E. wcbn. eapply nl_funcs; eauto.
  - destruct (parse_tables _ _ _) as [m1 i1] eqn:Ep. inversion E; subst; clear E. wcbn. unfold nolocal. rewrite (fu_tables _ _ _ _ _ Ep). exact NL.
  - destruct (parse_mems _ _ _) as [m1 i1] eqn:Ep. inversion E; subst; clear E. wcbn. unfold nolocal. rewrite (fu_mems _ _ _ _ _ Ep). exact NL.
  - pinv E as x Ex. destruct x as [m1 i1]. inversion E; subst; clear E. wcbn. unfold nolocal. rewrite (fu_globals _ _ _ _ _ Ex). exact NL.
  - pinv E as x Ex. inversion E; subst; clear E. wcbn. unfold nolocal. rewrite (fu_exports _ _ _ _ Ex). exact NL.
  - pinv E as x Ex. inversion E; subst; clear E. wcbn. exact NL.
  - pinv E as x Ex. destruct x as [m1 i1]. inversion E; subst; clear E. wcbn. unfold nolocal. rewrite (fu_elems _ _ _ _ _ Ex). exact NL.
  - destruct (reserve_data _ _ _) as [m1 i1] eqn:Ep. inversion E; subst; clear E. wcbn. unfold nolocal. rewrite (fu_reserve _ _ _ _ _ Ep). exact NL.
  - inversion E; subst; clear E. wcbn. exact NL.
  - pinv E as x Ex. destruct x as [m1 i1]. inversion E; subst; clear E. wcbn. unfold parse_data in Ex.
    unfold nolocal. rewrite (fu_data _ _ _ _ _ _ _ Ex). exact NL.
  - inversion E; subst; clear E. unfold parse_custom. destruct c as [n d|n d|[n|]|[p|]]; wcbn; exact NL.
Qed.
Lemma nl_secs : forall w s s', parse_secs s w = POk s' -> nolocal (ps_m s) -> nolocal (ps_m s').
Proof.
  induction w as [|x r IH]; intros s s' E NL; cbn [parse_secs] in E; [inversion E; subst; exact NL|].
  pinv E as s1 E1. eapply IH; [exact E|]. eapply nl_sec; eauto.
Qed.

(* --- the (params, results, entry) key of the types survives the name section *)
Definition tkey (t : mtype) : list valty * list valty * bool := (ty_params t, ty_results t, ty_entry t).
Lemma types_list_key m : types_list m = map tkey (items (Arena.arena (m_types m))).
Proof. reflexivity. Qed.
Lemma parse_names_tkeys m ids n :
  map tkey (items (Arena.arena (m_types (parse_names m ids n)))) = map tkey (items (Arena.arena (m_types m))) /\
  dead (Arena.arena (m_types (parse_names m ids n))) = dead (Arena.arena (m_types m)).
Proof.
  unfold parse_names.
  set (m1 := match wn_module n with Some s => set_name m (Some s) | None => m end).
  assert (H1 : m_types m1 = m_types m) by (subst m1; destruct (wn_module n); reflexivity).
  clearbody m1. cbv zeta.
  match goal with |- context [apply_local_names ?mm _ _] => set (m2 := mm) end.
  assert (H2 : m_types m2 = m_types m) by (subst m2; wcbn; exact H1).
  clearbody m2. clear H1.
  destruct (apply_local_names m2 ids (wn_locals n)) as [m3|] eqn:E3; [|rewrite H2; split; reflexivity].
  apply WV.Proofs.Totality.apply_local_names_types in E3. wcbn. rewrite E3, H2. split.
  - apply apply_names_map. intros x nm. reflexivity.
  - apply (WV.Proofs.ParsedWf.apply_names_types_eqv (ii_types ids) (wn_types n) (Arena.arena (m_types m))).
Qed.
Lemma fold_names_tkeys ids : forall l m,
  map tkey (items (Arena.arena (m_types (fold_left (fun m n => parse_names m ids n) l m)))) = map tkey (items (Arena.arena (m_types m))) /\
  dead (Arena.arena (m_types (fold_left (fun m n => parse_names m ids n) l m))) = dead (Arena.arena (m_types m)).
Proof.
  induction l as [|n r IH]; intros m; cbn [fold_left]; [split; reflexivity|].
  destruct (IH (parse_names m ids n)) as [H1 H2]. destruct (parse_names_tkeys m ids n) as [G1 G2]. split; congruence.
Qed.
Lemma find_entry_from_key rs d : forall l l' n, map tkey l = map tkey l' -> find_entry_from n l d rs = find_entry_from n l' d rs.
Proof.
  induction l as [|t l IH]; intros [|t' l'] n H; try discriminate; [reflexivity|]. cbn [map] in H. injection H as Hp Hr He Hl.
  cbn [find_entry_from]. rewrite Hp, Hr, He, (IH l' _ Hl). reflexivity.
Qed.
Lemma find_entry_key m m' rs :
  map tkey (items (Arena.arena (m_types m'))) = map tkey (items (Arena.arena (m_types m))) ->
  dead (Arena.arena (m_types m')) = dead (Arena.arena (m_types m)) -> find_entry m' rs = find_entry m rs.
Proof. intros H1 H2. unfold find_entry. rewrite H2. apply find_entry_from_key. exact H1. Qed.

Lemma prepare_bodies_len : forall bs m ids ni i m' ids' ps,
  prepare_bodies m ids ni i bs = POk (m', ids', ps) -> length ps = length bs.
Proof.
  induction bs as [|b r IH]; intros m ids ni i m' ids' ps E; cbn [prepare_bodies] in E; [inversion E; reflexivity|].
  pinv E as fid Efid. pinv E as f Ef. destruct (fn_kind f) eqn:Ek; try discriminate.
  pinv E as t Et.
  destruct (add_locals m ids fid (ty_params t) _) as [[m1 ids1] args] eqn:E1.
  destruct (types_insert m1 _) as [m2 tid] eqn:E2.
  destruct (add_locals m2 ids1 fid _ _) as [[m3 ids3] ls] eqn:E3.
  pinv E as x Ex. destruct x as [[m4 ids4] rest]. inversion E; subst; clear E.
  cbn [length]. f_equal. eapply IH; eauto.
Qed.

(* every local function of a parsed module is the parse of exactly one code entry, found by position *)
Theorem local_function_body cf ver w s fid f lf :
  parseM cf ver w = POk s -> aget (m_funcs (ps_m s)) fid = Some f -> fn_kind f = FK_Local lf ->
  exists s1 k b t ety,
    parse_secs (pst0 cf) w = POk s1 /\ ps_bodies s1 = flat_map code_of w /\
    nth_error (flat_map code_of w) k = Some b /\
    nth_N (ii_funcs (ps_ids s)) (len_N (iter (m_funcs (ps_m s1))) - len_N (ps_bodies s1) + N.of_nat k)%N = Some fid /\
    N.to_nat fid = length (ii_funcs (ps_ids s)) - length (flat_map code_of w) + k /\
    types_get (ps_m s) (lf_ty lf) = Some t /\
    find_entry (ps_m s) (ty_results t) = Some ety /\
    lf_entry lf = 0%N /\
    parse_body {| px_i2id := i2id_fun (ps_ids s) fid; px_types := types_list (ps_m s) |} ety (ty_results t) (wb_ops b)
      = Ok (lf_arena lf) /\
    exists base, lf_args lf = map N.of_nat (seq base (length (ty_params t))) /\
                 WV.Proofs.Names.locals_vec (ps_ids s) fid =
                   map N.of_nat (seq base (length (ty_params t) + length (expand_locals (wb_locals b)))).
Proof.
  intros E Hg Hk.
  apply parseM_inv in E. destruct E as (s1 & m1 & ids1 & prepared & m2 & E1 & E2 & E3 & ->).
  fold (pst0 cf) in E1. cbv zeta in *. cbn [ps_m ps_ids] in *.
  change (m_funcs (set_producers ?a ?b)) with (m_funcs a) in Hg.
  apply fold_names_kinds in Hg. destruct Hg as (fn2 & Hg2 & Hk2). rewrite Hk in Hk2.
  assert (IDC : ids_consistent (ps_m s1) (ps_ids s1)) by (eapply parse_secs_ids; [|exact E1]; apply idc_empty).
  pose proof (WV.Proofs.Locals2.parse_secs_il _ _ _ E1) as IL. cbn in IL.
  pose proof (parse_secs_bodies_eq _ _ _ E1) as EB. cbn [ps_bodies pst0 app] in EB.
  assert (NL : nolocal (ps_m s1)) by (eapply nl_secs; [exact E1|]; unfold nolocal; cbn; constructor).
  destruct (WV.Proofs.Locals2.prepare_bodies_locals _ _ _ _ _ _ _ _ E2) as (P1 & _ & _ & _ & P5).
  { destruct IDC as (-> & _). apply WV.Proofs.Locals2.iota_NoDup. }
  { intros k fid0 _ _. rewrite IL. reflexivity. }
  destruct (WV.Proofs.Names.prepare_bodies_uninit _ _ _ _ _ _ _ _ E2) as (FU & _).
  pose proof IDC as IDC'. unfold ids_consistent in IDC'. destruct IDC' as (IF & _ & _ & _ & _ & _ & D & _).
  destruct (install_kinds _ _ _ _ E3 fid fn2 Hg2) as [(lf' & p & m0 & Hk' & Hin & Hf & Ht & Hp)|(Hn & fn1 & Hg1 & Hk1)].
  2:{ exfalso. rewrite FU in Hg1. rewrite aget_nodead in Hg1 by exact D. apply nth_error_In in Hg1.
      unfold nolocal in NL. rewrite Forall_forall in NL. apply (NL _ Hg1 lf). congruence. }
  rewrite Hk' in Hk2. injection Hk2 as <-.
  destruct (In_nth_error _ _ Hin) as [k Hkp].
  pose proof (prepare_bodies_len _ _ _ _ _ _ _ _ E2) as Hlen.
  assert (Hkb : k < length (ps_bodies s1)) by (rewrite <- Hlen; apply nth_error_Some; congruence).
  destruct (nth_error (ps_bodies s1) k) as [b|] eqn:Hb; [|apply nth_error_None in Hb; lia].
  destruct (P5 _ _ Hb) as (p' & t0 & base & Q1 & Q2 & Q3 & Q4 & Q5 & Q6 & _).
  rewrite Hkp in Q1. injection Q1 as <-. subst b.
  unfold parse_one_body in Hp. pinv Hp as t Et. pinv Hp as ety Eety. apply of_opt_panic_ok in Et, Eety.
  destruct (parse_body _ _ _ _) as [ar| |] eqn:Epb; try discriminate. injection Hp as <-.
  cbn [lf_ty lf_args lf_arena lf_entry].
  assert (Et0 : t0 = t) by (unfold types_get in *; rewrite Ht in Et; congruence). subst t0.
  pose proof (WV.Proofs.Totality.install_bodies_types _ _ _ _ E3) as T2.
  assert (Q4' : types_get m2 (pr_ty p) = Some t) by (unfold types_get in *; rewrite T2; exact Q4).
  destruct (WV.Proofs.Locals2.fold_parse_names_types_get ids1 (ps_names s1) m2 _ _ Q4') as (t' & G' & Et').
  apply mtype_eqb_spec in Et'. destruct Et' as (Ep & Er & _).
  destruct (fold_names_tkeys ids1 (ps_names s1) m2) as [K1 K2]. rewrite T2, <- Ht in K1, K2.
  exists s1, k, (pr_body p), t', ety. rewrite <- Ep, <- Er, <- EB.
  split; [exact E1|]. split; [reflexivity|]. split; [exact Hb|].
  unfold WV.Proofs.Locals2.fid_at in Q3. rewrite N.add_0_r in Q3.
  split; [rewrite P1, <- Hf; exact Q3|].
  split.
  { rewrite IF in Q3. apply nth_N_iota in Q3. rewrite <- Hf, Q3, P1, IF, iota_length.
    unfold len_N. rewrite (iter_length_nodead _ D). lia. }
  split; [exact G'|].
  split; [rewrite <- Eety; apply find_entry_key; assumption|].
  split; [reflexivity|].
  split.
  { rewrite types_list_key. change (m_types (set_producers ?a ?b)) with (m_types a). rewrite K1, <- types_list_key, <- Hf. exact Epb. }
  exists base. split; [exact Q6|].
  unfold WV.Proofs.Names.locals_vec. rewrite WV.Proofs.Locals2.locals_of_lfind, <- Hf.
  unfold WV.Proofs.Locals2.lvec in Q5. destruct (WV.Proofs.Locals2.lfind (ii_locals ids1) (pr_fid p)); exact Q5.
Qed.

(* ====================================================================================== *)
(* G3. two trips: the function j of the second module is the parse of the body emitted for  *)
(*     the function id of the first module, where j is the emitted index of id              *)
(* ====================================================================================== *)
Lemma m12_nth_map_inv {A B} (f : A -> B) l n b : nth_error (map f l) n = Some b -> exists a, nth_error l n = Some a /\ f a = b.
Proof.
  rewrite nth_error_map. destruct (nth_error l n) as [a|]; cbn [option_map]; [|discriminate].
  intros H. inversion H. eauto.
Qed.
Lemma combine_seq_in {A} : forall (L : list A) s a i, In (a, i) (combine L (map N.of_nat (seq s (length L)))) ->
  s <= N.to_nat i /\ nth_error L (N.to_nat i - s) = Some a.
Proof.
  induction L as [|x L IH]; intros s a i H; [destruct H|]. cbn [length seq map combine In] in H. destruct H as [H|H].
  - injection H as -> <-. rewrite Nat2N.id, Nat.sub_diag. split; [lia|reflexivity].
  - apply IH in H. destruct H as [H1 H2]. split; [lia|].
    replace (N.to_nat i - s) with (S (N.to_nat i - S s)) by lia. exact H2.
Qed.
Lemma lookup_number L id j : lookup_i (number L) id = Ok j -> nth_error L (N.to_nat j) = Some id.
Proof.
  unfold lookup_i. destruct (find _ _) as [p|] eqn:E; [|discriminate]. intros [= <-].
  apply find_some in E. destruct E as [Hin He]. apply N.eqb_eq in He. destruct p as [a i]. cbn [fst snd] in *. subst a.
  unfold number, iota in Hin. apply combine_seq_in in Hin. destruct Hin as [_ H]. rewrite Nat.sub_0_r in H. exact H.
Qed.

(* the function index space of the second module: imported functions, then the local ones in emission order *)
Lemma second_funcs_count cf ver ilen m1 e1 s2 fs1 :
  emitM m1 ilen [] = Ok e1 -> parseM cf ver (em_secs e1) = POk s2 -> used_local_functions m1 = Ok fs1 ->
  length (ii_funcs (ps_ids s2)) = length (imp_ids S_func (live_imports m1)) + length fs1.
Proof.
  intros E1 P2 Hfs.
  destruct (parseM_sigs _ _ _ _ P2) as [_ HF]. unfold FInv in HF. apply Forall2_length in HF.
  pose proof (parseM_ids _ _ _ _ P2) as IDC. unfold ids_consistent in IDC. destruct IDC as (IF & _).
  rewrite IF, iota_length. unfold K_fty in HF. rewrite map_length in HF. rewrite <- HF.
  destruct (out_decls _ _ _ _ E1) as (s_ty & x1 & s_im & x2 & s_fn & x3 & Ety & Eim & Efn & Hout & _).
  { intros s []. }
  unfold out_ftys in Hout. rewrite Hout, app_length.
  destruct (emit_imports_ftys _ _ _ _ Eim) as (ws & Hws & Fws). apply imports_align in Fws. apply Forall2_length in Fws.
  destruct (emit_func_section_ftys _ _ _ _ Efn) as (fs & tis & Hfs' & Htis & Ftis). apply Forall2_length in Ftis.
  rewrite Hfs in Hfs'. injection Hfs' as <-. rewrite Hws, Htis, <- Fws, <- Ftis. reflexivity.
Qed.

Theorem second_trip_functions cf ver w ilen s1 e1 s2 e2 fs1 :
  two_trips cf ver w ilen s1 e1 s2 e2 -> used_local_functions (ps_m s1) = Ok fs1 ->
  forall id j f1 lf1 f2 lf2,
    get_idx (em_x2i e1) S_func id = Ok j ->
    aget (m_funcs (ps_m s1)) id = Some f1 -> fn_kind f1 = FK_Local lf1 ->
    aget (m_funcs (ps_m s2)) j = Some f2 -> fn_kind f2 = FK_Local lf2 ->
  exists k ef1 t2 ety2,
    nth_error fs1 k = Some (id, lf1) /\ nth_error (em_fns e1) k = Some ef1 /\
    nth_error (flat_map code_of (em_secs e1)) k = Some (ef_body ef1) /\
    N.to_nat j = length (imp_ids S_func (live_imports (ps_m s1))) + k /\
    emit_function (ps_m s1) (em_x2i e1) ilen id lf1 = Ok ef1 /\
    types_get (ps_m s2) (lf_ty lf2) = Some t2 /\ find_entry (ps_m s2) (ty_results t2) = Some ety2 /\
    lf_entry lf2 = 0%N /\
    parse_body {| px_i2id := i2id_fun (ps_ids s2) j; px_types := types_list (ps_m s2) |} ety2 (ty_results t2)
               (wb_ops (ef_body ef1)) = Ok (lf_arena lf2) /\
    exists base, lf_args lf2 = map N.of_nat (seq base (length (ty_params t2))) /\
                 WV.Proofs.Names.locals_vec (ps_ids s2) j =
                   map N.of_nat (seq base (length (ty_params t2) + length (expand_locals (wb_locals (ef_body ef1))))).
Proof.
  intros (P1 & E1 & P2 & E2) Hfs id j f1 lf1 f2 lf2 Hj Hg1 Hk1 Hg2 Hk2.
  destruct (local_function_body _ _ _ _ _ _ _ P2 Hg2 Hk2)
    as (s1' & k & b & t & ety & _ & _ & Hb & _ & Hjk & Ht & Hety & Hentry & Hpb & Hloc).
  destruct (emit_code_payload _ _ _ _ E1 Hfs) as (Hco & F & Hids & Hlen).
  pose proof (second_funcs_count _ _ _ _ _ _ _ E1 P2 Hfs) as Hcnt.
  rewrite Hlen, Hcnt in Hjk. replace (length (imp_ids S_func (live_imports (ps_m s1))) + length fs1 - length fs1 + k)
    with (length (imp_ids S_func (live_imports (ps_m s1))) + k) in Hjk by lia.
  pose proof Hb as Hb'. rewrite Hco in Hb'. apply m12_nth_map_inv in Hb'. destruct Hb' as (ef1 & Hef & Hbody). subst b.
  assert (Hk : k < length fs1).
  { rewrite <- Hlen. apply nth_error_Some. congruence. }
  destruct (nth_error fs1 k) as [p|] eqn:Hp; [|apply nth_error_None in Hp; lia].
  destruct (Forall2_nth_l _ _ _ _ _ F Hp) as (ef' & Hef' & Hemit). rewrite Hef in Hef'. injection Hef' as <-.
  (* the emitted index *)
  destruct (emitM_x2i _ _ _ _ E1) as (fs' & Hfs' & _ & Xf & _). rewrite Hfs in Hfs'. injection Hfs' as <-.
  unfold get_idx in Hj. cbn [space_map] in Hj. rewrite Xf in Hj. apply lookup_number in Hj.
  rewrite Hjk, nth_error_app2 in Hj by lia.
  replace (length (imp_ids S_func (live_imports (ps_m s1))) + k - length (imp_ids S_func (live_imports (ps_m s1)))) with k in Hj by lia.
  rewrite nth_error_map, Hp in Hj. cbn [option_map] in Hj. injection Hj as Hid.
  assert (Hlf : snd p = lf1).
  { destruct p as [pid plf]. cbn [fst snd] in *. subst pid. apply nth_error_In in Hp.
    destruct (ulf_in _ _ _ _ Hfs Hp) as (f & Hin & Hkf). apply aiter_aget in Hin. congruence. }
  exists k, ef1, t, ety. destruct p as [pid plf]. cbn [fst snd] in *. subst pid plf.
  repeat (split; [first [reflexivity|assumption]|]). exact Hloc.
Qed.

(* --- sizes_stable reduced to a statement about one function *)
Definition sizes_stable' (s1 : pst) (e1 : emitted) (s2 : pst) : Prop :=
  forall id j f1 lf1 f2 lf2, get_idx (em_x2i e1) S_func id = Ok j ->
    aget (m_funcs (ps_m s1)) id = Some f1 -> fn_kind f1 = FK_Local lf1 ->
    aget (m_funcs (ps_m s2)) j = Some f2 -> fn_kind f2 = FK_Local lf2 -> lf_size lf2 = lf_size lf1.

(* the body-level premise: the parse of the emitted body of a parsed function visits as many instructions *)
Definition body_size_stable (ilen : wins -> N) (s1 : pst) (e1 : emitted) (s2 : pst) : Prop :=
  forall id j f1 lf1 ef1 lf2 t2 ety2,
    aget (m_funcs (ps_m s1)) id = Some f1 -> fn_kind f1 = FK_Local lf1 ->
    get_idx (em_x2i e1) S_func id = Ok j ->
    emit_function (ps_m s1) (em_x2i e1) ilen id lf1 = Ok ef1 ->
    types_get (ps_m s2) (lf_ty lf2) = Some t2 -> find_entry (ps_m s2) (ty_results t2) = Some ety2 ->
    lf_entry lf2 = 0%N ->
    parse_body {| px_i2id := i2id_fun (ps_ids s2) j; px_types := types_list (ps_m s2) |} ety2 (ty_results t2)
               (wb_ops (ef_body ef1)) = Ok (lf_arena lf2) ->
    lf_size lf2 = lf_size lf1.

Theorem sizes_stable_reduce cf ver w ilen s1 e1 s2 e2 :
  two_trips cf ver w ilen s1 e1 s2 e2 -> body_size_stable ilen s1 e1 s2 -> sizes_stable' s1 e1 s2.
Proof.
  intros TT BS id j f1 lf1 f2 lf2 Hj Hg1 Hk1 Hg2 Hk2. pose proof TT as (P1 & E1 & P2 & E2).
  destruct (emitM_x2i _ _ _ _ E1) as (fs1 & Hfs1 & _).
  destruct (second_trip_functions _ _ _ _ _ _ _ _ _ TT Hfs1 _ _ _ _ _ _ Hj Hg1 Hk1 Hg2 Hk2)
    as (k & ef1 & t2 & ety2 & _ & _ & _ & _ & A5 & A6 & A7 & A8 & A9 & _).
  eapply BS; eauto.
Qed.

(* ====================================================================================== *)
(* the code payload of the second trip, reduced to a statement about one function           *)
(* ====================================================================================== *)
Lemma iota_add a b : iota (a + b) = iota a ++ map N.of_nat (seq a b).
Proof. unfold iota. rewrite seq_app, map_app. reflexivity. Qed.
Lemma list_ext_nth {A} : forall (l l' : list A), (forall k, nth_error l k = nth_error l' k) -> l = l'.
Proof.
  induction l as [|a l IH]; intros [|b l'] H; [reflexivity|specialize (H 0); discriminate|specialize (H 0); discriminate|].
  f_equal; [specialize (H 0); cbn in H; congruence|apply IH; intros k; exact (H (S k))].
Qed.
Lemma nth_error_seq : forall n a k, k < n -> nth_error (seq a n) k = Some (a + k).
Proof.
  induction n as [|n IH]; intros a [|k] H; cbn [seq nth_error]; try lia; [f_equal; lia|].
  rewrite IH by lia. f_equal. lia.
Qed.

(* function-level premise: re-emitting the parse of an emitted body reproduces that body (operators and local declarations) *)
Definition function_body_stable (ilen : wins -> N) (s1 : pst) (e1 : emitted) (s2 : pst) (e2 : emitted) : Prop :=
  forall id j f1 lf1 ef1 f2 lf2 ef2 t2 ety2 base,
    aget (m_funcs (ps_m s1)) id = Some f1 -> fn_kind f1 = FK_Local lf1 ->
    get_idx (em_x2i e1) S_func id = Ok j ->
    aget (m_funcs (ps_m s2)) j = Some f2 -> fn_kind f2 = FK_Local lf2 ->
    emit_function (ps_m s1) (em_x2i e1) ilen id lf1 = Ok ef1 ->
    types_get (ps_m s2) (lf_ty lf2) = Some t2 -> find_entry (ps_m s2) (ty_results t2) = Some ety2 ->
    lf_entry lf2 = 0%N ->
    parse_body {| px_i2id := i2id_fun (ps_ids s2) j; px_types := types_list (ps_m s2) |} ety2 (ty_results t2)
               (wb_ops (ef_body ef1)) = Ok (lf_arena lf2) ->
    lf_args lf2 = map N.of_nat (seq base (length (ty_params t2))) ->
    WV.Proofs.Names.locals_vec (ps_ids s2) j =
      map N.of_nat (seq base (length (ty_params t2) + length (expand_locals (wb_locals (ef_body ef1))))) ->
    emit_function (ps_m s2) (em_x2i e2) ilen j lf2 = Ok ef2 ->
    ef_body ef2 = ef_body ef1.

Theorem fix_code_reduce cf ver w ilen s1 e1 s2 e2 :
  two_trips cf ver w ilen s1 e1 s2 e2 -> rho_id s2 e2 S_func ->
  imported_funcs (ps_m s2) = iota (length (imported_funcs (ps_m s1))) ->
  function_body_stable ilen s1 e1 s2 e2 ->
  flat_map code_of (em_secs e2) = flat_map code_of (em_secs e1).
Proof.
  intros TT RID LAY BS. pose proof TT as (P1 & E1 & P2 & E2).
  destruct (emitM_x2i _ _ _ _ E1) as (fs1 & Hfs1 & _ & Xf1 & _).
  destruct (emitM_x2i _ _ _ _ E2) as (fs2 & Hfs2 & _).
  destruct (emit_code_payload _ _ _ _ E1 Hfs1) as (Hco1 & F1 & _ & Hlen1).
  destruct (emit_code_payload _ _ _ _ E2 Hfs2) as (Hco2 & F2 & _ & Hlen2).
  pose proof (second_funcs_count _ _ _ _ _ _ _ E1 P2 Hfs1) as Hcnt. rewrite imported_funcs_eq in Hcnt.
  rewrite imported_funcs_eq in Xf1.
  set (ni := length (imported_funcs (ps_m s1))) in *.
  assert (Hord : map fst fs2 = map N.of_nat (seq ni (length fs1))).
  { pose proof (rho_identity_iff _ _ _ _ _ _ _ P2 E2 S_func ltac:(discriminate) ltac:(discriminate)) as [HI _].
    specialize (HI RID).
    destruct (emitted_ids_shape _ _ _ _ E2) as (fs' & Hfs' & Hsh & _). rewrite Hfs2 in Hfs'. injection Hfs' as <-.
    rewrite Hsh, LAY in HI. unfold n_in in HI. cbn [ids_space] in HI. rewrite Hcnt, iota_add in HI. fold ni in HI.
    apply app_inv_head in HI. exact HI. }
  assert (L2 : length fs2 = length fs1).
  { rewrite <- (map_length fst fs2), Hord, map_length, seq_length. reflexivity. }
  pose proof F1 as LF1. apply Forall2_length in LF1. pose proof F2 as LF2. apply Forall2_length in LF2.
  rewrite Hco2, Hco1. apply list_ext_nth. intros k. rewrite !nth_error_map.
  destruct (nth_error (em_fns e2) k) as [ef2|] eqn:H2.
  2:{ apply nth_error_None in H2. assert (H1 : nth_error (em_fns e1) k = None) by (apply nth_error_None; lia).
      rewrite H1. reflexivity. }
  assert (Hk : k < length fs1) by (rewrite <- L2, LF2; apply nth_error_Some; congruence).
  destruct (nth_error fs2 k) as [[id2 lf2]|] eqn:Hp2; [|apply nth_error_None in Hp2; lia].
  destruct (nth_error fs1 k) as [[id1 lf1]|] eqn:Hp1; [|apply nth_error_None in Hp1; lia].
  destruct (Forall2_nth_l _ _ _ _ _ F2 Hp2) as (ef2' & Hef2 & Hemit2). rewrite H2 in Hef2. injection Hef2 as <-.
  destruct (Forall2_nth_l _ _ _ _ _ F1 Hp1) as (ef1 & Hef1 & Hemit1). cbn [fst snd] in *.
  assert (Hid2 : id2 = N.of_nat (ni + k)).
  { assert (H : nth_error (map fst fs2) k = Some id2) by (rewrite nth_error_map, Hp2; reflexivity).
    rewrite Hord, nth_error_map, nth_error_seq in H by exact Hk. cbn [option_map] in H. congruence. }
  subst id2.
  destruct (ulf_in _ _ _ _ Hfs1 (nth_error_In _ _ Hp1)) as (f1 & Hin1 & Hk1). apply aiter_aget in Hin1.
  destruct (ulf_in _ _ _ _ Hfs2 (nth_error_In _ _ Hp2)) as (f2 & Hin2 & Hk2). apply aiter_aget in Hin2.
  assert (Hidx : get_idx (em_x2i e1) S_func id1 = Ok (N.of_nat (ni + k))).
  { apply x2i_positions; [apply (parsed_wf_space _ _ _ _ _ _ _ S_func P1 E1); discriminate|].
    cbn [space_map]. rewrite Xf1, number_fst, Nat2N.id, nth_error_app2 by (fold ni; lia). fold ni.
    replace (ni + k - ni) with k by lia. rewrite nth_error_map, Hp1. reflexivity. }
  destruct (second_trip_functions _ _ _ _ _ _ _ _ _ TT Hfs1 _ _ _ _ _ _ Hidx Hin1 Hk1 Hin2 Hk2)
    as (k' & ef1' & t2 & ety2 & A1 & A2 & A3 & A4 & A5 & A6 & A7 & A8 & A9 & (base & B1 & B2)).
  rewrite imported_funcs_eq in A4. fold ni in A4. rewrite Nat2N.id in A4. assert (k' = k) by lia. subst k'.
  rewrite Hef1 in A2. injection A2 as <-.
  rewrite Hef1. cbn [option_map]. f_equal.
  eapply (BS id1 (N.of_nat (ni + k)) f1 lf1 ef1 f2 lf2 ef2 t2 ety2 base); eassumption.
Qed.


(* ====================================================================================== *)
(* G2, forward direction: the k-th code entry becomes a local function                      *)
(* ====================================================================================== *)
Lemma aget_some_nth {A} (a : tarena A) i x : aget a i = Some x -> nth_error (items a) (N.to_nat i) = Some x.
Proof. unfold aget, index, get. destruct (is_dead a (N.to_nat i)); [discriminate|]. auto. Qed.

Lemma install_keeps_local : forall ps m ids m', install_bodies m ids ps = POk m' ->
  forall id f lf, aget (m_funcs m) id = Some f -> fn_kind f = FK_Local lf ->
  exists f' lf', aget (m_funcs m') id = Some f' /\ fn_kind f' = FK_Local lf'.
Proof.
  induction ps as [|p r IH]; intros m ids m' E id f lf Hg Hk; cbn [install_bodies] in E.
  - inversion E; subst. eauto.
  - pinv E as lf0 Elf. rewrite <- aget_eta in Hg.
    destruct (aget_upd_live' _ _ (pr_fid p) (fun f => {| fn_kind := FK_Local lf0; fn_name := fn_name f |}) _ _ Hg) as [x Hx].
    pose proof Hx as Hx'. apply aget_upd_at in Hx'.
    destruct Hx' as [(_ & x0 & _ & ->)|(_ & Hx')].
    + eapply (IH _ _ _ E id); [cbn [set_funcs m_funcs]; unfold aset_at; exact Hx|reflexivity].
    + rewrite Hg in Hx'. injection Hx' as <-.
      eapply (IH _ _ _ E id); [cbn [set_funcs m_funcs]; unfold aset_at; exact Hx|exact Hk].
Qed.
Lemma install_makes_local : forall ps m ids m', install_bodies m ids ps = POk m' ->
  forall p, In p ps -> (exists f, aget (m_funcs m) (pr_fid p) = Some f) ->
  exists f' lf', aget (m_funcs m') (pr_fid p) = Some f' /\ fn_kind f' = FK_Local lf'.
Proof.
  induction ps as [|p r IH]; intros m ids m' E p' Hin (f & Hf); [destruct Hin|]. cbn [install_bodies] in E.
  pinv E as lf0 Elf. rewrite <- aget_eta in Hf.
  destruct (aget_upd_live' _ _ (pr_fid p) (fun f => {| fn_kind := FK_Local lf0; fn_name := fn_name f |}) _ _ Hf) as [x Hx].
  destruct Hin as [<-|Hin].
  - pose proof Hx as Hx'. apply aget_upd_at in Hx'. destruct Hx' as [(_ & x0 & _ & ->)|(Hne & _)]; [|congruence].
    eapply (install_keeps_local _ _ _ _ E); [cbn [set_funcs m_funcs]; unfold aset_at; exact Hx|reflexivity].
  - apply (IH _ _ _ E p' Hin). exists x. cbn [set_funcs m_funcs]. unfold aset_at. exact Hx.
Qed.

Lemma fold_names_K_funcs ids : forall l m, K_funcs (fold_left (fun m n => parse_names m ids n) l m) = K_funcs m.
Proof.
  induction l as [|n r IH]; intros m; cbn [fold_left]; [reflexivity|]. rewrite IH. apply parse_names_KK.
Qed.

Theorem parsed_function_body cf ver w s k b :
  parseM cf ver w = POk s -> nth_error (flat_map code_of w) k = Some b ->
  exists fid f lf t ety,
    N.to_nat fid = length (ii_funcs (ps_ids s)) - length (flat_map code_of w) + k /\
    aget (m_funcs (ps_m s)) fid = Some f /\ fn_kind f = FK_Local lf /\
    types_get (ps_m s) (lf_ty lf) = Some t /\
    find_entry (ps_m s) (ty_results t) = Some ety /\
    lf_entry lf = 0%N /\
    parse_body {| px_i2id := i2id_fun (ps_ids s) fid; px_types := types_list (ps_m s) |} ety (ty_results t) (wb_ops b)
      = Ok (lf_arena lf) /\
    exists base, lf_args lf = map N.of_nat (seq base (length (ty_params t))) /\
                 WV.Proofs.Names.locals_vec (ps_ids s) fid =
                   map N.of_nat (seq base (length (ty_params t) + length (expand_locals (wb_locals b)))).
Proof.
  intros E0 Hb0. pose proof (parseM_ids _ _ _ _ E0) as IDCs. pose proof E0 as E.
  apply parseM_inv in E. destruct E as (s1 & m1 & ids1 & prepared & m2 & E1 & E2 & E3 & Es).
  fold (pst0 cf) in E1. cbv zeta in Es.
  assert (IDC : ids_consistent (ps_m s1) (ps_ids s1)) by (eapply parse_secs_ids; [|exact E1]; apply idc_empty).
  pose proof (WV.Proofs.Locals2.parse_secs_il _ _ _ E1) as IL. cbn in IL.
  pose proof (parse_secs_bodies_eq _ _ _ E1) as EB. cbn [ps_bodies pst0 app] in EB.
  destruct (WV.Proofs.Locals2.prepare_bodies_locals _ _ _ _ _ _ _ _ E2) as (P1 & _ & _ & _ & P5).
  { destruct IDC as (-> & _). apply WV.Proofs.Locals2.iota_NoDup. }
  { intros k0 fid0 _ _. rewrite IL. reflexivity. }
  destruct (WV.Proofs.Names.prepare_bodies_uninit _ _ _ _ _ _ _ _ E2) as (FU & _).
  pose proof Hb0 as Hb. rewrite <- EB in Hb.
  destruct (P5 _ _ Hb) as (p & t0 & base0 & Q1 & Q2 & Q3 & _ & _ & _ & _ & _ & _ & _ & (f0 & Q11 & _)).
  destruct (install_makes_local _ _ _ _ E3 p (nth_error_In _ _ Q1)) as (f2 & lf & Hg2 & Hk2).
  { exists f0. rewrite FU. exact Q11. }
  (* transport to the final module *)
  assert (Hfin : exists f, aget (m_funcs (ps_m s)) (pr_fid p) = Some f /\ fn_kind f = FK_Local lf).
  { unfold ids_consistent in IDCs. destruct IDCs as (_ & _ & _ & _ & _ & _ & D & _).
    rewrite aget_nodead by exact D. apply aget_some_nth in Hg2.
    assert (HK : K_funcs (ps_m s) = K_funcs m2).
    { rewrite Es. cbn [ps_m]. unfold K_funcs at 1. change (m_funcs (set_producers ?a ?b)) with (m_funcs a).
      apply fold_names_K_funcs. }
    assert (H : nth_error (K_funcs (ps_m s)) (N.to_nat (pr_fid p)) = Some (FK_Local lf)).
    { rewrite HK. unfold K_funcs. rewrite nth_error_map, Hg2. cbn [option_map]. rewrite Hk2. reflexivity. }
    unfold K_funcs in H. apply m12_nth_map_inv in H. exact H. }
  destruct Hfin as (f & Hg & Hk).
  destruct (local_function_body _ _ _ _ _ _ _ E0 Hg Hk)
    as (s1' & k' & b' & t & ety & _ & _ & Hb' & _ & Hjk & Ht & Hety & Hentry & Hpb & Hloc).
  assert (Hfid : N.to_nat (pr_fid p) = length (ii_funcs (ps_ids s)) - length (flat_map code_of w) + k).
  { pose proof IDC as IDC'. unfold ids_consistent in IDC'. destruct IDC' as (IF & _ & _ & _ & _ & _ & D & _).
    unfold WV.Proofs.Locals2.fid_at in Q3. rewrite N.add_0_r in Q3.
    rewrite IF in Q3. apply nth_N_iota in Q3. rewrite Es. cbn [ps_ids]. rewrite Q3, P1, IF, iota_length, <- EB.
    unfold len_N. rewrite (iter_length_nodead _ D). lia. }
  assert (k' = k) by lia. subst k'. rewrite Hb0 in Hb'. injection Hb' as <-.
  exists (pr_fid p), f, lf, t, ety. repeat (split; [assumption|]). exact Hloc.
Qed.


(* ====================================================================================== *)
(* G4. bodies of a valid stream are structured, well-formed in the parse context of G2      *)
(* ====================================================================================== *)
Theorem valid_bodies_structured cf ver w s b fid :
  valid_stream w -> parseM cf ver w = POk s -> In b (flat_map code_of w) ->
  exists l eloc, wb_ops b = flat_list l ++ [(WEnd, eloc)] /\
                 swfl (length (ii_types (ps_ids s))) 1 l /\
                 wfl {| px_i2id := i2id_fun (ps_ids s) fid; px_types := types_list (ps_m s) |} 1 l.
Proof.
  intros V E Hb.
  apply parseM_inv in E. destruct E as (s1 & m1 & ids1 & prepared & m2 & E1 & E2 & E3 & ->). cbv zeta. cbn [ps_m ps_ids].
  destruct (parse_secs_total w ctx0 (pst_init cf) (Inv_init cf) V) as (s1' & c & E1' & I & Hcnt).
  unfold pst_init in E1'. rewrite E1 in E1'. injection E1' as <-.
  pose proof (parse_secs_bodies_eq _ _ _ E1) as EB. cbn [ps_bodies app] in EB.
  pose proof (iv_bv _ _ I) as Hbv. rewrite Forall_forall in Hbv. rewrite <- EB in Hb.
  destruct (Hbv _ Hb) as (l & eloc & Eops & Hsw).
  pose proof (iv_pi _ _ I) as P0. destruct (iv_abs _ _ I) as (Hnt & _).
  destruct (prepare_bodies_PI _ _ _ _ _ _ _ _ P0 E2) as (P1 & _ & _).
  pose proof (prepare_bodies_ty _ _ _ _ _ _ _ _ E2) as HT.
  assert (TI : TInv m1 ids1 (c_nt c)).
  { split; [|split; [rewrite HT; exact Hnt|apply (pi_ity _ _ P1)]].
    pose proof (pi_idc _ _ P1) as Hid. unfold ids_consistent in Hid. decompose [and] Hid. assumption. }
  pose proof (WV.Proofs.Totality.install_bodies_types _ _ _ _ E3) as T2.
  destruct (fold_names_tkeys ids1 (ps_names s1) m2) as [K1 _]. rewrite T2 in K1.
  exists l, eloc. split; [exact Eops|]. rewrite HT, Hnt. split; [exact Hsw|].
  rewrite types_list_key. change (m_types (set_producers ?a ?b)) with (m_types a). rewrite K1, <- types_list_key.
  eapply swfl_wfl; [|exact Hsw]. intros bt Hbt. eapply sbt_bt_ok; eauto.
Qed.


(* ====================================================================================== *)
(* G2, the locals: the ids of the parse-time local vector have the declared types           *)
(* ====================================================================================== *)
Lemma lo_types : forall ts m ids m' ids', parse_types m ids ts = (m', ids') -> m_locals m' = m_locals m.
Proof.
  induction ts as [|[ps rs] r IH]; intros m ids m' ids' E; cbn [parse_types] in E; [inversion E; reflexivity|].
  destruct (types_insert m _) as [m1 id] eqn:E1. apply IH in E. rewrite E. eapply WV.Proofs.Locals2.types_insert_locals; eauto.
Qed.
Lemma lo_imports : forall l m ids m' ids', parse_imports m ids l = POk (m', ids') -> m_locals m' = m_locals m.
Proof.
  induction l as [|i r IH]; intros m ids m' ids' E; cbn [parse_imports] in E; [inversion E; subst; reflexivity|].
  pinv E as x Ex. apply IH in E. rewrite E. clear IH E. unfold parse_import in Ex.
  destruct (wi_kind i) as [tyi|wt|wm|wg]; [pinv Ex as ty Ety|..]; wcbn; inversion Ex; subst; clear Ex; reflexivity.
Qed.
Lemma lo_funcs : forall l m ids m' ids', parse_funcs m ids l = POk (m', ids') -> m_locals m' = m_locals m.
Proof.
  induction l as [|i r IH]; intros m ids m' ids' E; cbn [parse_funcs] in E; [inversion E; subst; reflexivity|].
  pinv E as ty Ety. wcbn. apply IH in E. rewrite E. reflexivity.
Qed.
Lemma lo_tables : forall l m ids m' ids', parse_tables m ids l = (m', ids') -> m_locals m' = m_locals m.
Proof. induction l as [|t r IH]; intros m ids m' ids' E; cbn [parse_tables] in E; [inversion E; reflexivity|]. wcbn. apply IH in E. exact E. Qed.
Lemma lo_mems : forall l m ids m' ids', parse_mems m ids l = (m', ids') -> m_locals m' = m_locals m.
Proof. induction l as [|t r IH]; intros m ids m' ids' E; cbn [parse_mems] in E; [inversion E; reflexivity|]. wcbn. apply IH in E. exact E. Qed.
Lemma lo_globals : forall l m ids m' ids', parse_globals m ids l = POk (m', ids') -> m_locals m' = m_locals m.
Proof.
  induction l as [|[g c] r IH]; intros m ids m' ids' E; cbn [parse_globals] in E; [inversion E; reflexivity|].
  pinv E as t Et. wcbn. apply IH in E. exact E.
Qed.
Lemma lo_exports : forall l m ids m', parse_exports m ids l = POk m' -> m_locals m' = m_locals m.
Proof.
  induction l as [|e r IH]; intros m ids m' E; cbn [parse_exports] in E; [inversion E; reflexivity|].
  pinv E as t Et. wcbn. apply IH in E. exact E.
Qed.
Lemma lo_elems : forall l m ids m' ids', parse_elems m ids l = POk (m', ids') -> m_locals m' = m_locals m.
Proof.
  induction l as [|e r IH]; intros m ids m' ids' E; cbn [parse_elems] in E; [inversion E; reflexivity|].
  pinv E as x Ex. destruct x as [m1 ids1]. apply IH in E. wcbn. rewrite E. clear E IH.
  unfold parse_elem in Ex. pinv Ex as its Eits. pinv Ex as mk Emk. destruct mk as [m2 kind].
  wcbn. inversion Ex; subst; clear Ex. wcbn.
  destruct (wel_kind e) as [| |tbl off]; try (inversion Emk; subst; reflexivity).
  pinv Emk as tid Etid. pinv Emk as tb Etb. pinv Emk as o Eo. pinv Emk as ok Eok. destruct ok; [|discriminate].
  inversion Emk; subst. reflexivity.
Qed.
Lemma lo_reserve : forall n m ids m' ids', reserve_data m ids n = (m', ids') -> m_locals m' = m_locals m.
Proof. induction n as [|n IH]; intros m ids m' ids' E; cbn [reserve_data] in E; [inversion E; reflexivity|]. wcbn. apply IH in E. exact E. Qed.
Lemma lo_data : forall l m ids pre i m' ids', parse_data_from m ids pre i l = POk (m', ids') -> m_locals m' = m_locals m.
Proof.
  induction l as [|d r IH]; intros m ids pre i m' ids' E; cbn [parse_data_from] in E; [inversion E; reflexivity|].
  pinv E as x Ex. destruct x as [[m1 ids1] id]. pinv E as y Ey. destruct y as [m2 kind]. pinv E as u Eu.
  apply IH in E. rewrite E. clear E IH Eu. wcbn.
  assert (H1 : m_locals m1 = m_locals m).
  { destruct pre; [pinv Ex as z Ez; inversion Ex; reflexivity|]. wcbn. inversion Ex; reflexivity. }
  rewrite <- H1. clear H1 Ex.
  destruct (wd_kind d) as [|mi off]; [inversion Ey; reflexivity|].
  pinv Ey as mid Emid. pinv Ey as mem Emem. pinv Ey as o Eo. pinv Ey as ok Eok. destruct ok; [|discriminate].
  inversion Ey; subst. reflexivity.
Qed.
Lemma lo_sec s sec s' : parse_sec s sec = POk s' -> m_locals (ps_m s') = m_locals (ps_m s).
Proof.
  intros E. unfold parse_sec in E. destruct sec.
  - destruct (parse_types _ _ _) as [m1 i1] eqn:Ep. inversion E; subst; clear E. wcbn. eapply lo_types; eauto.
  - pinv E as x Ex. destruct x as [m1 i1]. inversion E; subst; clear E. wcbn. eapply lo_imports; eauto.
  - pinv E as x Ex. destruct x as [m1 i1]. inversion E; subst; clear E. wcbn. eapply lo_funcs; eauto.
  - destruct (parse_tables _ _ _) as [m1 i1] eqn:Ep. inversion E; subst; clear E. wcbn. eapply lo_tables; eauto.
  - destruct (parse_mems _ _ _) as [m1 i1] eqn:Ep. inversion E; subst; clear E. wcbn. eapply lo_mems; eauto.
  - pinv E as x Ex. destruct x as [m1 i1]. inversion E; subst; clear E. wcbn. eapply lo_globals; eauto.
  - pinv E as x Ex. inversion E; subst; clear E. wcbn. eapply lo_exports; eauto.
  - pinv E as x Ex. inversion E; subst; clear E. wcbn. reflexivity.
  - pinv E as x Ex. destruct x as [m1 i1]. inversion E; subst; clear E. wcbn. eapply lo_elems; eauto.
  - destruct (reserve_data _ _ _) as [m1 i1] eqn:Ep. inversion E; subst; clear E. wcbn. eapply lo_reserve; eauto.
  - inversion E; subst; clear E. wcbn. reflexivity.
  - pinv E as x Ex. destruct x as [m1 i1]. inversion E; subst; clear E. wcbn. unfold parse_data in Ex. eapply lo_data; eauto.
  - inversion E; subst; clear E. unfold parse_custom. destruct c as [n d|n d|[n|]|[p|]]; wcbn; reflexivity.
Qed.
Lemma lo_secs : forall w s s', parse_secs s w = POk s' -> m_locals (ps_m s') = m_locals (ps_m s).
Proof.
  induction w as [|x r IH]; intros s s' E; cbn [parse_secs] in E; [inversion E; subst; reflexivity|].
  pinv E as s1 E1. rewrite (IH _ _ E). eapply lo_sec; eauto.
Qed.

Lemma firstn_seq_add : forall n a m, firstn n (seq a (n + m)) = seq a n.
Proof. induction n as [|n IH]; intros a m; [reflexivity|]. cbn [plus seq firstn]. f_equal. apply IH. Qed.
Lemma tys_of_seq (L : list mlocal) : forall tys base, firstn (length tys) (skipn base (map lo_ty L)) = tys ->
  map (fun i => match nth_error L i with Some l => lo_ty l | None => VT_I32 end) (seq base (length tys)) = tys.
Proof.
  intros tys base H. apply list_ext_nth. intros j. rewrite nth_error_map.
  destruct (Nat.lt_ge_cases j (length tys)) as [Hlt|Hge].
  - rewrite nth_error_seq by exact Hlt. cbn [option_map].
    destruct (nth_error tys j) as [ty|] eqn:Hj; [|apply nth_error_None in Hj; lia].
    pose proof Hj as Hj'. rewrite <- H in Hj'. apply WV.Proofs.Locals2.nth_error_firstn_some in Hj'.
    rewrite WV.Proofs.Locals2.nth_error_skipn', nth_error_map in Hj'.
    destruct (nth_error L (base + j)); [|discriminate]. cbn in Hj'. exact Hj'.
  - assert (Hn : nth_error (seq base (length tys)) j = None) by (apply nth_error_None; rewrite seq_length; lia).
    rewrite Hn. cbn [option_map]. symmetry. apply nth_error_None. lia.
Qed.

(* the local ids of a parsed local function: parameters then declared locals, with exactly the declared types *)
Theorem local_function_locals cf ver w s fid f lf :
  parseM cf ver w = POk s -> aget (m_funcs (ps_m s)) fid = Some f -> fn_kind f = FK_Local lf ->
  exists k b t,
    nth_error (flat_map code_of w) k = Some b /\
    N.to_nat fid = length (ii_funcs (ps_ids s)) - length (flat_map code_of w) + k /\
    types_get (ps_m s) (lf_ty lf) = Some t /\
    dead (m_locals (ps_m s)) = [] /\
    map (local_ty_fn (ps_m s)) (WV.Proofs.Names.locals_vec (ps_ids s) fid) = ty_params t ++ expand_locals (wb_locals b) /\
    lf_args lf = firstn (length (ty_params t)) (WV.Proofs.Names.locals_vec (ps_ids s) fid) /\
    NoDup (WV.Proofs.Names.locals_vec (ps_ids s) fid).
Proof.
  intros E Hg Hk.
  apply parseM_inv in E. destruct E as (s1 & m1 & ids1 & prepared & m2 & E1 & E2 & E3 & ->).
  fold (pst0 cf) in E1. cbv zeta in *. cbn [ps_m ps_ids] in *.
  change (m_funcs (set_producers ?a ?b)) with (m_funcs a) in Hg.
  apply fold_names_kinds in Hg. destruct Hg as (fn2 & Hg2 & Hk2). rewrite Hk in Hk2.
  assert (IDC : ids_consistent (ps_m s1) (ps_ids s1)) by (eapply parse_secs_ids; [|exact E1]; apply idc_empty).
  pose proof (WV.Proofs.Locals2.parse_secs_il _ _ _ E1) as IL. cbn in IL.
  pose proof (parse_secs_bodies_eq _ _ _ E1) as EB. cbn [ps_bodies pst0 app] in EB.
  pose proof (lo_secs _ _ _ E1) as LO. cbn [pst0 ps_m] in LO.
  assert (NL : nolocal (ps_m s1)) by (eapply nl_secs; [exact E1|]; unfold nolocal; cbn; constructor).
  destruct (WV.Proofs.Locals2.prepare_bodies_locals _ _ _ _ _ _ _ _ E2) as (P1 & _ & P3 & _ & P5).
  { destruct IDC as (-> & _). apply WV.Proofs.Locals2.iota_NoDup. }
  { intros k fid0 _ _. rewrite IL. reflexivity. }
  destruct (WV.Proofs.Names.prepare_bodies_uninit _ _ _ _ _ _ _ _ E2) as (FU & _).
  pose proof IDC as IDC'. unfold ids_consistent in IDC'. destruct IDC' as (IF & _ & _ & _ & _ & _ & D & _).
  destruct (install_kinds _ _ _ _ E3 fid fn2 Hg2) as [(lf' & p & m0 & Hk' & Hin & Hf & Ht & Hp)|(Hn & fn1 & Hg1 & Hk1)].
  2:{ exfalso. rewrite FU in Hg1. rewrite aget_nodead in Hg1 by exact D. apply nth_error_In in Hg1.
      unfold nolocal in NL. rewrite Forall_forall in NL. apply (NL _ Hg1 lf). congruence. }
  rewrite Hk' in Hk2. injection Hk2 as <-.
  destruct (In_nth_error _ _ Hin) as [k Hkp].
  pose proof (prepare_bodies_len _ _ _ _ _ _ _ _ E2) as Hlen.
  assert (Hkb : k < length (ps_bodies s1)) by (rewrite <- Hlen; apply nth_error_Some; congruence).
  destruct (nth_error (ps_bodies s1) k) as [b|] eqn:Hb; [|apply nth_error_None in Hb; lia].
  destruct (P5 _ _ Hb) as (p' & t0 & base & Q1 & Q2 & Q3 & Q4 & Q5 & Q6 & _ & _ & _ & Q10 & _).
  rewrite Hkp in Q1. injection Q1 as <-. subst b.
  pose proof (WV.Proofs.Structure.parse_one_body_ty _ _ _ _ Hp) as Hty.
  assert (Hargs : lf_args lf = pr_args p).
  { clear - Hp. unfold parse_one_body in Hp. pinv Hp as t1 Et1. pinv Hp as ety Eety.
    destruct (parse_body _ _ _ _); try discriminate. injection Hp as <-. reflexivity. }
  pose proof (WV.Proofs.Totality.install_bodies_types _ _ _ _ E3) as T2.
  assert (Q4' : types_get m2 (pr_ty p) = Some t0) by (unfold types_get in *; rewrite T2; exact Q4).
  destruct (WV.Proofs.Locals2.fold_parse_names_types_get ids1 (ps_names s1) m2 _ _ Q4') as (t' & G' & Et').
  apply mtype_eqb_spec in Et'. destruct Et' as (Ep & _ & _).
  pose proof (WV.Proofs.Locals2.install_bodies_locals _ _ _ _ E3) as L2.
  destruct (WV.Proofs.Locals2.fold_parse_names_same_tys ids1 (ps_names s1) m2) as [S1 S2]. rewrite L2 in S1, S2.
  assert (DL : dead (m_locals (fold_left (fun m n => parse_names m ids1 n) (ps_names s1) m2)) = []).
  { rewrite S2, P3, LO. reflexivity. }
  assert (LV : WV.Proofs.Names.locals_vec ids1 fid =
               map N.of_nat (seq base (length (ty_params t0) + length (expand_locals (wb_locals (pr_body p)))))).
  { unfold WV.Proofs.Names.locals_vec. rewrite WV.Proofs.Locals2.locals_of_lfind, <- Hf.
    unfold WV.Proofs.Locals2.lvec in Q5. destruct (WV.Proofs.Locals2.lfind (ii_locals ids1) (pr_fid p)); exact Q5. }
  exists k, (pr_body p), t'. rewrite <- Ep, <- EB.
  split; [exact Hb|]. split.
  { unfold WV.Proofs.Locals2.fid_at in Q3. rewrite N.add_0_r in Q3.
    rewrite IF in Q3. apply nth_N_iota in Q3. rewrite <- Hf, Q3, P1, IF, iota_length.
    unfold len_N. rewrite (iter_length_nodead _ D). lia. }
  split; [rewrite Hty; exact G'|].
  split; [exact DL|].
  rewrite LV. split; [|split].
  - rewrite map_map. rewrite <- app_length in *.
    pose proof (tys_of_seq (items (m_locals (fold_left (fun m n => parse_names m ids1 n) (ps_names s1) m2)))
                  (ty_params t0 ++ expand_locals (wb_locals (pr_body p))) base) as TS.
    rewrite S1 in TS. specialize (TS Q10). etransitivity; [|exact TS].
    apply map_ext. intros i. unfold local_ty_fn. change (m_locals (set_producers ?a ?b)) with (m_locals a).
    rewrite aget_nodead by exact DL. rewrite Nat2N.id. reflexivity.
  - rewrite Hargs, Q6. rewrite firstn_map, firstn_seq_add. reflexivity.
  - apply WV.Proofs.Order.NoDup_map_inj; [apply Nat2N.inj|apply seq_NoDup].
Qed.


(* the same with the facts about the local ids of the re-parsed function among the premises of the function-level statement *)
Definition function_body_stable_l (ilen : wins -> N) (s1 : pst) (e1 : emitted) (s2 : pst) (e2 : emitted) : Prop :=
  forall id j f1 lf1 ef1 f2 lf2 ef2 t2 ety2 base,
    aget (m_funcs (ps_m s1)) id = Some f1 -> fn_kind f1 = FK_Local lf1 ->
    get_idx (em_x2i e1) S_func id = Ok j ->
    aget (m_funcs (ps_m s2)) j = Some f2 -> fn_kind f2 = FK_Local lf2 ->
    emit_function (ps_m s1) (em_x2i e1) ilen id lf1 = Ok ef1 ->
    types_get (ps_m s2) (lf_ty lf2) = Some t2 -> find_entry (ps_m s2) (ty_results t2) = Some ety2 ->
    lf_entry lf2 = 0%N ->
    parse_body {| px_i2id := i2id_fun (ps_ids s2) j; px_types := types_list (ps_m s2) |} ety2 (ty_results t2)
               (wb_ops (ef_body ef1)) = Ok (lf_arena lf2) ->
    lf_args lf2 = map N.of_nat (seq base (length (ty_params t2))) ->
    WV.Proofs.Names.locals_vec (ps_ids s2) j =
      map N.of_nat (seq base (length (ty_params t2) + length (expand_locals (wb_locals (ef_body ef1))))) ->
    dead (m_locals (ps_m s2)) = [] ->
    map (local_ty_fn (ps_m s2)) (WV.Proofs.Names.locals_vec (ps_ids s2) j) =
      ty_params t2 ++ expand_locals (wb_locals (ef_body ef1)) ->
    NoDup (WV.Proofs.Names.locals_vec (ps_ids s2) j) ->
    emit_function (ps_m s2) (em_x2i e2) ilen j lf2 = Ok ef2 ->
    ef_body ef2 = ef_body ef1.

Theorem fix_code_reduce_l cf ver w ilen s1 e1 s2 e2 :
  two_trips cf ver w ilen s1 e1 s2 e2 -> rho_id s2 e2 S_func ->
  imported_funcs (ps_m s2) = iota (length (imported_funcs (ps_m s1))) ->
  function_body_stable_l ilen s1 e1 s2 e2 ->
  flat_map code_of (em_secs e2) = flat_map code_of (em_secs e1).
Proof.
  intros TT RID LAY BS. pose proof TT as (P1 & E1 & P2 & E2).
  destruct (emitM_x2i _ _ _ _ E1) as (fs1 & Hfs1 & _ & Xf1 & _).
  destruct (emitM_x2i _ _ _ _ E2) as (fs2 & Hfs2 & _).
  destruct (emit_code_payload _ _ _ _ E1 Hfs1) as (Hco1 & F1 & _ & Hlen1).
  destruct (emit_code_payload _ _ _ _ E2 Hfs2) as (Hco2 & F2 & _ & Hlen2).
  pose proof (second_funcs_count _ _ _ _ _ _ _ E1 P2 Hfs1) as Hcnt. rewrite imported_funcs_eq in Hcnt.
  rewrite imported_funcs_eq in Xf1.
  set (ni := length (imported_funcs (ps_m s1))) in *.
  assert (Hord : map fst fs2 = map N.of_nat (seq ni (length fs1))).
  { pose proof (rho_identity_iff _ _ _ _ _ _ _ P2 E2 S_func ltac:(discriminate) ltac:(discriminate)) as [HI _].
    specialize (HI RID).
    destruct (emitted_ids_shape _ _ _ _ E2) as (fs' & Hfs' & Hsh & _). rewrite Hfs2 in Hfs'. injection Hfs' as <-.
    rewrite Hsh, LAY in HI. unfold n_in in HI. cbn [ids_space] in HI. rewrite Hcnt, iota_add in HI. fold ni in HI.
    apply app_inv_head in HI. exact HI. }
  assert (L2 : length fs2 = length fs1).
  { rewrite <- (map_length fst fs2), Hord, map_length, seq_length. reflexivity. }
  pose proof F1 as LF1. apply Forall2_length in LF1. pose proof F2 as LF2. apply Forall2_length in LF2.
  rewrite Hco2, Hco1. apply list_ext_nth. intros k. rewrite !nth_error_map.
  destruct (nth_error (em_fns e2) k) as [ef2|] eqn:H2.
  2:{ apply nth_error_None in H2. assert (H1 : nth_error (em_fns e1) k = None) by (apply nth_error_None; lia).
      rewrite H1. reflexivity. }
  assert (Hk : k < length fs1) by (rewrite <- L2, LF2; apply nth_error_Some; congruence).
  destruct (nth_error fs2 k) as [[id2 lf2]|] eqn:Hp2; [|apply nth_error_None in Hp2; lia].
  destruct (nth_error fs1 k) as [[id1 lf1]|] eqn:Hp1; [|apply nth_error_None in Hp1; lia].
  destruct (Forall2_nth_l _ _ _ _ _ F2 Hp2) as (ef2' & Hef2 & Hemit2). rewrite H2 in Hef2. injection Hef2 as <-.
  destruct (Forall2_nth_l _ _ _ _ _ F1 Hp1) as (ef1 & Hef1 & Hemit1). cbn [fst snd] in *.
  assert (Hid2 : id2 = N.of_nat (ni + k)).
  { assert (H : nth_error (map fst fs2) k = Some id2) by (rewrite nth_error_map, Hp2; reflexivity).
    rewrite Hord, nth_error_map, nth_error_seq in H by exact Hk. cbn [option_map] in H. congruence. }
  subst id2.
  destruct (ulf_in _ _ _ _ Hfs1 (nth_error_In _ _ Hp1)) as (f1 & Hin1 & Hk1). apply aiter_aget in Hin1.
  destruct (ulf_in _ _ _ _ Hfs2 (nth_error_In _ _ Hp2)) as (f2 & Hin2 & Hk2). apply aiter_aget in Hin2.
  assert (Hidx : get_idx (em_x2i e1) S_func id1 = Ok (N.of_nat (ni + k))).
  { apply x2i_positions; [apply (parsed_wf_space _ _ _ _ _ _ _ S_func P1 E1); discriminate|].
    cbn [space_map]. rewrite Xf1, number_fst, Nat2N.id, nth_error_app2 by (fold ni; lia). fold ni.
    replace (ni + k - ni) with k by lia. rewrite nth_error_map, Hp1. reflexivity. }
  destruct (second_trip_functions _ _ _ _ _ _ _ _ _ TT Hfs1 _ _ _ _ _ _ Hidx Hin1 Hk1 Hin2 Hk2)
    as (k' & ef1' & t2 & ety2 & A1 & A2 & A3 & A4 & A5 & A6 & A7 & A8 & A9 & (base & B1 & B2)).
  rewrite imported_funcs_eq in A4. fold ni in A4. rewrite Nat2N.id in A4. assert (k' = k) by lia. subst k'.
  rewrite Hef1 in A2. injection A2 as <-.
  rewrite Hef1. cbn [option_map]. f_equal.
  destruct (local_function_locals _ _ _ _ _ _ _ P2 Hin2 Hk2) as (k2 & b2 & t2' & C1 & C2 & C3 & C4 & C5 & C6 & C7).
  rewrite A6 in C3. injection C3 as <-.
  rewrite Hcnt, Hlen1, Nat2N.id in C2. assert (k2 = k) by lia. subst k2.
  rewrite A3 in C1. injection C1 as <-.
  eapply (BS id1 (N.of_nat (ni + k)) f1 lf1 ef1 f2 lf2 ef2 t2 ety2 base); eassumption.
Qed.

Print Assumptions emit_code_payload.
Print Assumptions local_function_locals.
Print Assumptions valid_bodies_structured.
Print Assumptions parsed_function_body.
Print Assumptions local_function_body.
Print Assumptions second_trip_functions.
Print Assumptions sizes_stable_reduce.
Print Assumptions fix_code_reduce.
Print Assumptions fix_code_reduce_l.
