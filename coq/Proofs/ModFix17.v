(* C08, module level fixpoint, part 17: the local-variable obligations of ModFix15 (D_holds, Lidx_holds)
   from the list-level fixpoint of emit_locals (ModFix11). *)
From Coq Require Import List NArith ZArith Bool Arith Lia Permutation Sorted.
Import ListNotations.
From WV Require Import Gen.Ops Model.Common Model.IR Model.Arena Model.Traversal Model.EmitFn Model.Locals
                       Model.ParseFn Model.ParseSpec Model.BodySpec Model.ModuleM Model.ParseM Model.EmitM Gen.Attrs.
From WV Require Import Proofs.Arena Proofs.IndexMaps Proofs.Structure Proofs.Structure2 Proofs.Renumbering
                       Proofs.ParseTotal Proofs.TotalityBodies Proofs.ModFix Proofs.ModFix12 Proofs.ModFix15.
From WV Require Proofs.Escalation Proofs.Order Proofs.Locals3 Proofs.Names Proofs.ModFix10 Proofs.ModFix14 Proofs.ModFix11 Proofs.ModFix7.
Local Open Scope nat_scope.

(* (L) every local id a body of the first parse mentions belongs to that function's local vector *)
Definition locals_in_range (s1 : pst) : Prop :=
  forall fid f lf evs lid,
    aget (m_funcs (ps_m s1)) fid = Some f -> fn_kind f = FK_Local lf -> lf_log lf = Ok evs ->
    In (ERef S_local lid) evs -> In lid (WV.Proofs.Names.locals_vec (ps_ids s1) fid).

(* the parameter count of corresponding functions (type payload is reproduced) *)
Definition params_kept (s1 : pst) (e1 : emitted) (s2 : pst) : Prop :=
  forall id j f1 lf1 f2 lf2 t2,
    aget (m_funcs (ps_m s1)) id = Some f1 -> fn_kind f1 = FK_Local lf1 ->
    get_idx (em_x2i e1) S_func id = Ok j ->
    aget (m_funcs (ps_m s2)) j = Some f2 -> fn_kind f2 = FK_Local lf2 ->
    types_get (ps_m s2) (lf_ty lf2) = Some t2 ->
    length (ty_params t2) = length (lf_args lf1).

Lemma used_of_log_in evs lid : In lid (used_of_log evs) <-> In (ERef S_local lid) evs.
Proof.
  unfold used_of_log. rewrite in_flat_map. split.
  - intros (e & He & Hl). destruct e; cbn in Hl; try contradiction.
    match goal with s : space |- _ => destruct s end; cbn in Hl; try contradiction.
    destruct Hl as [<-|[]]. exact He.
  - intros H. exists (ERef S_local lid). split; auto. now left.
Qed.

Lemma id2i_local x lmap id i : local_index lmap id = Some i -> id2i_fun x lmap S_local id = i.
Proof. unfold local_index, id2i_fun. destruct (find _ lmap); intros H; inversion H; reflexivity. Qed.

Lemma refs_ok_local x lmap evs lid : refs_ok x lmap evs = true -> In (ERef S_local lid) evs ->
  local_index lmap lid = Some (id2i_fun x lmap S_local lid).
Proof.
  unfold refs_ok. rewrite forallb_forall. intros H Hin. specialize (H _ Hin). cbn in H.
  apply existsb_exists in H. destruct H as (p0 & Hp0 & He0).
  unfold local_index, id2i_fun. destruct (find _ lmap) eqn:Ef; [reflexivity|].
  exfalso. apply (find_none _ _ Ef) in Hp0. congruence.
Qed.

Lemma i2id_local ids j p : i2id_fun ids j S_local p = nth (N.to_nat p) (WV.Proofs.Names.locals_vec ids j) 4294967295%N.
Proof. reflexivity. Qed.

Lemma nth_seq_ids base n p d : p < n -> nth p (map N.of_nat (seq base n)) d = N.of_nat (base + p).
Proof.
  intros Hp. rewrite nth_indep with (d' := N.of_nat 0) by (now rewrite map_length, seq_length).
  now rewrite map_nth, seq_nth.
Qed.

Lemma seq_combine_index base n p : p < n ->
  local_index (combine (map N.of_nat (seq base n)) (map N.of_nat (seq 0 n))) (N.of_nat (base + p)) = Some (N.of_nat p).
Proof.
  intros Hp.
  pose proof (WV.Proofs.Locals3.lookup_combine_nodup (map N.of_nat (seq base n)) 0 p (N.of_nat (base + p))) as L.
  rewrite map_length, seq_length in L. unfold WV.Proofs.Locals3.lookup in L. apply L.
  - apply WV.Proofs.Order.StronglySorted_lt_NoDup, WV.Proofs.ModFix11.seq_ids_sorted.
  - rewrite nth_error_map. rewrite nth_error_nth' with (d := 0) by (now rewrite seq_length).
    rewrite seq_nth by exact Hp. reflexivity.
Qed.

Lemma lmap_index_bound ty args used decls lmap id i :
  emit_locals ty args used = (decls, lmap) -> local_index lmap id = Some i ->
  N.to_nat i < length args + length (expand_locals decls).
Proof.
  intros E Hi. apply (WV.Proofs.Locals3.lookup_some_in lmap id i) in Hi.
  destruct (WV.Proofs.ModFix11.emit_locals_decls_grouped ty _ _ _ _ E) as (_ & _ & Hex & _ & _ & _ & _ & Hm).
  rewrite Hm, <- app_length in Hi. apply WV.Proofs.Order.in_combine_seq in Hi. destruct Hi as (k & Hk & ->).
  assert (k < length (args ++ WV.Proofs.ModFix11.grouped ty args used)) by (apply nth_error_Some; congruence).
  rewrite app_length in H. rewrite Hex, map_length. cbn [Nat.add]. rewrite Nat2N.id. exact H.
Qed.

Lemma second_emit_locals cf ver w ilen s1 e1 s2 e2 id j f1 lf1 ef1 f2 lf2 ef2 :
  two_trips cf ver w ilen s1 e1 s2 e2 -> valid_stream w -> W_holds ilen s1 e1 s2 -> params_kept s1 e1 s2 ->
  aget (m_funcs (ps_m s1)) id = Some f1 -> fn_kind f1 = FK_Local lf1 ->
  get_idx (em_x2i e1) S_func id = Ok j ->
  aget (m_funcs (ps_m s2)) j = Some f2 -> fn_kind f2 = FK_Local lf2 ->
  emit_function (ps_m s1) (em_x2i e1) ilen id lf1 = Ok ef1 ->
  emit_function (ps_m s2) (em_x2i e2) ilen j lf2 = Ok ef2 ->
  exists evs1 decls lmap1 base2 n,
    lf_log lf1 = Ok evs1 /\
    refs_ok (em_x2i e1) lmap1 evs1 = true /\
    emit_locals (local_ty_fn (ps_m s1)) (lf_args lf1) (used_of_log evs1) = (decls, lmap1) /\
    wb_locals (ef_body ef1) = decls /\ ef_lmap ef1 = lmap1 /\
    n = length (lf_args lf1) + length (expand_locals decls) /\
    WV.Proofs.Names.locals_vec (ps_ids s2) j = map N.of_nat (seq base2 n) /\
    lf_args lf2 = map N.of_nat (seq base2 (length (lf_args lf1))) /\
    wb_locals (ef_body ef2) = decls /\
    ef_lmap ef2 = combine (map N.of_nat (seq base2 n)) (map N.of_nat (seq 0 n)) /\
    NoDup (ef_used ef2) /\
    (forall x, In x (ef_used ef2) <-> In x (map N.of_nat (seq base2 n))).
Proof.
  intros TT V HW PK Hg1 Hk1 Hj Hg2 Hk2 He1' He2. pose proof TT as (P1 & E1 & P2 & E2).
  destruct (emitM_x2i _ _ _ _ E1) as (fs1 & Hfs1 & _).
  destruct (second_trip_functions _ _ _ _ _ _ _ _ _ TT Hfs1 _ _ _ _ _ _ Hj Hg1 Hk1 Hg2 Hk2)
    as (k & ef1' & t2 & ety2 & _ & _ & Hbk & Hjk & He1 & Ht2 & Hety2 & Hen2 & Hpb2 & base2 & Hargs2 & Hlv2).
  rewrite He1' in He1. injection He1 as <-.
  destruct (first_trip_function _ _ _ _ _ _ _ _ _ _ V P1 Hg1 Hk1 He1')
    as (t & ety & l & eloc & evs & decls & lmap & st & A1 & A2 & A3 & A4 & A5 & A6 & A7 & A8 & A9 & A10).
  specialize (HW _ _ _ _ _ Hg1 Hk1 Hj He1'). rewrite A9 in HW, Hpb2, Hlv2. cbn [wb_ops wb_locals] in HW, Hpb2, Hlv2.
  destruct (emit_function_inv _ _ _ _ _ _ He2) as (evs2 & decls2 & lmap2 & st2 & B1 & B2 & B3 & B4 & B5 & _ & B7 & _ & B9).
  pose proof (PK _ _ _ _ _ _ _ Hg1 Hk1 Hj Hg2 Hk2 Ht2) as Hnp.
  (* the used set of the second body *)
  pose proof B1 as B1'. unfold lf_log in B1'. rewrite Hen2 in B1'.
  pose proof A5 as A5'. unfold lf_log in A5'. rewrite A4 in A5'.
  fold (cx_of s2 j) in Hpb2.
  pose proof (WV.Proofs.ModFix14.second_used_W _ _ _ _ _ _ _ _ _ _ (cx_of s2 j) ety2 (ty_results t2) (lf_arena lf2) _ _
                A2 A3 A8 HW Hpb2 B1') as Hu2.
  destruct (WV.Proofs.ModFix10.emitted_ops_structured _ _ _ _ _ _ _ _ _ _ A2 (WV.Proofs.ModFix10.enc_ok_all _ _) A3 A8)
    as (eloc1 & _ & _ & _ & _ & Hfst & _).
  destruct (WV.Proofs.ModFix10.trip_locals _ _ _ _ _ _ _ _ _ _ _ _ A2 (WV.Proofs.ModFix10.enc_ok_all _ _) A3 A8 A5') as (Hsel & _).
  cbv zeta in Hu2. rewrite Hfst, Hsel, map_map in Hu2. cbn [px_i2id cx_of ex_id2i ecx_of] in Hu2.
  (* distinct parameters of the first function *)
  destruct (local_function_body _ _ _ _ _ _ _ P1 Hg1 Hk1) as (s0 & k0 & b0 & t1' & ety1 & _ & _ & _ & _ & _ & _ & _ & _ & _ & base1 & Hargs1 & _).
  assert (ND : NoDup (lf_args lf1)).
  { rewrite Hargs1. apply WV.Proofs.Order.StronglySorted_lt_NoDup, WV.Proofs.ModFix11.seq_ids_sorted. }
  (* the types of the second function's locals *)
  destruct (local_function_locals _ _ _ _ _ _ _ P2 Hg2 Hk2) as (k' & b & t2' & Hb & Hjk' & Ht2' & _ & Htys & _ & _).
  rewrite Ht2 in Ht2'. injection Ht2' as <-.
  pose proof (second_funcs_count _ _ _ _ _ _ _ E1 P2 Hfs1) as Hcnt.
  destruct (emit_code_payload _ _ _ _ E1 Hfs1) as (_ & _ & _ & Hlen).
  rewrite Hcnt, Hlen in Hjk'. assert (k' = k) by lia. subst k'. rewrite Hbk in Hb. injection Hb as <-.
  rewrite A9 in Htys. cbn [wb_locals] in Htys. rewrite Hlv2 in Htys.
  set (na := length (lf_args lf1)) in *.
  assert (Hty : forall j0 t0, nth_error (expand_locals decls) j0 = Some t0 ->
            local_ty_fn (ps_m s2) (N.of_nat (base2 + na + j0)) = t0).
  { intros j0 t0 Hn.
    assert (Hlt : j0 < length (expand_locals decls)) by (apply nth_error_Some; congruence).
    assert (G : nth_error (map (local_ty_fn (ps_m s2)) (map N.of_nat (seq base2 (length (ty_params t2) + length (expand_locals decls))))) (na + j0) = Some t0).
    { rewrite Htys, nth_error_app2 by lia. rewrite Hnp. now replace (na + j0 - na) with j0 by lia. }
    rewrite !nth_error_map, nth_error_nth' with (d := 0) in G by (rewrite seq_length; lia).
    rewrite seq_nth in G by lia. cbn in G. injection G as G. rewrite <- G. f_equal. f_equal. lia. }
  assert (Hg : forall id0 i, local_index lmap id0 = Some i ->
            i2id_fun (ps_ids s2) j S_local (id2i_fun (em_x2i e1) lmap S_local id0) = N.of_nat (base2 + N.to_nat i)).
  { intros id0 i Hi. rewrite (id2i_local _ _ _ _ Hi), i2id_local, Hlv2. apply nth_seq_ids.
    pose proof (lmap_index_bound _ _ _ _ _ _ _ A6 Hi). fold na in H. lia. }
  assert (Hu : forall x, In x (used_of_log evs2) <->
            exists id0 i, In id0 (used_of_log evs) /\ local_index lmap id0 = Some i /\ x = N.of_nat (base2 + N.to_nat i)).
  { intros x. rewrite Hu2, in_map_iff. split.
    - intros (id0 & <- & Hin). pose proof (refs_ok_local _ _ _ _ A7 (proj1 (used_of_log_in _ _) Hin)) as Hi.
      exists id0, (id2i_fun (em_x2i e1) lmap S_local id0). split; [exact Hin|]. split; [exact Hi|]. now apply Hg.
    - intros (id0 & i & Hin & Hi & ->). exists id0. split; auto. }
  pose proof (WV.Proofs.ModFix11.emit_locals_fixpoint_renamed _ _ _ _ _ (local_ty_fn (ps_m s2)) base2 (used_of_log evs2) ND A6 Hty Hu) as F.
  cbv zeta in F. fold na in F.
  pose proof (WV.Proofs.ModFix11.fx_order (lf_args lf1) decls base2) as Ho. cbv zeta in Ho. fold na in Ho.
  rewrite Ho in F.
  pose proof (WV.Proofs.Order.locals_slots_exact _ _ _ _ _ F) as Hs.
  rewrite WV.Proofs.Order.map_fst_combine in Hs by (now rewrite !map_length, !seq_length).
  rewrite Hargs2, Hnp in B2, B9. fold na in B2, B9. rewrite F in B2. injection B2 as <- <-.
  exists evs, decls, lmap, base2, (na + length (expand_locals decls)).
  rewrite A9, B5, A10, B7. cbn [wb_locals]. rewrite Hnp in Hlv2, Hargs2.
  split; [exact A5|]. split; [exact A7|]. split; [exact A6|]. split; [reflexivity|]. split; [reflexivity|].
  split; [reflexivity|]. split; [exact Hlv2|]. split; [exact Hargs2|]. split; [reflexivity|]. split; [reflexivity|].
  rewrite B9. split.
  - apply WV.Proofs.Order.StronglySorted_lt_NoDup, WV.Proofs.Order.sort_ids_sorted.
  - intros x. rewrite WV.Proofs.Order.sort_ids_members, in_app_iff, Hs. tauto.
Qed.

(* Y1 *)
Theorem D_holds_proved cf ver w ilen s1 e1 s2 e2 :
  two_trips cf ver w ilen s1 e1 s2 e2 -> valid_stream w -> W_holds ilen s1 e1 s2 -> params_kept s1 e1 s2 ->
  D_holds ilen s1 e1 s2 e2.
Proof.
  intros TT V HW PK id j f1 lf1 ef1 f2 lf2 ef2 Hg1 Hk1 Hj Hg2 Hk2 He1 He2.
  destruct (second_emit_locals _ _ _ _ _ _ _ _ _ _ _ _ _ _ _ _ TT V HW PK Hg1 Hk1 Hj Hg2 Hk2 He1 He2)
    as (evs1 & decls & lmap1 & base2 & n & _ & _ & _ & D1 & _ & _ & _ & _ & D2 & _).
  congruence.
Qed.

(* Y2 *)
Theorem Lidx_holds_proved cf ver w ilen s1 e1 s2 e2 :
  two_trips cf ver w ilen s1 e1 s2 e2 -> valid_stream w -> W_holds ilen s1 e1 s2 -> params_kept s1 e1 s2 ->
  Lidx_holds ilen s1 e1 s2 e2.
Proof.
  intros TT V HW PK id j f1 lf1 ef1 f2 lf2 ef2 evs1' lid Hg1 Hk1 Hj Hg2 Hk2 He1 He2 Hlog Hin.
  destruct (second_emit_locals _ _ _ _ _ _ _ _ _ _ _ _ _ _ _ _ TT V HW PK Hg1 Hk1 Hj Hg2 Hk2 He1 He2)
    as (evs1 & decls & lmap1 & base2 & n & L1 & L2 & L3 & _ & L5 & L6 & L7 & _ & _ & L10 & _).
  rewrite Hlog in L1. injection L1 as <-. rewrite L5, L10.
  pose proof (refs_ok_local _ _ _ _ L2 Hin) as Hp.
  set (p := id2i_fun (em_x2i e1) lmap1 S_local lid) in *.
  pose proof (lmap_index_bound _ _ _ _ _ _ _ L3 Hp) as Hb. rewrite <- L6 in Hb.
  rewrite i2id_local, L7, (nth_seq_ids _ _ _ _ Hb).
  rewrite (id2i_local _ _ _ _ (seq_combine_index base2 n (N.to_nat p) Hb)). apply N2Nat.id.
Qed.

(* the same without the (W) premise (ModFix15.W_holds_V) *)
Corollary D_holds_V cf ver w ilen s1 e1 s2 e2 :
  two_trips cf ver w ilen s1 e1 s2 e2 -> valid_stream w -> params_kept s1 e1 s2 -> D_holds ilen s1 e1 s2 e2.
Proof. intros TT V PK. eapply D_holds_proved; eauto. eapply W_holds_V; eauto. Qed.
Corollary Lidx_holds_V cf ver w ilen s1 e1 s2 e2 :
  two_trips cf ver w ilen s1 e1 s2 e2 -> valid_stream w -> params_kept s1 e1 s2 -> Lidx_holds ilen s1 e1 s2 e2.
Proof. intros TT V PK. eapply Lidx_holds_proved; eauto. eapply W_holds_V; eauto. Qed.

Lemma Forall2_nth_r {A B} (R : A -> B -> Prop) l1 l2 : Forall2 R l1 l2 ->
  forall k b, nth_error l2 k = Some b -> exists a, nth_error l1 k = Some a /\ R a b.
Proof.
  induction 1 as [|x y l1 l2 Hxy HF IH]; intros k b Hk; [destruct k; discriminate|].
  destruct k as [|k]; cbn in Hk |- *; [inversion Hk; subst; eauto|]. now apply IH.
Qed.

(* Y3, the per-emitted-function part (fifth conjunct of ModFix7.locals_identity) *)
Theorem locals_identity_ef cf ver w ilen s1 e1 s2 e2 :
  two_trips cf ver w ilen s1 e1 s2 e2 -> valid_stream w -> params_kept s1 e1 s2 ->
  forall fid ef, find (fun ef0 : emitted_fn => (ef_id ef0 =? fid)%N) (em_fns e2) = Some ef ->
    NoDup (ef_used ef) /\
    (forall lid, In lid (ef_used ef) <-> In lid (WV.Proofs.Names.locals_vec (ps_ids s2) fid)) /\
    (forall p lid, nth_error (WV.Proofs.Names.locals_vec (ps_ids s2) fid) p = Some lid ->
       exists q : N * N, find (fun q0 : N * N => (fst q0 =? lid)%N) (ef_lmap ef) = Some q /\ snd q = N.of_nat p).
Proof.
  intros TT V PK fid ef Hf. pose proof TT as (P1 & E1 & P2 & E2). pose proof (W_holds_V _ _ _ _ _ _ _ _ TT V) as HW.
  apply find_some in Hf. destruct Hf as (Hin & Hid). apply N.eqb_eq in Hid.
  destruct (emitM_x2i _ _ _ _ E2) as (fs2 & Hfs2 & _).
  destruct (emit_code_payload _ _ _ _ E2 Hfs2) as (_ & F2 & _ & _).
  destruct (In_nth_error _ _ Hin) as (k2 & Hk2n).
  destruct (Forall2_nth_r _ _ _ F2 _ _ Hk2n) as ([fid' lf2] & Hp2 & Hem). cbn [fst snd] in Hem.
  destruct (emit_function_inv _ _ _ _ _ _ Hem) as (_ & _ & _ & _ & _ & _ & _ & _ & _ & Hid' & _).
  rewrite Hid in Hid'. subst fid'.
  destruct (ulf_in _ _ _ _ Hfs2 (nth_error_In _ _ Hp2)) as (f2 & Hin2 & Hkind2).
  apply WV.Proofs.Totality.aiter_aget in Hin2.
  destruct (emitM_x2i _ _ _ _ E1) as (fs1 & Hfs1 & _).
  destruct (emit_code_payload _ _ _ _ E1 Hfs1) as (_ & _ & _ & Hlen).
  pose proof (second_funcs_count _ _ _ _ _ _ _ E1 P2 Hfs1) as Hcnt. rewrite imported_funcs_eq in Hcnt.
  destruct (local_function_body _ _ _ _ _ _ _ P2 Hin2 Hkind2) as (s0 & k & b & t & ety & _ & _ & Hb & _ & Hjk & _).
  rewrite Hcnt, Hlen in Hjk.
  assert (Hk : k < length fs1) by (rewrite <- Hlen; apply nth_error_Some; congruence).
  destruct (nth_error fs1 k) as [[id lf1]|] eqn:Hp; [|apply nth_error_None in Hp; lia].
  destruct (fs1_nth _ _ _ _ _ _ _ _ _ _ _ _ TT Hfs1 Hp) as ((f1 & Hg1 & Hk1) & Hj & _).
  assert (Ej : N.of_nat (length (imported_funcs (ps_m s1)) + k) = fid) by lia. rewrite Ej in Hj.
  destruct (second_trip_functions _ _ _ _ _ _ _ _ _ TT Hfs1 _ _ _ _ _ _ Hj Hg1 Hk1 Hin2 Hkind2)
    as (k' & ef1 & t2 & ety2 & _ & _ & _ & _ & He1 & _).
  destruct (second_emit_locals _ _ _ _ _ _ _ _ _ _ _ _ _ _ _ _ TT V HW PK Hg1 Hk1 Hj Hin2 Hkind2 He1 Hem)
    as (evs1 & decls & lmap1 & base2 & n & _ & _ & _ & _ & _ & _ & L7 & _ & _ & L10 & L11 & L12).
  split; [exact L11|]. split; [intros lid; rewrite L7; apply L12|].
  intros p lid Hn. rewrite L7 in Hn.
  assert (Hpn : p < n).
  { assert (p < length (map N.of_nat (seq base2 n))) by (apply nth_error_Some; congruence).
    now rewrite map_length, seq_length in H. }
  rewrite nth_error_map, nth_error_nth' with (d := 0) in Hn by (now rewrite seq_length).
  rewrite seq_nth in Hn by exact Hpn. cbn in Hn. injection Hn as <-.
  pose proof (seq_combine_index base2 n p Hpn) as Hi. rewrite <- L10 in Hi. unfold local_index in Hi.
  destruct (find _ (ef_lmap ef)) as [q|]; [|discriminate]. exists q. split; [reflexivity|]. now injection Hi.
Qed.

(* the four module-wide conjuncts of ModFix7.locals_identity that are facts about the second PARSE alone
   (disjoint, duplicate-free, live local vectors that exist only for emitted local functions): NAMED premise *)
Definition locals_struct (s2 : pst) (e2 : emitted) : Prop :=
  let ids := ps_ids s2 in let m := ps_m s2 in
  (forall fid fid' lid, In lid (WV.Proofs.Names.locals_vec ids fid) -> In lid (WV.Proofs.Names.locals_vec ids fid') -> fid = fid') /\
  (forall fid, NoDup (WV.Proofs.Names.locals_vec ids fid)) /\
  (forall fid lid, In lid (WV.Proofs.Names.locals_vec ids fid) -> exists lo, aget (m_locals m) lid = Some lo) /\
  (forall fid, WV.Proofs.Names.locals_vec ids fid <> [] ->
     exists f ef, In (fid, f) (aiter (m_funcs m)) /\ find (fun ef0 : emitted_fn => (ef_id ef0 =? fid)%N) (em_fns e2) = Some ef).

(* Y3 *)
Theorem locals_identity_proved cf ver w ilen s1 e1 s2 e2 :
  two_trips cf ver w ilen s1 e1 s2 e2 -> valid_stream w -> params_kept s1 e1 s2 -> locals_struct s2 e2 ->
  WV.Proofs.ModFix7.locals_identity s2 e2.
Proof.
  intros TT V PK (S1 & S2 & S3 & S4). unfold WV.Proofs.ModFix7.locals_identity. cbv zeta.
  split; [exact S1|]. split; [exact S2|]. split; [exact S3|]. split; [exact S4|].
  intros fid ef Hf. exact (locals_identity_ef _ _ _ _ _ _ _ _ TT V PK fid ef Hf).
Qed.

(* ====================================================================================== *)
(* Y4: the local-name maps written by the first emit are canonical for the second parse      *)
(* ====================================================================================== *)
Definition local_names_of (m : wir) (e : emitted_fn) : list (N * str) :=
  flat_map (fun lid => match aget (m_locals m) lid with
                       | Some lo => match lo_name lo, find (fun q : N * N => N.eqb (fst q) lid) (ef_lmap e) with
                                    | Some n, Some q => [(snd q, n)] | _, _ => [] end
                       | None => [] end) (ef_used e).

Lemma emit_names_locals_field m x efs secs : emit_names m x efs = Ok secs ->
  exists r, rmapM (fun p : N * mfunc =>
              match find (fun e => N.eqb (ef_id e) (fst p)) efs with
              | None => Ok []
              | Some e => match local_names_of m e with
                          | [] => Ok []
                          | _ => fi <- get_idx x S_func (fst p) ;; Ok [(fi, sort_nm (local_names_of m e))] end
              end) (aiter (m_funcs m)) = Ok r /\
    wn_locals (WV.Proofs.Names.names_of secs) = sort_nm (concat r).
Proof.
  unfold emit_names. intros H.
  rinv H as funcs E1. rinv H as locals E2. rinv H as types E3. rinv H as tables E4. rinv H as mems E5.
  rinv H as globals E6. rinv H as elems E7. rinv H as data E8.
  exists locals. split; [exact E2|].
  destruct (m_name m); [inversion H; subst; reflexivity|].
  destruct funcs; [|inversion H; subst; reflexivity].
  destruct (sort_nm (concat locals)) eqn:ES; [|inversion H; subst; reflexivity].
  destruct types; [|inversion H; subst; reflexivity].
  destruct tables; [|inversion H; subst; reflexivity].
  destruct mems; [|inversion H; subst; reflexivity].
  destruct globals; [|inversion H; subst; reflexivity].
  destruct elems; [|inversion H; subst; reflexivity].
  destruct data; inversion H; subst; reflexivity.
Qed.

Lemma local_names_fst m e p : In p (map fst (local_names_of m e)) ->
  exists lid, In lid (ef_used e) /\ local_index (ef_lmap e) lid = Some p.
Proof.
  unfold local_names_of. rewrite in_map_iff. intros ([p' n] & <- & Hin). apply in_flat_map in Hin.
  destruct Hin as (lid & Hu & Hin). exists lid. split; [exact Hu|].
  destruct (aget (m_locals m) lid) as [lo|]; [|destruct Hin]. destruct (lo_name lo); [|destruct Hin].
  revert Hin. unfold local_index. destruct (find _ (ef_lmap e)) as [q|]; intros Hin; [|destruct Hin].
  destruct Hin as [Hq|[]]. inversion Hq; subst. reflexivity.
Qed.

Lemma local_names_NoDup m e : NoDup (ef_used e) ->
  (forall l1 l2 j, local_index (ef_lmap e) l1 = Some j -> local_index (ef_lmap e) l2 = Some j -> l1 = l2) ->
  NoDup (map fst (local_names_of m e)).
Proof.
  unfold local_names_of. intros ND Hinj. induction ND as [|a l Ha ND IH]; cbn [flat_map map]; [constructor|].
  rewrite map_app. apply WV.Proofs.Order.NoDup_app_intro; [|exact IH|].
  - destruct (aget (m_locals m) a) as [lo|]; [|constructor]. destruct (lo_name lo); [|constructor].
    destruct (find _ (ef_lmap e)); cbn; [|constructor]. constructor; [intros []|constructor].
  - intros p H1 H2.
    assert (Ha' : local_index (ef_lmap e) a = Some p).
    { destruct (aget (m_locals m) a) as [lo|]; [|destruct H1]. destruct (lo_name lo); [|destruct H1].
      revert H1. unfold local_index. destruct (find _ (ef_lmap e)) as [q|]; intros H1; [|destruct H1]. destruct H1 as [<-|[]]. reflexivity. }
    apply in_map_iff in H2. destruct H2 as ([p' n] & <- & Hin). apply in_flat_map in Hin.
    destruct Hin as (lid & Hu & Hin).
    assert (Hl : local_index (ef_lmap e) lid = Some p').
    { destruct (aget (m_locals m) lid) as [lo|]; [|destruct Hin]. destruct (lo_name lo); [|destruct Hin].
      clear H1. revert Hin. unfold local_index. destruct (find (fun q : N * N => (fst q =? lid)%N) (ef_lmap e)) as [q|]; intros Hin; [|exfalso; exact Hin]. destruct Hin as [Hq|[]]. inversion Hq; subst. reflexivity. }
    cbn [fst] in Ha'. rewrite (Hinj _ _ _ Ha' Hl) in Ha. contradiction.
Qed.

Lemma Forall2_nth_l {A B} (R : A -> B -> Prop) l1 l2 : Forall2 R l1 l2 ->
  forall k a, nth_error l1 k = Some a -> exists b, nth_error l2 k = Some b /\ R a b.
Proof.
  induction 1 as [|x y l1 l2 Hxy HF IH]; intros k a Hk; [destruct k; discriminate|].
  destruct k as [|k]; cbn in Hk |- *; [inversion Hk; subst; eauto|]. now apply IH.
Qed.

(* Y4 *)
Theorem locals_canon_proved cf ver w ilen s1 e1 s2 e2 :
  two_trips cf ver w ilen s1 e1 s2 e2 -> valid_stream w -> params_kept s1 e1 s2 ->
  WV.Proofs.ModFix7.locals_canon s2 (WV.Proofs.ModFix7.stream_names (em_secs e1)).
Proof.
  intros TT V PK fi names Hin. pose proof TT as (P1 & E1 & P2 & E2). pose proof (W_holds_V _ _ _ _ _ _ _ _ TT V) as HW.
  destruct (WV.Proofs.ModFix7.emitM_name_payload _ _ _ E1) as (s_nm & Hn & Hpay & _).
  destruct (cf_skip_name (m_config (ps_m s1))) eqn:Sk.
  { subst s_nm. unfold WV.Proofs.ModFix7.stream_names in Hin. rewrite Hpay in Hin. cbn in Hin. destruct Hin. }
  pose proof (WV.Proofs.Names.emit_names_fields _ _ _ _ Hn) as (_ & _ & _ & _ & _ & _ & _ & _ & Hshape).
  rewrite (WV.Proofs.ModFix7.stream_names_of _ _ Hpay Hshape) in Hin.
  destruct (emit_names_locals_field _ _ _ _ Hn) as (r & Hr & Hl). rewrite Hl in Hin.
  eapply Permutation_in in Hin; [|apply WV.Proofs.Order.sort_nm_perm]. apply in_concat in Hin. destruct Hin as (piece & Hp & Hin).
  apply (proj1 (WV.Proofs.Escalation.rmapM_In _ _ _ Hr _)) in Hp. destruct Hp as ([pid pf] & Hpa & Hpe). cbn [fst] in Hpe.
  destruct (find (fun e : emitted_fn => (ef_id e =? pid)%N) (em_fns e1)) as [e|] eqn:Hf; [|inversion Hpe; subst; destruct Hin].
  destruct (local_names_of (ps_m s1) e) as [|x0 l0] eqn:Hln; [inversion Hpe; subst; destruct Hin|].
  rinv Hpe as j Hj. inversion Hpe; subst piece; clear Hpe. destruct Hin as [Hq|[]]. inversion Hq; subst fi names; clear Hq.
  rewrite <- Hln. clear Hln x0 l0.
  apply find_some in Hf. destruct Hf as (Hine & Hid). apply N.eqb_eq in Hid.
  destruct (emitM_x2i _ _ _ _ E1) as (fs1 & Hfs1 & _).
  destruct (emit_code_payload _ _ _ _ E1 Hfs1) as (_ & F1 & _ & _).
  destruct (In_nth_error _ _ Hine) as (k & Hk).
  destruct (Forall2_nth_r _ _ _ F1 _ _ Hk) as ([pid' lf1] & Hp1 & Hem1). cbn [fst snd] in Hem1.
  destruct (emit_function_inv _ _ _ _ _ _ Hem1) as (evs0 & decls0 & lmap0 & st0 & _ & _ & _ & _ & _ & Hid' & _ & _ & B9).
  rewrite Hid in Hid'. subst pid'.
  destruct (fs1_nth _ _ _ _ _ _ _ _ _ _ _ _ TT Hfs1 Hp1) as ((f1 & Hg1 & Hk1) & Hj' & (f2 & lf2 & Hg2 & Hk2)).
  rewrite Hj in Hj'. injection Hj' as Ej. rewrite <- Ej in Hg2.
  destruct (emitM_x2i _ _ _ _ E2) as (fs2 & Hfs2 & _).
  destruct (emit_code_payload _ _ _ _ E2 Hfs2) as (_ & F2 & _ & _).
  destruct (used_local_functions_ids _ _ Hfs2) as (_ & Hids).
  assert (Hj2 : In j (map fst fs2)).
  { apply Hids. exists f2, lf2. split; [apply WV.Proofs.Totality.aiter_aget; exact Hg2|exact Hk2]. }
  apply in_map_iff in Hj2. destruct Hj2 as ([j' lf2'] & Ej' & Hin2). cbn [fst] in Ej'. subst j'.
  destruct (In_nth_error _ _ Hin2) as (k2 & Hk2n).
  destruct (Forall2_nth_l _ _ _ F2 _ _ Hk2n) as (ef2 & _ & Hem2). cbn [fst snd] in Hem2.
  destruct (ulf_in _ _ _ _ Hfs2 Hin2) as (f2' & Hin2' & Hk2').
  apply WV.Proofs.Totality.aiter_aget in Hin2'.
  destruct (second_emit_locals _ _ _ _ _ _ _ _ _ _ _ _ _ _ _ _ TT V HW PK Hg1 Hk1 Hj Hin2' Hk2' Hem1 Hem2)
    as (evs1 & decls & lmap1 & base2 & n & _ & _ & L3 & _ & L5 & L6 & L7 & _).
  destruct (local_function_body _ _ _ _ _ _ _ P1 Hg1 Hk1) as (s0 & k0 & b0 & t1' & ety1 & _ & _ & _ & _ & _ & _ & _ & _ & _ & base1 & Hargs1 & _).
  assert (ND : NoDup (lf_args lf1)).
  { rewrite Hargs1. apply WV.Proofs.Order.StronglySorted_lt_NoDup, WV.Proofs.ModFix11.seq_ids_sorted. }
  split.
  - apply WV.Proofs.Names.le_sorted_NoDup_lt; [apply WV.Proofs.Order.sort_nm_sorted|].
    eapply Permutation_NoDup; [apply Permutation_sym, Permutation_map, WV.Proofs.Order.sort_nm_perm|].
    apply local_names_NoDup.
    + rewrite B9. apply WV.Proofs.Order.StronglySorted_lt_NoDup, WV.Proofs.Order.sort_ids_sorted.
    + rewrite L5. intros l1 l2 i H1 H2.
      exact (proj1 (WV.Proofs.Locals3.locals_injective _ _ _ _ _ ND L3) l1 l2 i H1 H2).
  - intros p Hp. eapply Permutation_in in Hp; [|apply Permutation_map, WV.Proofs.Order.sort_nm_perm].
    apply local_names_fst in Hp. destruct Hp as (lid & _ & Hi). rewrite L5 in Hi.
    rewrite L7, map_length, seq_length, L6. exact (lmap_index_bound _ _ _ _ _ _ _ L3 Hi).
Qed.

Print Assumptions D_holds_proved.
Print Assumptions Lidx_holds_proved.
Print Assumptions D_holds_V.
Print Assumptions Lidx_holds_V.
Print Assumptions locals_identity_ef.
Print Assumptions locals_identity_proved.
Print Assumptions locals_canon_proved.
