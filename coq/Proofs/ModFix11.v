(* Local variable declarations are a fixpoint of parse;emit (list level, no module).
   emit_locals groups the used non-parameter locals by type (all_valtys order, ids increasing within
   a type).  If the emitted declaration is re-parsed (fresh consecutive ids: parameters first, then one
   id per declared local in declaration order) and every declared local is used again, emit_locals
   returns the SAME declaration and the identity renumbering. *)
From Coq Require Import List NArith Arith Lia Bool Permutation Sorted.
Import ListNotations.
From WV Require Import Gen.Ops Model.Common Model.IR Model.Locals Model.ParseM.
From WV Require Import Proofs.Order Proofs.Locals3.
Local Open Scope nat_scope.

Lemma expand_locals_eq l : expand_locals l = expand l.
Proof. reflexivity. Qed.

(* the non-parameter used locals in emission order *)
Definition grouped (ty : N -> valty) (args used : list N) : list N := flat_map snd (locals_groups ty args used).

Lemma grouped_eq ty args used :
  grouped ty args used = flat_map (fun t => of_type ty t (non_args args used)) all_valtys.
Proof. unfold grouped, locals_groups. apply flat_map_nonempty. Qed.

Definition vt_lt (a b : valty) : Prop := (valty_code a < valty_code b)%N.

Lemma all_valtys_vt_sorted : StronglySorted vt_lt all_valtys.
Proof.
  unfold all_valtys.
  repeat first [apply SSorted_nil | apply SSorted_cons | apply Forall_nil | apply Forall_cons];
    unfold vt_lt; cbn [valty_code]; lia.
Qed.

Lemma SS_app {A} (R : A -> A -> Prop) l1 l2 :
  StronglySorted R l1 -> StronglySorted R l2 -> (forall x y, In x l1 -> In y l2 -> R x y) ->
  StronglySorted R (l1 ++ l2).
Proof.
  induction 1 as [|a l1 Hs IH Hall]; intros S2 Hc; cbn [app]; auto.
  constructor.
  - apply IH; auto. intros x y Hx Hy. apply Hc; auto. now right.
  - apply Forall_app. split; auto. rewrite Forall_forall. intros y Hy. apply Hc; auto. now left.
Qed.

Lemma seq_ids_sorted : forall n s, StronglySorted N.lt (map N.of_nat (seq s n)).
Proof.
  induction n as [|n IH]; intros s; cbn [seq map]; constructor; auto.
  rewrite Forall_forall. intros x Hx. apply in_map_iff in Hx. destruct Hx as (k & <- & Hk).
  apply in_seq in Hk. lia.
Qed.

Lemma in_seq_ids x s n : In x (map N.of_nat (seq s n)) <-> exists k, x = N.of_nat k /\ s <= k < s + n.
Proof.
  rewrite in_map_iff. split.
  - intros (k & <- & Hk). apply in_seq in Hk. eauto.
  - intros (k & -> & Hk). exists k. split; auto. apply in_seq. lia.
Qed.

Lemma Forall2_typed_map (ty : N -> valty) l l' :
  Forall2 (fun id t => valty_code t = valty_code (ty id)) l l' -> l' = map ty l.
Proof.
  induction 1 as [|a b l l' Hab HF IH]; cbn [map]; auto. apply valty_code_inj in Hab. congruence.
Qed.

Lemma nth_error_in_combine {A B} (f : nat -> B) (a : list A) : forall s k x,
  nth_error a k = Some x -> In (x, f (s + k)) (combine a (map f (seq s (length a)))).
Proof.
  induction a as [|z a IH]; intros s k x H; [destruct k; discriminate|].
  cbn [length seq map combine]. destruct k as [|k]; cbn in H.
  - inversion H; subst. left. f_equal. f_equal. lia.
  - right. replace (s + S k) with (S s + k) by lia. now apply IH.
Qed.

(* ====================================================================================== *)
(* the order in which emit_locals lays the non-parameters out: (type code, id) lexicographic *)
(* ====================================================================================== *)
Section TLt.
  Variable ty : N -> valty.

  Definition tlt (a b : N) : Prop :=
    (valty_code (ty a) < valty_code (ty b))%N \/ (valty_code (ty a) = valty_code (ty b) /\ (a < b)%N).

  Lemma tsorted_ext : forall l1 l2, StronglySorted tlt l1 -> StronglySorted tlt l2 ->
    (forall x, In x l1 <-> In x l2) -> l1 = l2.
  Proof.
    induction l1 as [|a l1 IH]; intros [|b l2] S1 S2 H; auto.
    - exfalso. apply (proj2 (H b)). now left.
    - exfalso. apply (proj1 (H a)). now left.
    - inversion S1 as [|? ? S1' H1]; subst. inversion S2 as [|? ? S2' H2]; subst.
      rewrite Forall_forall in H1, H2.
      assert (E : a = b).
      { destruct (proj1 (H a) (or_introl eq_refl)) as [E|Ia]; auto.
        destruct (proj2 (H b) (or_introl eq_refl)) as [E|Ib]; auto.
        apply H1 in Ib. apply H2 in Ia. unfold tlt in *. lia. }
      subst b. f_equal. apply IH; auto. intros x; split; intros Hx.
      + destruct (proj1 (H x) (or_intror Hx)) as [E|]; auto. subst x. apply H1 in Hx. unfold tlt in Hx. lia.
      + destruct (proj2 (H x) (or_intror Hx)) as [E|]; auto. subst x. apply H2 in Hx. unfold tlt in Hx. lia.
  Qed.

  Lemma of_type_in t l x : In x (of_type ty t l) <-> In x l /\ valty_code (ty x) = valty_code t.
  Proof. unfold of_type. rewrite filter_In, N.eqb_eq. tauto. Qed.

  Lemma of_type_tsorted t l : StronglySorted N.lt l -> StronglySorted tlt (of_type ty t l).
  Proof.
    induction 1 as [|a l Hs IH Hall]; [constructor|].
    unfold of_type. cbn [filter]. destruct (N.eqb_spec (valty_code (ty a)) (valty_code t)) as [E|_]; auto.
    constructor; auto. rewrite Forall_forall in *. intros x Hx. apply of_type_in in Hx.
    destruct Hx as (Hx & Ex). apply Hall in Hx. unfold tlt. right. split; [congruence|exact Hx].
  Qed.

  Lemma flat_of_type_tsorted l : StronglySorted N.lt l -> forall ts, StronglySorted vt_lt ts ->
    StronglySorted tlt (flat_map (fun t => of_type ty t l) ts).
  Proof.
    intros Sl. induction 1 as [|t ts Hs IH Hall]; cbn [flat_map]; [constructor|].
    apply SS_app; auto using of_type_tsorted.
    intros x y Hx Hy. apply of_type_in in Hx. apply in_flat_map in Hy. destruct Hy as (t' & Ht' & Hy).
    apply of_type_in in Hy. rewrite Forall_forall in Hall. apply Hall in Ht'. unfold vt_lt in Ht'.
    unfold tlt. left. destruct Hx as (_ & ->). destruct Hy as (_ & ->). exact Ht'.
  Qed.

  Lemma tsorted_of_lt_le l : StronglySorted N.lt l -> StronglySorted ty_le_code (map ty l) -> StronglySorted tlt l.
  Proof.
    induction 1 as [|a l Hs IH Hall]; intros Ht; [constructor|].
    cbn [map] in Ht. inversion Ht as [|? ? Ht' Hta]; subst. constructor; auto.
    rewrite Forall_forall in *. intros x Hx. pose proof (Hall x Hx) as Hlt.
    pose proof (Hta (ty x) (in_map ty _ _ Hx)) as Hle. unfold ty_le_code in Hle. unfold tlt. lia.
  Qed.

  Lemma non_args_sorted args used : StronglySorted N.lt (non_args args used).
  Proof. unfold non_args. apply StronglySorted_filter, sort_ids_sorted. Qed.

  Lemma grouped_tsorted args used : StronglySorted tlt (grouped ty args used).
  Proof. rewrite grouped_eq. apply flat_of_type_tsorted; [apply non_args_sorted|apply all_valtys_vt_sorted]. Qed.

  Lemma grouped_perm args used : Permutation (grouped ty args used) (non_args args used).
  Proof. apply groups_perm. Qed.

  Lemma grouped_in args used x : In x (grouped ty args used) <-> In x used /\ ~ In x args.
  Proof.
    rewrite <- (non_args_in ty). split; apply Permutation_in; [|apply Permutation_sym]; apply grouped_perm.
  Qed.

  Lemma expand_grouped args used :
    expand (map (fun g : valty * list N => (len_N (snd g), fst g)) (locals_groups ty args used))
    = map ty (grouped ty args used).
  Proof. apply Forall2_typed_map, order_typed. Qed.

  (* L1 *)
  Theorem emit_locals_decls_grouped : forall args used decls lmap,
    emit_locals ty args used = (decls, lmap) ->
    StronglySorted decl_lt decls /\                                   (* strictly increasing valty_code *)
    Forall (fun d : N * valty => (0 < fst d)%N) decls /\               (* no empty run *)
    expand_locals decls = map ty (grouped ty args used) /\            (* slot j declares the type of the j-th grouped local *)
    StronglySorted ty_le_code (expand_locals decls) /\                (* grouped by type, all_valtys order *)
    StronglySorted tlt (grouped ty args used) /\                      (* (type, id) lexicographic *)
    (forall x, In x (grouped ty args used) <-> In x used /\ ~ In x args) /\
    NoDup (grouped ty args used) /\
    lmap = combine (args ++ grouped ty args used)
                   (map N.of_nat (seq 0 (length args + length (grouped ty args used)))).
  Proof.
    intros args used decls lmap E.
    pose proof (locals_decls_canonical ty _ _ _ _ E (non_args args used) (non_args_NoDup args used)
                  (non_args_in ty args used)) as (_ & Hs & _ & Hpos & _).
    pose proof (locals_decls_contiguous ty _ _ _ _ E) as Hc.
    rewrite emit_locals_eq in E. inversion E; subst; clear E.
    split; [exact Hs|]. split.
    { rewrite Forall_forall in *. intros d Hd. apply Hpos in Hd. lia. }
    split; [apply expand_grouped|]. split; [exact Hc|]. split; [apply grouped_tsorted|].
    split; [apply grouped_in|]. split.
    { eapply Permutation_NoDup; [apply Permutation_sym, grouped_perm|apply non_args_NoDup]. }
    unfold locals_order. fold (grouped ty args used). now rewrite app_length.
  Qed.
End TLt.

(* ====================================================================================== *)
(* L2: the re-parsed declaration is emitted unchanged, with the identity renumbering       *)
(* ====================================================================================== *)

Lemma map_ty_seq_ids (ty2 : N -> valty) d : forall tys s,
  (forall j, j < length tys -> valty_code (ty2 (N.of_nat (s + j))) = valty_code (nth j tys d)) ->
  map ty2 (map N.of_nat (seq s (length tys))) = tys.
Proof.
  induction tys as [|t tys IH]; intros s H; [reflexivity|].
  cbn [length seq map]. f_equal.
  - specialize (H 0). cbn [length nth] in H. rewrite Nat.add_0_r in H. apply valty_code_inj, H. lia.
  - apply IH. intros j Hj. specialize (H (S j)). cbn [length nth] in H.
    replace (S s + j) with (s + S j) by lia. apply H. lia.
Qed.

Section Fix.
  Variables (ty1 ty2 : N -> valty) (args1 used1 used2 : list N) (decls : list (N * valty)) (lmap : list (N * N)).
  Variable base : nat.
  Hypothesis E1 : emit_locals ty1 args1 used1 = (decls, lmap).

  Let na := length args1.
  Let tys := expand_locals decls.
  Let args2 := map N.of_nat (seq base na).
  Let locals2 := map N.of_nat (seq (base + na) (length tys)).

  Hypothesis Hty2 : forall j, j < length tys ->
    valty_code (ty2 (N.of_nat (base + na + j))) = valty_code (nth j tys VT_I32).
  Hypothesis Hsub : forall x, In x used2 -> In x (args2 ++ locals2).
  Hypothesis Hall : forall x, In x locals2 -> In x used2.

  Lemma fx_disjoint x : In x args2 -> In x locals2 -> False.
  Proof.
    unfold args2, locals2. rewrite !in_seq_ids. intros (k & -> & Hk) (k' & E & Hk').
    apply Nat2N.inj in E. lia.
  Qed.

  Lemma fx_non_args : non_args args2 used2 = locals2.
  Proof.
    apply sorted_lt_ext; [apply non_args_sorted|apply seq_ids_sorted|].
    intros x. rewrite (non_args_in ty2). split.
    - intros (Hu & Hna). apply Hsub in Hu. apply in_app_iff in Hu. tauto.
    - intros Hl. split; [now apply Hall|]. intros Ha. exact (fx_disjoint x Ha Hl).
  Qed.

  Lemma fx_types : map ty2 locals2 = tys.
  Proof. unfold locals2. apply (map_ty_seq_ids ty2 VT_I32). exact Hty2. Qed.

  Lemma fx_tys1 : tys = map ty1 (grouped ty1 args1 used1).
  Proof. unfold tys. now destruct (emit_locals_decls_grouped ty1 _ _ _ _ E1) as (_ & _ & H & _). Qed.

  Lemma fx_decls : map (fun g : valty * list N => (len_N (snd g), fst g)) (locals_groups ty2 args2 used2) = decls.
  Proof.
    rewrite decls_eq, fx_non_args, fx_types, fx_tys1.
    pose proof E1 as E. rewrite emit_locals_eq in E. inversion E as [[Hd Hm]]. rewrite decls_eq.
    apply canonical_decls_perm, Permutation_map, grouped_perm.
  Qed.

  Lemma fx_grouped : grouped ty2 args2 used2 = locals2.
  Proof.
    apply (tsorted_ext ty2); [apply grouped_tsorted| |].
    - apply tsorted_of_lt_le; [apply seq_ids_sorted|]. rewrite fx_types. unfold tys.
      rewrite expand_locals_eq. exact (locals_decls_contiguous ty1 _ _ _ _ E1).
    - intros x. rewrite grouped_in, <- (non_args_in ty2), fx_non_args. tauto.
  Qed.

  Theorem emit_locals_fixpoint_sec :
    emit_locals ty2 args2 used2 =
      (decls, combine (args2 ++ locals2) (map N.of_nat (seq 0 (na + length tys)))).
  Proof.
    rewrite emit_locals_eq, fx_decls. f_equal. unfold locals_order. fold (grouped ty2 args2 used2).
    rewrite fx_grouped. do 3 f_equal. unfold args2, locals2.
    now rewrite app_length, !map_length, !seq_length.
  Qed.

  Lemma fx_order : args2 ++ locals2 = map N.of_nat (seq base (na + length tys)).
  Proof. unfold args2, locals2. now rewrite seq_app, map_app. Qed.
End Fix.

(* L2 *)
Theorem emit_locals_fixpoint : forall ty1 args1 used1 decls lmap ty2 base used2,
  emit_locals ty1 args1 used1 = (decls, lmap) ->
  let na := length args1 in
  let tys := expand_locals decls in
  let args2 := map N.of_nat (seq base na) in
  let locals2 := map N.of_nat (seq (base + na) (length tys)) in
  (forall j, j < length tys -> valty_code (ty2 (N.of_nat (base + na + j))) = valty_code (nth j tys VT_I32)) ->
  (forall x, In x used2 -> In x (args2 ++ locals2)) ->
  (forall x, In x locals2 -> In x used2) ->
  emit_locals ty2 args2 used2 =
    (decls, combine (args2 ++ locals2) (map N.of_nat (seq 0 (na + length tys)))).
Proof. intros. eapply emit_locals_fixpoint_sec; eauto. Qed.

(* L3: identity renumbering *)
Theorem emit_locals_fixpoint_index : forall ty1 args1 used1 decls lmap ty2 base used2 decls2 lmap2,
  emit_locals ty1 args1 used1 = (decls, lmap) ->
  let na := length args1 in
  let tys := expand_locals decls in
  let args2 := map N.of_nat (seq base na) in
  let locals2 := map N.of_nat (seq (base + na) (length tys)) in
  (forall j, j < length tys -> valty_code (ty2 (N.of_nat (base + na + j))) = valty_code (nth j tys VT_I32)) ->
  (forall x, In x used2 -> In x (args2 ++ locals2)) ->
  (forall x, In x locals2 -> In x used2) ->
  emit_locals ty2 args2 used2 = (decls2, lmap2) ->
  decls2 = decls /\
  args2 ++ locals2 = map N.of_nat (seq base (na + length tys)) /\
  (forall p, p < na + length tys -> local_index lmap2 (N.of_nat (base + p)) = Some (N.of_nat p)) /\
  (forall p d, p < na + length tys -> local_index lmap2 (nth p (args2 ++ locals2) d) = Some (N.of_nat p)) /\
  (forall id i, local_index lmap2 id = Some i -> id = N.of_nat (base + N.to_nat i) /\ N.to_nat i < na + length tys).
Proof.
  intros ty1 args1 used1 decls lmap ty2 base used2 decls2 lmap2 E1 na tys args2 locals2 Hty Hsub Hall E2.
  assert (F : emit_locals ty2 args2 used2 =
              (decls, combine (args2 ++ locals2) (map N.of_nat (seq 0 (na + length tys)))))
    by exact (emit_locals_fixpoint ty1 args1 used1 decls lmap ty2 base used2 E1 Hty Hsub Hall).
  rewrite F in E2. inversion E2; subst decls2 lmap2; clear E2 F.
  assert (Ho : args2 ++ locals2 = map N.of_nat (seq base (na + length tys))) by exact (fx_order args1 decls base).
  assert (Hidx : forall p, p < na + length tys ->
            local_index (combine (args2 ++ locals2) (map N.of_nat (seq 0 (na + length tys)))) (N.of_nat (base + p)) = Some (N.of_nat p)).
  { intros p Hp. rewrite Ho.
    pose proof (lookup_combine_nodup (map N.of_nat (seq base (na + length tys))) 0 p (N.of_nat (base + p))) as L.
    rewrite map_length, seq_length in L. unfold lookup in L. apply L.
    - apply StronglySorted_lt_NoDup, seq_ids_sorted.
    - rewrite nth_error_map. rewrite nth_error_nth' with (d := 0) by (now rewrite seq_length).
      rewrite seq_nth by exact Hp. reflexivity. }
  split; [reflexivity|]. split; [exact Ho|]. split; [exact Hidx|]. split.
  - intros p d Hp. rewrite Ho. rewrite nth_indep with (d' := N.of_nat 0) by (now rewrite map_length, seq_length).
    rewrite map_nth, seq_nth by exact Hp. rewrite <- Ho. now apply Hidx.
  - intros id i H. rewrite Ho in H.
    pose proof (lookup_combine_inv (map N.of_nat (seq base (na + length tys))) 0 id i) as L.
    rewrite map_length, seq_length in L. apply L in H. destruct H as (k & Hk & ->).
    assert (Hlt : k < na + length tys).
    { assert (k < length (map N.of_nat (seq base (na + length tys)))) by (apply nth_error_Some; congruence).
      now rewrite map_length, seq_length in *. }
    rewrite nth_error_map, nth_error_nth' with (d := 0) in Hk by (now rewrite seq_length).
    rewrite seq_nth in Hk by exact Hlt. cbn in Hk. inversion Hk; subst. rewrite Nat2N.id. auto.
Qed.

(* L2 with the type premise in nth_error form (the form parseM_local_map delivers) *)
Corollary emit_locals_fixpoint_nth_error : forall ty1 args1 used1 decls lmap ty2 base used2,
  emit_locals ty1 args1 used1 = (decls, lmap) ->
  let na := length args1 in
  let tys := expand_locals decls in
  let args2 := map N.of_nat (seq base na) in
  let locals2 := map N.of_nat (seq (base + na) (length tys)) in
  (forall j t, nth_error tys j = Some t -> ty2 (N.of_nat (base + na + j)) = t) ->
  (forall x, In x used2 -> In x (args2 ++ locals2)) ->
  (forall x, In x locals2 -> In x used2) ->
  emit_locals ty2 args2 used2 =
    (decls, combine (args2 ++ locals2) (map N.of_nat (seq 0 (na + length tys)))).
Proof.
  intros ty1 args1 used1 decls lmap ty2 base used2 E1 na tys args2 locals2 Hty Hsub Hall.
  apply (emit_locals_fixpoint ty1 args1 used1 decls lmap ty2 base used2 E1); auto.
  intros j Hj. f_equal. apply Hty. now apply nth_error_nth'.
Qed.

(* ====================================================================================== *)
(* L4: the facts about the FIRST emit                                                      *)
(* ====================================================================================== *)
Theorem emit_locals_index_type : forall ty1 args1 used1 decls lmap,
  emit_locals ty1 args1 used1 = (decls, lmap) ->
  forall id i, In (id, i) lmap -> ~ In id args1 ->
    length args1 <= N.to_nat i /\
    nth_error (grouped ty1 args1 used1) (N.to_nat i - length args1) = Some id /\
    nth_error (expand_locals decls) (N.to_nat i - length args1) = Some (ty1 id) /\
    In id used1.
Proof.
  intros ty1 args1 used1 decls lmap E id i Hin Hna.
  destruct (emit_locals_decls_grouped ty1 _ _ _ _ E) as (_ & _ & Hex & _ & _ & Hmem & _ & Hm).
  subst lmap. rewrite <- app_length in Hin. apply in_combine_seq in Hin. destruct Hin as (k & Hk & ->).
  cbn [Nat.add]. rewrite Nat2N.id.
  assert (Hle : length args1 <= k).
  { destruct (le_lt_dec (length args1) k) as [H|H]; auto. exfalso. apply Hna.
    rewrite nth_error_app1 in Hk by exact H. eapply nth_error_In; eauto. }
  rewrite nth_error_app2 in Hk by exact Hle.
  split; [exact Hle|]. split; [exact Hk|]. split.
  - rewrite Hex. now apply map_nth_error.
  - apply nth_error_In in Hk. now apply Hmem in Hk.
Qed.

Corollary emit_locals_index_type_code : forall ty1 args1 used1 decls lmap,
  emit_locals ty1 args1 used1 = (decls, lmap) ->
  forall id i, In (id, i) lmap -> ~ In id args1 ->
    exists t, nth_error (expand_locals decls) (N.to_nat i - length args1) = Some t /\
              valty_code t = valty_code (ty1 id).
Proof.
  intros ty1 args1 used1 decls lmap E id i Hin Hna.
  destruct (emit_locals_index_type _ _ _ _ _ E id i Hin Hna) as (_ & _ & H & _). eauto.
Qed.

Corollary emit_locals_lookup_type : forall ty1 args1 used1 decls lmap,
  emit_locals ty1 args1 used1 = (decls, lmap) ->
  forall id i, local_index lmap id = Some i -> ~ In id args1 ->
    length args1 <= N.to_nat i /\
    nth_error (expand_locals decls) (N.to_nat i - length args1) = Some (ty1 id) /\ In id used1.
Proof.
  intros ty1 args1 used1 decls lmap E id i H Hna. apply (lookup_some_in lmap id i) in H.
  destruct (emit_locals_index_type _ _ _ _ _ E id i H Hna) as (H1 & _ & H2 & H3). auto.
Qed.

(* every declared slot is hit by exactly one local, and that one is a used non-parameter *)
Theorem emit_locals_slots_bij : forall ty1 args1 used1 decls lmap,
  emit_locals ty1 args1 used1 = (decls, lmap) ->
  length (expand_locals decls) = length (grouped ty1 args1 used1) /\
  forall j, j < length (expand_locals decls) ->
    exists id, In id used1 /\ ~ In id args1 /\
      nth_error (grouped ty1 args1 used1) j = Some id /\
      In (id, N.of_nat (length args1 + j)) lmap /\
      (forall id', In (id', N.of_nat (length args1 + j)) lmap -> id' = id).
Proof.
  intros ty1 args1 used1 decls lmap E.
  destruct (emit_locals_decls_grouped ty1 _ _ _ _ E) as (_ & _ & Hex & _ & _ & Hmem & _ & Hm).
  assert (Hlen : length (expand_locals decls) = length (grouped ty1 args1 used1)) by (now rewrite Hex, map_length).
  split; [exact Hlen|]. intros j Hj. rewrite Hlen in Hj.
  destruct (nth_error (grouped ty1 args1 used1) j) as [id|] eqn:Hn; [|apply nth_error_None in Hn; lia].
  exists id. pose proof (nth_error_In _ _ Hn) as Hi. apply Hmem in Hi. destruct Hi as (Hu & Hna).
  assert (Ho : nth_error (args1 ++ grouped ty1 args1 used1) (length args1 + j) = Some id).
  { rewrite nth_error_app2 by lia. now replace (length args1 + j - length args1) with j by lia. }
  split; [exact Hu|]. split; [exact Hna|]. split; [reflexivity|]. subst lmap. rewrite <- app_length. split.
  - exact (nth_error_in_combine N.of_nat _ 0 _ _ Ho).
  - intros id' Hin. apply in_combine_seq in Hin. destruct Hin as (k & Hk & Ek). cbn [Nat.add] in Ek.
    apply Nat2N.inj in Ek. subst k. congruence.
Qed.

(* with distinct parameters the association list is a function: local_index = membership *)
Theorem emit_locals_index_iff : forall ty1 args1 used1 decls lmap, NoDup args1 ->
  emit_locals ty1 args1 used1 = (decls, lmap) ->
  forall id i, local_index lmap id = Some i <-> In (id, i) lmap.
Proof.
  intros ty1 args1 used1 decls lmap ND E id i. split; [apply lookup_some_in|].
  intros Hin. pose proof E as E'. rewrite emit_locals_eq in E'. inversion E'; subst; clear E'.
  pose proof Hin as Hin'. apply in_combine_seq in Hin'. destruct Hin' as (k & Hk & ->).
  exact (order_lookup ty1 _ _ _ _ _ _ ND E Hk).
Qed.

(* the form closest to the module level: the re-parsed body uses exactly the images
   base + lmap(id) of the locals used by the first body *)
Theorem emit_locals_fixpoint_renamed : forall ty1 args1 used1 decls lmap ty2 base used2, NoDup args1 ->
  emit_locals ty1 args1 used1 = (decls, lmap) ->
  let na := length args1 in
  let tys := expand_locals decls in
  let args2 := map N.of_nat (seq base na) in
  let locals2 := map N.of_nat (seq (base + na) (length tys)) in
  (forall j t, nth_error tys j = Some t -> ty2 (N.of_nat (base + na + j)) = t) ->
  (forall x, In x used2 <-> exists id i, In id used1 /\ local_index lmap id = Some i /\ x = N.of_nat (base + N.to_nat i)) ->
  emit_locals ty2 args2 used2 =
    (decls, combine (args2 ++ locals2) (map N.of_nat (seq 0 (na + length tys)))).
Proof.
  intros ty1 args1 used1 decls lmap ty2 base used2 ND E1 na tys args2 locals2 Hty Hu.
  apply (emit_locals_fixpoint_nth_error ty1 args1 used1 decls lmap ty2 base used2 E1); auto.
  - intros x Hx. apply Hu in Hx. destruct Hx as (id & i & _ & Hi & ->).
    assert (Ho : args2 ++ locals2 = map N.of_nat (seq base (na + length tys))) by exact (fx_order args1 decls base).
    assert (G : In (N.of_nat (base + N.to_nat i)) (map N.of_nat (seq base (na + length tys))));
      [|rewrite <- Ho in G; exact G].
    apply in_seq_ids. exists (base + N.to_nat i). split; auto.
    apply (lookup_some_in lmap id i) in Hi.
    destruct (emit_locals_decls_grouped ty1 _ _ _ _ E1) as (_ & _ & Hex & _ & _ & _ & _ & Hm).
    assert (Hl : length tys = length (grouped ty1 args1 used1)) by (unfold tys; now rewrite Hex, map_length).
    rewrite Hm, <- app_length in Hi. apply in_combine_seq in Hi. destruct Hi as (k & Hk & ->).
    assert (k < length (args1 ++ grouped ty1 args1 used1)) by (apply nth_error_Some; congruence).
    rewrite app_length in *. cbn [Nat.add]. rewrite Nat2N.id. rewrite Hl. unfold na. lia.
  - intros x Hx. unfold locals2 in Hx. apply in_seq_ids in Hx. destruct Hx as (k & -> & Hk).
    destruct (emit_locals_slots_bij ty1 _ _ _ _ E1) as (_ & Hb).
    destruct (Hb (k - (base + na))) as (id & Hid & _ & _ & Hin & _); [unfold tys, na in *; lia|].
    apply Hu. exists id, (N.of_nat (length args1 + (k - (base + na)))). split; auto. split.
    + now apply (emit_locals_index_iff ty1 args1 used1 decls lmap ND E1).
    + rewrite Nat2N.id. f_equal. unfold tys, na in *. lia.
Qed.

Print Assumptions emit_locals_decls_grouped.
Print Assumptions emit_locals_fixpoint.
Print Assumptions emit_locals_fixpoint_nth_error.
Print Assumptions emit_locals_fixpoint_index.
Print Assumptions emit_locals_index_type.
Print Assumptions emit_locals_index_type_code.
Print Assumptions emit_locals_lookup_type.
Print Assumptions emit_locals_slots_bij.
Print Assumptions emit_locals_index_iff.
Print Assumptions emit_locals_fixpoint_renamed.
