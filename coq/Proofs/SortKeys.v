(* C08 (determinism): every hash-ordered or arena-ordered source that emitM sorts is emitted in an
   order fixed by a TOTAL key.  For each of the four sorts
       sort_X_perm_invariant : Permutation l1 l2 -> NoDup (map key l1) -> sort_X l1 = sort_X l2
   and, per call site in emitM, why the keys are NoDup there.
     sort_ids   (used locals)     key = the id itself; duplicates are dropped, no premise at all
     sort_funcs (local functions) key = (size, id) = fst of the triple
     sort_types (types)           key = (ty_params, ty_results); NOT total on arbitrary inputs (refuted
                                  below), total on the live non-entry types of an ArenaSet whose live
                                  items are pairwise distinct as keys ([types_distinct])
     sort_nm    (name maps)       key = the index; distinct when the id -> index map is injective *)
From Coq Require Import List NArith Arith Lia Bool Permutation Sorted.
Import ListNotations.
From WV Require Import Gen.Ops Model.Common Model.IR Model.Arena Model.Locals Model.ModuleM Model.ParseM Model.EmitM.
From WV Require Import Proofs.Arena Proofs.ArenaSet Proofs.Order Proofs.IndexMaps Proofs.ParsedWf.
Local Open Scope nat_scope.

(* ====================================================================================== *)
(* 0. list facts                                                                          *)
(* ====================================================================================== *)
Lemma NoDup_map_of_inj_in {A B} (f : A -> B) (l : list A) :
  NoDup l -> (forall a b, In a l -> In b l -> f a = f b -> a = b) -> NoDup (map f l).
Proof.
  induction 1 as [|x l Hx ND IH]; intros Hinj; cbn [map]; constructor.
  - rewrite in_map_iff. intros (y & Hy & Hin). apply Hx.
    rewrite (Hinj x y) ; [exact Hin|now left|now right|now symmetry].
  - apply IH. intros a b Ha Hb. apply Hinj; now right.
Qed.

Lemma NoDup_map_compose {A B C} (f : A -> B) (g : B -> C) (l : list A) :
  NoDup (map (fun x => g (f x)) l) -> NoDup (map f l).
Proof.
  induction l as [|x l IH]; cbn [map]; intros ND; [constructor|].
  inversion ND as [|? ? Hx ND']; subst. constructor; [|auto].
  intros Hin. apply Hx. rewrite in_map_iff in *. destruct Hin as (y & Hy & Hin).
  exists y. split; [now rewrite Hy|exact Hin].
Qed.

(* ====================================================================================== *)
(* 1. used locals: sort_ids                                                               *)
(* ====================================================================================== *)
(* strongest form: no NoDup premise (the sort drops duplicates), and even set-equality suffices
   (Proofs.Order.sort_ids_order_free) *)
Theorem sort_ids_perm_invariant : forall l1 l2, Permutation l1 l2 -> sort_ids l1 = sort_ids l2.
Proof. exact sort_ids_perm_free. Qed.

(* the uniform shape, key = identity *)
Corollary sort_ids_perm_invariant_key : forall l1 l2,
  Permutation l1 l2 -> NoDup (map (fun x : N => x) l1) -> sort_ids l1 = sort_ids l2.
Proof. intros l1 l2 P _. now apply sort_ids_perm_invariant. Qed.

Theorem sort_ids_set_invariant : forall l1 l2, (forall x, In x l1 <-> In x l2) -> sort_ids l1 = sort_ids l2.
Proof. exact sort_ids_order_free. Qed.

(* emit_locals on two permutations (indeed: two enumerations, with any multiplicities) of the same used
   set: same declarations AND same local map *)
Theorem emit_locals_perm_invariant : forall ty args u1 u2, Permutation u1 u2 ->
  emit_locals ty args u1 = emit_locals ty args u2.
Proof.
  intros ty args u1 u2 P. apply emit_locals_order_free.
  intros x; split; apply Permutation_in; auto using Permutation_sym.
Qed.
Corollary emit_locals_perm_invariant_split : forall ty args u1 u2, Permutation u1 u2 ->
  fst (emit_locals ty args u1) = fst (emit_locals ty args u2) /\
  snd (emit_locals ty args u1) = snd (emit_locals ty args u2).
Proof. intros ty args u1 u2 P. now rewrite (emit_locals_perm_invariant ty args u1 u2 P). Qed.
Theorem emit_locals_set_invariant : forall ty args u1 u2, (forall x, In x u1 <-> In x u2) ->
  emit_locals ty args u1 = emit_locals ty args u2.
Proof. exact emit_locals_order_free. Qed.

(* the set emit_function records for the name section is order-free too *)
Theorem ef_used_perm_invariant : forall u1 u2 args, Permutation u1 u2 ->
  sort_ids (u1 ++ args) = sort_ids (u2 ++ args).
Proof. intros u1 u2 args P. apply sort_ids_perm_invariant. now apply Permutation_app_tail. Qed.

(* ====================================================================================== *)
(* 2. local functions: sort_funcs, key (Reverse size, id)                                 *)
(* ====================================================================================== *)
Definition func_key (t : N * N * mlocalfunc) : N * N := fst t.

Lemma f_leb_antisym_key a b : f_leb a b = true -> f_leb b a = true -> func_key a = func_key b.
Proof.
  rewrite !f_leb_spec. unfold func_before, func_key.
  destruct a as [[sa ia] la], b as [[sb ib] lb]; cbn [fst snd]. intros H1 H2. f_equal; lia.
Qed.

Theorem sort_funcs_perm_invariant : forall l1 l2,
  Permutation l1 l2 -> NoDup (map func_key l1) -> sort_funcs l1 = sort_funcs l2.
Proof.
  intros l1 l2 P ND. rewrite !sort_funcs_isort.
  apply (isort_order_free _ f_leb f_leb_total f_leb_trans); auto.
  intros a b Ha Hb H1 H2. apply (NoDup_map_inj_in func_key l1 ND); auto. now apply f_leb_antisym_key.
Qed.

(* call site: used_local_functions.  The list handed to the sort *)
Definition func_entry (p : N * mfunc) : res (list (N * N * mlocalfunc)) :=
  match fn_kind (snd p) with
  | FK_Local lf => rbind (lf_size lf) (fun sz => Ok [((sz, fst p), lf)])
  | FK_Import _ _ => Ok []
  | FK_Uninit _ => Panic
  end.
Lemma used_local_functions_eq m :
  used_local_functions m =
    rbind (rmapM func_entry (aiter (m_funcs m)))
          (fun l => Ok (map (fun t => (snd (fst t), snd t)) (sort_funcs (concat l)))).
Proof. reflexivity. Qed.

Lemma func_entries_ids : forall ps l, rmapM func_entry ps = Ok l ->
  NoDup (map fst ps) ->
  NoDup (map (fun t : N * N * mlocalfunc => snd (fst t)) (concat l)) /\
  (forall t, In t (concat l) -> In (snd (fst t)) (map fst ps)).
Proof.
  induction ps as [|p ps IH]; intros l E ND; cbn [rmapM] in E.
  - inversion E; subst. cbn. split; [constructor|tauto].
  - destruct (func_entry p) as [y| |] eqn:Ey; cbn [rbind] in E; try discriminate.
    destruct (rmapM func_entry ps) as [ys| |] eqn:Eys; cbn [rbind] in E; try discriminate.
    inversion E; subst; clear E. inversion ND as [|? ? Hp ND']; subst.
    destruct (IH ys eq_refl ND') as [IH1 IH2]. cbn [concat].
    assert (Hy : y = [] \/ exists sz lf, y = [((sz, fst p), lf)]).
    { unfold func_entry in Ey. destruct (fn_kind (snd p)) as [? ?|lf|?]; try discriminate.
      - inversion Ey; auto.
      - destruct (lf_size lf) as [sz| |]; cbn [rbind] in Ey; try discriminate. inversion Ey. right; eauto. }
    destruct Hy as [->|(sz & lf & ->)]; cbn [app map].
    + split; [exact IH1|]. intros t Ht. right. now apply IH2.
    + cbn [fst snd]. split.
      * constructor; [|exact IH1]. rewrite in_map_iff. intros (t & Et & Ht). apply Hp. rewrite <- Et. now apply IH2.
      * intros t [<-|Ht]; [now left|right; now apply IH2].
Qed.

(* the keys handed to the sort are distinct because they contain the arena id of the function *)
Theorem used_funcs_keys_NoDup : forall m l,
  rmapM func_entry (aiter (m_funcs m)) = Ok l -> NoDup (map func_key (concat l)).
Proof.
  intros m l E. apply (NoDup_map_compose func_key snd).
  apply (func_entries_ids _ _ E (aiter_NoDup (m_funcs m))).
Qed.

(* hence: ANY enumeration order of the live functions gives the same emission order *)
Theorem used_funcs_order_free : forall m l l',
  rmapM func_entry (aiter (m_funcs m)) = Ok l -> Permutation (concat l) l' ->
  sort_funcs (concat l) = sort_funcs l'.
Proof. intros m l l' E P. apply sort_funcs_perm_invariant; [exact P|eapply used_funcs_keys_NoDup; eauto]. Qed.

(* ====================================================================================== *)
(* 3. types: sort_types, key (params, results)                                            *)
(* ====================================================================================== *)
Definition ty_key (p : N * mtype) : list valty * list valty := (ty_params (snd p), ty_results (snd p)).

Lemma valty_code_inj a b : valty_code a = valty_code b -> a = b.
Proof. intros H. apply valty_eqb'_eq. unfold valty_eqb'. now apply N.eqb_eq. Qed.

Lemma vl_cmp_Eq_eq : forall a b, vl_cmp a b = Eq -> a = b.
Proof.
  induction a as [|x a IH]; intros [|y b]; cbn [vl_cmp]; try discriminate; auto.
  destruct (N.compare_spec (valty_code x) (valty_code y)) as [E| |]; try discriminate.
  intros H. f_equal; [now apply valty_code_inj|now apply IH].
Qed.

Lemma ty_le_antisym_key a b : ty_le a b = true -> ty_le b a = true ->
  ty_params a = ty_params b /\ ty_results a = ty_results b.
Proof.
  unfold ty_le.
  rewrite (vl_cmp_antisym (ty_params b) (ty_params a)), (vl_cmp_antisym (ty_results b) (ty_results a)).
  destruct (vl_cmp (ty_params a) (ty_params b)) eqn:P; cbn [CompOpp]; try discriminate.
  destruct (vl_cmp (ty_results a) (ty_results b)) eqn:R; cbn [CompOpp]; try discriminate.
  intros _ _. split; now apply vl_cmp_Eq_eq.
Qed.

Theorem sort_types_perm_invariant : forall l1 l2,
  Permutation l1 l2 -> NoDup (map ty_key l1) -> sort_types l1 = sort_types l2.
Proof.
  intros l1 l2 P ND. rewrite !sort_types_isort.
  apply (isort_order_free _ t_leb).
  - intros a b. apply ty_le_total.
  - intros a b c. unfold t_leb. apply ty_le_trans.
  - exact P.
  - intros a b Ha Hb H1 H2. apply (NoDup_map_inj_in ty_key l1 ND); auto.
    unfold ty_key. destruct (ty_le_antisym_key _ _ H1 H2) as [-> ->]. reflexivity.
Qed.

(* without the premise the statement is false: the key does not contain the id *)
Definition ty_nil (e : bool) : mtype := {| ty_params := []; ty_results := []; ty_entry := e; ty_name := None |}.
Theorem sort_types_perm_invariant_refuted :
  exists l1 l2, Permutation l1 l2 /\ sort_types l1 <> sort_types l2.
Proof.
  exists [(0%N, ty_nil false); (1%N, ty_nil false)], [(1%N, ty_nil false); (0%N, ty_nil false)].
  split; [apply perm_swap|]. vm_compute. discriminate.
Qed.

(* call site: emit_types sorts the live non-entry types *)
Definition emitted_types (m : wir) : list (N * mtype) :=
  filter (fun p => negb (ty_entry (snd p))) (live_types m).
Definition emit_types_from (tys0 : list (N * mtype)) (x : x2i) : list wsec * x2i :=
  let tys := sort_types tys0 in
  match tys with
  | [] => ([], x)
  | _ => ([S_Types (map (fun p => (ty_params (snd p), ty_results (snd p))) tys)],
          fold_left (fun x p => push_idx x S_type (fst p)) tys x)
  end.
Lemma emit_types_eq m x : emit_types m x = emit_types_from (emitted_types m) x.
Proof. reflexivity. Qed.

(* the ArenaSet invariant needed: live items are pairwise distinct as HashMap keys *)
Definition types_distinct (s : aset mtype) : Prop :=
  forall id1 id2 v1 v2, aset_index s id1 = Some v1 -> aset_index s id2 = Some v2 ->
    mtype_eqb v1 v2 = true -> id1 = id2.

Lemma mtype_eqb_sym_eq x y : mtype_eqb x y = mtype_eqb y x.
Proof.
  destruct (mtype_eqb x y) eqn:E1, (mtype_eqb y x) eqn:E2; auto.
  - apply mtype_eqb_sym in E1. congruence.
  - apply mtype_eqb_sym in E2. congruence.
Qed.

(* it follows from the ArenaSet invariant of Proofs/ArenaSet.v (kept by every insert / remove history) *)
Theorem SInv_types_distinct s : SInv mtype mtype_eqb s -> types_distinct s.
Proof.
  intros HS id1 id2 v1 v2 H1 H2 He.
  apply (live_distinct mtype mtype_eqb mtype_eqb_sym_eq mtype_eqb_trans s id1 id2 v1 v2 HS H1 H2 He).
Qed.

Lemma live_types_in m n v : In (N.of_nat n, v) (live_types m) <-> aset_index (m_types m) n = Some v.
Proof.
  unfold live_types, aset_index, aset_iter. rewrite <- (iter_live mtype (fun x => x) mtype_eqb). rewrite in_map_iff. split.
  - intros ([n' v'] & E & Hin). cbn [fst snd] in E. inversion E; subst. apply Nat2N.inj in H0. now subst.
  - intros Hin. exists (n, v). auto.
Qed.
Lemma live_types_NoDup m : NoDup (map fst (live_types m)).
Proof.
  unfold live_types. rewrite map_map. cbn [fst].
  rewrite <- (map_map fst N.of_nat). apply NoDup_map_inj; [intros x y; apply Nat2N.inj|].
  apply lt_sorted_NoDup. apply iter_creation_order.
Qed.
Lemma live_types_id m p : In p (live_types m) -> exists n, p = (N.of_nat n, snd p).
Proof.
  unfold live_types. rewrite in_map_iff. intros ([n v] & <- & _). exists n. reflexivity.
Qed.

Theorem emitted_types_keys_NoDup m : types_distinct (m_types m) -> NoDup (map ty_key (emitted_types m)).
Proof.
  intros TD. unfold emitted_types.
  assert (NDl : NoDup (live_types m)) by (eapply NoDup_map_inv, live_types_NoDup).
  apply NoDup_map_of_inj_in; [now apply NoDup_filter|].
  intros a b Ha Hb Hk. apply filter_In in Ha, Hb. destruct Ha as [Ha Ea], Hb as [Hb Eb].
  apply (NoDup_map_inj_in fst (live_types m) (live_types_NoDup m)); auto.
  destruct (live_types_id _ _ Ha) as [na Pa], (live_types_id _ _ Hb) as [nb Pb].
  rewrite Pa, Pb in *. cbn [fst snd] in *. f_equal.
  apply live_types_in in Ha, Hb. eapply TD; eauto.
  apply mtype_eqb_spec. unfold ty_key in Hk. cbn [snd] in Hk. inversion Hk.
  apply negb_true_iff in Ea, Eb. repeat split; congruence.
Qed.

(* hence ANY enumeration order of the type arena gives the same type section and the same type indices *)
Theorem emit_types_order_free m x l' :
  types_distinct (m_types m) -> Permutation (emitted_types m) l' ->
  emit_types m x = emit_types_from l' x.
Proof.
  intros TD P. rewrite emit_types_eq. unfold emit_types_from.
  now rewrite (sort_types_perm_invariant _ _ P (emitted_types_keys_NoDup m TD)).
Qed.

(* ====================================================================================== *)
(* 4. name maps: sort_nm, key = index                                                     *)
(* ====================================================================================== *)
Theorem sort_nm_perm_invariant : forall A (l1 l2 : list (N * A)),
  Permutation l1 l2 -> NoDup (map fst l1) -> sort_nm l1 = sort_nm l2.
Proof. exact sort_nm_order_free. Qed.


(* call site: [named] (functions, types, tables, memories, globals, elements, data).  The keys are the
   indices [get_idx x s id]; they are distinct when the ids are (arena iteration) and the id -> index map
   of the space has no repeated index *)
Definition named_entry {A} (x : x2i) (s : space) (getn : A -> option str) (p : N * A) : res (list (N * str)) :=
  match getn (snd p) with
  | Some n => rbind (get_idx x s (fst p)) (fun i => Ok [(i, n)])
  | None => Ok []
  end.
Lemma named_eq {A} x s (getn : A -> option str) l :
  named x s getn l = rbind (rmapM (named_entry x s getn) l) (fun r => Ok (sort_nm (concat r))).
Proof. reflexivity. Qed.

Lemma lookup_i_in l id i : lookup_i l id = Ok i -> In (id, i) l.
Proof.
  unfold lookup_i. destruct (find _ l) as [p|] eqn:F; [|discriminate]. intros H; inversion H; subst.
  apply find_some in F. destruct F as [Hin E]. apply N.eqb_eq in E. subst. destruct p; exact Hin.
Qed.
Lemma lookup_i_inj l id1 id2 i : NoDup (map snd l) -> lookup_i l id1 = Ok i -> lookup_i l id2 = Ok i -> id1 = id2.
Proof.
  intros ND H1 H2. apply lookup_i_in in H1, H2.
  pose proof (NoDup_map_inj_in snd l ND _ _ H1 H2 eq_refl) as E. now inversion E.
Qed.

Lemma rmapM_cons_Ok {A B} (f : A -> res B) a l r : rmapM f (a :: l) = Ok r ->
  exists y ys, f a = Ok y /\ rmapM f l = Ok ys /\ r = y :: ys.
Proof.
  cbn [rmapM]. destruct (f a) as [y| |]; cbn [rbind]; try discriminate.
  destruct (rmapM f l) as [ys| |]; cbn [rbind]; try discriminate.
  intros H; inversion H; eauto.
Qed.

Lemma named_entries_keys {A} x s (getn : A -> option str) : forall l r,
  rmapM (named_entry x s getn) l = Ok r -> NoDup (map fst l) -> NoDup (map snd (space_map x s)) ->
  NoDup (map fst (concat r)) /\
  (forall i, In i (map fst (concat r)) -> exists id, In id (map fst l) /\ get_idx x s id = Ok i).
Proof.
  induction l as [|p l IH]; intros r E ND NI.
  - cbn in E. inversion E; subst. cbn. split; [constructor|tauto].
  - apply rmapM_cons_Ok in E. destruct E as (y & ys & Ey & Eys & ->).
    inversion ND as [|? ? Hp ND']; subst. destruct (IH ys Eys ND' NI) as [IH1 IH2]. cbn [concat].
    unfold named_entry in Ey. destruct (getn (snd p)) as [n|].
    + destruct (get_idx x s (fst p)) as [i| |] eqn:Ei; cbn [rbind] in Ey; try discriminate.
      inversion Ey; subst; clear Ey. cbn [app map fst]. split.
      * constructor; [|exact IH1]. intros Hin. destruct (IH2 _ Hin) as (id & Hid & Eid).
        apply Hp. unfold get_idx in *. now rewrite (lookup_i_inj _ _ _ _ NI Ei Eid).
      * intros j [<-|Hj]; [exists (fst p); split; [now left|exact Ei]|].
        destruct (IH2 _ Hj) as (id & Hid & Eid). exists id. split; [now right|exact Eid].
    + inversion Ey; subst. cbn [app]. split; [exact IH1|].
      intros j Hj. destruct (IH2 _ Hj) as (id & Hid & Eid). exists id. split; [now right|exact Eid].
Qed.

Theorem named_keys_NoDup : forall A x s (getn : A -> option str) l r,
  rmapM (named_entry x s getn) l = Ok r -> NoDup (map fst l) -> NoDup (map snd (space_map x s)) ->
  NoDup (map fst (concat r)).
Proof. intros A x s getn l r E ND NI. apply (named_entries_keys x s getn l r E ND NI). Qed.

(* iterating the container in another order permutes what is handed to the sort *)
Lemma rmapM_perm {A B} (f : A -> res (list B)) l1 l2 : Permutation l1 l2 ->
  forall r1, rmapM f l1 = Ok r1 -> exists r2, rmapM f l2 = Ok r2 /\ Permutation (concat r1) (concat r2).
Proof.
  induction 1 as [|a l1 l2 P IH|a b l|l1 l2 l3 P1 IH1 P2 IH2]; intros r1 E.
  - exists r1. split; [exact E|reflexivity].
  - apply rmapM_cons_Ok in E. destruct E as (y & ys & Ey & Eys & ->).
    destruct (IH _ Eys) as (ys' & E' & P'). exists (y :: ys'). split.
    + cbn [rmapM]. rewrite Ey, E'. reflexivity.
    + cbn [concat]. now apply Permutation_app_head.
  - apply rmapM_cons_Ok in E. destruct E as (y & ys0 & Ey & E & ->).
    apply rmapM_cons_Ok in E. destruct E as (z & ys & Ez & Eys & ->).
    exists (z :: y :: ys). split.
    + cbn [rmapM]. rewrite Ey, Ez, Eys. reflexivity.
    + cbn [concat]. rewrite !app_assoc. apply Permutation_app_tail, Permutation_app_comm.
  - destruct (IH1 _ E) as (r2 & E2 & Q2). destruct (IH2 _ E2) as (r3 & E3 & Q3).
    exists r3. split; [exact E3|eapply perm_trans; eauto].
Qed.

Theorem named_perm_invariant : forall A x s (getn : A -> option str) l1 l2 nm,
  Permutation l1 l2 -> NoDup (map fst l1) -> NoDup (map snd (space_map x s)) ->
  named x s getn l1 = Ok nm -> named x s getn l2 = Ok nm.
Proof.
  intros A x s getn l1 l2 nm P ND NI. rewrite !named_eq.
  destruct (rmapM (named_entry x s getn) l1) as [r1| |] eqn:E1; cbn [rbind]; try discriminate.
  destruct (rmapM_perm _ _ _ P _ E1) as (r2 & E2 & Q). rewrite E2. cbn [rbind].
  intros H; inversion H; subst; clear H. f_equal. symmetry.
  apply sort_nm_perm_invariant; [exact Q|]. eapply named_keys_NoDup; eauto.
Qed.

(* the same for the function order: ANY iteration order of the function arena *)
Theorem used_funcs_iteration_order_free : forall ps1 ps2 l1,
  Permutation ps1 ps2 -> NoDup (map fst ps1) -> rmapM func_entry ps1 = Ok l1 ->
  exists l2, rmapM func_entry ps2 = Ok l2 /\ sort_funcs (concat l1) = sort_funcs (concat l2).
Proof.
  intros ps1 ps2 l1 P ND E. destruct (rmapM_perm _ _ _ P _ E) as (l2 & E2 & Q).
  exists l2. split; [exact E2|]. apply sort_funcs_perm_invariant; [exact Q|].
  apply (NoDup_map_compose func_key snd). apply (func_entries_ids _ _ E ND).
Qed.

(* call site: the per-function local names in emit_names.  Keys = slots of the local map, which
   emit_locals assigns injectively (Proofs.Order.locals_distinct_slots) *)
Definition local_name_entries (m : wir) (lmap : list (N * N)) (used : list N) : list (N * str) :=
  flat_map (fun lid => match aget (m_locals m) lid with
                       | Some lo => match lo_name lo, find (fun q => N.eqb (fst q) lid) lmap with
                                    | Some n, Some q => [(snd q, n)] | _, _ => [] end
                       | None => [] end) used.

Lemma local_name_entries_keys m lmap : NoDup (map snd lmap) -> forall used, NoDup used ->
  NoDup (map fst (local_name_entries m lmap used)) /\
  (forall i, In i (map fst (local_name_entries m lmap used)) -> exists lid, In lid used /\ In (lid, i) lmap).
Proof.
  intros NI. induction used as [|u used IH]; intros ND.
  - cbn. split; [constructor|tauto].
  - inversion ND as [|? ? Hu ND']; subst. destruct (IH ND') as [IH1 IH2].
    unfold local_name_entries in *. cbn [flat_map].
    set (rest := flat_map _ used) in *.
    assert (Hrest : forall i, In i (map fst rest) -> exists lid, In lid (u :: used) /\ In (lid, i) lmap).
    { intros i Hi. destruct (IH2 _ Hi) as (lid & H1 & H2). exists lid. split; [now right|exact H2]. }
    destruct (aget (m_locals m) u) as [lo|]; [|cbn [app]; split; [exact IH1|exact Hrest]].
    destruct (lo_name lo) as [n|]; [|cbn [app]; split; [exact IH1|exact Hrest]].
    destruct (find (fun q => N.eqb (fst q) u) lmap) as [q|] eqn:F; [|cbn [app]; split; [exact IH1|exact Hrest]].
    apply find_some in F. destruct F as [Hq Eq]. apply N.eqb_eq in Eq. destruct q as [qi qs]. cbn [fst snd] in *. subst qi.
    cbn [app map fst]. split.
    + constructor; [|exact IH1]. intros Hin. destruct (IH2 _ Hin) as (lid & H1 & H2).
      pose proof (NoDup_map_inj_in snd lmap NI _ _ Hq H2 eq_refl) as E. inversion E; subst. contradiction.
    + intros i [<-|Hi]; [exists u; split; [now left|exact Hq]|now apply Hrest].
Qed.

Theorem local_names_keys_NoDup : forall m ty args u decls lmap used,
  NoDup args -> emit_locals ty args u = (decls, lmap) -> NoDup used ->
  NoDup (map fst (local_name_entries m lmap used)).
Proof.
  intros m ty args u decls lmap used NA E NU.
  apply local_name_entries_keys; [|exact NU]. apply (locals_distinct_slots ty args u decls lmap NA E).
Qed.

(* ====================================================================================== *)
(* 5. the premise [types_distinct] holds for every parsed module                          *)
(* ====================================================================================== *)
(* every arena item is found by the de-duplication map, at its own id (third clause of
   Proofs.ArenaSet.SInv; stated with [lookup], hence stable under renaming) *)
Definition types_complete (s : aset mtype) : Prop :=
  forall id v, nth_error (items (Arena.arena s)) id = Some v -> lookup mtype_eqb (already s) v = Some id.

Lemma lookup_mtype_eqb l v v' : mtype_eqb v v' = true -> lookup mtype_eqb l v = lookup mtype_eqb l v'.
Proof. apply (lookup_eqA mtype mtype_eqb mtype_eqb_sym_eq mtype_eqb_trans). Qed.

Theorem types_complete_distinct s : types_complete s -> types_distinct s.
Proof.
  intros C id1 id2 v1 v2 H1 H2 He.
  assert (G : forall id v, aset_index s id = Some v -> nth_error (items (Arena.arena s)) id = Some v).
  { intros id v. unfold aset_index, index, get. destruct (is_dead _ _); [discriminate|auto]. }
  apply G, C in H1. apply G, C in H2. rewrite (lookup_mtype_eqb _ _ _ He) in H1. congruence.
Qed.

Lemma types_complete_empty : types_complete aset_empty.
Proof. intros [|id] v H; discriminate. Qed.

Lemma types_insert_complete m t m1 id :
  types_complete (m_types m) -> types_insert m t = (m1, id) -> types_complete (m_types m1).
Proof.
  intros C E. unfold types_insert, insert in E.
  destruct (lookup mtype_eqb (already (m_types m)) t) as [i|] eqn:El.
  - inversion E; subst; clear E. wcbn. exact C.
  - wcbn. inversion E; subst; clear E. wcbn. intros i v Hn. wcbn. cbn [lookup].
    destruct (Nat.lt_ge_cases i (length (items (Arena.arena (m_types m))))) as [Hlt|Hge].
    + rewrite nth_error_app1 in Hn by exact Hlt. pose proof (C _ _ Hn) as Hl.
      destruct (mtype_eqb t v) eqn:Etv; [|exact Hl].
      rewrite (lookup_mtype_eqb _ _ _ Etv) in El. congruence.
    + rewrite nth_error_app2 in Hn by exact Hge.
      destruct (i - length (items (Arena.arena (m_types m)))) as [|k] eqn:Ek; cbn in Hn; [|destruct k; discriminate].
      inversion Hn; subst v. rewrite mtype_eqb_refl'. f_equal. unfold next_id. lia.
Qed.

Lemma parse_types_complete : forall ts m ids m' ids',
  types_complete (m_types m) -> parse_types m ids ts = (m', ids') -> types_complete (m_types m').
Proof.
  induction ts as [|[ps rs] r IH]; intros m ids m' ids' C E; cbn [parse_types] in E.
  - inversion E; subst; exact C.
  - destruct (types_insert m _) as [m1 id] eqn:Ei. eapply IH; [|exact E]. eapply types_insert_complete; eauto.
Qed.

Lemma parse_sec_types_complete s sec s' :
  types_complete (m_types (ps_m s)) -> parse_sec s sec = POk s' -> types_complete (m_types (ps_m s')).
Proof.
  intros W E. unfold parse_sec in E. destruct sec.
  - destruct (parse_types _ _ _) as [m1 i1] eqn:Ep. inversion E; subst; clear E. wcbn. eapply parse_types_complete; eauto.
  - pinv E as x Ex. destruct x as [m1 i1]. inversion E; subst; clear E. wcbn. rewrite (parse_imports_types _ _ _ _ _ Ex). exact W.
  - pinv E as x Ex. destruct x as [m1 i1]. inversion E; subst; clear E. wcbn. rewrite (parse_funcs_types _ _ _ _ _ Ex). exact W.
  - destruct (parse_tables _ _ _) as [m1 i1] eqn:Ep. inversion E; subst; clear E. wcbn. rewrite (parse_tables_types _ _ _ _ _ Ep). exact W.
  - destruct (parse_mems _ _ _) as [m1 i1] eqn:Ep. inversion E; subst; clear E. wcbn. rewrite (parse_mems_types _ _ _ _ _ Ep). exact W.
  - pinv E as x Ex. destruct x as [m1 i1]. inversion E; subst; clear E. wcbn. rewrite (parse_globals_types _ _ _ _ _ Ex). exact W.
  - pinv E as x Ex. inversion E; subst; clear E. wcbn. rewrite (parse_exports_types _ _ _ _ Ex). exact W.
  - pinv E as x Ex. inversion E; subst; clear E. wcbn. exact W.
  - pinv E as x Ex. destruct x as [m1 i1]. inversion E; subst; clear E. wcbn. rewrite (parse_elems_types _ _ _ _ _ Ex). exact W.
  - destruct (reserve_data _ _ _) as [m1 i1] eqn:Ep. inversion E; subst; clear E. wcbn. rewrite (reserve_data_types _ _ _ _ _ Ep). exact W.
  - inversion E; subst; clear E. wcbn. exact W.
  - pinv E as x Ex. destruct x as [m1 i1]. inversion E; subst; clear E. wcbn. unfold parse_data in Ex.
    rewrite (parse_data_from_types _ _ _ _ _ _ _ Ex). exact W.
  - inversion E; subst; clear E. unfold parse_custom. destruct c as [n d|n d|[n|]|[p|]]; wcbn; exact W.
Qed.

Lemma parse_secs_types_complete : forall w s s',
  types_complete (m_types (ps_m s)) -> parse_secs s w = POk s' -> types_complete (m_types (ps_m s')).
Proof.
  induction w as [|x r IH]; intros s s' H E; cbn [parse_secs] in E.
  - inversion E; subst; exact H.
  - pinv E as s1 E1. eapply IH; [|exact E]. eapply parse_sec_types_complete; eauto.
Qed.

Lemma prepare_bodies_types_complete : forall bs m ids ni i m' ids' ps,
  types_complete (m_types m) -> prepare_bodies m ids ni i bs = POk (m', ids', ps) -> types_complete (m_types m').
Proof.
  induction bs as [|b r IH]; intros m ids ni i m' ids' ps W E; cbn [prepare_bodies] in E.
  - inversion E; subst; exact W.
  - pinv E as fid Efid. pinv E as f Ef. destruct (fn_kind f); try discriminate.
    pinv E as t Et.
    destruct (add_locals m ids fid (ty_params t) _) as [[m1 ids1] args] eqn:E1.
    destruct (types_insert m1 _) as [m2 tid] eqn:E2.
    destruct (add_locals m2 ids1 fid _ _) as [[m3 ids3] ls] eqn:E3.
    pinv E as x Ex. destruct x as [[m4 ids4] rest]. inversion E; subst; clear E.
    eapply IH; [|exact Ex].
    rewrite (add_locals_types _ _ _ _ _ _ _ _ E3).
    eapply types_insert_complete; [|exact E2].
    rewrite (add_locals_types _ _ _ _ _ _ _ _ E1). exact W.
Qed.

Lemma apply_names_types_len (idx2id : list N) : forall (l : namemap) (a : tarena mtype),
  length (items (apply_names a idx2id set_type_name l)) = length (items a).
Proof.
  induction l as [|[i n] r IH]; intros a; cbn [apply_names]; [reflexivity|].
  destruct (nth_N idx2id i) as [id|]; [|apply IH]. rewrite IH. wcbn. apply upd_length.
Qed.

Lemma types_complete_rename (s : aset mtype) (a' : tarena mtype) :
  types_complete s -> length (items a') = length (items (Arena.arena s)) ->
  items_eqv (items (Arena.arena s)) (items a') ->
  types_complete {| Arena.arena := a'; already := already s |}.
Proof.
  intros C L Q id v' Hn. wcbn.
  assert (Hlt : id < length (items (Arena.arena s))).
  { rewrite <- L. apply nth_error_Some. congruence. }
  destruct (nth_error (items (Arena.arena s)) id) as [v|] eqn:Ev; [|apply nth_error_None in Ev; lia].
  destruct (Q _ _ Ev) as (v2 & Hv2 & He). rewrite Hn in Hv2. inversion Hv2; subst v2.
  rewrite <- (lookup_mtype_eqb _ _ _ He). now apply C.
Qed.

Lemma parse_names_types_complete m ids n : types_complete (m_types m) -> types_complete (m_types (parse_names m ids n)).
Proof.
  intros W. unfold parse_names.
  set (m1 := match wn_module n with Some s => set_name m (Some s) | None => m end).
  assert (H1 : m_types m1 = m_types m) by (subst m1; destruct (wn_module n); reflexivity).
  clearbody m1. cbv zeta.
  match goal with |- context [apply_local_names ?mm _ _] => set (m2 := mm) end.
  assert (H2 : m_types m2 = m_types m) by (subst m2; wcbn; exact H1).
  clearbody m2. clear H1.
  destruct (apply_local_names m2 ids (wn_locals n)) as [m3|] eqn:E3; [|rewrite H2; exact W].
  apply apply_local_names_types in E3. wcbn.
  assert (W3 : types_complete (m_types m3)) by (rewrite E3, H2; exact W).
  destruct (apply_names_types_eqv (ii_types ids) (wn_types n) (Arena.arena (m_types m3))) as [D Q].
  apply types_complete_rename; [assumption|apply apply_names_types_len|assumption].
Qed.

Lemma fold_parse_names_types_complete ids : forall l m,
  types_complete (m_types m) -> types_complete (m_types (fold_left (fun m n => parse_names m ids n) l m)).
Proof.
  induction l as [|n r IH]; intros m W; cbn [fold_left]; [exact W|]. apply IH, parse_names_types_complete, W.
Qed.

Theorem parseM_types_complete : forall cf ver w s,
  parseM cf ver w = POk s -> types_complete (m_types (ps_m s)).
Proof.
  intros cf ver w s E. unfold parseM in E. pinv E as s1 E1.
  apply parse_secs_types_complete in E1; [|apply types_complete_empty].
  destruct (_ <? _)%N; [discriminate|].
  pinv E as x Ex. destruct x as [[m1 ids1] prepared]. pinv E as m2 E2. inversion E; subst; clear E. wcbn.
  apply prepare_bodies_types_complete in Ex; [|exact E1].
  apply install_bodies_types in E2.
  apply fold_parse_names_types_complete. rewrite E2. exact Ex.
Qed.

Theorem parseM_types_distinct : forall cf ver w s,
  parseM cf ver w = POk s -> types_distinct (m_types (ps_m s)).
Proof. intros cf ver w s E. eapply types_complete_distinct, parseM_types_complete, E. Qed.

(* a parsed module: the type keys handed to sort_types are pairwise distinct, so the type section and
   the type index map do not depend on the iteration order of the type arena *)
Theorem parsed_types_keys_NoDup : forall cf ver w s,
  parseM cf ver w = POk s -> NoDup (map ty_key (emitted_types (ps_m s))).
Proof. intros cf ver w s E. eapply emitted_types_keys_NoDup, parseM_types_distinct, E. Qed.

Theorem parsed_emit_types_order_free : forall cf ver w s x l',
  parseM cf ver w = POk s -> Permutation (emitted_types (ps_m s)) l' ->
  emit_types (ps_m s) x = emit_types_from l' x.
Proof. intros cf ver w s x l' E P. eapply emit_types_order_free; [eapply parseM_types_distinct, E|exact P]. Qed.

(* [types_wf] (Proofs.IndexMaps) alone does NOT give distinct keys: the premise [types_distinct] is needed *)
Definition dup_types : aset mtype :=
  {| Arena.arena := {| items := [ty_nil false; ty_nil false]; dead := [] |}; already := [(ty_nil false, 0)] |}.
Theorem types_wf_not_enough : types_wf dup_types /\ ~ types_distinct dup_types.
Proof.
  split.
  - split; [reflexivity|]. intros k id [H|[]]. inversion H; subst. exists (ty_nil false). split; reflexivity.
  - intros TD. specialize (TD 0 1 (ty_nil false) (ty_nil false) eq_refl eq_refl eq_refl). discriminate.
Qed.

Print Assumptions sort_ids_perm_invariant.
Print Assumptions emit_locals_perm_invariant.
Print Assumptions sort_funcs_perm_invariant.
Print Assumptions used_funcs_keys_NoDup.
Print Assumptions sort_types_perm_invariant.
Print Assumptions sort_types_perm_invariant_refuted.
Print Assumptions emitted_types_keys_NoDup.
Print Assumptions emit_types_order_free.
Print Assumptions sort_nm_perm_invariant.
Print Assumptions named_keys_NoDup.
Print Assumptions named_perm_invariant.
Print Assumptions used_funcs_iteration_order_free.
Print Assumptions local_names_keys_NoDup.
Print Assumptions parseM_types_distinct.
Print Assumptions parsed_types_keys_NoDup.
Print Assumptions parsed_emit_types_order_free.
Print Assumptions types_wf_not_enough.
