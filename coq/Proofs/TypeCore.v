(* C02 / C05 / C20: the validator of Model/TypeCore.v against the declarative typing of Model/Typing.v. *)
From Coq Require Import List NArith ZArith Bool Lia. Import ListNotations.
From WV Require Import Gen.Ops Model.Common Model.IR Model.ParseFn Model.ParseSpec Model.EmitFn
  Model.BodySpec Model.Sem Model.Typing Model.TypeCore.
From WV Require Import Proofs.ParseFn Proofs.Sem Proofs.TypingNf.
Local Open Scope nat_scope.

(* ================================================================== 0. small facts *)
Lemma valty_eqb_eq a b : valty_eqb a b = true <-> a = b.
Proof. destruct a, b; vm_compute; split; congruence. Qed.
Lemma valty_eqb_refl a : valty_eqb a a = true.
Proof. now apply valty_eqb_eq. Qed.
Lemma vlist_eqb_eq a : forall b, vlist_eqb a b = true <-> a = b.
Proof.
  induction a as [|x a IH]; intros [|y b]; cbn [vlist_eqb]; try (split; [discriminate|discriminate]); [tauto|].
  rewrite andb_true_iff, valty_eqb_eq, IH. split; [intros [-> ->]; reflexivity|intros [= -> ->]; auto].
Qed.
Lemma vlist_eqb_refl a : vlist_eqb a a = true.
Proof. now apply vlist_eqb_eq. Qed.

Lemma nthN_opt_nth {A} (l : list A) : forall i, nthN_opt l i = nth_error l (N.to_nat i).
Proof.
  induction l as [|x l IH]; intros i.
  - cbn [nthN_opt]. destruct (N.to_nat i); reflexivity.
  - cbn [nthN_opt]. destruct (N.eqb_spec i 0%N) as [->|Hne]; [reflexivity|].
    rewrite IH. replace (N.to_nat i) with (S (N.to_nat (i - 1)%N)) by lia. reflexivity.
Qed.

(* ================================================================== 1. what a state of the algorithm denotes *)
(* an entry of the checker's stack and a type it may stand for *)
Definition rfo (o : option valty) (t : valty) : Prop :=
  match o with Some t' => t' = t | None => is_int t = true end.
Definition rf : list (option valty) -> list valty -> Prop := Forall2 rfo.
(* the concrete stacks (bottom-to-top) a state stands for: an instance of the known part; when the flag is set,
   anything below it *)
Definition gam (st : cstate) (c : list valty) : Prop :=
  exists f k, c = f ++ rev k /\ rf (cs_stk st) k /\ (cs_unr st = false -> f = []).

Lemma matcho_rfo o t : matcho o t = true <-> rfo o t.
Proof. destruct o as [t'|]; cbn [matcho rfo]; [apply valty_eqb_eq|tauto]. Qed.

Lemma rf_ex s : exists k, rf s k.
Proof.
  induction s as [|o s [k IH]]; [exists []; constructor|].
  destruct o as [t|]; [exists (t :: k)|exists (VT_I32 :: k)]; constructor; auto; reflexivity.
Qed.
Lemma gam_ex st : exists c, gam st c.
Proof. destruct (rf_ex (cs_stk st)) as [k Hk]. exists ([] ++ rev k), [], k. auto. Qed.
Lemma gam_unr c : gam unr_st c.
Proof. exists c, []. cbn. rewrite app_nil_r. repeat split; [constructor|discriminate]. Qed.
Lemma gam_nil_false c : gam (CS [] false) c <-> c = [].
Proof.
  split.
  - intros (f & k & -> & Hk & Hf). cbn in Hk, Hf. inversion Hk; subst. now rewrite Hf.
  - intros ->. exists [], []. cbn. repeat split; constructor.
Qed.
Lemma gam_nil_inv st : gam st [] -> cs_stk st = [].
Proof.
  intros (f & k & E & Hk & _). symmetry in E. apply app_eq_nil in E. destruct E as [_ E].
  destruct k as [|x k]; [inversion Hk; reflexivity|]. cbn [rev] in E. now apply app_eq_nil in E.
Qed.

(* ---------------------------------------------------------------- pop: backwards (soundness) *)
Lemma pop_any_sound st o st1 c t :
  pop_any st = Some (o, st1) -> gam st1 c -> rfo o t -> gam st (c ++ [t]).
Proof.
  unfold pop_any. destruct st as [[|o' s] u]; cbn [cs_stk cs_unr].
  - destruct u; [|discriminate]. intros [= <- <-] (f & k & -> & Hk & Hf) _. cbn [cs_stk] in Hk. inversion Hk; subst.
    exists ((f ++ rev []) ++ [t]), []. cbn [rev cs_stk cs_unr]. rewrite !app_nil_r.
    repeat split; [constructor|discriminate].
  - intros [= <- <-] (f & k & -> & Hk & Hf) Ho. cbn [cs_stk cs_unr] in *.
    exists f, (t :: k). cbn [rev]. rewrite app_assoc. repeat split; [constructor; assumption|exact Hf].
Qed.
Lemma pop_exp_any t st st1 : pop_exp t st = Some st1 -> exists o, pop_any st = Some (o, st1) /\ (cs_stk st <> [] -> rfo o t).
Proof.
  unfold pop_exp, pop_any. destruct st as [[|o' s] u]; cbn [cs_stk cs_unr].
  - destruct u; [|discriminate]. intros [= <-]. exists None. split; [reflexivity|congruence].
  - destruct (matcho o' t) eqn:M; [|discriminate]. intros [= <-]. exists o'. split; [reflexivity|]. intros _. now apply matcho_rfo.
Qed.
Lemma pop_exp_sound t st st1 c : pop_exp t st = Some st1 -> gam st1 c -> gam st (c ++ [t]).
Proof.
  unfold pop_exp. destruct st as [[|o' s] u]; cbn [cs_stk cs_unr].
  - destruct u; [|discriminate]. intros [= <-] (f & k & -> & Hk & Hf). cbn [cs_stk] in Hk. inversion Hk; subst.
    exists ((f ++ rev []) ++ [t]), []. cbn [rev cs_stk cs_unr]. rewrite !app_nil_r.
    repeat split; [constructor|discriminate].
  - destruct (matcho o' t) eqn:M; [|discriminate]. intros [= <-] (f & k & -> & Hk & Hf). cbn [cs_stk cs_unr] in *.
    exists f, (t :: k). cbn [rev]. rewrite app_assoc. repeat split; [constructor; [now apply matcho_rfo|assumption]|exact Hf].
Qed.
Lemma pops_top_sound r : forall st st1 c, pops_top r st = Some st1 -> gam st1 c -> gam st (c ++ rev r).
Proof.
  induction r as [|t r IH]; intros st st1 c H G; cbn [pops_top] in H.
  - injection H as <-. cbn [rev]. now rewrite app_nil_r.
  - destruct (pop_exp t st) as [st'|] eqn:E; [|discriminate]. cbn [rev]. rewrite app_assoc.
    eapply pop_exp_sound; [exact E|]. eapply IH; eassumption.
Qed.
Lemma pops_sound ts st st1 c : pops ts st = Some st1 -> gam st1 c -> gam st (c ++ ts).
Proof. unfold pops. intros H G. rewrite <- (rev_involutive ts). eapply pops_top_sound; eassumption. Qed.

(* ---------------------------------------------------------------- push *)
Lemma push_stk_inv ts : forall s k, rf (push_stk ts s) k -> exists k1, k = rev ts ++ k1 /\ rf s k1.
Proof.
  induction ts as [|t ts IH]; intros s k H; cbn [push_stk fold_left] in H.
  - exists k. auto.
  - apply IH in H. destruct H as (k1 & -> & H). inversion H as [|o x s' k2 Ho Hs]; subst. cbn [rfo] in Ho. subst x.
    exists k2. cbn [rev]. rewrite <- app_assoc. auto.
Qed.
Lemma push_stk_rf ts : forall s k, rf s k -> rf (push_stk ts s) (rev ts ++ k).
Proof.
  induction ts as [|t ts IH]; intros s k H; cbn [push_stk fold_left rev app]; [exact H|].
  rewrite <- app_assoc. apply IH. constructor; [reflexivity|exact H].
Qed.
Lemma push_inv ts st c : gam (push ts st) c -> exists c1, c = c1 ++ ts /\ gam st c1.
Proof.
  intros (f & k & -> & Hk & Hf). cbn [push cs_stk cs_unr] in *. apply push_stk_inv in Hk.
  destruct Hk as (k1 & -> & Hk). exists (f ++ rev k1). rewrite rev_app_distr, rev_involutive, app_assoc.
  split; [reflexivity|]. exists f, k1. auto.
Qed.
Lemma push_gam ts st c : gam st c -> gam (push ts st) (c ++ ts).
Proof.
  intros (f & k & -> & Hk & Hf). exists f, (rev ts ++ k). cbn [push cs_stk cs_unr].
  rewrite rev_app_distr, rev_involutive, app_assoc. repeat split; [now apply push_stk_rf|exact Hf].
Qed.
Lemma push1_inv z st c : gam (CS (z :: cs_stk st) (cs_unr st)) c -> exists c1 t, c = c1 ++ [t] /\ rfo z t /\ gam st c1.
Proof.
  intros (f & k & -> & Hk & Hf). cbn [cs_stk cs_unr] in *. inversion Hk as [|o t s k1 Ho Hs]; subst.
  exists (f ++ rev k1), t. cbn [rev]. rewrite app_assoc. repeat split; [exact Ho|]. exists f, k1. auto.
Qed.
Lemma push1_gam z st c t : gam st c -> rfo z t -> gam (CS (z :: cs_stk st) (cs_unr st)) (c ++ [t]).
Proof.
  intros (f & k & -> & Hk & Hf) Ho. exists f, (t :: k). cbn [cs_stk cs_unr rev]. rewrite app_assoc.
  repeat split; [constructor; assumption|exact Hf].
Qed.
Lemma gam_init ps c : gam (init_st ps) c <-> c = ps.
Proof.
  unfold init_st. split.
  - intros H. apply push_inv in H. destruct H as (c1 & -> & H). apply gam_nil_false in H. now subst.
  - intros ->. change ps with ([] ++ ps). apply push_gam. now apply gam_nil_false.
Qed.

(* ---------------------------------------------------------------- pop: forwards (completeness) *)
Lemma pop_any_complete st f t :
  gam st (f ++ [t]) -> exists o st1, pop_any st = Some (o, st1) /\ gam st1 f /\ (forall t', o = Some t' -> t' = t).
Proof.
  intros (f0 & k & E & Hk & Hf). unfold pop_any. destruct st as [[|o s] u]; cbn [cs_stk cs_unr] in *.
  - inversion Hk; subst. cbn [rev] in E. rewrite app_nil_r in E. destruct u.
    + exists None, (CS [] true). repeat split; [|discriminate]. exists f, []. cbn. rewrite app_nil_r. repeat split; [constructor|discriminate].
    + rewrite Hf in E by reflexivity. symmetry in E. now apply app_cons_not_nil in E.
  - inversion Hk as [|o' t0 s' k1 Ho Hs]; subst. cbn [rev] in E. rewrite app_assoc in E. apply app_inj_tail in E.
    destruct E as [-> ->]. exists o, (CS s u). repeat split.
    + exists f0, k1. auto.
    + intros t' ->. exact Ho.
Qed.
Lemma pop_exp_complete st f t : gam st (f ++ [t]) -> exists st1, pop_exp t st = Some st1 /\ gam st1 f.
Proof.
  intros (f0 & k & E & Hk & Hf). unfold pop_exp. destruct st as [[|o s] u]; cbn [cs_stk cs_unr] in *.
  - inversion Hk; subst. cbn [rev] in E. rewrite app_nil_r in E. destruct u.
    + exists (CS [] true). split; [reflexivity|]. exists f, []. cbn. rewrite app_nil_r. repeat split; [constructor|discriminate].
    + rewrite Hf in E by reflexivity. symmetry in E. now apply app_cons_not_nil in E.
  - inversion Hk as [|o' t0 s' k1 Ho Hs]; subst. cbn [rev] in E. rewrite app_assoc in E. apply app_inj_tail in E.
    destruct E as [-> ->]. apply matcho_rfo in Ho. rewrite Ho. exists (CS s u). split; [reflexivity|].
    exists f0, k1. auto.
Qed.
Lemma pops_top_complete r : forall st f, gam st (f ++ rev r) -> exists st1, pops_top r st = Some st1 /\ gam st1 f.
Proof.
  induction r as [|t r IH]; intros st f G; cbn [pops_top rev] in *.
  - rewrite app_nil_r in G. eauto.
  - rewrite app_assoc in G. apply pop_exp_complete in G. destruct G as (st' & -> & G). now apply IH.
Qed.
Lemma pops_complete ts st f : gam st (f ++ ts) -> exists st1, pops ts st = Some st1 /\ gam st1 f.
Proof. unfold pops. intros G. apply pops_top_complete. now rewrite rev_involutive. Qed.
Lemma end_ok_complete rs st : gam st rs -> end_ok rs st = true.
Proof.
  intros G. unfold end_ok. destruct (pops_complete rs st []) as (st1 & -> & G1); [exact G|].
  apply gam_nil_inv in G1. now rewrite G1.
Qed.
Lemma end_ok_sound rs st : end_ok rs st = true -> gam st rs.
Proof.
  unfold end_ok. destruct (pops rs st) as [st1|] eqn:E; [|discriminate].
  destruct (cs_stk st1) eqn:E1; [|discriminate]. intros _.
  change rs with ([] ++ rs). eapply pops_sound; [exact E|].
  exists [], []. rewrite E1. cbn. repeat split; constructor.
Qed.

(* ================================================================== 2. unfolding equations of the checker *)
Definition arm (e : tenv) (L : list (list valty)) (b : list rt) (ps rs : list valty) : bool :=
  arm_res (chk e L b (init_st ps)) rs.

Section Unfold.
  Variable e : tenv.
  Definition chkl_inner :=
    fix chkl (L : list (list valty)) (l : list rt) (st : cstate) {struct l} : option cstate :=
      match l with
      | [] => Some st
      | t :: l' => match chk1 e L t st with Some st' => chkl L l' st' | None => None end
      end.
  Lemma chkl_inner_eq l : forall L st, chkl_inner L l st = chk e L l st.
  Proof.
    induction l as [|t l IH]; intros L st; [reflexivity|].
    cbn [chkl_inner chk]. destruct (chk1 e L t st); [apply IH|reflexivity].
  Qed.

  Lemma chk1_plain L o loc st : chk1 e L (RPlain o loc) st = chk_plain e o st.
  Proof. reflexivity. Qed.
  Lemma chk1_nop L loc st : chk1 e L (RNop loc) st = Some st.
  Proof. reflexivity. Qed.
  Lemma chk1_br L d loc st :
    chk1 e L (RBr d loc) st =
    match nthN_opt L d with
    | Some ts => match pops ts st with Some _ => Some unr_st | None => None end
    | None => None
    end.
  Proof. reflexivity. Qed.
  Lemma chk1_br_if L d loc st :
    chk1 e L (RBrIf d loc) st =
    match nthN_opt L d with
    | Some ts =>
        match pop_exp VT_I32 st with
        | Some st1 => match pops ts st1 with Some st2 => Some (push ts st2) | None => None end
        | None => None
        end
    | None => None
    end.
  Proof. reflexivity. Qed.
  Lemma chk1_br_table L ds d loc st :
    chk1 e L (RBrTable ds d loc) st =
    match nthN_opt L d with
    | Some ts =>
        if forallb (label_is L ts) ds then
          match pop_exp VT_I32 st with
          | Some st1 => match pops ts st1 with Some _ => Some unr_st | None => None end
          | None => None
          end
        else None
    | None => None
    end.
  Proof. reflexivity. Qed.
  Lemma chk1_block L bt b loc lend st :
    chk1 e L (RBlock bt b loc lend) st =
    if bt_ok e bt then
      match pops (bt_params e bt) st with
      | Some st1 =>
          if arm e (bt_results e bt :: L) b (bt_params e bt) (bt_results e bt)
          then Some (push (bt_results e bt) st1) else None
      | None => None
      end
    else None.
  Proof. unfold arm. rewrite <- chkl_inner_eq. reflexivity. Qed.
  Lemma chk1_loop L bt b loc lend st :
    chk1 e L (RLoop bt b loc lend) st =
    if bt_ok e bt then
      match pops (bt_params e bt) st with
      | Some st1 =>
          if arm e (bt_params e bt :: L) b (bt_params e bt) (bt_results e bt)
          then Some (push (bt_results e bt) st1) else None
      | None => None
      end
    else None.
  Proof. unfold arm. rewrite <- chkl_inner_eq. reflexivity. Qed.
  Lemma chk1_if_some L bt th le eb loc lend st :
    chk1 e L (RIf bt th (Some (le, eb)) loc lend) st =
    if bt_ok e bt then
      match pop_exp VT_I32 st with
      | Some st0 =>
          match pops (bt_params e bt) st0 with
          | Some st1 =>
              if arm e (bt_results e bt :: L) th (bt_params e bt) (bt_results e bt)
                 && arm e (bt_results e bt :: L) eb (bt_params e bt) (bt_results e bt)
              then Some (push (bt_results e bt) st1) else None
          | None => None
          end
      | None => None
      end
    else None.
  Proof. unfold arm. rewrite <- !chkl_inner_eq. reflexivity. Qed.
  Lemma chk1_if_none L bt th loc lend st :
    chk1 e L (RIf bt th None loc lend) st =
    if bt_ok e bt then
      match pop_exp VT_I32 st with
      | Some st0 =>
          match pops (bt_params e bt) st0 with
          | Some st1 =>
              if arm e (bt_results e bt :: L) th (bt_params e bt) (bt_results e bt)
                 && vlist_eqb (bt_params e bt) (bt_results e bt)
              then Some (push (bt_results e bt) st1) else None
          | None => None
          end
      | None => None
      end
    else None.
  Proof. unfold arm. rewrite <- chkl_inner_eq. reflexivity. Qed.
End Unfold.

Lemma check_body_arm e body : check_body e body = arm e [te_results e] body [] (te_results e).
Proof. reflexivity. Qed.

(* ================================================================== 3. soundness *)
Notation cht e := (ht valty VT_I32 (core_optype e) (core_opdead e) (bt_params e) (bt_results e)).
Notation cht1 e := (ht1 valty VT_I32 (core_optype e) (core_opdead e) (bt_params e) (bt_results e)).
Notation chl e := (hl valty VT_I32 (core_optype e) (core_opdead e) (bt_params e) (bt_results e)).
Notation chl1 e := (hl1 valty VT_I32 (core_optype e) (core_opdead e) (bt_params e) (bt_results e)).

Lemma ht1_plain_eq e L o loc f i r c c' :
  marks_unreachable o = false -> core_optype e (WOp o) i r -> c = f ++ i -> c' = f ++ r -> cht1 e L (RPlain o loc) c c'.
Proof. intros; subst; now constructor. Qed.
Lemma ht1_dead_eq e L o loc f i c c' :
  marks_unreachable o = true -> core_opdead e (WOp o) i -> c = f ++ i -> cht1 e L (RPlain o loc) c c'.
Proof. intros; subst; now constructor. Qed.

Lemma rfo_ex x : exists t, rfo x t.
Proof. destruct x as [t|]; [exists t|exists VT_I32]; reflexivity. Qed.

Lemma join_sound x y z t : join x y = Some z -> rfo z t -> rfo x t /\ rfo y t /\ is_int t = true.
Proof.
  destruct x as [a|], y as [b|]; cbn [join].
  - destruct (is_int a) eqn:I; cbn [andb]; [|discriminate]. destruct (valty_eqb a b) eqn:V; [|discriminate].
    apply valty_eqb_eq in V. subst b. intros [= <-] Hz. cbn [rfo] in *. subst t. auto.
  - destruct (is_int a) eqn:I; [|discriminate]. intros [= <-] Hz. cbn [rfo] in *. subst t. auto.
  - destruct (is_int b) eqn:I; [|discriminate]. intros [= <-] Hz. cbn [rfo] in *. subst t. auto.
  - intros [= <-] Hz. cbn [rfo] in *. auto.
Qed.

Lemma chk_plain_sound e L o loc st st' :
  chk_plain e o st = Some st' -> forall c', gam st' c' -> exists c, gam st c /\ cht1 e L (RPlain o loc) c c'.
Proof.
  unfold chk_plain. destruct (op_class o) as [E|E|E|E|E].
  - (* drop *) subst o. destruct (pop_any st) as [[x st1]|] eqn:P; [|discriminate]. intros [= <-] c' G.
    destruct (rfo_ex x) as [t Ht]. exists (c' ++ [t]). split; [eapply pop_any_sound; eassumption|].
    eapply ht1_plain_eq with (f := c') (i := [t]) (r := []); [reflexivity| |reflexivity|now rewrite app_nil_r].
    right; left. split; [reflexivity|]. exists t. auto.
  - (* select *) subst o.
    destruct (pop_exp VT_I32 st) as [st1|] eqn:P1; [|discriminate].
    destruct (pop_any st1) as [[x st2]|] eqn:P2; [|discriminate].
    destruct (pop_any st2) as [[y st3]|] eqn:P3; [|discriminate].
    destruct (join x y) as [z|] eqn:J; [|discriminate]. intros [= <-] c' G.
    apply push1_inv in G. destruct G as (c3 & t & -> & Hz & G3).
    destruct (join_sound _ _ _ _ J Hz) as (Hx & Hy & Hi).
    exists (((c3 ++ [t]) ++ [t]) ++ [VT_I32]). split.
    + eapply pop_exp_sound; [exact P1|]. eapply pop_any_sound; [exact P2| |exact Hx].
      eapply pop_any_sound; [exact P3|exact G3|exact Hy].
    + eapply ht1_plain_eq with (f := c3) (i := [t; t; VT_I32]) (r := [t]);
        [reflexivity| |now rewrite <- !app_assoc|reflexivity].
      right; right. split; [reflexivity|]. exists t. auto.
  - (* return *) subst o. destruct (pops (te_results e) st) as [st1|] eqn:P; [|discriminate]. intros [= <-] c' _.
    destruct (gam_ex st1) as [c1 G1]. exists (c1 ++ te_results e). split; [eapply pops_sound; eassumption|].
    apply HT_dead; [reflexivity|]. right. auto.
  - (* unreachable *) subst o. intros [= <-] c' _. destruct (gam_ex st) as [c G]. exists c. split; [exact G|].
    eapply ht1_dead_eq with (f := c) (i := []); [reflexivity| |now rewrite app_nil_r]. left. auto.
  - (* a core operator with a signature *)
    destruct (core_sig e o) as [[i r]|] eqn:S; [|discriminate].
    destruct (pops i st) as [st1|] eqn:P; [|discriminate]. intros [= <-] c' G.
    apply push_inv in G. destruct G as (c1 & -> & G1). exists (c1 ++ i). split; [eapply pops_sound; eassumption|].
    apply HT_plain; [exact E|]. left. exists o. auto.
Qed.

Definition snd1 (e : tenv) (t : rt) : Prop :=
  forall L st st', chk1 e L t st = Some st' -> forall c', gam st' c' -> exists c, gam st c /\ cht1 e L t c c'.

Lemma sound_list e l : Forall (snd1 e) l ->
  forall L st st', chk e L l st = Some st' -> forall c', gam st' c' -> exists c, gam st c /\ cht e L l c c'.
Proof.
  induction 1 as [|t l Ht Hl IH]; intros L st st' H c' G; cbn [chk] in H.
  - injection H as <-. exists c'. split; [exact G|apply HT_nil].
  - destruct (chk1 e L t st) as [st1|] eqn:E; [|discriminate].
    destruct (IH _ _ _ H _ G) as (c1 & G1 & H1). destruct (Ht _ _ _ E _ G1) as (c & G0 & H0).
    exists c. split; [exact G0|]. eapply HT_cons; eassumption.
Qed.
Lemma arm_sound e l : Forall (snd1 e) l -> forall L ps rs, arm e L l ps rs = true -> cht e L l ps rs.
Proof.
  intros HF L ps rs. unfold arm, arm_res. destruct (chk e L l (init_st ps)) as [st'|] eqn:C; [|discriminate].
  intros H. apply end_ok_sound in H. destruct (sound_list e l HF _ _ _ C _ H) as (c & Gc & Hc).
  apply gam_init in Gc. subst c. exact Hc.
Qed.

Lemma chk1_sound e t : snd1 e t.
Proof.
  induction t as [o l|l|d l|d l|ds d l|bt body l en HF|bt body l en HF|bt th el l en HFt HFe] using rt_ind';
    intros L st st' H c' G.
  - rewrite chk1_plain in H. eapply chk_plain_sound; eassumption.
  - rewrite chk1_nop in H. injection H as <-. exists c'. split; [exact G|apply HT_nop].
  - rewrite chk1_br in H. destruct (nthN_opt L d) as [ts|] eqn:EL; [|discriminate].
    destruct (pops ts st) as [st1|] eqn:P; [|discriminate]. injection H as <-.
    destruct (gam_ex st1) as [c1 G1]. exists (c1 ++ ts). split; [eapply pops_sound; eassumption|].
    apply HT_br. rewrite <- nthN_opt_nth. exact EL.
  - rewrite chk1_br_if in H. destruct (nthN_opt L d) as [ts|] eqn:EL; [|discriminate].
    destruct (pop_exp VT_I32 st) as [st1|] eqn:P1; [|discriminate].
    destruct (pops ts st1) as [st2|] eqn:P2; [|discriminate]. injection H as <-.
    apply push_inv in G. destruct G as (c2 & -> & G2). exists ((c2 ++ ts) ++ [VT_I32]). split.
    + eapply pop_exp_sound; [exact P1|]. eapply pops_sound; eassumption.
    + rewrite <- app_assoc. apply HT_br_if. rewrite <- nthN_opt_nth. exact EL.
  - rewrite chk1_br_table in H. destruct (nthN_opt L d) as [ts|] eqn:EL; [|discriminate].
    destruct (forallb (label_is L ts) ds) eqn:F; [|discriminate].
    destruct (pop_exp VT_I32 st) as [st1|] eqn:P1; [|discriminate].
    destruct (pops ts st1) as [st2|] eqn:P2; [|discriminate]. injection H as <-.
    destruct (gam_ex st2) as [c2 G2]. exists ((c2 ++ ts) ++ [VT_I32]). split.
    + eapply pop_exp_sound; [exact P1|]. eapply pops_sound; eassumption.
    + rewrite <- app_assoc. apply HT_br_table; [rewrite <- nthN_opt_nth; exact EL|].
      apply Forall_forall. intros x Hx. rewrite forallb_forall in F. specialize (F x Hx).
      unfold label_is in F. rewrite nthN_opt_nth in F. destruct (nth_error L (N.to_nat x)) as [ts'|]; [|discriminate].
      apply vlist_eqb_eq in F. now subst.
  - rewrite chk1_block in H. destruct (bt_ok e bt); [|discriminate].
    destruct (pops (bt_params e bt) st) as [st1|] eqn:P; [|discriminate].
    destruct (arm e (bt_results e bt :: L) body (bt_params e bt) (bt_results e bt)) eqn:A; [|discriminate].
    injection H as <-. apply push_inv in G. destruct G as (c1 & -> & G1).
    exists (c1 ++ bt_params e bt). split; [eapply pops_sound; eassumption|].
    apply HT_block. eapply arm_sound; eassumption.
  - rewrite chk1_loop in H. destruct (bt_ok e bt); [|discriminate].
    destruct (pops (bt_params e bt) st) as [st1|] eqn:P; [|discriminate].
    destruct (arm e (bt_params e bt :: L) body (bt_params e bt) (bt_results e bt)) eqn:A; [|discriminate].
    injection H as <-. apply push_inv in G. destruct G as (c1 & -> & G1).
    exists (c1 ++ bt_params e bt). split; [eapply pops_sound; eassumption|].
    apply HT_loop. eapply arm_sound; eassumption.
  - destruct el as [[le eb]|].
    + rewrite chk1_if_some in H. destruct (bt_ok e bt); [|discriminate].
      destruct (pop_exp VT_I32 st) as [st0|] eqn:P0; [|discriminate].
      destruct (pops (bt_params e bt) st0) as [st1|] eqn:P; [|discriminate].
      destruct (arm e (bt_results e bt :: L) th (bt_params e bt) (bt_results e bt)) eqn:A1; [|discriminate].
      destruct (arm e (bt_results e bt :: L) eb (bt_params e bt) (bt_results e bt)) eqn:A2; [|discriminate].
      cbn [andb] in H. injection H as <-. apply push_inv in G. destruct G as (c1 & -> & G1).
      exists ((c1 ++ bt_params e bt) ++ [VT_I32]). split.
      * eapply pop_exp_sound; [exact P0|]. eapply pops_sound; eassumption.
      * rewrite <- app_assoc. apply HT_if_else; eapply arm_sound; eassumption.
    + rewrite chk1_if_none in H. destruct (bt_ok e bt); [|discriminate].
      destruct (pop_exp VT_I32 st) as [st0|] eqn:P0; [|discriminate].
      destruct (pops (bt_params e bt) st0) as [st1|] eqn:P; [|discriminate].
      destruct (arm e (bt_results e bt :: L) th (bt_params e bt) (bt_results e bt)) eqn:A1; [|discriminate].
      destruct (vlist_eqb (bt_params e bt) (bt_results e bt)) eqn:A2; [|discriminate].
      cbn [andb] in H. injection H as <-. apply push_inv in G. destruct G as (c1 & -> & G1).
      exists ((c1 ++ bt_params e bt) ++ [VT_I32]). split.
      * eapply pop_exp_sound; [exact P0|]. eapply pops_sound; eassumption.
      * rewrite <- app_assoc. apply HT_if; [eapply arm_sound; eassumption|]. now apply vlist_eqb_eq.
Qed.

(* the general form: a successful run of [chk] types the sequence, backwards from ANY instance of the final state,
   from SOME instance of the initial state (unique when the initial state has no unknown and the flag is clear) *)
Theorem chk_sound e L l st st' :
  chk e L l st = Some st' -> forall c', gam st' c' -> exists c, gam st c /\ cht e L l c c'.
Proof. apply sound_list. apply Forall_forall. intros t _. apply chk1_sound. Qed.

(* from a fully known stack [a] (flag clear) the start is [a] itself: EVERY instance of the final state is a result type *)
Corollary chk_sound_known e L l a st' :
  chk e L l (init_st a) = Some st' -> forall c', gam st' c' -> cht e L l a c'.
Proof.
  intros H c' G. destruct (chk_sound e L l _ _ H c' G) as (c & Gc & Hc). apply gam_init in Gc. now subst.
Qed.

Theorem arm_typed e L l ps rs : arm e L l ps rs = true -> cht e L l ps rs.
Proof. apply arm_sound. apply Forall_forall. intros t _. apply chk1_sound. Qed.

(* 1. SOUNDNESS *)
Theorem check_body_sound e body :
  check_body e body = true -> cht e [te_results e] body [] (te_results e).
Proof. rewrite check_body_arm. apply arm_typed. Qed.

(* 2. a body the validator accepts is emitted as a well-typed body *)
Theorem check_body_nf_typed e body :
  check_body e body = true -> cht e [te_results e] (fst (nf_rt_list false body)) [] (te_results e).
Proof. intros H. apply nf_preserves_typing, check_body_sound, H. Qed.

(* ================================================================== 4. completeness for the declarative typing *)
(* the checker rejects a block type with an absent type index, for which [bt_params] / [bt_results] are [] / [] *)
Inductive bts1 (e : tenv) : rt -> Prop :=
  | BO_plain : forall o l, bts1 e (RPlain o l)
  | BO_nop : forall l, bts1 e (RNop l)
  | BO_br : forall d l, bts1 e (RBr d l)
  | BO_br_if : forall d l, bts1 e (RBrIf d l)
  | BO_br_table : forall ds d l, bts1 e (RBrTable ds d l)
  | BO_block : forall bt b l en, bt_ok e bt = true -> Forall (bts1 e) b -> bts1 e (RBlock bt b l en)
  | BO_loop : forall bt b l en, bt_ok e bt = true -> Forall (bts1 e) b -> bts1 e (RLoop bt b l en)
  | BO_if_some : forall bt th le eb l en,
      bt_ok e bt = true -> Forall (bts1 e) th -> Forall (bts1 e) eb -> bts1 e (RIf bt th (Some (le, eb)) l en)
  | BO_if_none : forall bt th l en, bt_ok e bt = true -> Forall (bts1 e) th -> bts1 e (RIf bt th None l en).
(* every block type of the body (dead code included) names a type that exists *)
Definition bts (e : tenv) (l : list rt) : Prop := Forall (bts1 e) l.

Lemma core_sig_drop e : core_sig e W_Drop = None. Proof. reflexivity. Qed.
Lemma core_sig_select e : core_sig e W_Select = None. Proof. reflexivity. Qed.
Lemma chk_plain_drop e st :
  chk_plain e W_Drop st = match pop_any st with Some (_, st1) => Some st1 | None => None end.
Proof. reflexivity. Qed.
Lemma chk_plain_select e st :
  chk_plain e W_Select st =
  match pop_exp VT_I32 st with
  | Some st1 =>
      match pop_any st1 with
      | Some (x, st2) =>
          match pop_any st2 with
          | Some (y, st3) =>
              match join x y with
              | Some z => Some (CS (z :: cs_stk st3) (cs_unr st3))
              | None => None
              end
          | None => None
          end
      | None => None
      end
  | None => None
  end.
Proof. reflexivity. Qed.
Lemma chk_plain_return e st :
  chk_plain e W_Return st = match pops (te_results e) st with Some _ => Some unr_st | None => None end.
Proof. reflexivity. Qed.
Lemma chk_plain_unreach e st : chk_plain e W_Unreachable st = Some unr_st.
Proof. reflexivity. Qed.

Lemma join_complete x y t :
  is_int t = true -> (forall t', x = Some t' -> t' = t) -> (forall t', y = Some t' -> t' = t) ->
  exists z, join x y = Some z /\ rfo z t.
Proof.
  intros Hi Hx Hy. destruct x as [a|], y as [b|]; cbn [join].
  - rewrite (Hx a eq_refl), (Hy b eq_refl), Hi, valty_eqb_refl. cbn [andb]. exists (Some t). split; reflexivity.
  - rewrite (Hx a eq_refl), Hi. exists (Some t). split; reflexivity.
  - rewrite (Hy b eq_refl), Hi. exists (Some t). split; reflexivity.
  - exists None. split; [reflexivity|exact Hi].
Qed.

Lemma chk_plain_complete e o f i r st :
  marks_unreachable o = false -> core_optype e (WOp o) i r -> gam st (f ++ i) ->
  exists st', chk_plain e o st = Some st' /\ gam st' (f ++ r).
Proof.
  intros Hm Ho G. destruct Ho as [(o' & Eo & S)|[(Eo & t & -> & ->)|(Eo & t & Hi & -> & ->)]].
  - injection Eo as <-. unfold chk_plain. destruct (op_class o) as [E|E|E|E|E].
    + subst o. rewrite core_sig_drop in S. discriminate S.
    + subst o. rewrite core_sig_select in S. discriminate S.
    + subst o. discriminate Hm.
    + subst o. discriminate Hm.
    + rewrite S. apply pops_complete in G. destruct G as (st1 & -> & G1).
      exists (push r st1). split; [reflexivity|now apply push_gam].
  - injection Eo as ->. rewrite chk_plain_drop. apply pop_any_complete in G. destruct G as (x & st1 & -> & G1 & _).
    exists st1. rewrite app_nil_r. auto.
  - injection Eo as ->. rewrite chk_plain_select.
    change (f ++ [t; t; VT_I32]) with (f ++ [t] ++ [t] ++ [VT_I32]) in G. rewrite !app_assoc in G.
    apply pop_exp_complete in G. destruct G as (st1 & -> & G).
    apply pop_any_complete in G. destruct G as (x & st2 & -> & G & Hx).
    apply pop_any_complete in G. destruct G as (y & st3 & -> & G & Hy).
    destruct (join_complete x y t Hi Hx Hy) as (z & -> & Hz).
    eexists. split; [reflexivity|]. now apply push1_gam.
Qed.

Lemma arm_complete e L b ps rs :
  (forall st, gam st ps -> exists st', chk e L b st = Some st' /\ gam st' rs) -> arm e L b ps rs = true.
Proof.
  intros H. destruct (H (init_st ps)) as (st' & C & G); [now apply gam_init|].
  unfold arm, arm_res. rewrite C. now apply end_ok_complete.
Qed.

Lemma complete_both e :
  (forall L l a c, cht e L l a c -> bts e l ->
     forall st, gam st a -> exists st', chk e L l st = Some st' /\ gam st' c) /\
  (forall L t a c, cht1 e L t a c -> bts1 e t ->
     forall st, gam st a -> exists st', chk1 e L t st = Some st' /\ gam st' c).
Proof.
  apply ht_ht1_ind.
  - (* nil *) intros L a _ st G. exists st. auto.
  - (* cons *) intros L t l a b c _ IH1 _ IH2 HB st G. inversion HB as [|x y HB1 HB2]; subst.
    destruct (IH1 HB1 st G) as (st1 & E1 & G1). destruct (IH2 HB2 st1 G1) as (st2 & E2 & G2).
    exists st2. cbn [chk]. rewrite E1. auto.
  - (* plain *) intros L o loc f i r Hm Ho _ st G. rewrite chk1_plain. eapply chk_plain_complete; eassumption.
  - (* dead *) intros L o loc f i b Hm Hd _ st G. rewrite chk1_plain.
    destruct Hd as [(Eo & ->)|(Eo & ->)]; injection Eo as ->.
    + rewrite chk_plain_unreach. exists unr_st. split; [reflexivity|apply gam_unr].
    + rewrite chk_plain_return. apply pops_complete in G. destruct G as (st1 & -> & _).
      exists unr_st. split; [reflexivity|apply gam_unr].
  - (* nop *) intros L loc a _ st G. exists st. auto.
  - (* br *) intros L d loc f ts b E _ st G. rewrite chk1_br, nthN_opt_nth, E.
    apply pops_complete in G. destruct G as (st1 & -> & _). exists unr_st. split; [reflexivity|apply gam_unr].
  - (* br_if *) intros L d loc f ts E _ st G. rewrite chk1_br_if, nthN_opt_nth, E. rewrite app_assoc in G.
    apply pop_exp_complete in G. destruct G as (st1 & -> & G). apply pops_complete in G. destruct G as (st2 & -> & G).
    exists (push ts st2). split; [reflexivity|now apply push_gam].
  - (* br_table *) intros L ds d loc f ts b E HF _ st G. rewrite chk1_br_table, nthN_opt_nth, E.
    assert (F : forallb (label_is L ts) ds = true).
    { apply forallb_forall. intros x Hx. rewrite Forall_forall in HF. unfold label_is.
      rewrite nthN_opt_nth, (HF x Hx). apply vlist_eqb_refl. }
    rewrite F. rewrite app_assoc in G.
    apply pop_exp_complete in G. destruct G as (st1 & -> & G). apply pops_complete in G. destruct G as (st2 & -> & _).
    exists unr_st. split; [reflexivity|apply gam_unr].
  - (* block *) intros L bt body loc lend f _ IH HB st G.
    inversion HB as [| | | | |bt' b' l' en' Hbt Hb| | |]; subst.
    rewrite chk1_block, Hbt. apply pops_complete in G. destruct G as (st1 & -> & G).
    rewrite (arm_complete e _ _ _ _ (IH Hb)). exists (push (bt_results e bt) st1). split; [reflexivity|now apply push_gam].
  - (* loop *) intros L bt body loc lend f _ IH HB st G.
    inversion HB as [| | | | | |bt' b' l' en' Hbt Hb| |]; subst.
    rewrite chk1_loop, Hbt. apply pops_complete in G. destruct G as (st1 & -> & G).
    rewrite (arm_complete e _ _ _ _ (IH Hb)). exists (push (bt_results e bt) st1). split; [reflexivity|now apply push_gam].
  - (* if / else *) intros L bt th le el loc lend f _ IH1 _ IH2 HB st G.
    inversion HB as [| | | | | | |bt' th' le' eb' l' en' Hbt Hth Hel|]; subst.
    rewrite chk1_if_some, Hbt. rewrite app_assoc in G.
    apply pop_exp_complete in G. destruct G as (st0 & -> & G). apply pops_complete in G. destruct G as (st1 & -> & G).
    rewrite (arm_complete e _ _ _ _ (IH1 Hth)), (arm_complete e _ _ _ _ (IH2 Hel)). cbn [andb].
    exists (push (bt_results e bt) st1). split; [reflexivity|now apply push_gam].
  - (* if *) intros L bt th loc lend f _ IH1 Epr HB st G.
    inversion HB as [| | | | | | | |bt' th' l' en' Hbt Hth]; subst.
    rewrite chk1_if_none, Hbt. rewrite app_assoc in G.
    apply pop_exp_complete in G. destruct G as (st0 & -> & G). apply pops_complete in G. destruct G as (st1 & -> & G).
    rewrite (arm_complete e _ _ _ _ (IH1 Hth)).
    replace (vlist_eqb (bt_params e bt) (bt_results e bt)) with true by (symmetry; apply vlist_eqb_eq, Epr). cbn [andb].
    exists (push (bt_results e bt) st1). split; [reflexivity|now apply push_gam].
Qed.

(* the general form: from any state one of whose instances is [a], the checker succeeds on a sequence typed
   [a -> c], and [c] is an instance of the final state *)
Theorem chk_complete e L l a c st :
  cht e L l a c -> bts e l -> gam st a -> exists st', chk e L l st = Some st' /\ gam st' c.
Proof. intros H HB G. exact (proj1 (complete_both e) L l a c H HB st G). Qed.

Theorem arm_of_typed e L l ps rs : bts e l -> cht e L l ps rs -> arm e L l ps rs = true.
Proof. intros HB H. apply arm_complete. intros st G. eapply chk_complete; eassumption. Qed.

(* 3a. COMPLETENESS for the declarative typing (dead code included) *)
Theorem check_body_complete e body :
  bts e body -> cht e [te_results e] body [] (te_results e) -> check_body e body = true.
Proof. rewrite check_body_arm. apply arm_of_typed. Qed.

(* ---------------------------------------------------------------- what the checker accepts has valid block types *)
Definition btsP (e : tenv) (t : rt) : Prop := forall L st st', chk1 e L t st = Some st' -> bts1 e t.
Lemma bts_list e l : Forall (btsP e) l -> forall L st st', chk e L l st = Some st' -> bts e l.
Proof.
  induction 1 as [|t l Ht Hl IH]; intros L st st' H; cbn [chk] in H; [constructor|].
  destruct (chk1 e L t st) as [st1|] eqn:E; [|discriminate]. constructor; [eapply Ht, E|eapply IH, H].
Qed.
Lemma arm_bts e l : Forall (btsP e) l -> forall L ps rs, arm e L l ps rs = true -> bts e l.
Proof.
  intros HF L ps rs. unfold arm, arm_res. destruct (chk e L l (init_st ps)) as [st'|] eqn:C; [|discriminate].
  intros _. eapply bts_list; eassumption.
Qed.
Lemma chk1_bts e t : btsP e t.
Proof.
  induction t as [o l|l|d l|d l|ds d l|bt body l en HF|bt body l en HF|bt th el l en HFt HFe] using rt_ind';
    intros L st st' H; try (constructor; fail).
  - rewrite chk1_block in H. destruct (bt_ok e bt) eqn:B; [|discriminate].
    destruct (pops (bt_params e bt) st); [|discriminate].
    destruct (arm e (bt_results e bt :: L) body (bt_params e bt) (bt_results e bt)) eqn:A; [|discriminate].
    constructor; [exact B|eapply arm_bts; eassumption].
  - rewrite chk1_loop in H. destruct (bt_ok e bt) eqn:B; [|discriminate].
    destruct (pops (bt_params e bt) st); [|discriminate].
    destruct (arm e (bt_params e bt :: L) body (bt_params e bt) (bt_results e bt)) eqn:A; [|discriminate].
    constructor; [exact B|eapply arm_bts; eassumption].
  - destruct el as [[le eb]|].
    + rewrite chk1_if_some in H. destruct (bt_ok e bt) eqn:B; [|discriminate].
      destruct (pop_exp VT_I32 st) as [st0|]; [|discriminate].
      destruct (pops (bt_params e bt) st0); [|discriminate].
      destruct (arm e (bt_results e bt :: L) th (bt_params e bt) (bt_results e bt)) eqn:A1; [|discriminate].
      destruct (arm e (bt_results e bt :: L) eb (bt_params e bt) (bt_results e bt)) eqn:A2; [|discriminate].
      constructor; [exact B|eapply arm_bts; eassumption|eapply arm_bts; eassumption].
    + rewrite chk1_if_none in H. destruct (bt_ok e bt) eqn:B; [|discriminate].
      destruct (pop_exp VT_I32 st) as [st0|]; [|discriminate].
      destruct (pops (bt_params e bt) st0); [|discriminate].
      destruct (arm e (bt_results e bt :: L) th (bt_params e bt) (bt_results e bt)) eqn:A1; [|discriminate].
      constructor; [exact B|eapply arm_bts; eassumption].
Qed.
Theorem check_body_bts e body : check_body e body = true -> bts e body.
Proof. rewrite check_body_arm. apply arm_bts. apply Forall_forall. intros t _. apply chk1_bts. Qed.

(* THE VALIDATOR DECIDES THE DECLARATIVE TYPING (given that the block types exist) *)
Theorem check_body_iff e body :
  check_body e body = true <-> bts e body /\ cht e [te_results e] body [] (te_results e).
Proof.
  split.
  - intros H. split; [apply check_body_bts, H|apply check_body_sound, H].
  - intros [HB H]. now apply check_body_complete.
Qed.

(* ---------------------------------------------------------------- the normal form keeps the block types *)
Lemma nf_bts_list e l :
  Forall (fun t => bts1 e t -> forall u, bts e (fst (nf_rt u t))) l -> bts e l -> forall u, bts e (fst (nf_rt_list u l)).
Proof.
  induction 1 as [|t l Ht Hl IH]; intros HB u; [constructor|].
  inversion HB as [|x y HB1 HB2]; subst. rewrite nf_rt_list_cons. cbn [fst]. apply Forall_app. split; [now apply Ht|now apply IH].
Qed.
Lemma nf_bts1 e t : bts1 e t -> forall u, bts e (fst (nf_rt u t)).
Proof.
  induction t as [o l|l|d l|d l|ds d l|bt body l en HF|bt body l en HF|bt th el l en HFt HFe] using rt_ind';
    intros HB u.
  - destruct u; cbn [nf_rt fst]; repeat constructor.
  - cbn [nf_rt fst]. constructor.
  - destruct u; cbn [nf_rt fst]; repeat constructor.
  - destruct u; cbn [nf_rt fst]; repeat constructor.
  - destruct u; cbn [nf_rt fst]; repeat constructor.
  - inversion HB as [| | | | |bt' b' l' en' Hbt Hb| | |]; subst. rewrite nf_rt_block. cbn [fst]. unfold keepr.
    destruct u; [constructor|]. constructor; [|constructor]. constructor; [exact Hbt|now apply nf_bts_list].
  - inversion HB as [| | | | | |bt' b' l' en' Hbt Hb| |]; subst. rewrite nf_rt_loop. cbn [fst]. unfold keepr.
    destruct u; [constructor|]. constructor; [|constructor]. constructor; [exact Hbt|now apply nf_bts_list].
  - destruct el as [[le eb]|].
    + inversion HB as [| | | | | | |bt' th' le' eb' l' en' Hbt Hth Hel|]; subst. rewrite nf_rt_if_some. cbn [fst]. unfold keepr.
      destruct u; [constructor|]. constructor; [|constructor].
      constructor; [exact Hbt|now apply nf_bts_list|now apply nf_bts_list].
    + inversion HB as [| | | | | | | |bt' th' l' en' Hbt Hth]; subst. rewrite nf_rt_if_none. cbn [fst]. unfold keepr.
      destruct u; [constructor|]. constructor; [|constructor].
      constructor; [exact Hbt|now apply nf_bts_list|constructor].
Qed.
Lemma nf_bts e l u : bts e l -> bts e (fst (nf_rt_list u l)).
Proof. intros H. apply nf_bts_list; [|exact H]. apply Forall_forall. intros t _. apply nf_bts1. Qed.

(* 3c. THE VALIDATOR ACCEPTS THE EMITTED BODY of every body it accepts (dead code or not) *)
Theorem check_body_nf e body :
  check_body e body = true -> check_body e (fst (nf_rt_list false body)) = true.
Proof.
  intros H. apply check_body_complete; [apply nf_bts, check_body_bts, H|apply check_body_nf_typed, H].
Qed.

(* ================================================================== 5. completeness on kept code: bodies without dead code *)
(* nothing follows an instruction that never falls through, in any sequence *)
Inductive no_dead : list rt -> Prop :=
  | ND_nil : no_dead []
  | ND_cons : forall t l, no_dead1 t -> (never_falls t = true -> l = []) -> no_dead l -> no_dead (t :: l)
with no_dead1 : rt -> Prop :=
  | ND_plain : forall o l, no_dead1 (RPlain o l)
  | ND_nop : forall l, no_dead1 (RNop l)
  | ND_br : forall d l, no_dead1 (RBr d l)
  | ND_br_if : forall d l, no_dead1 (RBrIf d l)
  | ND_br_table : forall ds d l, no_dead1 (RBrTable ds d l)
  | ND_block : forall bt b l en, no_dead b -> no_dead1 (RBlock bt b l en)
  | ND_loop : forall bt b l en, no_dead b -> no_dead1 (RLoop bt b l en)
  | ND_if_some : forall bt th le eb l en, no_dead th -> no_dead eb -> no_dead1 (RIf bt th (Some (le, eb)) l en)
  | ND_if_none : forall bt th l en, no_dead th -> no_dead1 (RIf bt th None l en).

Section NoDead.
  Variable T : Type.
  Variable t_i32 : T.
  Variable optype : wins -> list T -> list T -> Prop.
  Variable opdead : wins -> list T -> Prop.
  Variable params results : blockty -> list T.
  Notation ht := (ht T t_i32 optype opdead params results).
  Notation ht1 := (ht1 T t_i32 optype opdead params results).
  Notation hl := (hl T t_i32 optype opdead params results).
  Notation hl1 := (hl1 T t_i32 optype opdead params results).

  Lemma hl_no_dead_both :
    (forall L l a b, hl L l a b -> no_dead l -> ht L l a b) /\
    (forall L t a b, hl1 L t a b -> no_dead1 t ->
       ht1 L t a b /\ (never_falls t = true -> forall c, ht1 L t a c)).
  Proof.
    apply hl_hl1_ind.
    - intros L a _. apply HT_nil.
    - intros L t l a b c E _ IH1 _ IH2 HN. inversion HN as [|t' l' H1 H2 H3]; subst.
      eapply HT_cons; [apply (proj1 (IH1 H1))|apply IH2, H3].
    - intros L t l a b c E _ IH1 HN. inversion HN as [|t' l' H1 H2 H3]; subst. rewrite (H2 E).
      eapply HT_cons; [apply (proj2 (IH1 H1) E c)|apply HT_nil].
    - intros L o loc f i r E Ho _. split; [now apply HT_plain|]. intros E'. cbn [never_falls] in E'. congruence.
    - intros L o loc f i b E Ho _. split; [|intros _ c]; apply HT_dead; assumption.
    - intros L loc a _. split; [apply HT_nop|nofalls].
    - intros L d loc f ts b E _. split; [|intros _ c]; apply HT_br; assumption.
    - intros L d loc f ts E _. split; [now apply HT_br_if|nofalls].
    - intros L ds d loc f ts b E EF _. split; [|intros _ c]; apply HT_br_table; assumption.
    - intros L bt body loc lend f _ IH HN. inversion HN; subst. split; [|nofalls]. apply HT_block, IH. assumption.
    - intros L bt body loc lend f _ IH HN. inversion HN; subst. split; [|nofalls]. apply HT_loop, IH. assumption.
    - intros L bt th le el loc lend f _ IH1 _ IH2 HN. inversion HN; subst. split; [|nofalls].
      apply HT_if_else; [apply IH1|apply IH2]; assumption.
    - intros L bt th loc lend f _ IH1 E HN. inversion HN; subst. split; [|nofalls].
      apply HT_if; [apply IH1; assumption|exact E].
  Qed.
  (* without dead code the two typings coincide *)
  Theorem hl_no_dead L l a b : no_dead l -> hl L l a b -> ht L l a b.
  Proof. intros HN H. now apply hl_no_dead_both. Qed.
End NoDead.

(* 3b. COMPLETENESS on kept code, for bodies without dead code *)
Theorem check_body_complete_hl e body :
  no_dead body -> bts e body -> chl e [te_results e] body [] (te_results e) -> check_body e body = true.
Proof. intros HN HB H. apply check_body_complete; [exact HB|]. now apply hl_no_dead. Qed.

(* the alignment bound of [mem_ok] is the natural-alignment bound 2^align <= width = 2^lg *)
Lemma mem_align_pow a lg : (a <=? lg)%N = (2 ^ a <=? 2 ^ lg)%N.
Proof.
  apply eq_true_iff_eq. rewrite !N.leb_le. apply N.pow_le_mono_r_iff. reflexivity.
Qed.

(* ================================================================== 6. the premises are needed *)
Module Needed.
  Definition env0 : tenv :=
    {| te_locals := []; te_globals := []; te_tys := []; te_results := []; te_has_mem := false |}.
  (* (a) [hl] ignores dead code, a validator does not: unreachable; i32.const 0  leaves a value too many *)
  Definition dead_body : list rt := [RPlain W_Unreachable 0; RPlain (W_I32Const 0) 1].
  Lemma dead_body_hl : chl env0 [te_results env0] dead_body [] (te_results env0).
  Proof.
    unfold dead_body. eapply HL_cut with (b := []); [reflexivity|].
    eapply (HL_dead valty VT_I32 (core_optype env0) (core_opdead env0) (bt_params env0) (bt_results env0)
              _ W_Unreachable 0%N [] [] []); [reflexivity|]. left. auto.
  Qed.
  Theorem check_body_complete_hl_refuted :
    exists e body, bts e body /\ chl e [te_results e] body [] (te_results e) /\ check_body e body = false.
  Proof.
    exists env0, dead_body. split; [repeat constructor|]. split; [exact dead_body_hl|]. vm_compute. reflexivity.
  Qed.
  (* (b) a block type with an absent type index is typed [] -> [] by [bt_params] / [bt_results]; the checker rejects it *)
  Definition bad_bt_body : list rt := [RBlock (BT_Func 7) [] 0 1].
  Lemma bad_bt_ht : cht env0 [te_results env0] bad_bt_body [] (te_results env0).
  Proof.
    unfold bad_bt_body. eapply HT_cons; [|apply HT_nil].
    apply (HT_block valty VT_I32 (core_optype env0) (core_opdead env0) (bt_params env0) (bt_results env0)
             _ (BT_Func 7) [] 0%N 1%N []). apply HT_nil.
  Qed.
  Theorem check_body_complete_nobts_refuted :
    exists e body, no_dead body /\ cht e [te_results e] body [] (te_results e) /\ check_body e body = false.
  Proof.
    exists env0, bad_bt_body. split; [repeat constructor; discriminate|]. split; [exact bad_bt_ht|]. vm_compute. reflexivity.
  Qed.
End Needed.

(* ================================================================== 7. examples *)
Module Examples.
  Definition P (o : wop) : rt := RPlain o 0.
  Definition ma (a : N) : w_memarg := {| wa_align := a; wa_offset := 16; wa_memory := 0 |}.
  Definition env : tenv :=
    {| te_locals := [VT_I32; VT_I64];
       te_globals := [(VT_I32, true); (VT_I64, false)];
       te_tys := [([VT_I32; VT_I32], [VT_I32; VT_I32]); ([], [])];
       te_results := [VT_I32];
       te_has_mem := true |}.
  Definition env_nomem : tenv :=
    {| te_locals := te_locals env; te_globals := te_globals env; te_tys := te_tys env; te_results := te_results env;
       te_has_mem := false |}.
  Definition env_f32 : tenv :=
    {| te_locals := [VT_F32]; te_globals := []; te_tys := []; te_results := [VT_F32]; te_has_mem := false |}.

  (* ---- accepted *)
  (* loop (local.get 0; br_if 0) end; i32.const 1 *)
  Example ok_loop_br_if :
    check_body env [RLoop BT_Empty [P (W_LocalGet 0); RBrIf 0 0] 0 0; P (W_I32Const 1)] = true.
  Proof. vm_compute. reflexivity. Qed.
  (* a loop with parameters: a branch to it consumes the PARAMETERS *)
  Example ok_loop_params :
    check_body env [P (W_I32Const 1); P (W_I32Const 2);
                    RLoop (BT_Func 0) [P (W_LocalGet 0); RBrIf 0 0] 0 0; P W_I32Add] = true.
  Proof. vm_compute. reflexivity. Qed.
  (* i32.const 1; i32.const 2; block (i32 i32) -> (i32 i32)  i32.add; local.get 0  end; i32.add *)
  Example ok_multi_value :
    check_body env [P (W_I32Const 1); P (W_I32Const 2);
                    RBlock (BT_Func 0) [P W_I32Add; P (W_LocalGet 0)] 0 0; P W_I32Add] = true.
  Proof. vm_compute. reflexivity. Qed.
  Example ok_br_table :
    check_body env [RBlock BT_Empty [RBlock BT_Empty [P (W_LocalGet 0); RBrTable [0%N; 1%N] 1 0] 0 0] 0 0;
                    P (W_I32Const 0)] = true.
  Proof. vm_compute. reflexivity. Qed.
  (* dead code after br: an i32.add without operands (polymorphic stack) *)
  Example ok_dead_after_br :
    check_body env [RBlock (BT_Val VT_I32) [P (W_I32Const 1); RBr 0 0; P W_I32Add] 0 0] = true.
  Proof. vm_compute. reflexivity. Qed.
  (* dead select on unknown operands, then used as an i64 and as an i32 *)
  Example ok_dead_select :
    check_body env [P W_Unreachable; P W_Select; P (W_LocalSet 1); P W_Select] = true.
  Proof. vm_compute. reflexivity. Qed.
  Example ok_memory :
    check_body env [P (W_I32Const 0); P (W_I32Load (ma 2)); P (W_I32Const 0); P (W_I64Const 1); P (W_I64Store8 (ma 0));
                    P (W_MemorySize 0); P (W_MemoryGrow 0); P W_Drop] = true.
  Proof. vm_compute. reflexivity. Qed.
  Example ok_if_else :
    check_body env [P (W_LocalGet 0); RIf (BT_Val VT_I32) [P (W_I32Const 1)] (Some (0%N, [P (W_I32Const 2)])) 0 0] = true.
  Proof. vm_compute. reflexivity. Qed.
  Example ok_global_set : check_body env [P (W_I32Const 0); P (W_GlobalSet 0); P (W_I32Const 0)] = true.
  Proof. vm_compute. reflexivity. Qed.
  Example ok_return : check_body env [P (W_I32Const 0); P W_Return; P W_I64Add; P W_Drop] = true.
  Proof. vm_compute. reflexivity. Qed.
  (* a huge index is not expanded *)
  Example rej_huge_index : check_body env [P (W_LocalGet 4294967295)] = false.
  Proof. vm_compute. reflexivity. Qed.

  (* ---- rejected *)
  Example rej_add_i32_i64 : check_body env [P (W_I32Const 1); P (W_I64Const 2); P W_I32Add] = false.
  Proof. vm_compute. reflexivity. Qed.
  Example rej_missing_operand : check_body env [P (W_I32Const 1); P W_I32Add] = false.
  Proof. vm_compute. reflexivity. Qed.
  Example rej_if_result_no_else :
    check_body env [P (W_I32Const 1); RIf (BT_Val VT_I32) [P (W_I32Const 2)] None 0 0] = false.
  Proof. vm_compute. reflexivity. Qed.
  Example rej_br_wrong_type : check_body env [RBlock (BT_Val VT_I32) [P (W_I64Const 1); RBr 0 0] 0 0] = false.
  Proof. vm_compute. reflexivity. Qed.
  Example rej_local_range : check_body env [P (W_LocalGet 2)] = false.
  Proof. vm_compute. reflexivity. Qed.
  Example rej_global_immutable : check_body env [P (W_I64Const 0); P (W_GlobalSet 1); P (W_I32Const 0)] = false.
  Proof. vm_compute. reflexivity. Qed.
  Example rej_load_no_memory : check_body env_nomem [P (W_I32Const 0); P (W_I32Load (ma 2))] = false.
  Proof. vm_compute. reflexivity. Qed.
  Example ok_load_memory : check_body env [P (W_I32Const 0); P (W_I32Load (ma 2))] = true.
  Proof. vm_compute. reflexivity. Qed.
  Example rej_over_aligned : check_body env [P (W_I32Const 0); P (W_I32Load (ma 3))] = false.
  Proof. vm_compute. reflexivity. Qed.
  Example rej_memory_index :
    check_body env [P (W_I32Const 0); P (W_I32Load {| wa_align := 0; wa_offset := 0; wa_memory := 1 |})] = false.
  Proof. vm_compute. reflexivity. Qed.
  Example rej_dead_value_left : check_body env [P (W_I32Const 0); P W_Return; P (W_I32Const 0); P (W_I32Const 0)] = false.
  Proof. vm_compute. reflexivity. Qed.
  Example rej_dead_type_error : check_body env [P W_Unreachable; P (W_I64Const 1); P W_I32Eqz] = false.
  Proof. vm_compute. reflexivity. Qed.
  Example rej_br_table_labels :
    check_body env [RBlock (BT_Val VT_I32) [P (W_I32Const 0); P (W_I32Const 0); RBrTable [0%N] 1 0] 0 0] = true /\
    check_body env [RBlock (BT_Val VT_I32) [RBlock BT_Empty [P (W_I32Const 0); RBrTable [0%N] 1 0] 0 0; P (W_I32Const 0)] 0 0] = false.
  Proof. vm_compute. auto. Qed.
  Example rej_absent_block_type : check_body env [RBlock (BT_Func 2) [] 0 0; P (W_I32Const 0)] = false.
  Proof. vm_compute. reflexivity. Qed.
  Example rej_non_core : check_body env [P (W_F32Const 0); P W_Drop; P (W_I32Const 0)] = false.
  Proof. vm_compute. reflexivity. Qed.

  (* ---- where the checker is STRICTER than a real validator (the core has no select on f32; an unknown left by a dead
     select is known to be i32 or i64): both are accepted by wasmparser *)
  Example strict_select_f32 : check_body env_f32 [P (W_LocalGet 0); P (W_LocalGet 0); P (W_I32Const 0); P W_Select] = false.
  Proof. vm_compute. reflexivity. Qed.
  Example strict_dead_select_f32 : check_body env_f32 [P W_Unreachable; P W_Select] = false.
  Proof. vm_compute. reflexivity. Qed.
  (* br_table in dead code whose targets have different types: accepted by wasmparser (each target is checked against
     the polymorphic stack), rejected here and by the declarative rule *)
  Example strict_dead_br_table :
    check_body env [RBlock BT_Empty [P W_Unreachable; RBrTable [0%N] 1 0] 0 0; P (W_I32Const 0)] = false.
  Proof. vm_compute. reflexivity. Qed.

  (* the accepted examples are declaratively typed, and so is what the round trip emits for them *)
  Example ok_dead_after_br_typed :
    cht env [te_results env] (fst (nf_rt_list false [RBlock (BT_Val VT_I32) [P (W_I32Const 1); RBr 0 0; P W_I32Add] 0 0]))
        [] (te_results env).
  Proof. apply check_body_nf_typed. vm_compute. reflexivity. Qed.
End Examples.

Print Assumptions chk_sound.
Print Assumptions chk_sound_known.
Print Assumptions check_body_sound.
Print Assumptions check_body_nf_typed.
Print Assumptions chk_complete.
Print Assumptions check_body_complete.
Print Assumptions check_body_bts.
Print Assumptions check_body_iff.
Print Assumptions check_body_nf.
Print Assumptions hl_no_dead.
Print Assumptions check_body_complete_hl.
Print Assumptions mem_align_pow.
Print Assumptions Needed.check_body_complete_hl_refuted.
Print Assumptions Needed.check_body_complete_nobts_refuted.
Print Assumptions Examples.ok_dead_after_br_typed.
