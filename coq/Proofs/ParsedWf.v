(* Parsed modules satisfy the premises of the edit theorems (Proofs/Edit.v), and the ordering half of the
   round-trip fixpoint: the emit-time sorts are idempotent and stable. *)
From Coq Require Import List NArith ZArith Bool Arith Lia Permutation Sorted.
Import ListNotations.
From WV Require Import Gen.Ops Model.Common Model.IR Model.Arena Model.Builder Model.ModuleM Model.ParseM
                       Model.EmitM Model.Edit.
From WV Require Import Proofs.Arena Proofs.Order Proofs.IndexMaps.
From WV Require Proofs.Edit.
Local Open Scope nat_scope.

(* ====================================================================================== *)
(* Goal A.1 : the parse-time invariant implies the edit-time one                            *)
(* ====================================================================================== *)
Theorem im_types_wf_edit s : Proofs.IndexMaps.types_wf s -> Proofs.Edit.types_wf s.
Proof.
  intros [Hd Ha]. split.
  - rewrite Hd. constructor.
  - intros k id Hin. destruct (Ha k id Hin) as [k' [Hn He]]. exists k'. split; [|exact He].
    unfold index, get, is_dead. rewrite Hd. cbn [existsb]. exact Hn.
Qed.

(* ====================================================================================== *)
(* Goal A.2 : parseM establishes Proofs.IndexMaps.types_wf                                  *)
(* ====================================================================================== *)

(* --- locals never touch the types *)
Lemma add_locals_types : forall tys m ids fid pre m' ids' l,
  add_locals m ids fid tys pre = (m', ids', l) -> m_types m' = m_types m.
Proof.
  induction tys as [|t r IH]; intros m ids fid pre m' ids' l E; cbn [add_locals] in E.
  - inversion E; reflexivity.
  - wcbn. destruct (add_locals _ _ fid r pre) as [[m1 ids1] rest] eqn:Ea.
    inversion E; subst; clear E. apply IH in Ea. rewrite Ea. wcbn. reflexivity.
Qed.

(* --- prepare_bodies: add_locals / types_insert (the entry type) / add_locals *)
Lemma prepare_bodies_types_wf : forall bs m ids ni i m' ids' ps,
  types_wf (m_types m) -> prepare_bodies m ids ni i bs = POk (m', ids', ps) -> types_wf (m_types m').
Proof.
  induction bs as [|b r IH]; intros m ids ni i m' ids' ps W E; cbn [prepare_bodies] in E.
  - inversion E; subst; exact W.
  - pinv E as fid Efid. pinv E as f Ef. destruct (fn_kind f); try discriminate.
    pinv E as t Et.
    destruct (add_locals m ids fid (ty_params t) _) as [[m1 ids1] args] eqn:E1.
    destruct (types_insert m1 _) as [m2 tid] eqn:E2.
    destruct (add_locals m2 ids1 fid _ _) as [[m3 ids3] ls] eqn:E3.
    pinv E as x Ex. destruct x as [[m4 ids4] rest]. inversion E; subst; clear E.
    eapply IH; [|exact Ex].
    rewrite (add_locals_types _ _ _ _ _ _ _ _ E3).
    eapply types_insert_spec; [|exact E2].
    rewrite (add_locals_types _ _ _ _ _ _ _ _ E1). exact W.
Qed.

(* --- install_bodies only rewrites function items ([find_entry] is a read-only lookup) *)
Lemma install_bodies_types : forall ps m ids m',
  install_bodies m ids ps = POk m' -> m_types m' = m_types m.
Proof.
  induction ps as [|p r IH]; intros m ids m' E; cbn [install_bodies] in E.
  - inversion E; reflexivity.
  - pinv E as lf Elf. apply IH in E. rewrite E. wcbn. reflexivity.
Qed.

(* --- the name section *)
Lemma apply_local_names_types : forall l m ids m',
  apply_local_names m ids l = Some m' -> m_types m' = m_types m.
Proof.
  induction l as [|[fi names] r IH]; intros m ids m' E; cbn [apply_local_names] in E.
  - inversion E; reflexivity.
  - destruct (nth_N (ii_funcs ids) fi); [|apply IH in E; exact E]. apply IH in E. rewrite E. wcbn. reflexivity.
Qed.

Lemma mtype_eqb_refl' a : mtype_eqb a a = true.
Proof. apply mtype_eqb_spec. auto. Qed.
Lemma set_type_name_eqb t n : mtype_eqb t (set_type_name t n) = true.
Proof. apply mtype_eqb_spec. cbn. auto. Qed.

(* position-wise equal up to the key equality (which ignores [ty_name]) *)
Definition items_eqv (a a' : list mtype) : Prop :=
  forall i k, nth_error a i = Some k -> exists k', nth_error a' i = Some k' /\ mtype_eqb k k' = true.

Lemma items_eqv_refl a : items_eqv a a.
Proof. intros i k H. exists k. split; [exact H|apply mtype_eqb_refl']. Qed.
Lemma items_eqv_trans a b c : items_eqv a b -> items_eqv b c -> items_eqv a c.
Proof.
  intros H1 H2 i k Hk. destruct (H1 _ _ Hk) as [k1 [Hk1 E1]]. destruct (H2 _ _ Hk1) as [k2 [Hk2 E2]].
  exists k2. split; [exact Hk2|]. eapply mtype_eqb_trans; eauto.
Qed.
Lemma items_eqv_upd l n s : items_eqv l (upd l n (fun x => set_type_name x s)).
Proof.
  intros i k Hk. destruct (Nat.eq_dec n i) as [->|Hne].
  - exists (set_type_name k s). split; [|apply set_type_name_eqb].
    apply (upd_nth_eq _ l i (fun x => set_type_name x s) k Hk).
  - exists k. split; [|apply mtype_eqb_refl']. rewrite upd_nth_ne by exact Hne. exact Hk.
Qed.

Lemma apply_names_types_eqv (idx2id : list N) : forall (l : namemap) (a : tarena mtype),
  dead (apply_names a idx2id set_type_name l) = dead a /\
  items_eqv (items a) (items (apply_names a idx2id set_type_name l)).
Proof.
  induction l as [|[i n] r IH]; intros a; cbn [apply_names].
  - split; [reflexivity|apply items_eqv_refl].
  - destruct (nth_N idx2id i) as [id|]; [|apply IH].
    destruct (IH (aset_at a id (fun x => set_type_name x n))) as [H1 H2]. split.
    + rewrite H1. reflexivity.
    + eapply items_eqv_trans; [|exact H2]. wcbn. apply items_eqv_upd.
Qed.

(* renaming keeps the invariant: the HashMap is not touched, the arena items only change their name *)
Lemma types_wf_rename (s : aset mtype) (a' : tarena mtype) :
  types_wf s -> dead a' = dead (Arena.arena s) -> items_eqv (items (Arena.arena s)) (items a') ->
  types_wf {| Arena.arena := a'; already := already s |}.
Proof.
  intros [Hd Ha] D Q. split; wcbn.
  - rewrite D. exact Hd.
  - intros k id Hin. destruct (Ha _ _ Hin) as [k1 [Hn He]]. destruct (Q _ _ Hn) as [k2 [Hn2 He2]].
    exists k2. split; [exact Hn2|]. eapply mtype_eqb_trans; eauto.
Qed.

Lemma parse_names_types_wf m ids n : types_wf (m_types m) -> types_wf (m_types (parse_names m ids n)).
Proof.
  intros W. unfold parse_names.
  set (m1 := match wn_module n with Some s => set_name m (Some s) | None => m end).
  assert (H1 : m_types m1 = m_types m) by (subst m1; destruct (wn_module n); reflexivity).
  clearbody m1. cbv zeta.
  match goal with |- context [apply_local_names ?mm _ _] => set (m2 := mm) end.
  assert (H2 : m_types m2 = m_types m) by (subst m2; wcbn; exact H1).
  clearbody m2. clear H1.
  destruct (apply_local_names m2 ids (wn_locals n)) as [m3|] eqn:E3; [|rewrite H2; exact W].
  apply apply_local_names_types in E3. wcbn.
  assert (W3 : types_wf (m_types m3)) by (rewrite E3, H2; exact W).
  destruct (apply_names_types_eqv (ii_types ids) (wn_types n) (Arena.arena (m_types m3))) as [D Q].
  apply types_wf_rename; assumption.
Qed.

Lemma fold_parse_names_types_wf ids : forall l m,
  types_wf (m_types m) -> types_wf (m_types (fold_left (fun m n => parse_names m ids n) l m)).
Proof.
  induction l as [|n r IH]; intros m W; cbn [fold_left]; [exact W|]. apply IH, parse_names_types_wf, W.
Qed.

Theorem parseM_types_wf : forall cf ver w s,
  parseM cf ver w = POk s -> Proofs.IndexMaps.types_wf (m_types (ps_m s)).
Proof.
  intros cf ver w s E. unfold parseM in E. pinv E as s1 E1.
  apply parse_secs_types_wf in E1; [|apply types_wf_empty].
  destruct (_ <? _)%N; [discriminate|].
  pinv E as x Ex. destruct x as [[m1 ids1] prepared]. pinv E as m2 E2. inversion E; subst; clear E. wcbn.
  apply prepare_bodies_types_wf in Ex; [|exact E1].
  apply install_bodies_types in E2.
  apply fold_parse_names_types_wf. rewrite E2. exact Ex.
Qed.

(* ====================================================================================== *)
(* Goal A.3 : the premises of the Edit bundles hold after a parse                           *)
(* ====================================================================================== *)
Theorem parsed_ready_for_replace_imported : forall cf ver w s,
  parseM cf ver w = POk s -> Proofs.Edit.types_wf (m_types (ps_m s)).
Proof. intros cf ver w s E. apply im_types_wf_edit. eapply parseM_types_wf; eauto. Qed.

Theorem parsed_ready_for_replace_exported : forall cf ver w s,
  parseM cf ver w = POk s ->
  Forall (fun d => d < length (items (m_funcs (ps_m s)))) (dead (m_funcs (ps_m s))) /\
  Proofs.Edit.types_wf (m_types (ps_m s)).
Proof.
  intros cf ver w s E. split.
  - pose proof (parseM_ids _ _ _ _ E) as H. unfold ids_consistent in H. decompose [and] H.
    match goal with D : dead (m_funcs (ps_m s)) = [] |- _ => rewrite D end. constructor.
  - eapply parsed_ready_for_replace_imported; eauto.
Qed.

(* ====================================================================================== *)
(* End to end: parse, then edit.  Conclusions are those of Proofs.Edit.replace_*_spec        *)
(* ====================================================================================== *)
Theorem parse_then_replace_imported : forall cf ver w s fid body m',
  parseM cf ver w = POk s ->
  let m := ps_m s in
  replace_imported_func m fid body = POk m' ->
  exists iid f imp tid t lf,
    imported_func_import m fid = Some iid /\ aget (m_funcs m) fid = Some f /\
    fn_kind f = FK_Import imp tid /\ types_get m tid = Some t /\
    (* I1 *) aget (m_funcs m') fid = Some {| fn_kind := FK_Local lf; fn_name := fn_name f |} /\
    (* I2 *) (exists t', types_get m' (lf_ty lf) = Some t' /\
                ty_params t' = ty_params t /\ ty_results t' = ty_results t /\ ty_entry t' = false) /\
    (* I3 *) ((forall g, g <> fid -> aget (m_funcs m') g = aget (m_funcs m) g) /\
              length (items (m_funcs m')) = length (items (m_funcs m)) /\
              dead (m_funcs m') = dead (m_funcs m)) /\
    (* I4 *) ((forall i, i <> iid -> aget (m_imports m') i = aget (m_imports m) i) /\
              aget (m_imports m') iid = None /\
              (forall imp0, aget (m_imports m) iid = Some imp0 -> im_kind imp0 = MI_Func fid)) /\
    (* I5 *) (m_tables m' = m_tables m /\ m_memories m' = m_memories m /\ m_globals m' = m_globals m /\
              m_exports m' = m_exports m /\ m_elements m' = m_elements m /\ m_data m' = m_data m /\
              m_start m' = m_start m /\ m_customs m' = m_customs m /\ m_producers m' = m_producers m /\
              m_name m' = m_name m /\ m_config m' = m_config m) /\
    (* I6 *) ((forall l, l < length (items (m_locals m)) ->
                 nth_error (items (m_locals m')) l = nth_error (items (m_locals m)) l) /\
              lf_args lf = map N.of_nat (seq (length (items (m_locals m))) (length (ty_params t))) /\
              Forall2 (fun a ty => nth_error (items (m_locals m')) (N.to_nat a) = Some {| lo_ty := ty; lo_name := None |})
                      (lf_args lf) (ty_params t)) /\
    (* I7 *) (exists m1 args m2 ty ety ar,
                add_arg_locals m (ty_params t) = (m1, args) /\
                builder_new m1 (ty_params t) (ty_results t) = (m2, ty, ety) /\
                run_builder ety (body args) = Ok ar /\ lf_arena lf = ar /\ lf_args lf = args /\ lf_ty lf = ty) /\
    Proofs.Edit.types_wf (m_types m').
Proof.
  intros cf ver w s fid body m' E m H.
  apply (Proofs.Edit.replace_imported_spec m fid body m'); [|exact H].
  eapply parsed_ready_for_replace_imported; exact E.
Qed.

Theorem parse_then_replace_exported : forall cf ver w s fid body m' nid,
  parseM cf ver w = POk s ->
  let m := ps_m s in
  replace_exported_func_core m fid body = POk (m', nid) ->
  exists eid e f lf0 t lf,
    exported_func_export m fid = Some eid /\ aget (m_exports m) eid = Some e /\
    ex_kind e = EK_Func /\ ex_item e = fid /\
    aget (m_funcs m) fid = Some f /\ fn_kind f = FK_Local lf0 /\ types_get m (lf_ty lf0) = Some t /\
    (* E1 *) (nid = N.of_nat (length (items (m_funcs m))) /\
              aget (m_funcs m') nid = Some {| fn_kind := FK_Local lf; fn_name := None |} /\
              (exists t', types_get m' (lf_ty lf) = Some t' /\
                 ty_params t' = ty_params t /\ ty_results t' = ty_results t /\ ty_entry t' = false) /\
              lf_args lf = lf_args lf0) /\
    (* E2 *) (forall g, N.to_nat g < length (items (m_funcs m)) -> aget (m_funcs m') g = aget (m_funcs m) g) /\
    (* E3 *) (aget (m_exports m') eid = Some {| ex_name := ex_name e; ex_kind := ex_kind e; ex_item := nid |} /\
              (forall x, x <> eid -> aget (m_exports m') x = aget (m_exports m) x) /\
              length (items (m_exports m')) = length (items (m_exports m)) /\
              dead (m_exports m') = dead (m_exports m)) /\
    (* E4 *) (m_imports m' = m_imports m /\ m_tables m' = m_tables m /\ m_memories m' = m_memories m /\
              m_globals m' = m_globals m /\ m_elements m' = m_elements m /\ m_data m' = m_data m /\
              m_start m' = m_start m /\ m_customs m' = m_customs m /\ m_locals m' = m_locals m /\
              m_producers m' = m_producers m /\ m_name m' = m_name m /\ m_config m' = m_config m) /\
    (* body *) (exists m2 ty ety ar, builder_new m (ty_params t) (ty_results t) = (m2, ty, ety) /\
                  run_builder ety (body (lf_args lf0)) = Ok ar /\ lf_arena lf = ar /\ lf_ty lf = ty) /\
    Proofs.Edit.types_wf (m_types m') /\
    Forall (fun d => d < length (items (m_funcs m'))) (dead (m_funcs m')).
Proof.
  intros cf ver w s fid body m' nid E m H.
  destruct (parsed_ready_for_replace_exported _ _ _ _ E) as [Hb Hwf].
  apply (Proofs.Edit.replace_exported_spec m fid body m' nid Hb Hwf H).
Qed.

(* ====================================================================================== *)
(* Goal B : the emit-time sorts are idempotent and stable, for ALL inputs                    *)
(* ====================================================================================== *)
Section IsortStable.
  Variable A : Type.
  Variable leb : A -> A -> bool.
  Hypothesis leb_total : forall a b, leb a b = true \/ leb b a = true.
  Hypothesis leb_trans : forall a b c, leb a b = true -> leb b c = true -> leb a c = true.

  Theorem isort_idem l : isort A leb (isort A leb l) = isort A leb l.
  Proof. apply isort_id. apply isort_sorted; assumption. Qed.

  (* [p] selects a set of mutually equivalent elements (one key class, or part of one) *)
  Variable p : A -> bool.
  Hypothesis p_class : forall a b, p a = true -> p b = true -> leb a b = true.

  Lemma ins_filter x l : StronglySorted (lebR A leb) l ->
    filter p (ins A leb x l) = filter p l ++ (if p x then [x] else []).
  Proof.
    induction 1 as [|y l Hs IH Hall]; cbn [ins filter app]; [reflexivity|].
    destruct (leb y x) eqn:E.
    - cbn [filter]. rewrite IH. destruct (p y); reflexivity.
    - cbn [filter]. destruct (p x) eqn:Px; [|rewrite app_nil_r; reflexivity].
      assert (Hy : p y = false).
      { destruct (p y) eqn:Py; [|reflexivity]. rewrite (p_class y x Py Px) in E. discriminate. }
      assert (Hl : filter p l = []).
      { clear IH. induction l as [|z l IHl]; [reflexivity|]. cbn [filter].
        inversion Hall as [|? ? Hyz Hall']; subst. inversion Hs as [|? ? Hs' Hz]; subst.
        destruct (p z) eqn:Pz; [|apply IHl; assumption].
        unfold lebR in Hyz. rewrite (leb_trans y z x Hyz (p_class z x Pz Px)) in E. discriminate. }
      rewrite Hy, Hl. reflexivity.
  Qed.

  Lemma fold_ins_filter l : forall acc, StronglySorted (lebR A leb) acc ->
    filter p (fold_left (fun acc x => ins A leb x acc) l acc) = filter p acc ++ filter p l.
  Proof.
    induction l as [|x l IH]; intros acc S; cbn [fold_left filter]; [now rewrite app_nil_r|].
    rewrite IH by (apply ins_sorted; assumption). rewrite ins_filter by exact S.
    rewrite <- app_assoc. destruct (p x); reflexivity.
  Qed.

  (* stability: the elements of one key class come out in their input order *)
  Theorem isort_stable l : filter p (isort A leb l) = filter p l.
  Proof. unfold isort. rewrite fold_ins_filter by constructor. reflexivity. Qed.
End IsortStable.

(* ---------- types.  Sort key: (ty_params, ty_results) compared by [ty_le] (lexicographic on valty codes,
   params first); [ty_entry], [ty_name] and the id are not part of the key. *)
Theorem sort_types_idem : forall l, sort_types (sort_types l) = sort_types l.
Proof. intros l. apply sort_types_stable_id, sort_types_sorted. Qed.

(* same key as [k]: [ty_le] both ways *)
Definition ty_key_eqb (k : mtype) (x : N * mtype) : bool := ty_le k (snd x) && ty_le (snd x) k.
Theorem sort_types_stable : forall k l,
  filter (ty_key_eqb k) (sort_types l) = filter (ty_key_eqb k) l.
Proof.
  intros k l. rewrite sort_types_isort. apply isort_stable.
  - intros a b. apply ty_le_total.
  - intros a b c. unfold t_leb. apply ty_le_trans.
  - intros a b Ha Hb. unfold ty_key_eqb in *. apply andb_true_iff in Ha, Hb.
    unfold t_leb. eapply ty_le_trans; [apply Ha|apply Hb].
Qed.

(* in particular types with literally the same (params, results) keep their relative order *)
Lemma vl_cmp_refl a : vl_cmp a a = Eq.
Proof. pose proof (vl_cmp_antisym a a) as H. destruct (vl_cmp a a); cbn in H; congruence. Qed.
Definition same_sig (ps rs : list valty) (x : N * mtype) : bool :=
  vl_eqb (ty_params (snd x)) ps && vl_eqb (ty_results (snd x)) rs.
Theorem sort_types_stable_sig : forall ps rs l,
  filter (same_sig ps rs) (sort_types l) = filter (same_sig ps rs) l.
Proof.
  intros ps rs l. rewrite sort_types_isort. apply isort_stable.
  - intros a b. apply ty_le_total.
  - intros a b c. unfold t_leb. apply ty_le_trans.
  - intros a b Ha Hb. unfold same_sig in *. apply andb_true_iff in Ha, Hb.
    destruct Ha as [Ha1 Ha2], Hb as [Hb1 Hb2]. apply vl_eqb_eq in Ha1, Ha2, Hb1, Hb2.
    unfold t_leb, ty_le. rewrite Ha1, Ha2, Hb1, Hb2, !vl_cmp_refl. reflexivity.
Qed.

(* ---------- functions.  Sort key: (size, id) = [fst] of the triple, ordered by [fkey_le]:
   bigger size first, then smaller id (Proofs.Order.func_before). *)
Theorem sort_funcs_idem : forall l, sort_funcs (sort_funcs l) = sort_funcs l.
Proof. intros l. rewrite !sort_funcs_isort. apply isort_idem; [apply f_leb_total|apply f_leb_trans]. Qed.

Definition fkey_eqb (k : N * N) (x : N * N * mlocalfunc) : bool :=
  (fst (fst x) =? fst k)%N && (snd (fst x) =? snd k)%N.
Theorem sort_funcs_stable : forall k l,
  filter (fkey_eqb k) (sort_funcs l) = filter (fkey_eqb k) l.
Proof.
  intros k l. rewrite sort_funcs_isort. apply isort_stable.
  - apply f_leb_total.
  - apply f_leb_trans.
  - intros a b Ha Hb. unfold fkey_eqb in *. apply andb_true_iff in Ha, Hb.
    destruct Ha as [Ha1 Ha2], Hb as [Hb1 Hb2]. apply N.eqb_eq in Ha1, Ha2, Hb1, Hb2.
    apply f_leb_spec. unfold func_before. lia.
Qed.
(* size alone is not the key, but elements of equal size are ordered by id, so a size class that is
   already id-ordered is also kept: the general form, for any class of mutually [f_leb]-related elements *)
Theorem sort_funcs_stable_class : forall (p : N * N * mlocalfunc -> bool) l,
  (forall a b, p a = true -> p b = true -> f_leb a b = true) ->
  filter p (sort_funcs l) = filter p l.
Proof.
  intros p l Hp. rewrite sort_funcs_isort. apply isort_stable; [apply f_leb_total|apply f_leb_trans|exact Hp].
Qed.

(* the name maps use the same stable insertion sort (key: the index, [fst]) *)
Theorem sort_nm_idem : forall A (l : list (N * A)), sort_nm (sort_nm l) = sort_nm l.
Proof. intros A l. apply sort_nm_id, sort_nm_sorted. Qed.

Print Assumptions im_types_wf_edit.
Print Assumptions parseM_types_wf.
Print Assumptions parsed_ready_for_replace_imported.
Print Assumptions parsed_ready_for_replace_exported.
Print Assumptions parse_then_replace_imported.
Print Assumptions parse_then_replace_exported.
Print Assumptions sort_types_idem.
Print Assumptions sort_types_stable.
Print Assumptions sort_types_stable_sig.
Print Assumptions sort_funcs_idem.
Print Assumptions sort_funcs_stable.
Print Assumptions sort_funcs_stable_class.
Print Assumptions sort_nm_idem.
Print Assumptions isort_stable.
