(* C08, name section with synthetic names: the function-names half, and the module fixpoint reduced to
   two visible facts (named functions kept; local-name maps equal). *)
From Coq Require Import List NArith ZArith Bool Arith Lia Permutation Sorted.
Import ListNotations.
From WV Require Import Gen.Ops Model.Common Model.IR Model.Arena Model.ModuleM Model.ParseM Model.EmitM.
From WV Require Import Proofs.Arena Proofs.Order Proofs.IndexMaps Proofs.Structure Proofs.Structure2 Proofs.ParseTotal.
From WV Require Import Proofs.Names Proofs.ModFix Proofs.ModFix7.
From WV Require Proofs.ModFix8 Proofs.ModFix13 Proofs.ModFix20.
Local Open Scope nat_scope.

(* every function of the second parse that carries a name (explicit or synthetic "f<idx>") is named in the
   name section the first emit wrote *)
Definition funcs_named_kept (s2 : pst) (n1 : wnames) : Prop :=
  forall i f, In (i, f) (aiter (m_funcs (ps_m s2))) -> fn_name f <> None -> In i (map fst (wn_funcs n1)).

(* function names, for ANY setting of cf_synthetic_names *)
Theorem fix_names_funcs_syn : forall cf ver w ilen s1 e1 s2 e2,
  two_trips cf ver w ilen s1 e1 s2 e2 -> cf_skip_name cf = false -> counts_kept e1 s2 -> rho_id s2 e2 S_func ->
  funcs_named_kept s2 (stream_names (em_secs e1)) ->
  wn_funcs (stream_names (em_secs e2)) = wn_funcs (stream_names (em_secs e1)).
Proof.
  intros cf ver w ilen s1 e1 s2 e2 (HP1 & HE1 & HP2 & HE2) Hskip HC Hf PF.
  destruct (emitted_names_canonical_s _ _ _ _ _ _ HP1 HE1 Hskip) as (s_nm1 & En1 & Hpay1 & Hsec1 & Hs1 & C1).
  rewrite (stream_names_of _ _ Hpay1 Hs1) in *.
  pose proof (parseM_config _ _ _ _ HP2) as Hcf.
  destruct (emitM_name_payload _ _ _ HE2) as (s_nm2 & Hn2 & Hpay2 & _). rewrite Hcf, Hskip in Hn2.
  apply emit_names_fields in Hn2. destruct Hn2 as (_ & Nf & _ & _ & _ & _ & _ & _ & Hs2).
  rewrite (stream_names_of _ _ Hpay2 Hs2).
  destruct (parseM_names_structure _ _ _ _ HP2) as (m0 & I0 & _ & Em).
  set (l := wn_funcs (names_of s_nm1)) in *.
  assert (Ef : m_funcs (ps_m s2) = apply_names (m_funcs m0) (iota (length (items (m_funcs m0)))) set_fn_name l).
  { rewrite Em. wcbn. rewrite all_names_funcs, Hsec1. rewrite (sections_of _ Hs1 wn_funcs eq_refl).
    unfold ids_consistent in I0. destruct I0 as (I0 & _). rewrite I0. reflexivity. }
  assert (Il : ii_funcs (ps_ids s2) = iota (length (items (m_funcs m0)))) by (unfold ids_consistent in I0; tauto).
  assert (D0 : dead (m_funcs m0) = []) by (unfold ids_consistent in I0; tauto).
  unfold funcs_named_kept in PF. rewrite Ef in Nf, PF.
  destruct (apply_names_spec set_fn_name (m_funcs m0) l set_fn_name_idem) as (HL & HD & Hn & _). cbv zeta in HL, HD, Hn.
  set (a' := apply_names (m_funcs m0) (iota (length (items (m_funcs m0)))) set_fn_name l) in *.
  rewrite D0 in HD.
  destruct (named_spec _ _ _ _ _ Nf) as (M & _ & _ & SS).
  destruct C1 as ((Sl & Rl) & _).
  assert (Hid : forall i, N.to_nat i < length (items (m_funcs m0)) -> get_idx (em_x2i e2) S_func i = Ok i).
  { intros i Hi. apply (rho_id_get _ _ _ _ _ S_func HP2); [discriminate|discriminate|exact Hf|].
    cbn [ids_space]. rewrite Il, iota_length. exact Hi. }
  apply sorted_extA; [apply SS; [apply (parsed_wf_funcs _ _ _ _ _ _ _ HP2 HE2)|apply aiter_NoDup]|exact Sl|].
  intros [j nm]. rewrite M. split.
  - intros (id & a & Hin & Hg & Hi).
    assert (Hne : fn_name a <> None) by congruence. pose proof (PF id a Hin Hne) as Hk.
    apply (aiter_nodead _ _ _ HD) in Hin.
    assert (Hlt : N.to_nat id < length (items (m_funcs m0))) by (rewrite <- HL; apply nth_error_Some; congruence).
    rewrite (Hid id Hlt) in Hi. inversion Hi; subst j.
    destruct (nth_error (items (m_funcs m0)) (N.to_nat id)) as [old|] eqn:Eo; [|apply nth_error_None in Eo; lia].
    rewrite (Hn _ _ Eo), N2Nat.id in Hin.
    destruct (last_name l id) as [nm'|] eqn:El; [|apply last_name_none in El; contradiction].
    cbn [renamed] in Hin. inversion Hin; subst a. cbn in Hg. inversion Hg; subst nm'. apply last_name_in. exact El.
  - intros Hin.
    assert (Hlt : N.to_nat j < length (items (m_funcs m0))).
    { pose proof (Rl j (in_map fst _ _ Hin)) as R. pose proof (HC S_func) as C. cbn [ids_space] in C.
      rewrite Il, iota_length in C. cbn [fst] in R. lia. }
    destruct (nth_error (items (m_funcs m0)) (N.to_nat j)) as [old|] eqn:Eo; [|apply nth_error_None in Eo; lia].
    assert (El : last_name l j = Some nm).
    { apply last_name_unique; [exact Hin|]. intros n' H'. apply (sorted_keys_fun l j); assumption. }
    exists j, (set_fn_name old nm). split; [|split; [reflexivity|apply Hid; exact Hlt]].
    apply (aiter_nodead _ _ _ HD). rewrite (Hn _ _ Eo), N2Nat.id, El. reflexivity.
Qed.

(* the name section under synthetic names, reduced to the two remaining facts *)
Theorem fix_names_syn_partial : forall cf ver w ilen s1 e1 s2 e2,
  two_trips cf ver w ilen s1 e1 s2 e2 -> valid_stream w -> cf_skip_name cf = false ->
  funcs_named_kept s2 (stream_names (em_secs e1)) ->
  wn_locals (stream_names (em_secs e2)) = wn_locals (stream_names (em_secs e1)) ->
  name_payload (em_secs e2) = name_payload (em_secs e1).
Proof.
  intros cf ver w ilen s1 e1 s2 e2 TT V Hskip PF HL.
  pose proof (ModFix13.counts_kept_holds _ _ _ _ _ _ _ _ TT) as HC.
  pose proof (ModFix20.canonical_identity_maps_valid _ _ _ _ _ _ _ _ TT V) as R.
  apply (fix_names_partial_gen cf ver w ilen s1 e1 s2 e2); try assumption; try apply R.
  apply (fix_names_funcs_syn cf ver w ilen s1 e1 s2 e2); try assumption. apply R.
Qed.

Theorem module_fixpoint_syn_partial : forall cf ver w ilen s1 e1 s2 e2,
  two_trips cf ver w ilen s1 e1 s2 e2 -> valid_stream w -> cf_skip_name cf = false ->
  funcs_named_kept s2 (stream_names (em_secs e1)) ->
  wn_locals (stream_names (em_secs e2)) = wn_locals (stream_names (em_secs e1)) ->
  em_secs e2 = em_secs e1.
Proof.
  intros cf ver w ilen s1 e1 s2 e2 TT V Hskip PF HL.
  apply (ModFix20.module_fixpoint_but_names cf ver w ilen s1 e1 s2 e2 TT V).
  exact (fix_names_syn_partial _ _ _ _ _ _ _ _ TT V Hskip PF HL).
Qed.

Print Assumptions fix_names_funcs_syn.
Print Assumptions fix_names_syn_partial.
Print Assumptions module_fixpoint_syn_partial.
