(* Proofs about Model/Traversal.v : dfs_in_order and dfs_pre_order_mut against the
   recursive specification [events] / the stack-discipline specification [morder].
   [default_hook_recurses] / [default_hook_mut_recurses] are never unfolded. *)
From Coq Require Import List NArith Arith Lia Bool Permutation.
Import ListNotations.
From WV Require Import Gen.Ops Model.Common Model.IR Model.Traversal.
Local Open Scope nat_scope.

Opaque default_hook_recurses default_hook_mut_recurses visit_fields_after_hook.

(* ------------------------------------------------------------------ flat views of the nested fixpoints *)
Definition here (ov : bool) (x : item * N) : list ev :=
  EInstr (shallow (fst x)) (snd x) :: instr_visit default_hook_recurses ov (shallow (fst x)).

Definition nested_events (ov : bool) (it : item) : list ev :=
  match it with
  | ItB t | ItL t => events ov t
  | ItI c a => events ov c ++ events ov a
  | _ => []
  end.

Definition items_events (ov : bool) (l : list (item * N)) : list ev :=
  flat_map (fun x => item_events ov (fst x) (snd x)) l.

Definition items_size (l : list (item * N)) : nat :=
  fold_right (fun x n => isize (fst x) + n) 0 l.

Definition tyv (ty : seqty) : list ev :=
  match ty with ST_Multi ty => [ESeqType ty] | ST_Simple _ => [] end.

Lemma seq_visit_shallow s ty items e : seq_visit (shallow_seq (T s ty items e)) = tyv ty.
Proof. reflexivity. Qed.

Lemma events_T ov s ty items e :
  events ov (T s ty items e) = EStart s :: tyv ty ++ items_events ov items ++ [EEnd s].
Proof. reflexivity. Qed.

Lemma item_events_eq ov it loc : item_events ov it loc = here ov (it, loc) ++ nested_events ov it.
Proof.
  destruct it as [p|s|s|ss d|t|t|c a]; cbn [item_events nested_events here fst snd];
    rewrite ?app_nil_r; reflexivity.
Qed.

Lemma items_events_cons ov x l :
  items_events ov (x :: l) = (here ov x ++ nested_events ov (fst x)) ++ items_events ov l.
Proof.
  unfold items_events. cbn [flat_map]. rewrite item_events_eq. destruct x as [it loc]. reflexivity.
Qed.

Lemma size_T s ty items e : size (T s ty items e) = S (items_size items).
Proof. reflexivity. Qed.

Lemma items_size_cons x l : items_size (x :: l) = isize (fst x) + items_size l.
Proof. reflexivity. Qed.

(* ------------------------------------------------------------------ denotation, flat view *)
Definition ItemsDen (ar : arena) (l : list (item * N)) : Prop := Forall (fun x => IDen ar (fst x)) l.

Lemma Den_T ar s ty items e :
  Den ar (T s ty items e) <->
  nth_error ar (N.to_nat s) = Some (shallow_seq (T s ty items e)) /\ ItemsDen ar items.
Proof.
  cbn [Den]. split; intros [H1 H2]; split; auto.
  - clear H1. induction items as [|x l IH]; [constructor|].
    destruct H2 as [Ha Hb]. constructor; [exact Ha|apply IH; exact Hb].
  - clear H1. induction H2 as [|x l Ha Hb IH]; [exact I|]. split; [exact Ha|exact IH].
Qed.

(* ------------------------------------------------------------------ nested induction principle *)
Definition lift (P : tree -> Prop) (it : item) : Prop :=
  match it with
  | ItB t | ItL t => P t
  | ItI c a => P c /\ P a
  | _ => True
  end.

Section ind.
  Variable P : tree -> Prop.
  Hypothesis HT : forall s ty items e, Forall (fun x => lift P (fst x)) items -> P (T s ty items e).
  Fixpoint tree_ind' (t : tree) : P t :=
    match t with T s ty items e => HT s ty items e
      ((fix go (l : list (item * N)) : Forall (fun x => lift P (fst x)) l :=
          match l with
          | [] => Forall_nil _
          | x :: l' => Forall_cons x (lift_ind' (fst x)) (go l')
          end) items) end
  with lift_ind' (it : item) : lift P it :=
    match it return lift P it with
    | ItB t => tree_ind' t
    | ItL t => tree_ind' t
    | ItI c a => conj (tree_ind' c) (tree_ind' a)
    | _ => I
    end.
End ind.

(* ------------------------------------------------------------------ 1. dfs_in_order *)
Lemma skipn_map_app {A B} (f : A -> B) (d t : list A) : skipn (length d) (map f (d ++ t)) = map f t.
Proof. induction d as [|a d IH]; cbn [length app map skipn]; auto. Qed.

Lemma len_snoc {A} (d : list A) x : length (d ++ [x]) = S (length d).
Proof. rewrite app_length; cbn [length]; lia. Qed.

Lemma scan_cons ov x l idx :
  scan ov ((shallow (fst x), snd x) :: l) idx =
  match fst x with
  | ItB t | ItL t => (here ov x, Some (S idx, [tsid t]))
  | ItI c a => (here ov x, Some (S idx, [tsid c; tsid a]))
  | _ => let '(e, r) := scan ov l (S idx) in (here ov x ++ e, r)
  end.
Proof. destruct x as [[p|s|s|ss d|t|t|c a] loc]; reflexivity. Qed.

Lemma run_dfs_S ov f ar sid idx rest q :
  nth_error ar (N.to_nat sid) = Some q ->
  run_dfs ov (S f) ar ((sid, idx) :: rest) =
  match scan ov (skipn idx (sq_instrs q)) idx with
  | (evs, None) =>
      rmap (fun r => (if Nat.eqb idx 0 then EStart sid :: seq_visit q else []) ++ evs ++ [EEnd sid] ++ r)
           (run_dfs ov f ar rest)
  | (evs, Some (ridx, kids)) =>
      rmap (fun r => (if Nat.eqb idx 0 then EStart sid :: seq_visit q else []) ++ evs ++ r)
           (run_dfs ov f ar (map (fun k => (k, O)) kids ++ (sid, ridx) :: rest))
  end.
Proof. intros Hq. cbn [run_dfs]. rewrite Hq. reflexivity. Qed.

(* fuel monotonicity *)
Lemma run_dfs_mono ov ar : forall f stack r,
  run_dfs ov f ar stack = Ok r -> forall f', f <= f' -> run_dfs ov f' ar stack = Ok r.
Proof.
  induction f as [|f IH]; intros stack r Hr f' Hle; [discriminate Hr|].
  destruct f' as [|f']; [lia|]. assert (Hle' : f <= f') by lia.
  destruct stack as [|[sid idx] rest]; [exact Hr|].
  destruct (nth_error ar (N.to_nat sid)) as [q|] eqn:Hq.
  - rewrite (run_dfs_S ov f ar sid idx rest q Hq) in Hr.
    rewrite (run_dfs_S ov f' ar sid idx rest q Hq).
    destruct (scan ov (skipn idx (sq_instrs q)) idx) as [evs [[ridx kids]|]].
    + destruct (run_dfs ov f ar (map (fun k => (k, 0)) kids ++ (sid, ridx) :: rest)) as [r'| |] eqn:Hin;
        cbn [rmap] in Hr; try discriminate Hr.
      rewrite (IH _ _ Hin f' Hle'). exact Hr.
    + destruct (run_dfs ov f ar rest) as [r'| |] eqn:Hin; cbn [rmap] in Hr; try discriminate Hr.
      rewrite (IH _ _ Hin f' Hle'). exact Hr.
  - cbn [run_dfs] in Hr. rewrite Hq in Hr. discriminate Hr.
Qed.

(* the statement for a whole tree, with an arbitrary continuation *)
Definition Ptree (ov : bool) (ar : arena) (t : tree) : Prop :=
  Den ar t -> forall rest f r,
  run_dfs ov f ar rest = Ok r ->
  run_dfs ov (size t + f) ar ((tsid t, 0) :: rest) = Ok (events ov t ++ r).

(* resuming inside a sequence *)
Lemma resume ov ar s ty e : forall todo done,
  nth_error ar (N.to_nat s) = Some (shallow_seq (T s ty (done ++ todo) e)) ->
  Forall (fun x => lift (Ptree ov ar) (fst x)) todo -> ItemsDen ar todo ->
  forall rest f r, run_dfs ov f ar rest = Ok r ->
   run_dfs ov (S (items_size todo) + f) ar ((s, length done) :: rest)
   = Ok ((if Nat.eqb (length done) 0 then EStart s :: tyv ty else [])
         ++ items_events ov todo ++ [EEnd s] ++ r).
Proof.
  induction todo as [|x todo IH]; intros done Hs HP HD rest f r Hr.
  - cbn [items_size fold_right Nat.add]. rewrite (run_dfs_S _ _ _ _ _ _ _ Hs).
    rewrite seq_visit_shallow.
    cbn [shallow_seq sq_instrs]. rewrite skipn_map_app. cbn [map scan].
    rewrite Hr. cbn [rmap items_events flat_map app]. reflexivity.
  - inversion HP as [|x0 l0 HPx HPtodo]; subst x0 l0. inversion HD as [|x0 l0 HDx HDtodo]; subst x0 l0.
    assert (Hs' : nth_error ar (N.to_nat s) = Some (shallow_seq (T s ty ((done ++ [x]) ++ todo) e)))
      by (rewrite <- app_assoc; exact Hs).
    specialize (IH (done ++ [x]) Hs' HPtodo HDtodo rest f r Hr).
    rewrite len_snoc in IH. cbn [Nat.eqb app] in IH.
    assert (Hsk : skipn (S (length done))
                    (map (fun y : item * N => (shallow (fst y), snd y)) ((done ++ [x]) ++ todo))
                  = map (fun y : item * N => (shallow (fst y), snd y)) todo)
      by (rewrite <- (len_snoc done x); apply skipn_map_app).
    rewrite items_size_cons, items_events_cons.
    cbn [Nat.add]. rewrite (run_dfs_S _ _ _ _ _ _ _ Hs).
    rewrite seq_visit_shallow.
    cbn [shallow_seq sq_instrs]. rewrite skipn_map_app. cbn [map]. rewrite scan_cons.
    destruct x as [[p|s0|s0|ss d|t|t|c a] loc]; cbn [fst isize lift nested_events IDen] in *.
    1-4: cbn [Nat.add] in *;
      rewrite (run_dfs_S _ _ _ _ _ _ _ Hs') in IH;
      cbn [shallow_seq sq_instrs] in IH; rewrite Hsk in IH.
    1-4: cbn [Nat.eqb] in IH;
      destruct (scan ov (map (fun y : item * N => (shallow (fst y), snd y)) todo) (S (length done)))
        as [evs [[ridx kids]|]];
      [ destruct (run_dfs ov (items_size todo + f) ar (map (fun k : N => (k, 0)) kids ++ (s, ridx) :: rest))
          as [r'| |]
      | destruct (run_dfs ov (items_size todo + f) ar rest) as [r'| |] ];
      cbn [rmap app] in IH |- *; try discriminate IH;
      injection IH as IH; f_equal; f_equal;
      rewrite app_nil_r, <- !app_assoc; f_equal; cbn [app]; exact IH.
    1-2: replace (S (size t) + items_size todo + f) with (size t + (S (items_size todo) + f)) by lia;
      cbn [map app]; rewrite (HPx HDx _ _ _ IH); cbn [rmap]; f_equal; f_equal;
      rewrite <- !app_assoc; reflexivity.
    destruct HPx as [HPc HPa]. destruct HDx as [HDc HDa].
    replace (S (size c + size a) + items_size todo + f)
      with (size c + (size a + (S (items_size todo) + f))) by lia.
    cbn [map app]. rewrite (HPc HDc _ _ _ (HPa HDa _ _ _ IH)). cbn [rmap]. f_equal. f_equal.
    rewrite <- !app_assoc. reflexivity.
Qed.

Lemma dfs_tree ov ar t : Ptree ov ar t.
Proof.
  induction t as [s ty items e HF] using tree_ind'.
  intros HD rest f r Hr. apply Den_T in HD as [Hs HD].
  rewrite size_T, events_T. cbn [tsid].
  pose proof (resume ov ar s ty e items [] Hs HF HD rest f r Hr) as R.
  cbn [length Nat.eqb app] in R. cbn [app]. rewrite <- !app_assoc. exact R.
Qed.

Theorem dfs_in_order_fuel : forall ov ar t f,
  Den ar t -> S (size t) <= f -> dfs_in_order ov f ar (tsid t) = Ok (events ov t).
Proof.
  intros ov ar t f HD Hle. unfold dfs_in_order.
  replace f with (size t + S (f - S (size t))) by lia.
  rewrite (dfs_tree ov ar t HD [] (S (f - S (size t))) [] eq_refl). now rewrite app_nil_r.
Qed.

Theorem dfs_in_order_spec : forall (ov : bool) (ar : arena) (t : tree),
  Den ar t -> dfs_in_order ov (S (size t)) ar (tsid t) = Ok (events ov t).
Proof. intros ov ar t HD. apply dfs_in_order_fuel; [exact HD|lia]. Qed.

(* ------------------------------------------------------------------ 2. what the in-order log contains *)
Definition item_instr (x : item * N) : instr * N := (shallow (fst x), snd x).

Fixpoint instrs_in_order (t : tree) : list (instr * N) :=
  match t with T _ _ items _ =>
    (fix go (l : list (item * N)) : list (instr * N) :=
       match l with [] => [] | x :: l' => (item_instr x :: item_nested (fst x)) ++ go l' end) items
  end
with item_nested (it : item) : list (instr * N) :=
  match it with
  | ItB t | ItL t => instrs_in_order t
  | ItI c a => instrs_in_order c ++ instrs_in_order a
  | _ => []
  end.

Fixpoint subtrees (t : tree) : list tree :=
  t :: match t with T _ _ items _ =>
    (fix go (l : list (item * N)) : list tree :=
       match l with [] => [] | x :: l' => item_subtrees (fst x) ++ go l' end) items
  end
with item_subtrees (it : item) : list tree :=
  match it with
  | ItB t | ItL t => subtrees t
  | ItI c a => subtrees c ++ subtrees a
  | _ => []
  end.

Lemma instrs_T s ty items e :
  instrs_in_order (T s ty items e) = flat_map (fun x => item_instr x :: item_nested (fst x)) items.
Proof. reflexivity. Qed.

Lemma subtrees_T s ty items e :
  subtrees (T s ty items e) = T s ty items e :: flat_map (fun x => item_subtrees (fst x)) items.
Proof. reflexivity. Qed.

Fixpoint balanced (evs : list ev) (stack : list N) : bool :=
  match evs with
  | [] => match stack with [] => true | _ :: _ => false end
  | EStart s :: r => balanced r (s :: stack)
  | EEnd s :: r => match stack with top :: st => N.eqb top s && balanced r st | [] => false end
  | _ :: r => balanced r stack
  end.

Definition instr_refs (i : instr) : list (space * N) :=
  match i with IPlain p => visited_refs p | _ => [] end.
Definition ref_count (twice after : bool) (i : instr) : list (space * N) :=
  (if twice then instr_refs i else []) ++ (if after then instr_refs i else []).

(* the three projections of the log *)
Definition pI (e : ev) : list (instr * N) := match e with EInstr i l => [(i, l)] | _ => [] end.
Definition pS (e : ev) : list N := match e with EStart s => [s] | _ => [] end.
Definition pR (e : ev) : list (space * N) := match e with ERef sp id => [(sp, id)] | _ => [] end.

Lemma flat_map_map_nil {A B C} (f : B -> list C) (g : A -> B) (l : list A) :
  (forall x, f (g x) = []) -> flat_map f (map g l) = [].
Proof. intros H. induction l as [|a l IH]; cbn [map flat_map]; [reflexivity|]. rewrite H, IH. reflexivity. Qed.

Lemma flat_map_nil_app {A B} (f : A -> list B) (l1 l2 : list A) :
  flat_map f l1 = [] -> flat_map f l2 = [] -> flat_map f (l1 ++ l2) = [].
Proof. intros H1 H2. rewrite flat_map_app, H1, H2. reflexivity. Qed.

(* events produced by the fields of an instruction: no EInstr, no EStart, no EEnd; the ERef are
   exactly [instr_refs] *)
Lemma field_events_pI i : flat_map pI (field_events i) = [].
Proof. destruct i; cbn [field_events]; apply flat_map_map_nil; reflexivity. Qed.
Lemma field_events_pS i : flat_map pS (field_events i) = [].
Proof. destruct i; cbn [field_events]; apply flat_map_map_nil; reflexivity. Qed.
Lemma seqref_pR (l : list N) : flat_map pR (map ESeqRef l) = [].
Proof. apply flat_map_map_nil; reflexivity. Qed.
Lemma field_events_pR i : flat_map pR (field_events i) = instr_refs i.
Proof.
  destruct i as [p|s|s|c a|s|s|ss d]; cbn [field_events instr_refs]; try apply seqref_pR.
  induction (visited_refs p) as [|[sp id] l IH]; cbn [map flat_map pR fst snd app]; [reflexivity|].
  rewrite IH. reflexivity.
Qed.

Lemma pR_if (c : bool) i :
  flat_map pR (if c then field_events i else []) = if c then instr_refs i else [].
Proof. destruct c; [apply field_events_pR|reflexivity]. Qed.

Lemma instr_visit_pI b ov i : flat_map pI (instr_visit b ov i) = [].
Proof.
  unfold instr_visit. cbn [flat_map pI app]. apply flat_map_nil_app.
  - destruct (negb ov && b); [apply field_events_pI|reflexivity].
  - destruct visit_fields_after_hook; [apply field_events_pI|reflexivity].
Qed.
Lemma instr_visit_pS b ov i : flat_map pS (instr_visit b ov i) = [].
Proof.
  unfold instr_visit. cbn [flat_map pS app]. apply flat_map_nil_app.
  - destruct (negb ov && b); [apply field_events_pS|reflexivity].
  - destruct visit_fields_after_hook; [apply field_events_pS|reflexivity].
Qed.
Lemma instr_visit_pR b ov i :
  flat_map pR (instr_visit b ov i) = ref_count (negb ov && b) visit_fields_after_hook i.
Proof.
  unfold instr_visit, ref_count. cbn [flat_map pR app]. rewrite flat_map_app, !pR_if. reflexivity.
Qed.

Lemma tyv_pI ty : flat_map pI (tyv ty) = []. Proof. destruct ty; reflexivity. Qed.
Lemma tyv_pS ty : flat_map pS (tyv ty) = []. Proof. destruct ty; reflexivity. Qed.
Lemma tyv_pR ty : flat_map pR (tyv ty) = []. Proof. destruct ty; reflexivity. Qed.

Lemma here_pI ov x : flat_map pI (here ov x) = [item_instr x].
Proof. unfold here. cbn [flat_map pI app]. rewrite instr_visit_pI. reflexivity. Qed.
Lemma here_pS ov x : flat_map pS (here ov x) = [].
Proof. unfold here. cbn [flat_map pS app]. apply instr_visit_pS. Qed.
Lemma here_pR ov x :
  flat_map pR (here ov x)
  = ref_count (negb ov && default_hook_recurses) visit_fields_after_hook (shallow (fst x)).
Proof. unfold here. cbn [flat_map pR app]. apply instr_visit_pR. Qed.

Theorem in_order_instrs : forall ov t,
  flat_map (fun e => match e with EInstr i l => [(i, l)] | _ => [] end) (events ov t) = instrs_in_order t.
Proof.
  intros ov t. change (flat_map pI (events ov t) = instrs_in_order t).
  induction t as [s ty items e HF] using tree_ind'.
  rewrite events_T, instrs_T. cbn [flat_map pI app].
  rewrite !flat_map_app, tyv_pI. cbn [flat_map pI app]. rewrite app_nil_r.
  induction HF as [|[it loc] l Hx HFl IH]; [reflexivity|].
  rewrite items_events_cons. cbn [flat_map fst]. rewrite !flat_map_app, here_pI, IH.
  f_equal. cbn [app]. f_equal.
  destruct it as [p|s0|s0|ss d|t|t|c a]; cbn [nested_events item_nested lift flat_map] in *; auto.
  destruct Hx as [Hc Ha]. rewrite flat_map_app, Hc, Ha. reflexivity.
Qed.

Theorem in_order_starts : forall ov t,
  flat_map (fun e => match e with EStart s => [s] | _ => [] end) (events ov t) = map tsid (subtrees t).
Proof.
  intros ov t. change (flat_map pS (events ov t) = map tsid (subtrees t)).
  induction t as [s ty items e HF] using tree_ind'.
  rewrite events_T, subtrees_T. cbn [flat_map pS app map tsid]. f_equal.
  rewrite !flat_map_app, tyv_pS. cbn [flat_map pS app]. rewrite app_nil_r.
  induction HF as [|[it loc] l Hx HFl IH]; [reflexivity|].
  rewrite items_events_cons. cbn [flat_map fst]. rewrite map_app, !flat_map_app, here_pS, IH.
  f_equal. cbn [app].
  destruct it as [p|s0|s0|ss d|t|t|c a]; cbn [nested_events item_subtrees lift flat_map map] in *; auto.
  destruct Hx as [Hc Ha]. rewrite flat_map_app, map_app, Hc, Ha. reflexivity.
Qed.

Theorem in_order_refs : forall ov t,
  flat_map (fun e => match e with ERef sp id => [(sp, id)] | _ => [] end) (events ov t)
  = flat_map (fun x => ref_count (negb ov && default_hook_recurses) visit_fields_after_hook (fst x)) (instrs_in_order t).
Proof.
  intros ov t.
  change (flat_map pR (events ov t)
          = flat_map (fun x => ref_count (negb ov && default_hook_recurses) visit_fields_after_hook (fst x)) (instrs_in_order t)).
  induction t as [s ty items e HF] using tree_ind'.
  rewrite events_T, instrs_T. cbn [flat_map pR app].
  rewrite !flat_map_app, tyv_pR. cbn [flat_map pR app]. rewrite app_nil_r.
  induction HF as [|[it loc] l Hx HFl IH]; [reflexivity|].
  rewrite items_events_cons. cbn [flat_map fst]. rewrite !flat_map_app, here_pR, IH.
  f_equal. cbn [flat_map item_instr fst snd]. f_equal.
  destruct it as [p|s0|s0|ss d|t|t|c a]; cbn [nested_events item_nested lift flat_map] in *; auto.
  destruct Hx as [Hc Ha]. rewrite !flat_map_app, Hc, Ha. reflexivity.
Qed.

(* balancedness *)
Definition neutral (e : ev) : bool := match e with EStart _ | EEnd _ => false | _ => true end.

Lemma balanced_neutral l : forallb neutral l = true ->
  forall k st, balanced (l ++ k) st = balanced k st.
Proof.
  induction l as [|x l IH]; intros Hn k st; [reflexivity|].
  cbn [forallb] in Hn. apply andb_true_iff in Hn as [Hx Hl].
  destruct x; cbn [neutral] in Hx; try discriminate Hx; cbn [app balanced]; apply IH; exact Hl.
Qed.

Lemma forallb_map_true {A B} (f : B -> bool) (g : A -> B) (l : list A) :
  (forall x, f (g x) = true) -> forallb f (map g l) = true.
Proof. intros H. induction l as [|a l IH]; cbn [map forallb]; [reflexivity|]. rewrite H, IH. reflexivity. Qed.

Lemma field_events_neutral i : forallb neutral (field_events i) = true.
Proof. destruct i; cbn [field_events]; apply forallb_map_true; reflexivity. Qed.

Lemma here_neutral ov x : forallb neutral (here ov x) = true.
Proof.
  unfold here, instr_visit. cbn [forallb neutral andb]. rewrite forallb_app.
  apply andb_true_iff. split.
  - destruct (negb ov && default_hook_recurses); [apply field_events_neutral|reflexivity].
  - destruct visit_fields_after_hook; [apply field_events_neutral|reflexivity].
Qed.

Lemma tyv_neutral ty : forallb neutral (tyv ty) = true.
Proof. destruct ty; reflexivity. Qed.

Lemma in_order_balanced_gen ov t : forall k st, balanced (events ov t ++ k) st = balanced k st.
Proof.
  induction t as [s ty items e HF] using tree_ind'. intros k st.
  rewrite events_T. cbn [app balanced]. rewrite <- !app_assoc.
  rewrite (balanced_neutral _ (tyv_neutral ty)).
  assert (Hitems : forall k' st', balanced (items_events ov items ++ k') st' = balanced k' st').
  { induction HF as [|[it loc] l Hx HFl IH]; intros k' st'; [reflexivity|].
    rewrite items_events_cons. rewrite <- !app_assoc.
    rewrite (balanced_neutral _ (here_neutral ov (it, loc))).
    destruct it as [p|s0|s0|ss d|t|t|c a]; cbn [nested_events lift fst app] in *; auto.
    - rewrite Hx. apply IH.
    - rewrite Hx. apply IH.
    - destruct Hx as [Hc Ha]. rewrite <- app_assoc, Hc, Ha. apply IH. }
  rewrite Hitems. cbn [app balanced]. rewrite N.eqb_refl. reflexivity.
Qed.

Theorem in_order_balanced : forall ov t, balanced (events ov t) [] = true.
Proof.
  intros ov t. rewrite <- (app_nil_r (events ov t)). rewrite in_order_balanced_gen. reflexivity.
Qed.

(* ------------------------------------------------------------------ 3. dfs_pre_order_mut *)
Definition seq_events_mut (ov : bool) (t : tree) : list ev :=
  match t with T s ty items e =>
    EStart s :: seq_visit (shallow_seq t) ++
    flat_map (fun x => EInstr (shallow (fst x)) (snd x)
                       :: instr_visit default_hook_mut_recurses ov (shallow (fst x))) items
    ++ [EEnd s]
  end.

(* children in push order *)
Definition item_kids (it : item) : list tree :=
  match it with
  | ItB t | ItL t => [t]
  | ItI c a => [a; c]
  | _ => []
  end.
Definition kids (t : tree) : list tree :=
  match t with T _ _ items _ => flat_map (fun x => item_kids (fst x)) items end.

Fixpoint morder (fuel : nat) (stack : list tree) : option (list tree) :=
  match fuel with
  | O => None
  | S f =>
      match stack with
      | [] => Some []
      | t :: rest => option_map (cons t) (morder f (rev (kids t) ++ rest))
      end
  end.

Lemma scan_mut_items ov (items : list (item * N)) :
  scan_mut ov (map (fun x : item * N => (shallow (fst x), snd x)) items) =
  (flat_map (fun x => EInstr (shallow (fst x)) (snd x)
                      :: instr_visit default_hook_mut_recurses ov (shallow (fst x))) items,
   map tsid (flat_map (fun x => item_kids (fst x)) items)).
Proof.
  induction items as [|[it loc] l IH]; [reflexivity|].
  cbn [map flat_map fst snd]. rewrite map_app.
  destruct it as [p|s0|s0|ss d|t|t|c a]; cbn [shallow scan_mut item_kids map app];
    rewrite IH; reflexivity.
Qed.

Lemma Den_kids ar t : Den ar t -> Forall (Den ar) (kids t).
Proof.
  destruct t as [s ty items e]. intros HD. apply Den_T in HD as [_ HD]. cbn [kids].
  induction HD as [|[it loc] l Hx HDl IH]; [constructor|].
  cbn [flat_map fst]. apply Forall_app. split; [|exact IH].
  destruct it as [p|s0|s0|ss d|t|t|c a]; cbn [item_kids IDen fst] in *; auto.
  destruct Hx as [Hc Ha]. auto.
Qed.

Lemma run_pre_spec ov ar : forall fuel stack order,
  Forall (Den ar) stack -> morder fuel stack = Some order ->
  run_pre ov fuel ar (map tsid stack) = Ok (flat_map (seq_events_mut ov) order).
Proof.
  induction fuel as [|f IH]; intros stack order HD Hm; [discriminate Hm|].
  destruct stack as [|t rest].
  - cbn [morder] in Hm. injection Hm as Hm. subst order. reflexivity.
  - cbn [morder] in Hm.
    destruct (morder f (rev (kids t) ++ rest)) as [order'|] eqn:Hm'; [|discriminate Hm].
    cbn [option_map] in Hm. injection Hm as Hm. subst order.
    inversion HD as [|t0 l0 HDt HDrest]; subst t0 l0.
    assert (HDk : Forall (Den ar) (rev (kids t) ++ rest)).
    { apply Forall_app. split; [|exact HDrest]. apply Forall_rev. apply Den_kids. exact HDt. }
    specialize (IH _ _ HDk Hm').
    destruct t as [s ty items e]. apply Den_T in HDt as [Hs _].
    cbn [map tsid run_pre]. rewrite Hs.
    cbn [shallow_seq sq_instrs]. rewrite scan_mut_items.
    rewrite map_app, map_rev in IH. cbn [kids] in IH. rewrite IH.
    cbn [rmap flat_map seq_events_mut]. f_equal. cbn [app]. f_equal.
    change (seq_visit (shallow_seq (T s ty items e))) with (tyv ty).
    change (seq_visit {| sq_ty := ty; sq_instrs := map (fun x : item * N => (shallow (fst x), snd x)) items; sq_end := e |}) with (tyv ty).
    rewrite <- !app_assoc. reflexivity.
Qed.

Theorem dfs_pre_order_mut_spec : forall ov ar t fuel order,
  Den ar t -> morder fuel [t] = Some order ->
  dfs_pre_order_mut ov fuel ar (tsid t) = Ok (flat_map (seq_events_mut ov) order).
Proof.
  intros ov ar t fuel order HD Hm. unfold dfs_pre_order_mut.
  apply (run_pre_spec ov ar fuel [t] order); [constructor; [exact HD|constructor]|exact Hm].
Qed.

(* every sequence of the tree is visited exactly once *)
Definition ssize (l : list tree) : nat := fold_right (fun t n => size t + n) 0 l.

Lemma ssize_cons t l : ssize (t :: l) = size t + ssize l.
Proof. reflexivity. Qed.

Lemma ssize_app l1 l2 : ssize (l1 ++ l2) = ssize l1 + ssize l2.
Proof.
  induction l1 as [|t l IH]; [reflexivity|].
  cbn [app]. rewrite !ssize_cons, IH. lia.
Qed.

Lemma ssize_rev l : ssize (rev l) = ssize l.
Proof.
  induction l as [|t l IH]; [reflexivity|]. cbn [rev]. rewrite ssize_app, IH, !ssize_cons.
  change (ssize []) with 0. lia.
Qed.

Lemma ssize_kids t : ssize (kids t) < size t.
Proof.
  destruct t as [s ty items e]. rewrite size_T. cbn [kids].
  enough (ssize (flat_map (fun x => item_kids (fst x)) items) <= items_size items) by lia.
  induction items as [|[it loc] l IH]; [cbn; lia|].
  cbn [flat_map fst]. rewrite ssize_app, items_size_cons. cbn [fst].
  destruct it as [p|s0|s0|ss d|t|t|c a]; cbn [item_kids isize]; rewrite ?ssize_cons;
    change (ssize []) with 0; lia.
Qed.

Lemma kids_subtrees_perm t :
  Permutation (flat_map subtrees (kids t))
              (match t with T _ _ items _ => flat_map (fun x => item_subtrees (fst x)) items end).
Proof.
  destruct t as [s ty items e]. cbn [kids].
  induction items as [|[it loc] l IH]; [constructor|].
  cbn [flat_map fst]. rewrite flat_map_app. apply Permutation_app; [|exact IH].
  destruct it as [p|s0|s0|ss d|t|t|c a]; cbn [item_kids item_subtrees flat_map];
    rewrite ?app_nil_r; try apply Permutation_refl.
  apply Permutation_app_comm.
Qed.

Lemma morder_total_gen : forall fuel stack, ssize stack < fuel ->
  exists order, morder fuel stack = Some order /\ Permutation order (flat_map subtrees stack).
Proof.
  induction fuel as [|f IH]; intros stack Hlt; [lia|].
  destruct stack as [|t rest].
  - exists []. split; [reflexivity|constructor].
  - rewrite ssize_cons in Hlt.
    pose proof (ssize_kids t) as Hk.
    destruct (IH (rev (kids t) ++ rest)) as [order' [Hm Hp]].
    { rewrite ssize_app, ssize_rev. lia. }
    exists (t :: order'). split.
    + cbn [morder]. rewrite Hm. reflexivity.
    + cbn [flat_map]. eapply perm_trans; [apply perm_skip; exact Hp|].
      rewrite flat_map_app.
      destruct t as [s ty items e]. rewrite subtrees_T. cbn [app]. apply perm_skip.
      apply Permutation_app; [|apply Permutation_refl].
      eapply perm_trans; [|apply (kids_subtrees_perm (T s ty items e))].
      apply Permutation_flat_map. apply Permutation_sym, Permutation_rev.
Qed.

Theorem morder_total : forall t,
  exists order, morder (S (size t)) [t] = Some order /\ Permutation order (subtrees t).
Proof.
  intros t. destruct (morder_total_gen (S (size t)) [t]) as [order [Hm Hp]].
  { rewrite ssize_cons. change (ssize []) with 0. lia. }
  exists order. split; [exact Hm|]. cbn [flat_map] in Hp. rewrite app_nil_r in Hp. exact Hp.
Qed.

Lemma seq_events_mut_pR ov t :
  flat_map pR (seq_events_mut ov t) =
  match t with T _ _ items _ =>
    flat_map (fun x => ref_count (negb ov && default_hook_mut_recurses) visit_fields_after_hook (shallow (fst x))) items end.
Proof.
  destruct t as [s ty items e]. cbn [seq_events_mut]. rewrite seq_visit_shallow.
  cbn [flat_map pR app]. rewrite !flat_map_app, tyv_pR. cbn [flat_map pR app]. rewrite app_nil_r.
  induction items as [|[it loc] l IH]; [reflexivity|].
  cbn [flat_map fst snd]. rewrite flat_map_app. cbn [flat_map pR app]. rewrite instr_visit_pR, IH.
  reflexivity.
Qed.

Theorem pre_order_refs : forall ov order,
  flat_map (fun e => match e with ERef sp id => [(sp, id)] | _ => [] end) (flat_map (seq_events_mut ov) order)
  = flat_map (fun t => match t with T _ _ items _ =>
       flat_map (fun x => ref_count (negb ov && default_hook_mut_recurses) visit_fields_after_hook (shallow (fst x))) items end) order.
Proof.
  intros ov order.
  change (flat_map pR (flat_map (seq_events_mut ov) order)
          = flat_map (fun t => match t with T _ _ items _ =>
              flat_map (fun x => ref_count (negb ov && default_hook_mut_recurses) visit_fields_after_hook (shallow (fst x))) items end) order).
  induction order as [|t l IH]; [reflexivity|].
  cbn [flat_map]. rewrite flat_map_app, seq_events_mut_pR, IH. reflexivity.
Qed.

(* fuel monotonicity for the pre-order machine, for completeness *)
Lemma run_pre_mono ov ar : forall f stack r,
  run_pre ov f ar stack = Ok r -> forall f', f <= f' -> run_pre ov f' ar stack = Ok r.
Proof.
  induction f as [|f IH]; intros stack r Hr f' Hle; [discriminate Hr|].
  destruct f' as [|f']; [lia|]. assert (Hle' : f <= f') by lia.
  destruct stack as [|sid rest]; [exact Hr|].
  cbn [run_pre] in Hr |- *.
  destruct (nth_error ar (N.to_nat sid)) as [q|]; [|discriminate Hr].
  destruct (scan_mut ov (sq_instrs q)) as [evs ks].
  destruct (run_pre ov f ar (rev ks ++ rest)) as [r'| |] eqn:Hin; cbn [rmap] in Hr; try discriminate Hr.
  rewrite (IH _ _ Hin f' Hle'). exact Hr.
Qed.

Print Assumptions dfs_in_order_spec.
Print Assumptions dfs_in_order_fuel.
Print Assumptions in_order_instrs.
Print Assumptions in_order_starts.
Print Assumptions in_order_balanced.
Print Assumptions in_order_refs.
Print Assumptions dfs_pre_order_mut_spec.
Print Assumptions morder_total.
Print Assumptions pre_order_refs.
