(* Framing theorems for Model/Frame.v: the bytes below the abstract section stream (C12 / C08 / C11). *)
From Coq Require Import List NArith ZArith Bool Lia. Import ListNotations.
From WV Require Import Model.Leb Model.CodeMap Model.Frame Proofs.Leb.
Local Open Scope N_scope.

Definition small {A} (l : list A) : Prop := lenN l < 2 ^ 126.
Definition small_sec (s : N * list N) : Prop := small (snd s).

(* ------------------------------------------------------------------ list / length basics *)
Lemma lenN_app {A} (a b : list A) : lenN (a ++ b) = lenN a + lenN b.
Proof. unfold lenN. rewrite app_length, Nat2N.inj_add. reflexivity. Qed.

Lemma lenN_cons {A} (x : A) (l : list A) : lenN (x :: l) = 1 + lenN l.
Proof. unfold lenN. cbn [length]. rewrite Nat2N.inj_succ. lia. Qed.

Lemma takeN_lenN_app {A} (a b : list A) : takeN (lenN a) (a ++ b) = a.
Proof.
  unfold takeN, lenN. rewrite Nat2N.id, firstn_app, Nat.sub_diag, firstn_all.
  cbn [firstn]. apply app_nil_r.
Qed.

Lemma dropN_lenN_app {A} (a b : list A) : dropN (lenN a) (a ++ b) = b.
Proof.
  unfold dropN, lenN. rewrite Nat2N.id, skipn_app, Nat.sub_diag, skipn_all.
  reflexivity.
Qed.

Lemma lenN_ltb_app {A} (a b : list A) : (lenN (a ++ b) <? lenN a) = false.
Proof. apply N.ltb_ge. rewrite lenN_app. lia. Qed.

Lemma skipn_length_app {A} (a b : list A) : skipn (length a) (a ++ b) = b.
Proof. induction a as [|x a IH]; [reflexivity|]. cbn [length app skipn]. exact IH. Qed.

Lemma lenN_enc_u n : n < 2 ^ 64 -> lenN (enc_u n) = leb_len n.
Proof. intros H. unfold lenN. apply enc_u_len. exact H. Qed.

(* ------------------------------------------------------------------ 1. sections *)
Theorem unframe_frame_sections : forall secs, Forall small_sec secs ->
  forall fuel, (length (flat_map frame_section secs) <= fuel)%nat ->
  unframe_sections fuel (flat_map frame_section secs) = Some secs.
Proof.
  induction 1 as [|s secs Hs Hall IH]; intros fuel Hf.
  - destruct fuel; reflexivity.
  - destruct s as [id p]. unfold small_sec, small in Hs. cbn [snd] in Hs.
    cbn [flat_map frame_section fst snd app] in Hf |- *.
    destruct fuel as [|fuel]; [cbn [length] in Hf; lia|].
    cbn [unframe_sections]. rewrite <- app_assoc.
    rewrite (dec_enc_u _ _ Hs).
    rewrite lenN_ltb_app, dropN_lenN_app, takeN_lenN_app.
    rewrite IH; [reflexivity|].
    cbn [length] in Hf. rewrite !app_length in Hf. lia.
Qed.

Lemma firstn8_magic x : firstn 8 (magic_version ++ x) = magic_version.
Proof. reflexivity. Qed.
Lemma skipn8_magic x : skipn 8 (magic_version ++ x) = x.
Proof. reflexivity. Qed.
Lemma magic_eqb : nlist_eqb magic_version magic_version = true.
Proof. reflexivity. Qed.

Theorem unframe_frame_module : forall secs, Forall small_sec secs ->
  unframe_module (frame_module secs) = Some secs.
Proof.
  intros secs H. unfold unframe_module, frame_module.
  rewrite firstn8_magic, skipn8_magic, magic_eqb.
  apply unframe_frame_sections; [exact H|]. rewrite app_length. lia.
Qed.

(* ------------------------------------------------------------------ 2. injectivity *)
Theorem frame_module_inj : forall a b, Forall small_sec a -> Forall small_sec b ->
  frame_module a = frame_module b -> a = b.
Proof.
  intros a b Ha Hb E.
  pose proof (unframe_frame_module a Ha) as A. pose proof (unframe_frame_module b Hb) as B.
  rewrite E in A. rewrite A in B. inversion B. reflexivity.
Qed.

Theorem frame_module_iff : forall a b, Forall small_sec a -> Forall small_sec b ->
  (frame_module a = frame_module b <-> a = b).
Proof. intros a b Ha Hb. split; [apply frame_module_inj; assumption | intros ->; reflexivity]. Qed.

Theorem frame_sections_inj : forall a b, Forall small_sec a -> Forall small_sec b ->
  flat_map frame_section a = flat_map frame_section b -> a = b.
Proof.
  intros a b Ha Hb E. apply frame_module_inj; try assumption.
  unfold frame_module. rewrite E. reflexivity.
Qed.

(* ------------------------------------------------------------------ 3. custom sections *)
Theorem split_custom_any : forall lb name data,
  dec_u (lb ++ name ++ data) = Some (lenN name, name ++ data) ->
  split_custom (lb ++ name ++ data) = Some (name, data).
Proof.
  intros lb name data H. unfold split_custom. rewrite H.
  rewrite lenN_ltb_app, takeN_lenN_app, dropN_lenN_app. reflexivity.
Qed.

Theorem split_custom_payload : forall name data, lenN name < 2 ^ 126 ->
  split_custom (custom_payload name data) = Some (name, data).
Proof.
  intros name data H. unfold custom_payload. apply split_custom_any.
  apply dec_enc_u. exact H.
Qed.

(* a padded (non-minimal) length field: [130; 0] = 2 *)
Example split_custom_padded :
  split_custom ([130; 0] ++ [104; 105] ++ [1; 2; 3]) = Some ([104; 105], [1; 2; 3]).
Proof. vm_compute. reflexivity. Qed.

Example split_custom_padded_any :
  dec_u ([130; 0] ++ [104; 105] ++ [1; 2; 3]) = Some (lenN [104; 105], [104; 105] ++ [1; 2; 3]).
Proof. vm_compute. reflexivity. Qed.

(* the padded and the minimal payload are different bytes with the same reading *)
Example split_custom_padded_same :
  split_custom ([130; 0] ++ [104; 105] ++ [1; 2; 3]) = split_custom (custom_payload [104; 105] [1; 2; 3])
  /\ [130; 0] ++ [104; 105] ++ [1; 2; 3] <> custom_payload [104; 105] [1; 2; 3].
Proof. split; [vm_compute; reflexivity | vm_compute; discriminate]. Qed.

Lemma enc_u_one_byte n : n < 128 -> enc_u n = [n].
Proof.
  intros H. apply N.ltb_lt in H. unfold enc_u. cbn [enc_u_fuel]. rewrite H. reflexivity.
Qed.

Theorem one_byte_len_ok : forall name data, lenN name < 128 ->
  skipn (1 + length name) (custom_payload name data) = data.
Proof.
  intros name data H. unfold custom_payload. rewrite (enc_u_one_byte _ H).
  cbn [app Nat.add skipn]. apply skipn_length_app.
Qed.

Theorem naive_split_refuted : exists name data,
  skipn (1 + length name) (custom_payload name data) <> data.
Proof. exists (repeat 65 128%nat), [7]. vm_compute. discriminate. Qed.

(* what the naive extraction yields in general: it is off by (length of the size field - 1) bytes *)
Theorem naive_split_general : forall name data,
  skipn (length (enc_u (lenN name)) + length name) (custom_payload name data) = data.
Proof.
  intros name data. unfold custom_payload.
  rewrite app_assoc, <- app_length. apply skipn_length_app.
Qed.

(* ------------------------------------------------------------------ 4. code section *)
Lemma unframe_frame_entries : forall bodies tl, Forall small bodies ->
  unframe_entries (length bodies) (flat_map frame_entry bodies ++ tl) = Some (bodies, tl).
Proof.
  intros bodies tl H. induction H as [|b r Hb Hr IH]; [reflexivity|].
  cbn [length flat_map unframe_entries]. unfold frame_entry at 1.
  rewrite <- !app_assoc. rewrite (dec_enc_u _ _ Hb).
  rewrite lenN_ltb_app, dropN_lenN_app, takeN_lenN_app, IH. reflexivity.
Qed.

Theorem split_code_payload : forall bodies, Forall small bodies -> lenN bodies < 2 ^ 126 ->
  split_code (code_payload bodies) = Some bodies.
Proof.
  intros bodies H Hn. unfold split_code, code_payload.
  rewrite (dec_enc_u _ _ Hn). unfold lenN at 1. rewrite Nat2N.id.
  rewrite <- (app_nil_r (flat_map frame_entry bodies)).
  rewrite (unframe_frame_entries bodies [] H). reflexivity.
Qed.

Theorem code_payload_inj : forall a b, Forall small a -> Forall small b ->
  lenN a < 2 ^ 126 -> lenN b < 2 ^ 126 -> code_payload a = code_payload b -> a = b.
Proof.
  intros a b Ha Hb Na Nb E.
  pose proof (split_code_payload a Ha Na) as A. pose proof (split_code_payload b Hb Nb) as B.
  rewrite E in A. rewrite A in B. inversion B. reflexivity.
Qed.

(* ------------------------------------------------------------------ 5. offsets *)
Lemma entry_starts_length : forall bodies cur, length (entry_starts cur bodies) = length bodies.
Proof. induction bodies as [|b r IH]; intros cur; [reflexivity|]. cbn [entry_starts length]. rewrite IH. reflexivity. Qed.

Lemma entry_starts_first : forall bodies cur s t,
  nth_error (entry_starts cur bodies) 0 = Some (s, t) -> s = cur.
Proof. intros [|b r] cur s t H; [discriminate|]. cbn [entry_starts nth_error] in H. inversion H. reflexivity. Qed.

Lemma entry_starts_field : forall bodies cur k s t b,
  nth_error (entry_starts cur bodies) k = Some (s, t) -> nth_error bodies k = Some b ->
  t = s + lenN (enc_u (lenN b)).
Proof.
  induction bodies as [|b0 r IH]; intros cur k s t b Hs Hb; [destruct k; discriminate|].
  destruct k as [|k]; cbn [nth_error entry_starts] in Hs, Hb.
  - inversion Hs; inversion Hb; subst. reflexivity.
  - eapply IH; eassumption.
Qed.

Lemma entry_starts_next : forall bodies cur k s t b s' t',
  nth_error (entry_starts cur bodies) k = Some (s, t) -> nth_error bodies k = Some b ->
  nth_error (entry_starts cur bodies) (S k) = Some (s', t') ->
  s' = t + lenN b.
Proof.
  induction bodies as [|b0 r IH]; intros cur k s t b s' t' Hs Hb Hn; [destruct k; discriminate|].
  destruct k as [|k]; cbn [nth_error entry_starts] in Hs, Hb, Hn.
  - inversion Hs; inversion Hb; subst. apply entry_starts_first in Hn. exact Hn.
  - eapply IH; eassumption.
Qed.

(* position of the size field and of the body inside  pre ++ entries ++ tl *)
Lemma entry_field_at : forall bodies pre tl k s t b,
  nth_error (entry_starts (lenN pre) bodies) k = Some (s, t) -> nth_error bodies k = Some b ->
  exists rest, dropN s (pre ++ flat_map frame_entry bodies ++ tl) = enc_u (lenN b) ++ b ++ rest.
Proof.
  induction bodies as [|b0 r IH]; intros pre tl k s t b Hs Hb; [destruct k; discriminate|].
  destruct k as [|k]; cbn [nth_error entry_starts] in Hs, Hb.
  - inversion Hs; inversion Hb; subst. cbn [flat_map]. unfold frame_entry at 1.
    exists (flat_map frame_entry r ++ tl). rewrite dropN_lenN_app, <- !app_assoc. reflexivity.
  - specialize (IH (pre ++ enc_u (lenN b0) ++ b0) tl k s t b).
    rewrite !lenN_app, N.add_assoc in IH. destruct (IH Hs Hb) as [rest E].
    exists rest. cbn [flat_map]. unfold frame_entry at 1.
    rewrite <- !app_assoc in E |- *. exact E.
Qed.

Lemma entry_body_at : forall bodies pre tl k s t b,
  nth_error (entry_starts (lenN pre) bodies) k = Some (s, t) -> nth_error bodies k = Some b ->
  takeN (lenN b) (dropN t (pre ++ flat_map frame_entry bodies ++ tl)) = b.
Proof.
  induction bodies as [|b0 r IH]; intros pre tl k s t b Hs Hb; [destruct k; discriminate|].
  destruct k as [|k]; cbn [nth_error entry_starts] in Hs, Hb.
  - inversion Hs; inversion Hb; subst. cbn [flat_map]. unfold frame_entry at 1.
    rewrite <- lenN_app.
    replace (pre ++ ((enc_u (lenN b) ++ b) ++ flat_map frame_entry r) ++ tl)
      with ((pre ++ enc_u (lenN b)) ++ b ++ (flat_map frame_entry r ++ tl))
      by (rewrite <- !app_assoc; reflexivity).
    rewrite dropN_lenN_app, takeN_lenN_app. reflexivity.
  - specialize (IH (pre ++ enc_u (lenN b0) ++ b0) tl k s t b).
    rewrite !lenN_app, N.add_assoc in IH. specialize (IH Hs Hb).
    cbn [flat_map]. unfold frame_entry at 1.
    rewrite <- !app_assoc in IH |- *. exact IH.
Qed.

(* the body of the k-th entry starts at t *)
Theorem code_entry_body : forall bodies k s t b,
  nth_error (code_entry_offsets bodies) k = Some (s, t) -> nth_error bodies k = Some b ->
  takeN (lenN b) (dropN t (code_payload bodies)) = b.
Proof.
  intros bodies k s t b Hs Hb. unfold code_entry_offsets in Hs. unfold code_payload.
  pose proof (entry_body_at bodies (enc_u (lenN bodies)) [] k s t b Hs Hb) as E.
  rewrite app_nil_r in E. exact E.
Qed.

(* the size field of the k-th entry starts at s (and reads back as the body length) *)
Theorem code_entry_field : forall bodies k s t b,
  nth_error (code_entry_offsets bodies) k = Some (s, t) -> nth_error bodies k = Some b ->
  exists rest, dropN s (code_payload bodies) = enc_u (lenN b) ++ b ++ rest.
Proof.
  intros bodies k s t b Hs Hb. unfold code_entry_offsets in Hs. unfold code_payload.
  destruct (entry_field_at bodies (enc_u (lenN bodies)) [] k s t b Hs Hb) as [rest E].
  rewrite app_nil_r in E. exists rest. exact E.
Qed.

Theorem code_entry_field_dec : forall bodies k s t b, small b ->
  nth_error (code_entry_offsets bodies) k = Some (s, t) -> nth_error bodies k = Some b ->
  exists rest, dec_u (dropN s (code_payload bodies)) = Some (lenN b, b ++ rest).
Proof.
  intros bodies k s t b Hsm Hs Hb.
  destruct (code_entry_field bodies k s t b Hs Hb) as [rest E].
  exists rest. rewrite E. apply dec_enc_u. exact Hsm.
Qed.

Theorem code_entry_t : forall bodies k s t b, lenN b < 2 ^ 64 ->
  nth_error (code_entry_offsets bodies) k = Some (s, t) -> nth_error bodies k = Some b ->
  t = s + leb_len (lenN b).
Proof.
  intros bodies k s t b H64 Hs Hb. unfold code_entry_offsets in Hs.
  rewrite (entry_starts_field _ _ _ _ _ _ Hs Hb).
  rewrite (lenN_enc_u _ H64). reflexivity.
Qed.

Theorem code_entry_next : forall bodies k s t b s' t',
  nth_error (code_entry_offsets bodies) k = Some (s, t) -> nth_error bodies k = Some b ->
  nth_error (code_entry_offsets bodies) (S k) = Some (s', t') ->
  s' = t + lenN b.
Proof. intros bodies k s t b s' t'. unfold code_entry_offsets. apply entry_starts_next. Qed.

Theorem code_entry_first : forall bodies s t, lenN bodies < 2 ^ 64 ->
  nth_error (code_entry_offsets bodies) 0 = Some (s, t) -> s = leb_len (lenN bodies).
Proof.
  intros bodies s t H64 H. unfold code_entry_offsets in H. apply entry_starts_first in H.
  rewrite H. apply lenN_enc_u. exact H64.
Qed.

Theorem code_entry_offsets_length : forall bodies, length (code_entry_offsets bodies) = length bodies.
Proof. intros. apply entry_starts_length. Qed.

(* the last entry ends where the payload ends *)
Lemma entry_starts_last : forall bodies cur k s t b, S k = length bodies ->
  nth_error (entry_starts cur bodies) k = Some (s, t) -> nth_error bodies k = Some b ->
  t + lenN b = cur + lenN (flat_map frame_entry bodies).
Proof.
  induction bodies as [|b0 r IH]; intros cur k s t b Hk Hs Hb; [discriminate|].
  cbn [length] in Hk. injection Hk as Hk.
  destruct k as [|k]; cbn [nth_error entry_starts] in Hs, Hb.
  - inversion Hs; inversion Hb; subst. destruct r; [|discriminate].
    cbn [flat_map]. rewrite app_nil_r. unfold frame_entry. rewrite !lenN_app. lia.
  - specialize (IH _ _ _ _ _ Hk Hs Hb). cbn [flat_map]. unfold frame_entry at 1.
    rewrite !lenN_app. lia.
Qed.

Theorem code_entry_last : forall bodies k s t b, S k = length bodies ->
  nth_error (code_entry_offsets bodies) k = Some (s, t) -> nth_error bodies k = Some b ->
  t + lenN b = lenN (code_payload bodies).
Proof.
  intros bodies k s t b Hk Hs Hb. unfold code_payload. rewrite lenN_app.
  eapply entry_starts_last; eassumption.
Qed.

(* link with Model/CodeMap.v: ranges_from uses exactly this layout (start = start of the size field,
   end = start of the next entry = body start + body length) *)
Definition entry_ranges (cur : N) (bodies : list (list N)) : list (N * N) :=
  map (fun p => (fst (snd p), snd (snd p) + lenN (fst p))) (combine bodies (entry_starts cur bodies)).

Theorem entry_starts_ranges : forall bodies ids cur, Forall (fun b => lenN b < 2 ^ 64) bodies ->
  ranges_from cur (combine ids (map lenN bodies)) = combine ids (entry_ranges cur bodies).
Proof.
  induction bodies as [|b r IH]; intros ids cur H.
  - destruct ids; reflexivity.
  - inversion H as [|b' r' Hb Hr]; subst. destruct ids as [|i ids]; [reflexivity|].
    unfold entry_ranges. cbn [map combine ranges_from entry_starts fst snd].
    rewrite (lenN_enc_u _ Hb).
    f_equal. apply IH. exact Hr.
Qed.

(* starts of ranges_from = the s of entry_starts; ends = the next s *)
Corollary entry_starts_ranges_starts : forall bodies ids cur, Forall (fun b => lenN b < 2 ^ 64) bodies ->
  length ids = length bodies ->
  map (fun x => fst (snd x)) (ranges_from cur (combine ids (map lenN bodies))) = map fst (entry_starts cur bodies).
Proof.
  induction bodies as [|b r IH]; intros ids cur H Hl.
  - destruct ids; reflexivity.
  - inversion H as [|b' r' Hb Hr]; subst. destruct ids as [|i ids]; [discriminate|].
    cbn [map combine ranges_from entry_starts fst snd].
    f_equal. cbn [length] in Hl. injection Hl as Hl.
    rewrite <- (IH ids _ Hr Hl). rewrite (lenN_enc_u _ Hb). reflexivity.
Qed.

(* the code-relative origin: the first entry starts leb_len(count) after the start of the section contents *)
Theorem code_section_start_link : forall base bodies, lenN bodies < 2 ^ 64 ->
  forall s t, nth_error (entry_starts (base + lenN (enc_u (lenN bodies))) bodies) 0 = Some (s, t) ->
  ct_code_section_start s (lenN bodies) = base.
Proof.
  intros base bodies H64 s t H. apply entry_starts_first in H. subst s.
  unfold ct_code_section_start. rewrite (lenN_enc_u _ H64). lia.
Qed.

(* ------------------------------------------------------------------ 6. examples *)
Example ex_module :
  let secs := [(1, [1; 96; 0; 0]); (0, custom_payload [104; 105] [9; 9]); (10, code_payload [[0; 11]])] in
  unframe_module (frame_module secs) = Some secs
  /\ frame_module secs =
     [0; 97; 115; 109; 1; 0; 0; 0;  1; 4; 1; 96; 0; 0;  0; 5; 2; 104; 105; 9; 9;  10; 4; 1; 2; 0; 11].
Proof. vm_compute. split; reflexivity. Qed.

Example ex_code :
  let bodies := [[0; 11]; [1; 1; 127; 65; 0; 26; 11]] in
  code_payload bodies = [2; 2; 0; 11; 7; 1; 1; 127; 65; 0; 26; 11]
  /\ split_code (code_payload bodies) = Some bodies
  /\ code_entry_offsets bodies = [(1, 2); (4, 5)].
Proof. vm_compute. repeat split; reflexivity. Qed.

(* a body of 128 bytes has a two-byte size field *)
Example ex_offsets_long :
  code_entry_offsets [repeat 0 128%nat; [11]] = [(1, 3); (131, 132)].
Proof. vm_compute. reflexivity. Qed.

Example ex_truncated : unframe_module (firstn 12 (frame_module [(1, [1; 96; 0; 0])])) = None.
Proof. vm_compute. reflexivity. Qed.

Print Assumptions unframe_frame_sections.
Print Assumptions unframe_frame_module.
Print Assumptions frame_module_inj.
Print Assumptions frame_module_iff.
Print Assumptions split_custom_payload.
Print Assumptions split_custom_any.
Print Assumptions one_byte_len_ok.
Print Assumptions naive_split_refuted.
Print Assumptions naive_split_general.
Print Assumptions split_code_payload.
Print Assumptions code_payload_inj.
Print Assumptions code_entry_body.
Print Assumptions code_entry_field_dec.
Print Assumptions code_entry_t.
Print Assumptions code_entry_next.
Print Assumptions code_entry_first.
Print Assumptions code_entry_last.
Print Assumptions entry_starts_ranges.
Print Assumptions entry_starts_ranges_starts.
Print Assumptions code_section_start_link.
Print Assumptions ex_module.
Print Assumptions ex_code.
