(* C08, module level: the final assembly.  emit (parse (emit (parse w))) = emit (parse w)  for streams the validator accepts.
   Pieces: ModFix2 (canonical shape, assembly from payloads), ModFix3 (types), ModFix4 (order, tables/memories/globals),
   ModFix5 (exports, start, elements, data, data count), ModFix6 (function order, imports, function section), ModFix7 (names),
   ModFix8 (producers, customs), ModFix9 (assembly with the body-level facts as premises), ModFix10/14 (function bodies),
   ModFix11/17 (locals), ModFix12/15 (module-level glue for the code section), ModFix13 (entity counts), ModFix18 (signatures).
   ModFixEx: non-vacuity and the REFUTATION of the unrestricted statement. *)
From Coq Require Import List NArith ZArith Bool Arith Lia.
Import ListNotations.
From WV Require Import Gen.Ops Model.Common Model.IR Model.Arena Model.ModuleM Model.ParseM Model.EmitM.
From WV Require Import Proofs.IndexMaps Proofs.Structure Proofs.Structure2 Proofs.Renumbering Proofs.ParseTotal.
From WV Require Import Proofs.ModFix Proofs.ModFix2 Proofs.ModFix9.
From WV Require Proofs.ModFix5 Proofs.ModFix6 Proofs.ModFix7 Proofs.ModFix8 Proofs.ModFix15 Proofs.ModFix17 Proofs.ModFix18 Proofs.ModFix19.
From WV Require Proofs.TotalityBodies Proofs.ModFixEx Proofs.ModFix3.
From Coq Require Import Sorted.
Local Open Scope nat_scope.

Lemma params_kept_17 cf ver w ilen s1 e1 s2 e2 : two_trips cf ver w ilen s1 e1 s2 e2 -> ModFix17.params_kept s1 e1 s2.
Proof. intros TT. exact (ModFix18.params_kept_holds _ _ _ _ _ _ _ _ TT). Qed.


(* R1: the structural properties every stream emitted from a parsed module has (stream level; the body-level
   parts - each body the flattening of a normal form [is_nf], canonical block types, locals grouped by type - are
   ModFix10.emitted_ops_structured, ModFix14.emitted_bts, ModFix11.emit_locals_decls_grouped; producers: CustomsCfg.producers_once) *)
Definition canonical (w : list wsec) : Prop :=
  canonical_order w /\                                                       (* emitter's section order, each kind at most once, imports first *)
  (StronglySorted ModFix3.sig_le (flat_map types_of w) /\ NoDup (flat_map types_of w)) /\   (* types strictly sorted by the type key *)
  (forall we tbl off, In we (flat_map elems_of w) -> wel_kind we = WEK_Active tbl off ->
     tbl = None \/ exists ti, tbl = Some ti /\ ti <> 0%N) /\              (* canonical table index of active elements *)
  (ModFix7.name_payload w = [] \/ ModFix7.name_payload w = [Some (ModFix7.stream_names w)]).   (* at most one name section *)

Theorem emit_canonical : forall cf ver w s ilen e,
  parseM cf ver w = POk s -> emitM (ps_m s) ilen [] = Ok e -> canonical (em_secs e).
Proof.
  intros cf ver w s ilen e HP HE. split; [exact (emit_canonical_order _ _ _ HE)|].
  split; [exact (ModFix3.emitted_types_sorted_distinct _ _ _ _ _ _ HP HE)|].
  split; [exact (ModFix5.emitted_elems_canonical_table _ _ _ HE)|].
  destruct (cf_skip_name cf) eqn:Sk.
  - left. destruct (ModFix7.emitM_name_payload _ _ _ HE) as (s_nm & Hn & Hpay & _).
    rewrite (WV.Proofs.Names.parseM_config _ _ _ _ HP) in Hn. rewrite Sk in Hn. subst s_nm. exact Hpay.
  - exact (proj1 (ModFix7.emitted_names_canonical _ _ _ _ _ _ HP HE Sk)).
Qed.

(* everything about the code section, from validity of the input alone *)
Theorem code_facts : forall cf ver w ilen s1 e1 s2 e2,
  two_trips cf ver w ilen s1 e1 s2 e2 -> valid_stream w ->
  ModFix6.sizes_stable s1 e1 s2 /\
  flat_map code_of (em_secs e2) = flat_map code_of (em_secs e1) /\
  (ModFix5.sg_uses (ps_m s2) <-> ModFix5.sg_uses (ps_m s1)) /\
  (forall S, rho_id s2 e2 S).
Proof.
  intros cf ver w ilen s1 e1 s2 e2 TT V.
  pose proof (params_kept_17 _ _ _ _ _ _ _ _ TT) as PK.
  pose proof (ModFix15.W_holds_V _ _ _ _ _ _ _ _ TT V) as HW.
  pose proof (ModFix17.Lidx_holds_proved _ _ _ _ _ _ _ _ TT V HW PK) as HL.
  pose proof (ModFix17.D_holds_proved _ _ _ _ _ _ _ _ TT V HW PK) as HD.
  destruct (ModFix15.code_fix_15 _ _ _ _ _ _ _ _ TT V HL HD) as (A & B & C & _ & D).
  split; [exact A|]. split; [exact B|]. split; [exact C|exact D].
Qed.

(* R2 *)
Theorem canonical_identity_maps_valid : forall cf ver w ilen s1 e1 s2 e2,
  two_trips cf ver w ilen s1 e1 s2 e2 -> valid_stream w -> forall S, rho_id s2 e2 S.
Proof. intros cf ver w ilen s1 e1 s2 e2 TT V. apply (code_facts _ _ _ _ _ _ _ _ TT V). Qed.

(* R3, code *)
Theorem fix_code : forall cf ver w ilen s1 e1 s2 e2,
  two_trips cf ver w ilen s1 e1 s2 e2 -> valid_stream w ->
  flat_map code_of (em_secs e2) = flat_map code_of (em_secs e1).
Proof. intros cf ver w ilen s1 e1 s2 e2 TT V. apply (code_facts _ _ _ _ _ _ _ _ TT V). Qed.

(* R4.  Visible premises: the validator's guarantees on the input, and for the NAME section: it is skipped, or names are
   not synthesized.  (With synthetic names the statement is FALSE even on valid streams:
   ModFixEx.module_fixpoint_refuted_valid_stream; without validity it is false too: ModFixEx.module_fixpoint_refuted.) *)
Theorem module_fixpoint_partial : forall cf ver w ilen s1 e1 s2 e2,
  parseM cf ver w = POk s1 -> emitM (ps_m s1) ilen [] = Ok e1 ->
  parseM cf ver (em_secs e1) = POk s2 -> emitM (ps_m s2) ilen [] = Ok e2 ->
  valid_stream w ->
  (cf_skip_name cf = true \/ cf_synthetic_names cf = false) ->
  em_secs e2 = em_secs e1.
Proof.
  intros cf ver w ilen s1 e1 s2 e2 P1 E1 P2 E2 V HN.
  assert (TT : two_trips cf ver w ilen s1 e1 s2 e2) by (repeat split; assumption).
  destruct (code_facts _ _ _ _ _ _ _ _ TT V) as (SS & HC & HU & _).
  eapply module_fixpoint_from_body_facts2; try eassumption.
  destruct HN as [Hs|Hsyn]; [left; exact Hs|right].
  pose proof (params_kept_17 _ _ _ _ _ _ _ _ TT) as PK.
  pose proof (ModFix19.locals_struct_holds _ _ _ _ _ _ _ _ TT) as LS.
  split; [exact Hsyn|]. split.
  - eapply ModFix17.locals_identity_proved; eassumption.
  - eapply ModFix17.locals_canon_proved; eassumption.
Qed.

(* without a name section nothing else is needed *)
Corollary module_fixpoint_skip_name : forall cf ver w ilen s1 e1 s2 e2,
  two_trips cf ver w ilen s1 e1 s2 e2 -> valid_stream w -> cf_skip_name cf = true -> em_secs e2 = em_secs e1.
Proof.
  intros cf ver w ilen s1 e1 s2 e2 (P1 & E1 & P2 & E2) V H.
  eapply module_fixpoint_partial; [exact P1|exact E1|exact P2|exact E2|exact V|left; exact H].
Qed.

(* every section other than the name section is reproduced for every valid input and every configuration *)
Theorem module_fixpoint_but_names : forall cf ver w ilen s1 e1 s2 e2,
  two_trips cf ver w ilen s1 e1 s2 e2 -> valid_stream w ->
  ModFix8.name_payload (em_secs e2) = ModFix8.name_payload (em_secs e1) -> em_secs e2 = em_secs e1.
Proof.
  intros cf ver w ilen s1 e1 s2 e2 TT V HN.
  destruct (code_facts _ _ _ _ _ _ _ _ TT V) as (SS & HC & HU & _).
  eapply ModFix9.module_fixpoint_from_body_facts; eassumption.
Qed.

(* totality of the second trip, with what is still unproved as visible premises: the emitted stream satisfies the
   validator's guarantees and its index immediates are in range (ModFix16 proves the section-level part of
   [valid_stream (em_secs e1)] up to element/data offsets; body validity of emitted bodies is ModFix10.emitted_ops_shape) *)
Theorem module_fixpoint_total_partial : forall cf ver ilen (e1 : emitted),
  valid_stream (em_secs e1) ->
  (forall s, parseM cf ver (em_secs e1) = POk s -> TotalityBodies.refs_in_range (em_secs e1) (ps_ids s)) ->
  exists s2 e2, parseM cf ver (em_secs e1) = POk s2 /\ emitM (ps_m s2) ilen [] = Ok e2.
Proof. intros cf ver ilen e1 V R. exact (TotalityBodies.emit_total_after_parse_final_partial' cf ver (em_secs e1) ilen [] V R). Qed.

(* the theorem applies to the example module of ModFixEx (two types, an import, two functions that the emitter reorders,
   a global, an export, a name section): its premises hold there *)
Example module_fixpoint_applies : forall s1 e1 s2 e2,
  two_trips default_config [49%N] ModFixEx.wA ModFixEx.il1 s1 e1 s2 e2 -> em_secs e2 = em_secs e1.
Proof.
  intros s1 e1 s2 e2 (P1 & E1 & P2 & E2).
  eapply module_fixpoint_partial; [exact P1|exact E1|exact P2|exact E2|exact ModFixEx.module_fixpoint_premises_nonvacuous|right; reflexivity].
Qed.

Print Assumptions emit_canonical.
Print Assumptions code_facts.
Print Assumptions canonical_identity_maps_valid.
Print Assumptions fix_code.
Print Assumptions module_fixpoint_partial.
Print Assumptions module_fixpoint_skip_name.
Print Assumptions module_fixpoint_but_names.
Print Assumptions module_fixpoint_total_partial.
Print Assumptions module_fixpoint_applies.
