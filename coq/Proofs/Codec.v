(* T-codec: append_instruction (decode) and Emit::visit_instr (encode), as
   regenerated in Gen/Ops.v, are mutually inverse on every supported operator. *)
From Coq Require Import NArith ZArith List Lia Bool. Import ListNotations. Open Scope N_scope.
From WV Require Import Gen.Ops.

Lemma log2_loop_pow2 : forall a, a < 64 -> log2_loop 64 (N.shiftl 1 a) 0 = a.
Proof.
  intros a H. assert (Hn : (N.to_nat a < 64)%nat) by lia.
  rewrite <- (N2Nat.id a). generalize dependent (N.to_nat a). clear.
  intros n Hn. do 64 (destruct n as [|n]; [vm_compute; reflexivity|]). lia.
Qed.

Lemma shiftl_small a : a < 32 -> N.shiftl 1 a mod 2^32 = N.shiftl 1 a.
Proof. intros H. apply N.mod_small. rewrite N.shiftl_1_l. apply N.pow_lt_mono_r; lia. Qed.

Section Codec.
  Variables i2id id2i rho : space -> N -> N.
  Hypothesis Hrho : forall s i, id2i s (i2id s i) = rho s i.

  Lemma memarg_rt m : wa_align m < 32 -> wa_offset m < 2^32 ->
    enc_memarg id2i (i2id S_memory (wa_memory m))
      {| ia_align := N.shiftl 1 (wa_align m) mod 2^32; ia_offset := wa_offset m mod 2^32 |} = map_memarg rho m.
  Proof.
    intros Ha Ho. unfold enc_memarg, map_memarg. cbn [ia_align ia_offset].
    rewrite shiftl_small by exact Ha. rewrite log2_loop_pow2 by lia. rewrite N.mod_small by exact Ho.
    rewrite Hrho. reflexivity.
  Qed.

  (* what the validator guarantees about immediates (alignment exponent at most
     the natural alignment, hence < 32; ref.null only on func/extern under
     walrus's feature set) *)
  Definition imm_ok (o : wop) : Prop :=
    match op_memarg o with Some m => wa_align m < 32 | None => True end /\
    match o with W_RefNull (HT_Other _) => False | _ => True end.

  (* KNOWN FINDING (known_findings.json, class memarg-offset-ge-2^32): ir::MemArg.offset is
     a u32, so a memory64 offset >= 2^32 is truncated by `arg.offset as u32`. *)
  Definition known_big_offset (o : wop) : Prop :=
    match op_memarg o with Some m => 2^32 <= wa_offset m | None => False end.

  Definition rt_ok (o : wop) : Prop :=
    match decode_plain i2id o with
    | Some p => encode_plain id2i p = Some (map_idx rho o)
    | None => False
    end.

  Ltac solve_arm H K :=
    cbn [decode_plain encode_plain rt_ok imm_ok op_memarg known_big_offset map_idx] in *;
    rewrite ?Hrho;
    first [ reflexivity
          | (destruct H as [Ha _]; rewrite (memarg_rt _ Ha ltac:(lia)); reflexivity)
          | match goal with h : heapty |- _ => destruct h; [reflexivity|reflexivity|destruct H as [_ []]] end ].

  Theorem codec_roundtrip : forall o, imm_ok o -> ~ known_big_offset o -> rt_ok o.
  Proof.
    intros o H K. unfold rt_ok.
    destruct o; solve_arm H K.
  Qed.
End Codec.

(* the excluded class is inhabited and really fails (so the exclusion is a finding, not a convenience) *)
Lemma big_offset_refuted :
  exists o, imm_ok o /\ known_big_offset o /\ ~ rt_ok (fun _ i => i) (fun _ i => i) (fun _ i => i) o.
Proof.
  exists (W_I32Load {| wa_align := 2; wa_offset := 2^32 + 1; wa_memory := 0 |}).
  split; [split; [vm_compute; reflexivity|exact I]|]. split; [vm_compute; discriminate|].
  unfold rt_ok. vm_compute. discriminate.
Qed.

(* non-vacuity: an operator with every kind of immediate satisfies the premises *)
Example codec_nonvacuous :
  let o := W_V128Load8Lane {| wa_align := 0; wa_offset := 4294967295; wa_memory := 3 |} 15 in
  imm_ok o /\ ~ known_big_offset o.
Proof. split; [split; [vm_compute; reflexivity|exact I]|vm_compute]. intros H. apply H. reflexivity. Qed.

(* --- finders used by the search when the proof above no longer goes through --- *)
Definition memarg_samples : list w_memarg :=
  [ {| wa_align := 0; wa_offset := 0; wa_memory := 0 |}; {| wa_align := 1; wa_offset := 1; wa_memory := 1 |} ].
