(* C08, module level, the NAME section: the name section written by the second round trip is the one
   written by the first. *)
From Coq Require Import List NArith ZArith Bool Arith Lia Permutation Sorted.
Import ListNotations.
From WV Require Import Gen.Ops Model.Common Model.IR Model.Arena Model.Traversal Model.EmitFn Model.Locals
                       Model.ParseFn Model.ModuleM Model.ParseM Model.EmitM Gen.Attrs.
From WV Require Import Proofs.Arena Proofs.Order Proofs.IndexMaps Proofs.Structure Proofs.Structure2.
From WV Require Import Proofs.Names Proofs.ModFix.
Local Open Scope nat_scope.

Definition name_payload (w : list wsec) : list (option wnames) :=
  flat_map (fun s => match s with S_Custom (CS_Name n) => [n] | _ => [] end) w.

Lemma np_app a b : name_payload (a ++ b) = name_payload a ++ name_payload b.
Proof. apply flat_map_app. Qed.
Lemma ns_app a b : name_sections (a ++ b) = name_sections a ++ name_sections b.
Proof. apply flat_map_app. Qed.

Lemma np_tagged t l : tagged t l -> name_payload l = [] /\ name_sections l = [].
Proof.
  unfold tagged. induction 1 as [|s l Hs F IH]; [split; reflexivity|].
  destruct IH as [I1 I2]. unfold name_payload, name_sections in *. cbn [flat_map]. rewrite I1, I2.
  destruct s; try (split; reflexivity). discriminate.
Qed.

Lemma np_customs (cs : list (option mcustom)) :
  let l := flat_map (fun c => match c with
                              | Some c => if starts_with_debug (cu_name c) then [] else [S_Custom (CS_Raw (cu_name c) (cu_data c))]
                              | None => [] end) cs in
  name_payload l = [] /\ name_sections l = [].
Proof.
  cbv zeta. induction cs as [|c cs [I1 I2]]; [split; reflexivity|]. cbn [flat_map]. rewrite np_app, ns_app, I1, I2, !app_nil_r.
  destruct c as [c|]; [|split; reflexivity]. destruct (starts_with_debug _); split; reflexivity.
Qed.

(* the only name section of an emitted stream is the one emit_names writes *)
Theorem emitM_name_payload m ilen e : emitM m ilen [] = Ok e ->
  exists s_nm,
    (if cf_skip_name (m_config m) then s_nm = [] else emit_names m (em_x2i e) (em_fns e) = Ok s_nm) /\
    name_payload (em_secs e) = name_payload s_nm /\ name_sections (em_secs e) = name_sections s_nm.
Proof.
  intros H. unfold emitM, set_customs_take in H.
  destruct (emit_types m empty_x2i) as [s_ty x1] eqn:E1.
  rinv H as a2 E2. destruct a2 as [s_im x2].
  rinv H as a3 E3. destruct a3 as [s_fn x3].
  destruct (emit_tables m x3) as [s_tb x4] eqn:E4.
  destruct (emit_memories m x4) as [s_me x5] eqn:E5.
  rinv H as a6 E6. destruct a6 as [s_gl x6].
  rinv H as s_ex E7. rinv H as s_st E8.
  rinv H as a9 E9. destruct a9 as [s_el x9].
  rinv H as a10 E10. destruct a10 as [s_dc x10].
  rinv H as a11 E11. destruct a11 as [[s_co x11] efs].
  rinv H as s_da E12. rinv H as s_nm E13. inversion H; subst e; clear H. cbn [em_x2i em_module em_secs em_fns].
  exists s_nm. split; [destruct (cf_skip_name (m_config m)); [inversion E13; reflexivity|exact E13]|].
  destruct (np_tagged _ _ (emit_types_tag _ _ _ _ E1)) as [A0 B0].
  destruct (np_tagged _ _ (emit_imports_tag _ _ _ _ E2)) as [A1 B1].
  destruct (np_tagged _ _ (emit_func_section_tag _ _ _ _ E3)) as [A2 B2].
  pose proof (emit_tables_tag m x3) as T3. rewrite E4 in T3. cbn [fst] in T3. destruct (np_tagged _ _ T3) as [A3 B3].
  pose proof (emit_memories_tag m x4) as T4. rewrite E5 in T4. cbn [fst] in T4. destruct (np_tagged _ _ T4) as [A4 B4].
  destruct (np_tagged _ _ (emit_globals_tag _ _ _ _ E6)) as [A5 B5].
  destruct (np_tagged _ _ (emit_exports_tag _ _ _ E7)) as [A6 B6].
  destruct (np_tagged _ _ (emit_start_tag _ _ _ E8)) as [A7 B7].
  destruct (np_tagged _ _ (emit_elements_tag _ _ _ _ E9)) as [A8 B8].
  destruct (np_tagged _ _ (emit_data_count_tag _ _ _ _ E10)) as [A9 B9].
  destruct (np_tagged _ _ (emit_code_tag _ _ _ _ _ _ E11)) as [A10 B10].
  destruct (np_tagged _ _ (emit_data_tag _ _ _ E12)) as [A11 B11].
  destruct (np_customs (m_customs m)) as [AC BC]. cbv zeta in AC, BC.
  rewrite !np_app, !ns_app, A0, A1, A2, A3, A4, A5, A6, A7, A8, A9, A10, A11, AC, B0, B1, B2, B3, B4, B5, B6, B7, B8, B9, B10, B11, BC.
  destruct (cf_skip_producers _), (m_producers m), (cf_generate_dwarf _); cbn; rewrite !app_nil_r; split; reflexivity.
Qed.

(* ====================================================================================== *)
(* list facts                                                                               *)
(* ====================================================================================== *)
Lemma lt_sorted_NoDup (l : list N) : StronglySorted N.lt l -> NoDup l.
Proof.
  induction 1 as [|a l S IH F]; constructor; [|exact IH].
  intros Hin. rewrite Forall_forall in F. specialize (F a Hin). lia.
Qed.
Lemma lt_sorted_le {A} (l : list (N * A)) : StronglySorted N.lt (map fst l) ->
  StronglySorted (fun a b => fst a <= fst b)%N l.
Proof.
  induction l as [|a l IH]; intros H; [constructor|]. cbn [map] in H. inversion H; subst. constructor; [auto|].
  rewrite Forall_forall in *. intros b Hb. assert (fst a < fst b)%N by (apply H3, in_map, Hb). lia.
Qed.
Lemma dedupe_last_id (l : namemap) : NoDup (map fst l) -> dedupe_last l = l.
Proof.
  induction l as [|[i n] r IH]; intros ND; [reflexivity|]. cbn [map fst] in ND. inversion ND; subst. cbn [dedupe_last].
  destruct (existsb (fun p => N.eqb (fst p) i) r) eqn:Ee; [apply existsb_fst in Ee; contradiction|].
  rewrite IH by assumption. reflexivity.
Qed.
Lemma filter_all {A} (f : A -> bool) (l : list A) : (forall x, In x l -> f x = true) -> filter f l = l.
Proof.
  induction l as [|a l IH]; intros H; [reflexivity|]. cbn [filter]. rewrite (H a) by (left; reflexivity).
  rewrite IH; [reflexivity|]. intros x Hx. apply H. right. exact Hx.
Qed.

(* a strictly sorted map whose indices are all below n *)
Definition canon (n : nat) (l : namemap) : Prop :=
  StronglySorted N.lt (map fst l) /\ forall i, In i (map fst l) -> N.to_nat i < n.

Lemma canon_fixed n l : canon n l -> sort_nm (filter (fun p => N.to_nat (fst p) <? n) (dedupe_last l)) = l.
Proof.
  intros [S R]. rewrite dedupe_last_id by (apply lt_sorted_NoDup, S).
  rewrite filter_all; [apply sort_nm_id, lt_sorted_le, S|].
  intros p Hp. apply Nat.ltb_lt, R, in_map, Hp.
Qed.

(* one kind, identity renumbering: a canonical input map comes out unchanged *)
Lemma kind_rt_fixed x S n l out : kind_rt x S n l out -> wf_map (space_map x S) ->
  (forall i, N.to_nat i < n -> get_idx x S i = Ok i) -> canon n l -> out = l.
Proof.
  intros K W Hid C. destruct (kind_rt_id _ _ _ _ _ K W Hid) as [E _]. rewrite E. apply canon_fixed, C.
Qed.

(* ====================================================================================== *)
(* the round trip of Proofs/Names.v, with the section identified by emit_names              *)
(* ====================================================================================== *)
Theorem names_roundtrip_s : forall cf ver w s ilen e,
  parseM cf ver w = POk s -> emitM (ps_m s) ilen [] = Ok e -> cf_skip_name cf = false ->
  let ids := ps_ids s in let x := em_x2i e in let ns := name_sections w in
  exists s_nm,
    emit_names (ps_m s) x (em_fns e) = Ok s_nm /\
    name_payload (em_secs e) = name_payload s_nm /\ name_sections (em_secs e) = name_sections s_nm /\
    (s_nm = [] \/ s_nm = [S_Custom (CS_Name (Some (names_of s_nm)))]) /\
    let out := names_of s_nm in
    wn_module out = last_module_name ns /\
    (cf_synthetic_names cf = false ->
       kind_rt x S_func (length (ii_funcs ids)) (flat_map wn_funcs ns) (wn_funcs out)) /\
    kind_rt x S_table (length (ii_tables ids)) (flat_map wn_tables ns) (wn_tables out) /\
    kind_rt x S_memory (length (ii_memories ids)) (flat_map wn_mems ns) (wn_mems out) /\
    kind_rt x S_global (length (ii_globals ids)) (flat_map wn_globals ns) (wn_globals out) /\
    kind_rt x S_elem (length (ii_elements ids)) (flat_map wn_elems ns) (wn_elems out) /\
    kind_rt x S_data (length (ii_data ids)) (flat_map wn_data ns) (wn_data out).
Proof.
  intros cf ver w s ilen e HP HE Hskip. cbv zeta.
  pose proof (parseM_config _ _ _ _ HP) as Hcf. rewrite <- Hcf in Hskip |- *.
  destruct (parseM_names_structure _ _ _ _ HP) as (m0 & I0 & U0 & Em).
  destruct (emitM_name_payload _ _ _ HE) as (s_nm & Hn & Hpay & Hsec). rewrite Hskip in Hn.
  pose proof Hn as Hn0.
  apply emit_names_fields in Hn. destruct Hn as (Nm & Nf & Nty & Ntb & Nme & Ngl & Nel & Nda & Hshape).
  exists s_nm. split; [exact Hn0|]. split; [exact Hpay|]. split; [exact Hsec|]. split; [exact Hshape|]. clear Hn0 Hpay Hsec.
  set (M := parse_all_names (ps_ids s) (name_sections w) m0) in *.
  assert (Ef : m_funcs (ps_m s) = m_funcs M) by (rewrite Em; reflexivity).
  assert (Etb : m_tables (ps_m s) = m_tables M) by (rewrite Em; reflexivity).
  assert (Eme : m_memories (ps_m s) = m_memories M) by (rewrite Em; reflexivity).
  assert (Egl : m_globals (ps_m s) = m_globals M) by (rewrite Em; reflexivity).
  assert (Eel : m_elements (ps_m s) = m_elements M) by (rewrite Em; reflexivity).
  assert (Eda : m_data (ps_m s) = m_data M) by (rewrite Em; reflexivity).
  assert (Enm : m_name (ps_m s) = m_name M) by (rewrite Em; reflexivity).
  assert (Ecf : m_config (ps_m s) = m_config m0) by (rewrite Em; subst M; wcbn; apply all_names_config).
  rewrite Ef in Nf. rewrite Etb in Ntb. rewrite Eme in Nme. rewrite Egl in Ngl. rewrite Eel in Nel. rewrite Eda in Nda.
  rewrite Enm in Nm. rewrite Ecf. clear Ef Etb Eme Egl Eel Eda Enm Ecf Em.
  subst M. rewrite all_names_funcs in Nf. rewrite all_names_tables in Ntb. rewrite all_names_memories in Nme.
  rewrite all_names_globals in Ngl. rewrite all_names_elements in Nel. rewrite all_names_data in Nda.
  rewrite all_names_name in Nm.
  unfold ids_consistent in I0. decompose [and] I0. clear I0. unfold unnamed in U0. decompose [and] U0. clear U0.
  split; [|split; [|split; [|split; [|split; [|split]]]]].
  - rewrite Nm. match goal with Hx : m_name m0 = None |- _ => rewrite Hx end. destruct (last_module_name (name_sections w)); reflexivity.
  - intros Hsyn. eapply (kind_compose set_fn_name fn_name set_fn_name_idem (fun _ _ => eq_refl)); eauto.
  - eapply (kind_compose set_tb_name tb_name set_tb_name_idem (fun _ _ => eq_refl)); eauto.
  - eapply (kind_compose set_me_name me_name set_me_name_idem (fun _ _ => eq_refl)); eauto.
  - eapply (kind_compose set_gl_name gl_name set_gl_name_idem (fun _ _ => eq_refl)); eauto.
  - eapply (kind_compose set_el_name el_name set_el_name_idem (fun _ _ => eq_refl)); eauto.
  - eapply (kind_compose set_da_name da_name set_da_name_idem (fun _ _ => eq_refl)); eauto.
Qed.

(* ====================================================================================== *)
(* M1. the name maps of an emitted stream are canonical                                     *)
(* ====================================================================================== *)
Lemma named_canon {A} x S (getn : A -> option nstr) l r : named x S getn l = Ok r ->
  wf_map (space_map x S) -> NoDup (map fst l) -> canon (length (space_map x S)) r.
Proof.
  intros H W ND. destruct (named_spec _ _ _ _ _ H) as (M & _ & _ & SS). split; [apply SS; assumption|].
  intros i Hi. apply in_map_iff in Hi. destruct Hi as [[j nm] [<- Hin]]. cbn [fst].
  apply M in Hin. destruct Hin as (id & a & _ & _ & Hg). apply (x2i_positions _ _ _ _ W) in Hg.
  assert (Hs : nth_error (map fst (space_map x S)) (N.to_nat j) <> None) by congruence.
  apply nth_error_Some in Hs. rewrite map_length in Hs. exact Hs.
Qed.
Lemma canon_mono n n' l : n <= n' -> canon n l -> canon n' l.
Proof. intros L [S R]. split; [exact S|]. intros i Hi. specialize (R i Hi). lia. Qed.

(* all index-keyed maps of a name section are strictly sorted, with indices that exist in the emitted index spaces *)
Definition names_canon (x : x2i) (n : wnames) : Prop :=
  canon (length (space_map x S_func)) (wn_funcs n) /\ canon (length (space_map x S_type)) (wn_types n) /\
  canon (length (space_map x S_table)) (wn_tables n) /\ canon (length (space_map x S_memory)) (wn_mems n) /\
  canon (length (space_map x S_global)) (wn_globals n) /\ canon (length (space_map x S_elem)) (wn_elems n) /\
  canon (length (space_map x S_data)) (wn_data n).

Theorem emitted_names_canonical_s : forall cf ver w s ilen e,
  parseM cf ver w = POk s -> emitM (ps_m s) ilen [] = Ok e -> cf_skip_name cf = false ->
  exists s_nm,
    emit_names (ps_m s) (em_x2i e) (em_fns e) = Ok s_nm /\
    name_payload (em_secs e) = name_payload s_nm /\ name_sections (em_secs e) = name_sections s_nm /\
    (s_nm = [] \/ s_nm = [S_Custom (CS_Name (Some (names_of s_nm)))]) /\
    names_canon (em_x2i e) (names_of s_nm).
Proof.
  intros cf ver w s ilen e HP HE Hskip.
  pose proof (parseM_config _ _ _ _ HP) as Hcf. rewrite <- Hcf in Hskip.
  destruct (emitM_name_payload _ _ _ HE) as (s_nm & Hn & Hpay & Hsec). rewrite Hskip in Hn.
  exists s_nm. split; [exact Hn|]. split; [exact Hpay|]. split; [exact Hsec|].
  apply emit_names_fields in Hn. destruct Hn as (Nm & Nf & Nty & Ntb & Nme & Ngl & Nel & Nda & Hshape).
  split; [exact Hshape|].
  destruct (parsed_wf_maps _ _ _ _ _ _ _ HP HE) as (Wt & Wm & Wg).
  pose proof (parsed_wf_funcs _ _ _ _ _ _ _ HP HE) as Wf.
  destruct (rho_elements_data_id _ _ _ _ _ _ _ HP HE) as (We & Wd & _ & _).
  destruct (emit_order_types _ _ _ _ HE) as [_ Wty].
  change (live_types (ps_m s)) with (aiter (Arena.arena (m_types (ps_m s)))) in Nty.
  unfold names_canon. repeat split.
  - apply (named_canon _ _ _ _ _ Nf Wf), aiter_NoDup.
  - apply (named_canon _ _ _ _ _ Nf Wf), aiter_NoDup.
  - apply (named_canon _ _ _ _ _ Nty Wty), aiter_NoDup.
  - apply (named_canon _ _ _ _ _ Nty Wty), aiter_NoDup.
  - apply (named_canon _ _ _ _ _ Ntb Wt), aiter_NoDup.
  - apply (named_canon _ _ _ _ _ Ntb Wt), aiter_NoDup.
  - apply (named_canon _ _ _ _ _ Nme Wm), aiter_NoDup.
  - apply (named_canon _ _ _ _ _ Nme Wm), aiter_NoDup.
  - apply (named_canon _ _ _ _ _ Ngl Wg), aiter_NoDup.
  - apply (named_canon _ _ _ _ _ Ngl Wg), aiter_NoDup.
  - apply (named_canon _ _ _ _ _ Nel We), aiter_NoDup.
  - apply (named_canon _ _ _ _ _ Nel We), aiter_NoDup.
  - apply (named_canon _ _ _ _ _ Nda Wd), aiter_NoDup.
  - apply (named_canon _ _ _ _ _ Nda Wd), aiter_NoDup.
Qed.

(* the names an emitted stream carries (empty when it has no name section) *)
Definition stream_names (w : list wsec) : wnames :=
  match name_payload w with [Some n] => n | _ => empty_names end.

Lemma stream_names_of w s_nm : name_payload w = name_payload s_nm ->
  (s_nm = [] \/ s_nm = [S_Custom (CS_Name (Some (names_of s_nm)))]) -> stream_names w = names_of s_nm.
Proof.
  intros E Hs. unfold stream_names. rewrite E. destruct Hs as [->|Hs]; [reflexivity|].
  rewrite Hs at 1. reflexivity.
Qed.
Lemma sections_of s_nm : (s_nm = [] \/ s_nm = [S_Custom (CS_Name (Some (names_of s_nm)))]) ->
  forall {A} (g : wnames -> list A), g empty_names = [] -> flat_map g (name_sections s_nm) = g (names_of s_nm).
Proof.
  intros Hs A g Hg. destruct Hs as [->|Hs]; [cbn; auto|]. rewrite Hs at 1. cbn. apply app_nil_r.
Qed.

Theorem emitted_names_canonical : forall cf ver w s ilen e,
  parseM cf ver w = POk s -> emitM (ps_m s) ilen [] = Ok e -> cf_skip_name cf = false ->
  (name_payload (em_secs e) = [] \/ name_payload (em_secs e) = [Some (stream_names (em_secs e))]) /\
  names_canon (em_x2i e) (stream_names (em_secs e)).
Proof.
  intros cf ver w s ilen e HP HE Hskip.
  destruct (emitted_names_canonical_s _ _ _ _ _ _ HP HE Hskip) as (s_nm & _ & Hpay & _ & Hs & C).
  rewrite (stream_names_of _ _ Hpay Hs). split; [|exact C]. rewrite Hpay.
  destruct Hs as [->|Hs]; [left; reflexivity|right]. rewrite Hs at 1. reflexivity.
Qed.

(* ====================================================================================== *)
(* M2. the second round trip, kind by kind                                                  *)
(* ====================================================================================== *)
(* every index the first emit assigned is an input index of the second parse *)
Definition counts_kept (e1 : emitted) (s2 : pst) : Prop :=
  forall S, length (space_map (em_x2i e1) S) <= length (ids_space (ps_ids s2) S).

Lemma rho_id_get cf ver w s e S : parseM cf ver w = POk s -> S <> S_type -> S <> S_local -> rho_id s e S ->
  forall i, N.to_nat i < length (ids_space (ps_ids s) S) -> get_idx (em_x2i e) S i = Ok i.
Proof.
  intros HP HT HL H i Hi. specialize (H i Hi). unfold Structure.rho in H.
  pose proof (parseM_ids _ _ _ _ HP) as I. unfold ids_consistent in I. decompose [and] I. clear I.
  assert (E : exists n, ids_space (ps_ids s) S = iota n) by (destruct S; cbn [ids_space]; try congruence; eauto).
  destruct E as [n E]. rewrite E in H, Hi. rewrite iota_length in Hi. rewrite (iota_nth _ _ Hi), N2Nat.id in H. exact H.
Qed.

Theorem fix_names_fields : forall cf ver w ilen s1 e1 s2 e2,
  two_trips cf ver w ilen s1 e1 s2 e2 -> cf_skip_name cf = false -> counts_kept e1 s2 ->
  let n1 := stream_names (em_secs e1) in let n2 := stream_names (em_secs e2) in
  exists s_nm1 s_nm2,
    emit_names (ps_m s1) (em_x2i e1) (em_fns e1) = Ok s_nm1 /\ emit_names (ps_m s2) (em_x2i e2) (em_fns e2) = Ok s_nm2 /\
    name_payload (em_secs e1) = name_payload s_nm1 /\ name_payload (em_secs e2) = name_payload s_nm2 /\
    (s_nm1 = [] \/ s_nm1 = [S_Custom (CS_Name (Some n1))]) /\ (s_nm2 = [] \/ s_nm2 = [S_Custom (CS_Name (Some n2))]) /\
    n1 = names_of s_nm1 /\ n2 = names_of s_nm2 /\ name_sections (em_secs e1) = name_sections s_nm1 /\
    names_canon (em_x2i e1) n1 /\
    wn_module n2 = wn_module n1 /\
    (cf_synthetic_names cf = false -> rho_id s2 e2 S_func -> wn_funcs n2 = wn_funcs n1) /\
    (rho_id s2 e2 S_table -> wn_tables n2 = wn_tables n1) /\
    (rho_id s2 e2 S_memory -> wn_mems n2 = wn_mems n1) /\
    (rho_id s2 e2 S_global -> wn_globals n2 = wn_globals n1) /\
    (rho_id s2 e2 S_elem -> wn_elems n2 = wn_elems n1) /\
    (rho_id s2 e2 S_data -> wn_data n2 = wn_data n1).
Proof.
  intros cf ver w ilen s1 e1 s2 e2 (HP1 & HE1 & HP2 & HE2) Hskip HC. cbv zeta.
  destruct (emitted_names_canonical_s _ _ _ _ _ _ HP1 HE1 Hskip) as (s_nm1 & En1 & Hpay1 & Hsec1 & Hs1 & C1).
  destruct (names_roundtrip_s _ _ _ _ _ _ HP2 HE2 Hskip) as (s_nm2 & En2 & Hpay2 & _ & Hs2 & R).
  cbv zeta in R. rewrite Hsec1 in R.
  rewrite !(sections_of _ Hs1) in R by reflexivity.
  rewrite (stream_names_of _ _ Hpay1 Hs1), (stream_names_of _ _ Hpay2 Hs2).
  exists s_nm1, s_nm2. do 10 (split; [assumption || reflexivity|]).
  destruct R as (Rm & Rf & Rt & Rme & Rg & Re & Rd).
  destruct C1 as (Cf & Cty & Ct & Cme & Cg & Ce & Cd).
  destruct (parsed_wf_maps _ _ _ _ _ _ _ HP2 HE2) as (Wt & Wm & Wg).
  pose proof (parsed_wf_funcs _ _ _ _ _ _ _ HP2 HE2) as Wf.
  destruct (rho_elements_data_id _ _ _ _ _ _ _ HP2 HE2) as (We & Wd & _ & _).
  split; [|split; [|split; [|split; [|split; [|split]]]]].
  - rewrite Rm. destruct Hs1 as [->|Hs1]; [reflexivity|]. rewrite Hs1 at 1. cbn. destruct (wn_module _); reflexivity.
  - intros Hsyn H. apply (kind_rt_fixed _ _ _ _ _ (Rf Hsyn) Wf).
    + apply (rho_id_get _ _ _ _ _ S_func HP2); [discriminate|discriminate|exact H].
    + eapply canon_mono; [apply (HC S_func)|exact Cf].
  - intros H. apply (kind_rt_fixed _ _ _ _ _ Rt Wt).
    + apply (rho_id_get _ _ _ _ _ S_table HP2); [discriminate|discriminate|exact H].
    + eapply canon_mono; [apply (HC S_table)|exact Ct].
  - intros H. apply (kind_rt_fixed _ _ _ _ _ Rme Wm).
    + apply (rho_id_get _ _ _ _ _ S_memory HP2); [discriminate|discriminate|exact H].
    + eapply canon_mono; [apply (HC S_memory)|exact Cme].
  - intros H. apply (kind_rt_fixed _ _ _ _ _ Rg Wg).
    + apply (rho_id_get _ _ _ _ _ S_global HP2); [discriminate|discriminate|exact H].
    + eapply canon_mono; [apply (HC S_global)|exact Cg].
  - intros H. apply (kind_rt_fixed _ _ _ _ _ Re We).
    + apply (rho_id_get _ _ _ _ _ S_elem HP2); [discriminate|discriminate|exact H].
    + eapply canon_mono; [apply (HC S_elem)|exact Ce].
  - intros H. apply (kind_rt_fixed _ _ _ _ _ Rd Wd).
    + apply (rho_id_get _ _ _ _ _ S_data HP2); [discriminate|discriminate|exact H].
    + eapply canon_mono; [apply (HC S_data)|exact Cd].
Qed.

(* ====================================================================================== *)
(* types                                                                                    *)
(* ====================================================================================== *)
Lemma sorted_ext (l l' : namemap) : StronglySorted N.lt (map fst l) -> StronglySorted N.lt (map fst l') ->
  (forall p, In p l <-> In p l') -> l = l'.
Proof.
  revert l'. induction l as [|a l IH]; intros [|b l'] S S' H.
  - reflexivity.
  - exfalso. apply (proj2 (H b)). left; reflexivity.
  - exfalso. apply (proj1 (H a)). left; reflexivity.
  - cbn [map] in S, S'. inversion S as [|? ? Sl Fl]; subst. inversion S' as [|? ? Sl' Fl']; subst.
    rewrite Forall_forall in Fl, Fl'.
    assert (Eab : a = b).
    { destruct (proj1 (H a) (or_introl eq_refl)) as [E|Ha]; [congruence|].
      destruct (proj2 (H b) (or_introl eq_refl)) as [E|Hb]; [congruence|].
      pose proof (Fl' _ (in_map fst _ _ Ha)). pose proof (Fl _ (in_map fst _ _ Hb)). lia. }
    subst b. f_equal. apply IH; [exact Sl|exact Sl'|]. intros p. split; intros Hp.
    + destruct (proj1 (H p) (or_intror Hp)) as [E|Hq]; [|exact Hq]. subst p.
      pose proof (Fl _ (in_map fst _ _ Hp)). lia.
    + destruct (proj2 (H p) (or_intror Hp)) as [E|Hq]; [|exact Hq]. subst p.
      pose proof (Fl' _ (in_map fst _ _ Hp)). lia.
Qed.

Lemma last_for_in idx : forall l id nm, last_for idx l id = Some nm -> exists i, In (i, nm) l /\ nth_N idx i = Some id.
Proof.
  induction l as [|[i n] r IH]; intros id nm H; cbn [last_for] in H; [discriminate|].
  destruct (last_for idx r id) as [y|] eqn:El.
  - inversion H; subst y. destruct (IH _ _ El) as (i' & Hi & Hn). exists i'. split; [right; exact Hi|exact Hn].
  - destruct (nth_N idx i) as [id'|] eqn:En; [|discriminate]. destruct (N.eqb_spec id' id) as [->|]; [|discriminate].
    inversion H; subst. exists i. split; [left; reflexivity|exact En].
Qed.
Lemma last_for_complete idx : forall l, NoDup (map fst l) ->
  (forall i i' id, In i (map fst l) -> In i' (map fst l) -> nth_N idx i = Some id -> nth_N idx i' = Some id -> i = i') ->
  forall i nm id, In (i, nm) l -> nth_N idx i = Some id -> last_for idx l id = Some nm.
Proof.
  induction l as [|[i0 n0] r IH]; intros ND Inj i nm id Hin Hn; [destruct Hin|]. cbn [map fst] in ND. inversion ND; subst.
  cbn [last_for]. destruct Hin as [E|Hin].
  - inversion E; subst i0 n0. destruct (last_for idx r id) as [y|] eqn:El.
    + exfalso. destruct (last_for_in _ _ _ _ El) as (i' & Hi' & Hn').
      assert (i = i').
      { apply (Inj i i' id); [left; reflexivity|right; apply (in_map fst _ _ Hi')|exact Hn|exact Hn']. }
      subst i'. apply H1. apply (in_map fst _ _ Hi').
    + rewrite Hn, N.eqb_refl. reflexivity.
  - rewrite (IH H2) with (i := i) (nm := nm); [reflexivity| |exact Hin|exact Hn].
    intros a b c Ha Hb. apply Inj; right; assumption.
Qed.

Lemma types_fixed idx x T (l out : namemap) :
  (forall j nm, In (j, nm) out <->
     exists id, N.to_nat id < T /\ last_for idx l id = Some nm /\ get_idx x S_type id = Ok j) ->
  StronglySorted N.lt (map fst out) -> canon (length idx) l ->
  (forall i, N.to_nat i < length idx -> exists id, nth_N idx i = Some id /\ get_idx x S_type id = Ok i /\ N.to_nat id < T) ->
  out = l.
Proof.
  intros M So [Sl Rl] Hid.
  assert (Inj : forall i i' id, In i (map fst l) -> In i' (map fst l) -> nth_N idx i = Some id -> nth_N idx i' = Some id -> i = i').
  { intros i i' id Hi Hi' Hn Hn'. destruct (Hid i (Rl i Hi)) as (a & Ha & Ga & _). destruct (Hid i' (Rl i' Hi')) as (b & Hb & Gb & _).
    assert (a = id) by congruence. assert (b = id) by congruence. subst a b. congruence. }
  apply sorted_ext; [exact So|exact Sl|]. intros [j nm]. rewrite M. split.
  - intros (id & _ & Hl & Hg). destruct (last_for_in _ _ _ _ Hl) as (i & Hin & Hn).
    destruct (Hid i (Rl i (in_map fst _ _ Hin))) as (a & Ha & Ga & _). assert (a = id) by congruence. subst a.
    assert (i = j) by congruence. subst i. exact Hin.
  - intros Hin. destruct (Hid j (Rl j (in_map fst _ _ Hin))) as (id & Hn & Hg & HT). exists id.
    split; [exact HT|]. split; [|exact Hg].
    apply (last_for_complete idx l (lt_sorted_NoDup _ Sl) Inj j nm id Hin Hn).
Qed.

(* the types part of Proofs/Names.v names_roundtrip_types, for the section emit_names writes *)
Theorem names_roundtrip_types_s : forall cf ver w s ilen e s_nm,
  parseM cf ver w = POk s -> emitM (ps_m s) ilen [] = Ok e -> emit_names (ps_m s) (em_x2i e) (em_fns e) = Ok s_nm ->
  let ids := ps_ids s in let x := em_x2i e in let l := flat_map wn_types (name_sections w) in
    let out := wn_types (names_of s_nm) in
    (forall j nm, In (j, nm) out <->
       exists id, N.to_nat id < length (items (Arena.arena (m_types (ps_m s)))) /\
                  last_for (ii_types ids) l id = Some nm /\ get_idx x S_type id = Ok j) /\
    StronglySorted N.lt (map fst out).
Proof.
  intros cf ver w s ilen e s_nm HP HE Hn. cbv zeta.
  destruct (parseM_names_structure _ _ _ _ HP) as (m0 & I0 & U0 & Em).
  apply emit_names_fields in Hn. destruct Hn as (_ & _ & Nty & _ & _ & _ & _ & _ & Hshape).
  change (live_types (ps_m s)) with (aiter (Arena.arena (m_types (ps_m s)))) in Nty.
  assert (Ety : Arena.arena (m_types (ps_m s)) =
                apply_names (Arena.arena (m_types m0)) (ii_types (ps_ids s)) set_type_name
                            (flat_map wn_types (name_sections w))).
  { rewrite Em. wcbn. apply all_names_types. }
  rewrite Ety in *. clear Ety Em.
  rewrite (proj1 (apply_names_shape set_type_name _ _ _)).
  assert (D : dead (Arena.arena (m_types m0)) = []) by (unfold ids_consistent in I0; tauto).
  assert (F : Forall (fun t => ty_name t = None) (items (Arena.arena (m_types m0)))) by (unfold unnamed in U0; tauto).
  destruct (named_spec _ _ _ _ _ Nty) as (M & _ & Tot & SS).
  pose proof (fun id nm => aiter_named_iff_gen set_type_name ty_name set_type_name_idem (fun _ _ => eq_refl)
                             (Arena.arena (m_types m0)) (ii_types (ps_ids s))
                             (flat_map wn_types (name_sections w)) id nm D F) as K.
  split.
  - intros j nm. rewrite M. split.
    + intros (id & v & Hin & Hg & Hi). exists id. destruct (proj1 (K id nm)) as [H1 H2]; [eauto|]. auto.
    + intros (id & Hlt & Hl & Hi). destruct (proj2 (K id nm)) as [v [Hin Hg]]; [auto|]. eauto.
  - apply SS; [|apply aiter_NoDup]. destruct (emit_order_types _ _ _ _ HE) as [_ W]. exact W.
Qed.

Theorem fix_names_types : forall cf ver w ilen s1 e1 s2 e2,
  two_trips cf ver w ilen s1 e1 s2 e2 -> cf_skip_name cf = false -> counts_kept e1 s2 -> rho_id s2 e2 S_type ->
  wn_types (stream_names (em_secs e2)) = wn_types (stream_names (em_secs e1)).
Proof.
  intros cf ver w ilen s1 e1 s2 e2 TT Hskip HC Hty.
  destruct (fix_names_fields _ _ _ _ _ _ _ _ TT Hskip HC) as (s_nm1 & s_nm2 & En1 & En2 & Hp1 & Hp2 & Hs1 & Hs2 & N1 & N2 & Hsec1 & C1 & _).
  cbv zeta in *. destruct TT as (HP1 & HE1 & HP2 & HE2).
  destruct (names_roundtrip_types_s _ _ _ _ _ _ _ HP2 HE2 En2) as [M So]. cbv zeta in M, So.
  rewrite Hsec1 in M. rewrite N2.
  assert (Hs1' : s_nm1 = [] \/ s_nm1 = [S_Custom (CS_Name (Some (names_of s_nm1)))]) by (rewrite <- N1; exact Hs1).
  rewrite (sections_of _ Hs1' wn_types eq_refl), <- N1 in M.
  destruct C1 as (_ & Cty & _).
  destruct (parseM_sigs _ _ _ _ HP2) as [[TL TI] _].
  eapply types_fixed; [exact M|exact So|eapply canon_mono; [apply (HC S_type)|exact Cty]|].
  intros i Hi. pose proof (Hty i Hi) as R. unfold Structure.rho in R. cbn [ids_space] in R.
  destruct (nth_error (ii_types (ps_ids s2)) (N.to_nat i)) as [id|] eqn:En; [|discriminate].
  exists id. split; [exact En|]. split; [exact R|].
  destruct (nth_error (flat_map types_of (em_secs e1)) (N.to_nat i)) as [t|] eqn:Et; [|apply nth_error_None in Et; lia].
  destruct (TI _ _ Et) as (id' & ty & H1 & H2 & _). assert (id' = id) by congruence. subst id'.
  apply nth_error_Some. congruence.
Qed.

(* ====================================================================================== *)
(* M4. the whole section, presence included                                                 *)
(* ====================================================================================== *)
Lemma emit_names_nonempty m x efs secs : emit_names m x efs = Ok secs -> names_of secs = empty_names -> secs = [].
Proof.
  unfold emit_names. intros H.
  rinv H as funcs E1. rinv H as locals E2. rinv H as types E3. rinv H as tables E4. rinv H as mems E5.
  rinv H as globals E6. rinv H as elems E7. rinv H as data E8.
  destruct (m_name m); [inversion H; subst; cbn; discriminate|].
  destruct funcs; [|inversion H; subst; cbn; discriminate].
  destruct (sort_nm (concat locals)); [|inversion H; subst; cbn; discriminate].
  destruct types; [|inversion H; subst; cbn; discriminate].
  destruct tables; [|inversion H; subst; cbn; discriminate].
  destruct mems; [|inversion H; subst; cbn; discriminate].
  destruct globals; [|inversion H; subst; cbn; discriminate].
  destruct elems; [|inversion H; subst; cbn; discriminate].
  destruct data; inversion H; subst; cbn; [reflexivity|discriminate].
Qed.

Lemma emit_names_same m x efs s m' x' efs' s' : emit_names m x efs = Ok s -> emit_names m' x' efs' = Ok s' ->
  names_of s = names_of s' -> s = s'.
Proof.
  intros H H' E.
  pose proof (emit_names_fields _ _ _ _ H) as (_ & _ & _ & _ & _ & _ & _ & _ & Hs).
  pose proof (emit_names_fields _ _ _ _ H') as (_ & _ & _ & _ & _ & _ & _ & _ & Hs').
  destruct Hs as [->|Hs].
  - symmetry. apply (emit_names_nonempty _ _ _ _ H'). rewrite <- E. reflexivity.
  - destruct Hs' as [->|Hs'].
    + apply (emit_names_nonempty _ _ _ _ H). rewrite E. reflexivity.
    + rewrite Hs, Hs', E. reflexivity.
Qed.

Lemma wnames_eq (a b : wnames) : wn_module a = wn_module b -> wn_funcs a = wn_funcs b -> wn_locals a = wn_locals b ->
  wn_types a = wn_types b -> wn_tables a = wn_tables b -> wn_mems a = wn_mems b -> wn_globals a = wn_globals b ->
  wn_elems a = wn_elems b -> wn_data a = wn_data b -> a = b.
Proof. destruct a, b; cbn. intros; subst; reflexivity. Qed.

(* fix_names, with the local-name maps as a premise *)
Theorem fix_names_partial : forall cf ver w ilen s1 e1 s2 e2,
  two_trips cf ver w ilen s1 e1 s2 e2 -> cf_skip_name cf = false -> cf_synthetic_names cf = false -> counts_kept e1 s2 ->
  rho_id s2 e2 S_func -> rho_id s2 e2 S_type -> rho_id s2 e2 S_table -> rho_id s2 e2 S_memory -> rho_id s2 e2 S_global ->
  rho_id s2 e2 S_elem -> rho_id s2 e2 S_data ->
  wn_locals (stream_names (em_secs e2)) = wn_locals (stream_names (em_secs e1)) ->
  name_payload (em_secs e2) = name_payload (em_secs e1).
Proof.
  intros cf ver w ilen s1 e1 s2 e2 TT Hskip Hsyn HC Hf Hty Ht Hm Hg He Hd Hloc.
  pose proof (fix_names_types _ _ _ _ _ _ _ _ TT Hskip HC Hty) as Ety.
  destruct (fix_names_fields _ _ _ _ _ _ _ _ TT Hskip HC) as (s_nm1 & s_nm2 & En1 & En2 & Hp1 & Hp2 & Hs1 & Hs2 & N1 & N2 & Hsec1 & C1 & Em & Ef & Et & Eme & Eg & Ee & Ed).
  cbv zeta in *.
  assert (E : stream_names (em_secs e2) = stream_names (em_secs e1)).
  { apply wnames_eq; auto. }
  rewrite Hp1, Hp2. f_equal. apply (emit_names_same _ _ _ _ _ _ _ _ En2 En1). rewrite <- N1, <- N2. exact E.
Qed.

(* ====================================================================================== *)
(* the premise counts_kept from the sizes of the index spaces                               *)
(* ====================================================================================== *)
From WV Require Import Proofs.Renumbering.

Lemma types_of_tagged k l : tagged k l -> k <> 0 -> flat_map types_of l = [].
Proof.
  unfold tagged. induction 1 as [|s l Hs F IH]; intros Hk; [reflexivity|]. cbn [flat_map]. rewrite (IH Hk).
  destruct s; try reflexivity. cbn in Hs. congruence.
Qed.
Lemma types_of_untagged l : (forall s, In s l -> sec_tag s = None) -> flat_map types_of l = [].
Proof.
  induction l as [|s l IH]; intros H; [reflexivity|]. cbn [flat_map]. rewrite IH by (intros; apply H; right; assumption).
  specialize (H s (or_introl eq_refl)). destruct s; try reflexivity. discriminate.
Qed.

(* the type section of an emitted stream has one entry per emitted type index *)
Lemma emitted_types_count m ilen e : emitM m ilen [] = Ok e ->
  length (flat_map types_of (em_secs e)) = length (space_map (em_x2i e) S_type).
Proof.
  intros HE. destruct (emit_order_types _ _ _ _ HE) as [Hx _]. cbn [space_map].
  rewrite <- (map_length fst (xi_types (em_x2i e))), Hx, map_length.
  emitM_parts2 HE.
  assert (Rn : forall s, In s rest -> sec_tag s = None).
  { intros s Hs. destruct (Erest s Hs) as [H|[]]. exact H. }
  rewrite Esecs, !flat_map_app.
  rewrite (types_of_tagged _ _ (emit_imports_tag _ _ _ _ Eim)) by discriminate.
  rewrite (types_of_tagged _ _ (emit_func_section_tag _ _ _ _ Efn)) by discriminate.
  rewrite (types_of_tagged _ _ (emit_tables_tag m x3)) by discriminate.
  rewrite (types_of_tagged _ _ (emit_memories_tag m x4)) by discriminate.
  rewrite (types_of_tagged _ _ (emit_globals_tag _ _ _ _ Egl)) by discriminate.
  rewrite (types_of_tagged _ _ (emit_exports_tag _ _ _ Eex)) by discriminate.
  rewrite (types_of_tagged _ _ (emit_start_tag _ _ _ Est)) by discriminate.
  rewrite (types_of_tagged _ _ (emit_elements_tag _ _ _ _ Eel)) by discriminate.
  rewrite (types_of_tagged _ _ (emit_data_count_tag _ _ _ _ Edc)) by discriminate.
  rewrite (types_of_tagged _ _ (emit_code_tag _ _ _ _ _ _ Eco)) by discriminate.
  rewrite (types_of_tagged _ _ (emit_data_tag _ _ _ Eda)) by discriminate.
  rewrite (types_of_untagged _ Rn). cbn [app]. rewrite app_nil_r.
  unfold emit_types in Ety. fold (emitted_types m) in Ety. destruct (emitted_types m) as [|p r] eqn:Ee.
  - inversion Ety; subst. reflexivity.
  - inversion Ety; subst s_ty. cbn [flat_map types_of]. rewrite app_nil_r. cbn [length]. rewrite map_length. reflexivity.
Qed.

(* counts_kept follows from: the second parse sees at least as many functions, tables, ... as the first *)
Theorem counts_kept_of_n_in : forall cf ver w ilen s1 e1 s2 e2,
  two_trips cf ver w ilen s1 e1 s2 e2 ->
  (forall S, S <> S_type -> S <> S_local -> n_in s1 S <= n_in s2 S) -> counts_kept e1 s2.
Proof.
  intros cf ver w ilen s1 e1 s2 e2 (HP1 & HE1 & HP2 & HE2) H S.
  assert (G : S <> S_type -> S <> S_local -> length (space_map (em_x2i e1) S) <= length (ids_space (ps_ids s2) S)).
  { intros HT HL. pose proof (emitted_count _ _ _ _ _ _ _ HP1 HE1 S HT HL) as C. unfold emitted_ids in C. rewrite map_length in C.
    rewrite C. apply (H S HT HL). }
  destruct S; try (apply G; discriminate).
  - destruct (n_in_stream _ _ _ _ HP2) as (_ & _ & _ & Ht). unfold n_in in Ht. rewrite Ht.
    rewrite (emitted_types_count _ _ _ HE1). lia.
  - cbn [space_map length]. lia.
Qed.

(* ====================================================================================== *)
(* M2, kind by kind (corollaries of fix_names_fields)                                       *)
(* ====================================================================================== *)
Section PerKind.
  Variables (cf : config) (ver : str) (w : wmod) (ilen : wins -> N) (s1 : pst) (e1 : emitted) (s2 : pst) (e2 : emitted).
  Hypothesis TT : two_trips cf ver w ilen s1 e1 s2 e2.
  Hypothesis Hskip : cf_skip_name cf = false.
  Hypothesis HC : counts_kept e1 s2.
  Let n1 := stream_names (em_secs e1).
  Let n2 := stream_names (em_secs e2).

  Theorem fix_names_module : wn_module n2 = wn_module n1.
  Proof. destruct (fix_names_fields _ _ _ _ _ _ _ _ TT Hskip HC) as (? & ? & ? & ? & ? & ? & ? & ? & ? & ? & ? & ? & H & _). exact H. Qed.
  Theorem fix_names_funcs : cf_synthetic_names cf = false -> rho_id s2 e2 S_func -> wn_funcs n2 = wn_funcs n1.
  Proof. destruct (fix_names_fields _ _ _ _ _ _ _ _ TT Hskip HC) as (? & ? & ? & ? & ? & ? & ? & ? & ? & ? & ? & ? & _ & H & _). exact H. Qed.
  Theorem fix_names_tables : rho_id s2 e2 S_table -> wn_tables n2 = wn_tables n1.
  Proof. destruct (fix_names_fields _ _ _ _ _ _ _ _ TT Hskip HC) as (? & ? & ? & ? & ? & ? & ? & ? & ? & ? & ? & ? & _ & _ & H & _). exact H. Qed.
  Theorem fix_names_mems : rho_id s2 e2 S_memory -> wn_mems n2 = wn_mems n1.
  Proof. destruct (fix_names_fields _ _ _ _ _ _ _ _ TT Hskip HC) as (? & ? & ? & ? & ? & ? & ? & ? & ? & ? & ? & ? & _ & _ & _ & H & _). exact H. Qed.
  Theorem fix_names_globals : rho_id s2 e2 S_global -> wn_globals n2 = wn_globals n1.
  Proof. destruct (fix_names_fields _ _ _ _ _ _ _ _ TT Hskip HC) as (? & ? & ? & ? & ? & ? & ? & ? & ? & ? & ? & ? & _ & _ & _ & _ & H & _). exact H. Qed.
  Theorem fix_names_elems : rho_id s2 e2 S_elem -> wn_elems n2 = wn_elems n1.
  Proof. destruct (fix_names_fields _ _ _ _ _ _ _ _ TT Hskip HC) as (? & ? & ? & ? & ? & ? & ? & ? & ? & ? & ? & ? & _ & _ & _ & _ & _ & H & _). exact H. Qed.
  Theorem fix_names_data : rho_id s2 e2 S_data -> wn_data n2 = wn_data n1.
  Proof. destruct (fix_names_fields _ _ _ _ _ _ _ _ TT Hskip HC) as (? & ? & ? & ? & ? & ? & ? & ? & ? & ? & ? & ? & _ & _ & _ & _ & _ & _ & H). exact H. Qed.
End PerKind.

(* the same as fix_names_partial, with the size premise in terms of the index spaces of the two parses *)
Theorem fix_names_partial_n : forall cf ver w ilen s1 e1 s2 e2,
  two_trips cf ver w ilen s1 e1 s2 e2 -> cf_skip_name cf = false -> cf_synthetic_names cf = false ->
  (forall S, S <> S_type -> S <> S_local -> n_in s1 S <= n_in s2 S) ->
  rho_id s2 e2 S_func -> rho_id s2 e2 S_type -> rho_id s2 e2 S_table -> rho_id s2 e2 S_memory -> rho_id s2 e2 S_global ->
  rho_id s2 e2 S_elem -> rho_id s2 e2 S_data ->
  wn_locals (stream_names (em_secs e2)) = wn_locals (stream_names (em_secs e1)) ->
  name_payload (em_secs e2) = name_payload (em_secs e1).
Proof.
  intros cf ver w ilen s1 e1 s2 e2 TT Hskip Hsyn Hn. apply (fix_names_partial cf ver w ilen s1 e1 s2 e2); try assumption.
  eapply counts_kept_of_n_in; eauto.
Qed.

(* ====================================================================================== *)
(* towards M3 (local names): the emit side in equational form, and its outer order          *)
(* ====================================================================================== *)
Definition loc_entry (m : wir) (x : x2i) (efs : list emitted_fn) (p : N * mfunc) : list (N * namemap) :=
  match find (fun e => N.eqb (ef_id e) (fst p)) efs with
  | None => []
  | Some e => match fn_local_names m e with
              | [] => []
              | nm => match get_idx x S_func (fst p) with Ok fi => [(fi, sort_nm nm)] | _ => [] end
              end
  end.

Theorem emit_names_locals_eq m x efs secs : emit_names m x efs = Ok secs ->
  wn_locals (names_of secs) = sort_nm (flat_map (loc_entry m x efs) (aiter (m_funcs m))).
Proof.
  intros H. unfold emit_names in H. rinv H as funcs E1. rinv H as locals E2.
  assert (EL : wn_locals (names_of secs) = sort_nm (concat locals)).
  { rinv H as types E3. rinv H as tables E4. rinv H as mems E5. rinv H as globals E6. rinv H as elems E7. rinv H as data E8.
    destruct (m_name m); [inversion H; subst; reflexivity|].
    destruct funcs; [|inversion H; subst; reflexivity].
    destruct (sort_nm (concat locals)) eqn:Es; [|inversion H; subst; cbn; reflexivity].
    destruct types; [|inversion H; subst; cbn; reflexivity].
    destruct tables; [|inversion H; subst; cbn; reflexivity].
    destruct mems; [|inversion H; subst; cbn; reflexivity].
    destruct globals; [|inversion H; subst; cbn; reflexivity].
    destruct elems; [|inversion H; subst; cbn; reflexivity].
    destruct data; inversion H; subst; cbn; reflexivity. }
  clear H. rewrite EL. f_equal. apply rmapM_ok_inv in E2. fold (fn_local_names m) in E2. clear E1 EL.
  induction E2 as [|p b l bs Hp HF IH]; [reflexivity|]. cbn [concat flat_map]. rewrite IH. f_equal.
  unfold loc_entry. destruct (find (fun e => N.eqb (ef_id e) (fst p)) efs) as [e|]; [|inversion Hp; reflexivity].
  fold (fn_local_names m e) in Hp. destruct (fn_local_names m e) as [|p0 rest]; [inversion Hp; reflexivity|].
  rinv Hp as fi Efi. inversion Hp; subst b. rewrite Efi. reflexivity.
Qed.

Lemma loc_entry_key m x efs l fi :
  In fi (map fst (flat_map (loc_entry m x efs) l)) -> exists p, In p l /\ get_idx x S_func (fst p) = Ok fi.
Proof.
  intros H. apply in_map_iff in H. destruct H as [[fi' nm] [E H]]. cbn [fst] in E. subst fi'.
  apply in_flat_map in H. destruct H as [p [Hp H]]. exists p. split; [exact Hp|].
  unfold loc_entry in H. destruct (find _ efs) as [e|]; [|destruct H]. destruct (fn_local_names m e); [destruct H|].
  destruct (get_idx x S_func (fst p)) as [j| |]; try destruct H; [|destruct H]. inversion H; subst. reflexivity.
Qed.

Theorem emit_names_locals_sorted m x efs secs : emit_names m x efs = Ok secs -> wf_map (space_map x S_func) ->
  StronglySorted N.lt (map fst (wn_locals (names_of secs))).
Proof.
  intros H W. rewrite (emit_names_locals_eq _ _ _ _ H). apply le_sorted_NoDup_lt; [apply sort_nm_sorted|].
  eapply Permutation_NoDup; [apply Permutation_sym, Permutation_map, sort_nm_perm|].
  pose proof (aiter_NoDup (m_funcs m)) as ND. induction (aiter (m_funcs m)) as [|p l IH]; [constructor|].
  cbn [map fst] in ND. inversion ND as [|? ? Hn ND']; subst. cbn [flat_map]. rewrite map_app.
  specialize (IH ND').
  assert (K : forall fi, In fi (map fst (loc_entry m x efs p)) -> get_idx x S_func (fst p) = Ok fi).
  { intros fi Hfi. destruct (loc_entry_key m x efs [p] fi) as [p' [[<-|[]] Hg]]; [cbn [flat_map]; rewrite app_nil_r; exact Hfi|exact Hg]. }
  assert (ND1 : NoDup (map fst (loc_entry m x efs p))).
  { unfold loc_entry. destruct (find _ efs) as [e|]; [|constructor]. destruct (fn_local_names m e); [constructor|].
    destruct (get_idx x S_func (fst p)); cbn [map]; repeat constructor. intros []. }
  clear - IH K ND1 Hn W.
  induction (map fst (loc_entry m x efs p)) as [|a r IHr]; [exact IH|]. cbn [app]. inversion ND1; subst. constructor.
  - rewrite in_app_iff. intros [Hin|Hin]; [contradiction|].
    destruct (loc_entry_key _ _ _ _ _ Hin) as [p' [Hp' Hg']]. pose proof (K a (or_introl eq_refl)) as Hg.
    unfold get_idx in Hg, Hg'. pose proof (lookup_inj _ _ _ _ W Hg Hg') as E. apply Hn. rewrite E. apply in_map. exact Hp'.
  - apply IHr; [|assumption]. intros fi Hfi. apply K. right. exact Hfi.
Qed.

(* the outer order of the local-name map of an emitted stream (parsed module) *)
Theorem emitted_locals_sorted : forall cf ver w s ilen e,
  parseM cf ver w = POk s -> emitM (ps_m s) ilen [] = Ok e -> cf_skip_name cf = false ->
  StronglySorted N.lt (map fst (wn_locals (stream_names (em_secs e)))).
Proof.
  intros cf ver w s ilen e HP HE Hskip.
  destruct (emitted_names_canonical_s _ _ _ _ _ _ HP HE Hskip) as (s_nm & En & Hpay & _ & Hs & _).
  rewrite (stream_names_of _ _ Hpay Hs). apply (emit_names_locals_sorted _ _ _ _ En).
  apply (parsed_wf_funcs _ _ _ _ _ _ _ HP HE).
Qed.

(* the most general form: functions and locals as premises, no premise on synthetic names *)
Theorem fix_names_partial_gen : forall cf ver w ilen s1 e1 s2 e2,
  two_trips cf ver w ilen s1 e1 s2 e2 -> cf_skip_name cf = false -> counts_kept e1 s2 ->
  rho_id s2 e2 S_type -> rho_id s2 e2 S_table -> rho_id s2 e2 S_memory -> rho_id s2 e2 S_global ->
  rho_id s2 e2 S_elem -> rho_id s2 e2 S_data ->
  wn_funcs (stream_names (em_secs e2)) = wn_funcs (stream_names (em_secs e1)) ->
  wn_locals (stream_names (em_secs e2)) = wn_locals (stream_names (em_secs e1)) ->
  name_payload (em_secs e2) = name_payload (em_secs e1).
Proof.
  intros cf ver w ilen s1 e1 s2 e2 TT Hskip HC Hty Ht Hm Hg He Hd Hfun Hloc.
  pose proof (fix_names_types _ _ _ _ _ _ _ _ TT Hskip HC Hty) as Ety.
  destruct (fix_names_fields _ _ _ _ _ _ _ _ TT Hskip HC) as (s_nm1 & s_nm2 & En1 & En2 & Hp1 & Hp2 & Hs1 & Hs2 & N1 & N2 & Hsec1 & C1 & Em & Ef & Et & Eme & Eg & Ee & Ed).
  cbv zeta in *.
  assert (E : stream_names (em_secs e2) = stream_names (em_secs e1)).
  { apply wnames_eq; auto. }
  rewrite Hp1, Hp2. f_equal. apply (emit_names_same _ _ _ _ _ _ _ _ En2 En1). rewrite <- N1, <- N2. exact E.
Qed.

(* ====================================================================================== *)
(* M3. local names                                                                          *)
(* ====================================================================================== *)
Lemma sorted_extA {A} (l l' : list (N * A)) : StronglySorted N.lt (map fst l) -> StronglySorted N.lt (map fst l') ->
  (forall p, In p l <-> In p l') -> l = l'.
Proof.
  revert l'. induction l as [|a l IH]; intros [|b l'] S S' H.
  - reflexivity.
  - exfalso. apply (proj2 (H b)). left; reflexivity.
  - exfalso. apply (proj1 (H a)). left; reflexivity.
  - cbn [map] in S, S'. inversion S as [|? ? Sl Fl]; subst. inversion S' as [|? ? Sl' Fl']; subst.
    rewrite Forall_forall in Fl, Fl'.
    assert (Eab : a = b).
    { destruct (proj1 (H a) (or_introl eq_refl)) as [E|Ha]; [congruence|].
      destruct (proj2 (H b) (or_introl eq_refl)) as [E|Hb]; [congruence|].
      pose proof (Fl' _ (in_map fst _ _ Ha)). pose proof (Fl _ (in_map fst _ _ Hb)). lia. }
    subst b. f_equal. apply IH; [exact Sl|exact Sl'|]. intros p. split; intros Hp.
    + destruct (proj1 (H p) (or_intror Hp)) as [E|Hq]; [|exact Hq]. subst p.
      pose proof (Fl _ (in_map fst _ _ Hp)). lia.
    + destruct (proj2 (H p) (or_intror Hp)) as [E|Hq]; [|exact Hq]. subst p.
      pose proof (Fl' _ (in_map fst _ _ Hp)). lia.
Qed.

Lemma last_name_in : forall l k n, last_name l k = Some n -> In (k, n) l.
Proof.
  induction l as [|[i m] r IH]; intros k n H; cbn [last_name] in H; [discriminate|].
  destruct (last_name r k) as [y|] eqn:E.
  - inversion H; subst y. right. apply IH. exact E.
  - destruct (N.eqb_spec i k) as [->|]; [|discriminate]. inversion H; subst. left; reflexivity.
Qed.
Lemma last_name_unique l k n : In (k, n) l -> (forall n', In (k, n') l -> n' = n) -> last_name l k = Some n.
Proof.
  intros Hin U. destruct (last_name l k) as [n'|] eqn:E.
  - apply last_name_in in E. rewrite (U _ E). reflexivity.
  - apply last_name_none in E. exfalso. apply E. apply (in_map fst _ _ Hin).
Qed.
Lemma sorted_keys_fun {A} (l : list (N * A)) k a b : StronglySorted N.lt (map fst l) -> In (k, a) l -> In (k, b) l -> a = b.
Proof.
  intros S. apply lt_sorted_NoDup in S. induction l as [|[i v] r IH]; intros Ha Hb; [destruct Ha|].
  cbn [map fst] in S. inversion S; subst. destruct Ha as [Ea|Ha], Hb as [Eb|Hb].
  - congruence.
  - inversion Ea; subst. exfalso. apply H1. apply (in_map fst _ _ Hb).
  - inversion Eb; subst. exfalso. apply H1. apply (in_map fst _ _ Ha).
  - apply IH; assumption.
Qed.
Lemma sort_nm_nil {A} (l : list (N * A)) : sort_nm l = [] -> l = [].
Proof. intros H. pose proof (sort_nm_perm _ l) as P. rewrite H in P. apply Permutation_nil in P. exact P. Qed.

Lemma NoDup_flat_map_keys {A B} (g : A -> list (N * B)) : forall l, NoDup l ->
  (forall a, NoDup (map fst (g a))) ->
  (forall a b k, In a l -> In b l -> In k (map fst (g a)) -> In k (map fst (g b)) -> a = b) ->
  NoDup (map fst (flat_map g l)).
Proof.
  induction l as [|a l IH]; intros ND G Inj; [constructor|]. inversion ND; subst. cbn [flat_map]. rewrite map_app.
  assert (IH' : NoDup (map fst (flat_map g l))).
  { apply IH; [assumption|exact G|]. intros x y k Hx Hy. apply Inj; right; assumption. }
  assert (Dis : forall k, In k (map fst (g a)) -> ~ In k (map fst (flat_map g l))).
  { intros k Hk Hin. apply in_map_iff in Hin. destruct Hin as [[k' v] [E Hin]]. cbn [fst] in E. subst k'.
    apply in_flat_map in Hin. destruct Hin as [b [Hb Hin]].
    assert (a = b) by (apply (Inj a b k); [left; reflexivity|right; exact Hb|exact Hk|apply (in_map fst _ _ Hin)]).
    subst b. contradiction. }
  specialize (G a). induction (map fst (g a)) as [|k r IHr]; [exact IH'|]. cbn [app]. inversion G; subst. constructor.
  - rewrite in_app_iff. intros [Hin|Hin]; [contradiction|]. apply (Dis k); [left; reflexivity|exact Hin].
  - apply IHr; try assumption. intros k' Hk'. apply Dis. right. exact Hk'.
Qed.

(* what the second round trip must satisfy on the side of function emission and of the parse-time local vectors:
   the local vectors of different functions are disjoint and duplicate free and consist of allocated locals;
   a function that has locals is a local function that is emitted; the emitted function uses exactly its
   locals, each once, and maps the local at position p of the parse-time vector to slot p *)
Definition locals_identity (s2 : pst) (e2 : emitted) : Prop :=
  let ids := ps_ids s2 in let m := ps_m s2 in
  (forall fid fid' lid, In lid (locals_vec ids fid) -> In lid (locals_vec ids fid') -> fid = fid') /\
  (forall fid, NoDup (locals_vec ids fid)) /\
  (forall fid lid, In lid (locals_vec ids fid) -> exists lo, aget (m_locals m) lid = Some lo) /\
  (forall fid, locals_vec ids fid <> [] ->
     exists f ef, In (fid, f) (aiter (m_funcs m)) /\ find (fun ef => N.eqb (ef_id ef) fid) (em_fns e2) = Some ef) /\
  (forall fid ef, find (fun ef => N.eqb (ef_id ef) fid) (em_fns e2) = Some ef ->
     NoDup (ef_used ef) /\ (forall lid, In lid (ef_used ef) <-> In lid (locals_vec ids fid)) /\
     (forall p lid, nth_error (locals_vec ids fid) p = Some lid ->
        exists q, find (fun q => N.eqb (fst q) lid) (ef_lmap ef) = Some q /\ snd q = N.of_nat p)).

(* what the first emit must satisfy: per function the slots are pairwise distinct (strictly sorted),
   and every slot is a local of that function in the second parse *)
Definition locals_canon (s2 : pst) (n1 : wnames) : Prop :=
  forall fi names, In (fi, names) (wn_locals n1) ->
    StronglySorted N.lt (map fst names) /\
    forall p, In p (map fst names) -> N.to_nat p < length (locals_vec (ps_ids s2) fi).

Lemma loc_entries_in ids (L1 : list (N * namemap)) lid n :
  In (lid, n) (loc_entries false ids L1) <->
  exists fi names fid p, In (fi, names) L1 /\ nth_N (ii_funcs ids) fi = Some fid /\ In (p, n) names /\
                         nth_N (locals_vec ids fid) p = Some lid.
Proof.
  unfold loc_entries. rewrite in_flat_map. split.
  - intros [[fi names] [H1 H]]. unfold fn_entries in H. cbn [fst snd] in H.
    destruct (nth_N (ii_funcs ids) fi) as [fid|] eqn:Ef; [|destruct H].
    unfold resolve in H. apply in_flat_map in H. destruct H as [[p n'] [Hp H]]. cbn [fst snd] in H.
    apply filter_In in Hp. destruct Hp as [Hp _].
    destruct (nth_N (locals_vec ids fid) p) as [lid'|] eqn:El; [|destruct H]. destruct H as [H|[]]. inversion H; subst.
    exists fi, names, fid, p. auto.
  - intros (fi & names & fid & p & H1 & Ef & Hp & El). exists (fi, names). split; [exact H1|].
    unfold fn_entries. cbn [fst snd]. rewrite Ef. unfold resolve. apply in_flat_map. exists (p, n). split.
    + apply filter_In. split; [exact Hp|reflexivity].
    + cbn [fst snd]. rewrite El. left; reflexivity.
Qed.

Lemma emitted_locals_nonempty m x efs secs fi names : emit_names m x efs = Ok secs ->
  In (fi, names) (wn_locals (names_of secs)) -> names <> [].
Proof.
  intros H Hin. rewrite (emit_names_locals_eq _ _ _ _ H) in Hin.
  eapply Permutation_in in Hin; [|apply sort_nm_perm]. apply in_flat_map in Hin. destruct Hin as [p [_ Hin]].
  unfold loc_entry in Hin. destruct (find _ efs) as [e|]; [|destruct Hin].
  destruct (fn_local_names m e) as [|p0 rest] eqn:En; [destruct Hin|].
  destruct (get_idx x S_func (fst p)); try destruct Hin; [|destruct H0]. inversion H0; subst.
  intros C. apply sort_nm_nil in C. discriminate.
Qed.

Lemma local_name_key ids nf (L1 : list (N * namemap)) fi p lid n :
  ii_funcs ids = iota nf -> N.to_nat fi < nf ->
  (forall fid fid' lid, In lid (locals_vec ids fid) -> In lid (locals_vec ids fid') -> fid = fid') ->
  (forall fid, NoDup (locals_vec ids fid)) ->
  StronglySorted N.lt (map fst L1) ->
  (forall fi names, In (fi, names) L1 -> StronglySorted N.lt (map fst names)) ->
  nth_error (locals_vec ids fi) p = Some lid ->
  (last_name (loc_entries false ids L1) lid = Some n <-> exists names, In (fi, names) L1 /\ In (N.of_nat p, n) names).
Proof.
  intros Hi Hfi Dis ND S1 Sin Hp.
  assert (Aux : forall n', In (lid, n') (loc_entries false ids L1) ->
                  exists names, In (fi, names) L1 /\ In (N.of_nat p, n') names).
  { intros n' H. apply loc_entries_in in H. destruct H as (fi' & names' & fid' & p' & H1 & Ef & Hp' & El).
    rewrite Hi in Ef. apply Structure.nth_N_iota in Ef. subst fid'. unfold nth_N in El.
    assert (fi = fi') by (apply (Dis fi fi' lid); [eapply nth_error_In; exact Hp|eapply nth_error_In; exact El]). subst fi'.
    assert (p = N.to_nat p').
    { apply (proj1 (NoDup_nth_error (locals_vec ids fi)) (ND fi)); [apply nth_error_Some; congruence|congruence]. }
    subst p. rewrite N2Nat.id. exists names'. auto. }
  split.
  - intros H. apply Aux. apply last_name_in. exact H.
  - intros (names & H1 & Hin). apply last_name_unique.
    + apply loc_entries_in. exists fi, names, fi, (N.of_nat p). split; [exact H1|]. split; [|split; [exact Hin|]].
      * rewrite Hi. unfold nth_N. rewrite (iota_nth _ _ Hfi), N2Nat.id. reflexivity.
      * unfold nth_N. rewrite Nat2N.id. exact Hp.
    + intros n' H. destruct (Aux n' H) as (names' & H1' & Hin').
      assert (names' = names) by (apply (sorted_keys_fun L1 fi); assumption). subst names'.
      apply (sorted_keys_fun names (N.of_nat p)); [apply (Sin fi); exact H1|exact Hin'|exact Hin].
Qed.

Theorem fix_names_locals : forall cf ver w ilen s1 e1 s2 e2,
  two_trips cf ver w ilen s1 e1 s2 e2 -> cf_skip_name cf = false -> cf_synthetic_names cf = false ->
  rho_id s2 e2 S_func -> locals_identity s2 e2 -> locals_canon s2 (stream_names (em_secs e1)) ->
  wn_locals (stream_names (em_secs e2)) = wn_locals (stream_names (em_secs e1)).
Proof.
  intros cf ver w ilen s1 e1 s2 e2 (HP1 & HE1 & HP2 & HE2) Hskip Hsyn Hf LI LC.
  destruct (emitted_names_canonical_s _ _ _ _ _ _ HP1 HE1 Hskip) as (s_nm1 & En1 & Hpay1 & Hsec1 & Hs1 & _).
  destruct (names_roundtrip_s _ _ _ _ _ _ HP2 HE2 Hskip) as (s_nm2 & En2 & Hpay2 & _ & Hs2 & _).
  rewrite (stream_names_of _ _ Hpay1 Hs1) in *. rewrite (stream_names_of _ _ Hpay2 Hs2).
  set (L1 := wn_locals (names_of s_nm1)) in *. set (m2 := ps_m s2) in *. set (ids := ps_ids s2) in *.
  pose proof (emit_names_locals_sorted _ _ _ _ En1 (parsed_wf_funcs _ _ _ _ _ _ _ HP1 HE1)) as S1. fold L1 in S1.
  pose proof (emit_names_locals_sorted _ _ _ _ En2 (parsed_wf_funcs _ _ _ _ _ _ _ HP2 HE2)) as S2.
  destruct (local_names_emit_partial _ _ _ _ En2) as [A2 B2]. fold m2 in A2, B2.
  destruct LI as (Dis & NDv & Alloc & FE & EM). cbv zeta in Dis, NDv, Alloc, FE, EM. fold ids in Dis, NDv, Alloc, FE, EM. fold m2 in Alloc, FE.
  unfold locals_canon in LC. fold L1 in LC. fold ids in LC.
  pose proof (parseM_ids _ _ _ _ HP2) as I. unfold ids_consistent in I. fold m2 in I. fold ids in I.
  destruct I as (If & _ & _ & _ & _ & _ & Df & _). set (nf := length (items (m_funcs m2))) in *.
  assert (Sin : forall fi names, In (fi, names) L1 -> StronglySorted N.lt (map fst names)).
  { intros fi names H. apply (LC fi names H). }
  assert (NE : forall fi names, In (fi, names) L1 -> names <> []).
  { intros fi names H. apply (emitted_locals_nonempty _ _ _ _ fi names En1). exact H. }
  (* the name of a local of the second parse *)
  assert (PL : forall lid lo, aget (m_locals m2) lid = Some lo -> lo_name lo = last_name (loc_entries false ids L1) lid).
  { intros lid lo Hg. destruct (parseM_local_names _ _ _ _ _ _ HP2 Hg) as [_ K]. rewrite (K Hsyn).
    unfold local_entries. rewrite Hsec1, Hsyn.
    rewrite (sections_of _ Hs1 (fun n => loc_entries false (ps_ids s2) (wn_locals n)) eq_refl). reflexivity. }
  assert (Lt : forall fid f, In (fid, f) (aiter (m_funcs m2)) -> N.to_nat fid < nf).
  { intros fid f H. apply (aiter_nodead _ _ _ Df) in H. apply nth_error_Some. congruence. }
  (* one emitted function *)
  assert (SI : forall fid ef, find (fun ef => N.eqb (ef_id ef) fid) (em_fns e2) = Some ef -> N.to_nat fid < nf ->
                forall slot n, In (slot, n) (sort_nm (fn_local_names m2 ef)) <-> exists names, In (fid, names) L1 /\ In (slot, n) names).
  { intros fid ef Hfind Hlt slot n. rewrite B2. destruct (EM fid ef Hfind) as (NDu & Uiff & Lm). split.
    - intros (lid & lo & q & Hu & Hg & Hn & Hq & <-). apply Uiff in Hu. apply In_nth_error in Hu. destruct Hu as [p Hp].
      destruct (Lm p lid Hp) as (q' & Hq' & Hs'). assert (q' = q) by congruence. subst q'. rewrite Hs'.
      rewrite (PL _ _ Hg) in Hn. apply (local_name_key ids nf L1 fid p lid n If Hlt Dis NDv S1 Sin Hp). exact Hn.
    - intros (names & H1 & Hin). destruct (LC fid names H1) as (Sn & Rn).
      pose proof (Rn slot (in_map fst _ _ Hin)) as Hr. cbn [fst] in Hr.
      destruct (nth_error (locals_vec ids fid) (N.to_nat slot)) as [lid|] eqn:Hp; [|apply nth_error_None in Hp; lia].
      assert (Hv : In lid (locals_vec ids fid)) by (eapply nth_error_In; exact Hp).
      destruct (Alloc fid lid Hv) as [lo Hg]. destruct (Lm _ _ Hp) as (q & Hq & Hs'). rewrite N2Nat.id in Hs'.
      exists lid, lo, q. split; [apply Uiff; exact Hv|]. split; [exact Hg|]. split; [|split; [exact Hq|exact Hs']].
      rewrite (PL _ _ Hg). apply (local_name_key ids nf L1 fid (N.to_nat slot) lid n If Hlt Dis NDv S1 Sin Hp).
      exists names. rewrite N2Nat.id. auto. }
  assert (SS : forall fid ef, find (fun ef => N.eqb (ef_id ef) fid) (em_fns e2) = Some ef ->
                StronglySorted N.lt (map fst (sort_nm (fn_local_names m2 ef)))).
  { intros fid ef Hfind. destruct (EM fid ef Hfind) as (NDu & Uiff & Lm).
    apply le_sorted_NoDup_lt; [apply sort_nm_sorted|].
    eapply Permutation_NoDup; [apply Permutation_sym, Permutation_map, sort_nm_perm|].
    unfold fn_local_names.
    assert (Key : forall lid k, In lid (ef_used ef) ->
              In k (map fst (match aget (m_locals m2) lid with
                             | Some lo => match lo_name lo, find (fun q => N.eqb (fst q) lid) (ef_lmap ef) with
                                          | Some n, Some q => [(snd q, n)] | _, _ => [] end
                             | None => [] end)) ->
              exists p, nth_error (locals_vec ids fid) p = Some lid /\ k = N.of_nat p).
    { intros lid k Hu Hk. apply Uiff in Hu. apply In_nth_error in Hu. destruct Hu as [p Hp]. exists p. split; [exact Hp|].
      destruct (Lm p lid Hp) as (q & Hq & Hs'). rewrite Hq in Hk.
      destruct (aget (m_locals m2) lid) as [lo|]; [|destruct Hk]. destruct (lo_name lo); [|destruct Hk].
      destruct Hk as [<-|[]]. exact Hs'. }
    apply NoDup_flat_map_keys; [exact NDu| |].
    - intros lid. destruct (aget (m_locals m2) lid) as [lo|]; [|constructor]. destruct (lo_name lo); [|constructor].
      destruct (find _ (ef_lmap ef)); cbn [map]; repeat constructor. intros [].
    - intros a b k Ha Hb Hka Hkb. destruct (Key a k Ha Hka) as (pa & Hpa & Ea). destruct (Key b k Hb Hkb) as (pb & Hpb & Eb).
      assert (pa = pb) by lia. subst pb. congruence. }
  assert (IE : forall fid ef names, find (fun ef => N.eqb (ef_id ef) fid) (em_fns e2) = Some ef -> N.to_nat fid < nf ->
                In (fid, names) L1 -> sort_nm (fn_local_names m2 ef) = names).
  { intros fid ef names Hfind Hlt H1. apply sorted_extA; [apply (SS fid ef Hfind)|apply (Sin fid names H1)|].
    intros [slot n]. rewrite (SI fid ef Hfind Hlt). split.
    - intros (names' & H1' & Hin). assert (names' = names) by (apply (sorted_keys_fun L1 fid); assumption). subst. exact Hin.
    - intros Hin. exists names. auto. }
  apply sorted_extA; [exact S2|exact S1|]. intros [i nm]. rewrite A2. split.
  - intros (fid & f & ef & Ha & Hfind & Hne & Hg & ->). pose proof (Lt _ _ Ha) as Hlt.
    assert (Hid : get_idx (em_x2i e2) S_func fid = Ok fid).
    { apply (rho_id_get _ _ _ _ _ S_func HP2); [discriminate|discriminate|exact Hf|]. cbn [ids_space]. fold ids. rewrite If, iota_length. exact Hlt. }
    assert (i = fid) by congruence. subst i.
    destruct (sort_nm (fn_local_names m2 ef)) as [|[slot n] rest] eqn:Es; [apply sort_nm_nil in Es; contradiction|].
    destruct (proj1 (SI fid ef Hfind Hlt slot n)) as (names & H1 & _); [rewrite Es; left; reflexivity|].
    rewrite <- Es. rewrite (IE fid ef names Hfind Hlt H1). exact H1.
  - intros H1. destruct (LC i nm H1) as (Sn & Rn). pose proof (NE i nm H1) as Hne.
    destruct nm as [|[p0 n0] rest] eqn:Enm; [contradiction|]. rewrite <- Enm in *.
    assert (Hin0 : In (p0, n0) nm) by (rewrite Enm; left; reflexivity).
    pose proof (Rn p0 (in_map fst _ _ Hin0)) as Hr. cbn [fst] in Hr.
    assert (Hv : locals_vec ids i <> []) by (intros C; rewrite C in Hr; cbn in Hr; lia).
    destruct (FE i Hv) as (f & ef & Ha & Hfind). pose proof (Lt _ _ Ha) as Hlt.
    exists i, f, ef. split; [exact Ha|]. split; [exact Hfind|].
    pose proof (IE i ef nm Hfind Hlt H1) as Heq.
    split; [|split; [|symmetry; exact Heq]].
    + intros C. rewrite C in Heq. cbn in Heq. rewrite <- Heq in Hin0. destruct Hin0.
    + apply (rho_id_get _ _ _ _ _ S_func HP2); [discriminate|discriminate|exact Hf|]. cbn [ids_space]. fold ids. rewrite If, iota_length. exact Hlt.
Qed.

(* M4 *)
Theorem fix_names : forall cf ver w ilen s1 e1 s2 e2,
  two_trips cf ver w ilen s1 e1 s2 e2 -> cf_skip_name cf = false -> cf_synthetic_names cf = false -> counts_kept e1 s2 ->
  rho_id s2 e2 S_func -> rho_id s2 e2 S_type -> rho_id s2 e2 S_table -> rho_id s2 e2 S_memory -> rho_id s2 e2 S_global ->
  rho_id s2 e2 S_elem -> rho_id s2 e2 S_data ->
  locals_identity s2 e2 -> locals_canon s2 (stream_names (em_secs e1)) ->
  name_payload (em_secs e2) = name_payload (em_secs e1).
Proof.
  intros cf ver w ilen s1 e1 s2 e2 TT Hskip Hsyn HC Hf Hty Ht Hm Hg He Hd LI LC.
  apply (fix_names_partial cf ver w ilen s1 e1 s2 e2); try assumption.
  apply (fix_names_locals cf ver w ilen s1 e1 s2 e2); assumption.
Qed.

(* M4 with the size premise in terms of the index spaces of the two parses *)
Theorem fix_names_n : forall cf ver w ilen s1 e1 s2 e2,
  two_trips cf ver w ilen s1 e1 s2 e2 -> cf_skip_name cf = false -> cf_synthetic_names cf = false ->
  (forall S, S <> S_type -> S <> S_local -> n_in s1 S <= n_in s2 S) ->
  rho_id s2 e2 S_func -> rho_id s2 e2 S_type -> rho_id s2 e2 S_table -> rho_id s2 e2 S_memory -> rho_id s2 e2 S_global ->
  rho_id s2 e2 S_elem -> rho_id s2 e2 S_data ->
  locals_identity s2 e2 -> locals_canon s2 (stream_names (em_secs e1)) ->
  name_payload (em_secs e2) = name_payload (em_secs e1).
Proof.
  intros cf ver w ilen s1 e1 s2 e2 TT Hskip Hsyn Hn. apply (fix_names cf ver w ilen s1 e1 s2 e2); try assumption.
  eapply counts_kept_of_n_in; eauto.
Qed.

Print Assumptions emitM_name_payload.
Print Assumptions names_roundtrip_s.
Print Assumptions emitted_names_canonical.
Print Assumptions fix_names_fields.
Print Assumptions fix_names_types.
Print Assumptions fix_names_module.
Print Assumptions fix_names_funcs.
Print Assumptions fix_names_tables.
Print Assumptions fix_names_mems.
Print Assumptions fix_names_globals.
Print Assumptions fix_names_elems.
Print Assumptions fix_names_data.
Print Assumptions counts_kept_of_n_in.
Print Assumptions fix_names_partial.
Print Assumptions fix_names_partial_n.
Print Assumptions emit_names_locals_eq.
Print Assumptions emit_names_locals_sorted.
Print Assumptions emitted_locals_sorted.
Print Assumptions fix_names_partial_gen.
Print Assumptions fix_names_locals.
Print Assumptions fix_names.
Print Assumptions fix_names_n.
